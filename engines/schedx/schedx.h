// SCHEDX -- preemption-bounded exhaustive exploration of real threads under a cooperative scheduler.
//
// The scheduler serialises the harness's real OS threads: exactly one thread runs between two *points*.  Points are
// the hooked synchronisation operations of muscle (support/MuscleVerifHooks.h: Mutex lock/trylock, WaitCondition
// wait/notify, watched AtomicCounter operations, Thread spawn/begin/end/join, signalling-socket send/wait) plus
// explicit schedx::Yield() calls in the harness.  Blocking is MODELLED: a thread whose next operation cannot proceed
// (mutex held by another thread, wait with nothing pending, socket not readable, join of a live thread) is disabled;
// "no enabled thread while some thread is unfinished" is a DEADLOCK (this is the lost-wake-up oracle).  A timed wait
// that would block offers one extra alternative "the timeout fires now" (cost 1, unless nothing else is enabled).
//
// One execution = one forked child process that replays a list of choices and then follows the default policy
// (keep running the current thread, else lowest id); it reports, for every choice point, how many alternatives
// there were and what each would cost (1 = preemption of a still-enabled thread, +1 = firing a timeout).  The
// single-threaded parent enumerates all choice lists whose total cost is <= bound (iterative context bounding),
// running up to `workers` children at a time.
#ifndef VERIF_SCHEDX_H
#define VERIF_SCHEDX_H

#include "engines/common/verif.h"
#include <functional>

namespace schedx {

// ---------------------------------------------------------------- API for harness bodies (valid inside an execution or a free run)
int  Spawn(const std::function<void()> & body);       // starts a harness thread, returns its scheduler id
void Join(int tid);                                   // blocks (in the model) until that thread has finished
void Yield(const char * tag = "");                    // explicit scheduling point
void Idle(const char * tag = "");                     // the caller is "busy elsewhere for a long time": it is not scheduled again until every other thread is blocked or finished (costs no preemption)
void WatchAtomic(const volatile void * addr);         // make atomic ops on this counter scheduling points (default: atomics are not points)
void WatchAllAtomics(bool on);
void IgnoreMutex(const void * mutex);                 // operations on this mutex are not points (e.g. a harness-private log lock)
int  Self();                                          // scheduler id of the calling thread (0 = main body)
unsigned long Step();                                 // global count of points executed so far (a logical clock)
void Fail(const std::string & key, const std::string & msg);   // record a property violation for this execution
void Observe(const std::string & s);                  // append to this execution's observable outcome (compared across executions)
void Note(const std::string & s);                     // free-text observation (not a violation)
// deadline discipline (C18): 0 = ordinary call, 1 = try call (must never reach a wait point), 2 = finite-deadline call (must never reach an UNTIMED wait point)
void SetCallKind(int kind);
unsigned TimeoutsFired();                              // number of timeouts the scheduler has fired for the calling thread so far
bool UnderScheduler();                                // false in a free run (TSan pass)
unsigned long long FarFuture();                       // a finite deadline that real time never reaches (GetRunTime64() + 10 h)

// ---------------------------------------------------------------- exploration (parent side)
struct Options {
   int bound;                 // max total cost (preemptions + fired timeouts)
   bool yieldOnUnlock;        // also make Mutex::Unlock a point
   double execTimeoutS;       // real-time watchdog per execution (infrastructure guard; a firing is re-run alone before it is believed)
   unsigned long maxExecutions;  // cap (0 = none); hitting it => exhaustive=false
   unsigned maxPoints;        // per execution: more points than this => livelock report
   Options() : bound(2), yieldOnUnlock(false), execTimeoutS(20), maxExecutions(0), maxPoints(20000) {}
};

struct Outcome {              // what one execution reported
   std::string status;        // OK | DEADLOCK | VIOLATION | LIVELOCK | CRASH | HANG
   std::string key, msg, observation, notes;
   std::vector<unsigned char> nalt;                 // per choice point: number of alternatives
   std::vector<std::vector<unsigned char> > cost;   // per choice point: cost of each alternative
   std::vector<unsigned char> taken;                // choice taken at each choice point
   unsigned long points;
};

// The explorer uses a pool of single-threaded worker processes, each of which forks its own execution children (so the
// sanitizer-sized forks run in parallel).  A body is rebuilt inside the worker from its configuration string.
typedef std::function<std::function<void()>(const std::string & config)> BodyFactory;
void StartPool(const BodyFactory & factory, const Options & opt, int workers);   // call once, from a single-threaded parent
void StopPool();
// Runs every execution of factory(configArgs) with total cost <= opt.bound; appends a Part to res and violations (with replay files).
void Explore(const std::string & partName, const std::string & configArgs, const Options & opt, const verif::Args & args, verif::Result & res, double absDeadline);

// Runs ONE execution with the given choice list in a forked child and returns what it reported (used by --replay).
Outcome RunOne(const std::function<void()> & body, const std::vector<unsigned char> & choices, const Options & opt);

// Free run (no scheduler, real concurrency) of the same body, `iterations` times, in this process -- the TSan pass.
void FreeRun(const std::function<void()> & body, int iterations);

void FreeRunPart(const std::string & partName, const BodyFactory & factory, const std::vector<std::string> & configs, int iterations, const verif::Args & args, verif::Result & res);

std::string ChoicesToString(const std::vector<unsigned char> & c);
std::vector<unsigned char> ChoicesFromString(const std::string & s);

}  // namespace schedx

#endif
