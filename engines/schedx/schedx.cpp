// SCHEDX implementation: cooperative scheduler (child side) + iterative-context-bounding explorer (parent side).
#include "engines/schedx/schedx.h"
#include "support/MuscleVerifHooks.h"
#include <thread>
#include <mutex>
#include <sys/syscall.h>
#include <linux/futex.h>
#include <time.h>

#include "util/TimeUtilityFunctions.h"

namespace schedx {

enum { PK_NONE = 0, PK_LOCK, PK_WAIT, PK_SOCK, PK_JOIN, PK_JOINALL, PK_BEGIN, PK_IDLE };
enum { TS_UNUSED = 0, TS_LIVE, TS_FINISHED };
static const int MAXT = 32;

struct Thr {
   int state; int pendKind; const void * pendObj; const volatile unsigned int * pendCount; int pendFd; int pendTimed; int pendTarget;
   volatile int go; int callKind; const void * threadObj; bool chosenTimeout; pthread_t * os; const char * pendTag; unsigned timeouts; bool idleReleased;
};
struct MState { int owner; int rec; };

struct Sched {
   bool active; Thr thr[MAXT]; int nthr; int current;
   std::map<const void *, MState> mutexes; std::set<const void *> ignoredMutexes; std::set<const volatile void *> watched; bool watchAll;
   std::map<const void *, int> byObj; pthread_mutex_t mapLock;
   std::vector<unsigned char> prefix; std::vector<unsigned char> nalt, taken; std::vector<std::vector<unsigned char> > cost;
   unsigned long points; unsigned maxPoints; bool yieldOnUnlock; int reportFd; bool framed; bool trace; bool warm;
   std::string failKey, failMsg, observation, notes; bool failed;
   std::vector<std::thread *> freeThreads;  // free-run mode
   std::mutex freeLock;
};
static Sched * S = NULL;
static __thread int t_tid = -1;

static void FutexWait(volatile int * a) { while (__atomic_load_n(a, __ATOMIC_ACQUIRE) == 0) syscall(SYS_futex, a, FUTEX_WAIT, 0, NULL, NULL, 0); __atomic_store_n(a, 0, __ATOMIC_RELAXED); }
static void FutexWake(volatile int * a) { __atomic_store_n(a, 1, __ATOMIC_RELEASE); syscall(SYS_futex, a, FUTEX_WAKE, 1, NULL, NULL, 0); }

static const char * KindName(int k) { static const char * n[] = {"op", "lock", "wait", "sockwait", "join", "joinall", "begin", "idle"}; return n[k]; }

// Sends this execution's outcome.  In a fresh child (fork-per-execution mode) the process then exits.  In worker mode (many
// executions per process) the text is framed; the process exits only when the execution cannot be unwound (parked threads).
static void Report(const char * status, bool terminal)
{
   // warm-up execution (default schedule, first execution of a process): a clean end is silent; a failure is reported as what it is --
   // the default schedule of this configuration already fails in a fresh process -- and ends the process
   if (S->warm && !terminal && strcmp(status, "OK") == 0) return;
   std::string o = std::string("STATUS ") + status + "\n";
   if (S->warm) o = "WARMFAIL\n" + o;
   o += "KEY " + S->failKey + "\nMSG " + verif::Hex(S->failMsg) + "\nOBS " + verif::Hex(S->observation) + "\nNOTES " + verif::Hex(S->notes) + "\n";
   o += verif::Fmt("POINTS %lu\n", S->points);
   o += "CHOICES";
   if (!S->warm) for (size_t i = 0; i < S->nalt.size(); i++) { o += verif::Fmt(" %d:%d:", (int)S->nalt[i], (int)S->taken[i]); for (size_t j = 0; j < S->cost[i].size(); j++) o += (char)('0' + S->cost[i][j]); }
   o += "\nEND\n";
   if (S->framed) { uint32_t len = (uint32_t)o.size(); std::string h((const char *)&len, sizeof(len)); o = h + o; }
   size_t off = 0; while (off < o.size()) { ssize_t w = write(S->reportFd, o.data() + off, o.size() - off); if (w <= 0) break; off += (size_t)w; }
   if (terminal || !S->framed || S->warm) _exit(0);
}

static std::string DescribeThreads()
{
   std::string d;
   for (int i = 0; i < S->nthr; i++) {
      Thr & t = S->thr[i]; if (t.state != TS_LIVE) continue;
      d += verif::Fmt(" T%d:%s", i, KindName(t.pendKind));
      if (t.pendKind == PK_LOCK) { std::map<const void *, MState>::iterator it = S->mutexes.find(t.pendObj); d += verif::Fmt("(held by T%d)", it == S->mutexes.end() ? -1 : it->second.owner); }
      if (t.pendKind == PK_JOIN) d += verif::Fmt("(T%d)", t.pendTarget);
      if (t.pendKind == PK_WAIT || t.pendKind == PK_SOCK) d += t.pendTimed ? "(timed)" : "(untimed)";
   }
   return d;
}

static bool Enabled(int tid)
{
   Thr & t = S->thr[tid];
   switch (t.pendKind) {
   case PK_NONE: case PK_BEGIN: return true;
   case PK_LOCK: { std::map<const void *, MState>::iterator it = S->mutexes.find(t.pendObj); return it == S->mutexes.end() || it->second.rec == 0 || it->second.owner == tid; }
   case PK_WAIT: return *t.pendCount > 0;
   case PK_SOCK: { struct pollfd p; p.fd = t.pendFd; p.events = POLLIN; p.revents = 0; return poll(&p, 1, 0) > 0; }
   case PK_JOIN: return S->thr[t.pendTarget].state == TS_FINISHED;
   case PK_JOINALL: for (int i = 0; i < S->nthr; i++) if (i != tid && S->thr[i].state == TS_LIVE) return false; return true;
   case PK_IDLE:   // "busy elsewhere for a long time": stays disabled until every other live thread is blocked (or finished); once released it stays enabled
      if (t.idleReleased) return true;
      for (int i = 0; i < S->nthr; i++) if (i != tid && S->thr[i].state == TS_LIVE && S->thr[i].pendKind != PK_IDLE && Enabled(i)) return false;
      t.idleReleased = true; return true;
   }
   return true;
}

// Picks the next thread to run.  `from` is the thread making the decision (it holds the token); it may be finished.
static int Schedule(int from)
{
   struct Alt { int tid; bool timeout; };
   Alt alts[2 * MAXT]; int n = 0;
   const bool fromLive = S->thr[from].state == TS_LIVE;
   const bool fromEnabled = fromLive && Enabled(from);
   if (fromEnabled) { alts[n].tid = from; alts[n].timeout = false; n++; }
   for (int i = 0; i < S->nthr; i++) if (i != from && S->thr[i].state == TS_LIVE && Enabled(i)) { alts[n].tid = i; alts[n].timeout = false; n++; }
   const int nfree = n;
   for (int i = 0; i < S->nthr; i++) {
      Thr & t = S->thr[i];
      if (t.state == TS_LIVE && (t.pendKind == PK_WAIT || t.pendKind == PK_SOCK) && t.pendTimed && !Enabled(i)) { alts[n].tid = i; alts[n].timeout = true; n++; }
   }
   if (n == 0) {
      bool anyLive = false; for (int i = 0; i < S->nthr; i++) if (S->thr[i].state == TS_LIVE) anyLive = true;
      if (!anyLive) return -1;
      if (!S->failed) { S->failed = true; S->failKey = "deadlock"; S->failMsg = "no enabled thread:" + DescribeThreads(); }
      Report("DEADLOCK", true);
   }
   int choice = 0;
   if (n > 1) {
      size_t idx = S->nalt.size();
      if (idx < S->prefix.size()) { choice = S->prefix[idx]; if (choice >= n) { S->failKey = "replay-divergence"; S->failMsg = verif::Fmt("choice %d out of range %d at choice point %u", choice, n, (unsigned)idx); Report("INFRA", true); } }
      std::vector<unsigned char> c((size_t)n);
      for (int a = 0; a < n; a++) {
         int k = 0;
         if (fromEnabled && alts[a].tid != from) k++;                    // switching away from a runnable thread is a preemption
         if (alts[a].timeout && (nfree > 0 || a > 0)) k++;               // firing a timeout is a deviation unless it is the only way forward
         c[(size_t)a] = (unsigned char)k;
      }
      S->nalt.push_back((unsigned char)n); S->taken.push_back((unsigned char)choice); S->cost.push_back(c);
   }
   if (S->trace) { std::string l = verif::Fmt("[sched] step %lu from T%d(%s %s):", S->points, from, fromLive ? KindName(S->thr[from].pendKind) : "finished", fromLive && S->thr[from].pendTag ? S->thr[from].pendTag : ""); for (int a = 0; a < n; a++) l += verif::Fmt(" %sT%d%s", a == choice ? "*" : "", alts[a].tid, alts[a].timeout ? "(timeout)" : ""); if (n > 1) l += verif::Fmt("  <choice point %u>", (unsigned)S->nalt.size() - 1); fprintf(stderr, "%s\n", l.c_str()); }
   S->thr[alts[choice].tid].chosenTimeout = alts[choice].timeout;
   return alts[choice].tid;
}

// The calling thread (token holder) parks at a point with the given pending operation; returns when it is scheduled again.
static bool Point(int kind, const void * obj, const volatile unsigned int * cnt, int fd, int timed, int target, const char * tag)
{
   const int me = t_tid; Thr & t = S->thr[me];
   t.pendKind = kind; t.pendObj = obj; t.pendCount = cnt; t.pendFd = fd; t.pendTimed = timed; t.pendTarget = target; t.pendTag = tag; t.chosenTimeout = false; t.idleReleased = false;
   if (++S->points > S->maxPoints) { if (!S->failed) { S->failed = true; S->failKey = "livelock"; S->failMsg = verif::Fmt("more than %u scheduling points in one execution:", S->maxPoints) + DescribeThreads(); } Report("LIVELOCK", true); }
   bool failNow = false;
   if ((kind == PK_WAIT || kind == PK_SOCK) && !S->failed) {
      // callKind: 1 = try call, 2 = finite-deadline call, 3 = finite-deadline call that is a read->write UPGRADE, 4 = try call that is an upgrade
      if (t.callKind == 1 || t.callKind == 4) { S->failed = true; failNow = true; S->failKey = (t.callKind == 4) ? "wait-in-try-upgrade" : "wait-in-try-call"; S->failMsg = verif::Fmt("T%d reached a %s wait point inside a call documented as non-blocking (try / zero timeout)", me, timed ? "timed" : "UNTIMED"); }
      else if ((t.callKind == 2 || t.callKind == 3) && !timed) { S->failed = true; failNow = true; S->failKey = (t.callKind == 3) ? "untimed-wait-in-timed-upgrade" : "untimed-wait-in-deadline-call"; S->failMsg = verif::Fmt("T%d reached an UNTIMED wait point inside a call made with a finite deadline%s", me, t.callKind == 3 ? " (read->write upgrade)" : ""); }
   }
   if (failNow) Report("VIOLATION", true);
   const int next = Schedule(me);
   if (next != me) { S->current = next; FutexWake(&S->thr[next].go); FutexWait(&t.go); }
   // we hold the token again: apply the model effect of our operation
   const bool timeoutFired = t.chosenTimeout; if (timeoutFired) t.timeouts++;
   if (kind == PK_LOCK) { MState & m = S->mutexes[obj]; if (m.rec == 0) m.owner = me; m.rec++; }
   t.pendKind = PK_NONE; t.pendTag = "";
   return timeoutFired;
}

static int AllocThread(const void * threadObj)
{
   if (S->nthr >= MAXT) { S->failKey = "too-many-threads"; Report("INFRA", true); }
   int id = S->nthr++; Thr & t = S->thr[id]; memset(&t, 0, sizeof(t)); t.state = TS_LIVE; t.pendKind = PK_BEGIN; t.threadObj = threadObj; t.pendTag = "";
   return id;
}

static void ThreadEnd()
{
   const int me = t_tid; S->thr[me].state = TS_FINISHED; t_tid = -1;
   const int next = Schedule(me);
   if (next >= 0) { S->current = next; FutexWake(&S->thr[next].go); }
}

// ---------------------------------------------------------------- muscle hook callbacks
static void H_atomicOp(const volatile void * c, int) { if (t_tid < 0) return; if (S->watchAll || S->watched.count(c)) (void) Point(PK_NONE, NULL, NULL, -1, 0, -1, "atomic"); }
static void H_mutexLock(const void * m) { if (t_tid < 0 || S->ignoredMutexes.count(m)) return; (void) Point(PK_LOCK, m, NULL, -1, 0, -1, "lock"); }
static void H_mutexTryLock(const void * m)
{
   if (t_tid < 0 || S->ignoredMutexes.count(m)) return;
   (void) Point(PK_NONE, NULL, NULL, -1, 0, -1, "trylock");
   MState & ms = S->mutexes[m]; if (ms.rec == 0 || ms.owner == t_tid) { ms.owner = t_tid; ms.rec++; }   // the native try_lock will succeed exactly in this case
}
static void H_mutexUnlock(const void * m)
{
   if (t_tid < 0 || S->ignoredMutexes.count(m)) return;
   MState & ms = S->mutexes[m]; if (ms.rec > 0 && ms.owner == t_tid) ms.rec--;
   if (S->yieldOnUnlock) (void) Point(PK_NONE, NULL, NULL, -1, 0, -1, "unlock");
}
static int H_condWait(const void * wc, const volatile unsigned int * cnt, int timed) { if (t_tid < 0) return 0; return Point(PK_WAIT, wc, cnt, -1, timed, -1, "wait") ? 1 : 0; }
static void H_condNotify(const void *) { if (t_tid < 0) return; (void) Point(PK_NONE, NULL, NULL, -1, 0, -1, "notify"); }
static void H_threadPreSpawn(const void * obj) { if (t_tid < 0) return; int id = AllocThread(obj); pthread_mutex_lock(&S->mapLock); S->byObj[obj] = id; pthread_mutex_unlock(&S->mapLock); }
static void H_threadBegin(const void * obj)
{
   pthread_mutex_lock(&S->mapLock); std::map<const void *, int>::iterator it = S->byObj.find(obj); int id = (it == S->byObj.end()) ? -1 : it->second; pthread_mutex_unlock(&S->mapLock);
   if (id < 0) return;   // a thread started outside the scheduler's view
   t_tid = id; FutexWait(&S->thr[id].go); S->thr[id].pendKind = PK_NONE;
}
static void H_threadEnd(const void *) { if (t_tid < 0) return; ThreadEnd(); }
static void H_threadJoin(const void * obj)
{
   if (t_tid < 0) return;
   pthread_mutex_lock(&S->mapLock); std::map<const void *, int>::iterator it = S->byObj.find(obj); int id = (it == S->byObj.end()) ? -1 : it->second; pthread_mutex_unlock(&S->mapLock);
   if (id >= 0) (void) Point(PK_JOIN, NULL, NULL, -1, 0, id, "join");
}
static void H_signalSend(const void *, int) { if (t_tid < 0) return; (void) Point(PK_NONE, NULL, NULL, -1, 0, -1, "send"); }
static int H_socketWait(const void *, int fd, int timed) { if (t_tid < 0) return 0; return Point(PK_SOCK, NULL, NULL, fd, timed, -1, "sockwait") ? 1 : 0; }

static MuscleVerifHooks g_hooks = { H_atomicOp, H_mutexLock, H_mutexTryLock, H_mutexUnlock, H_condWait, H_condNotify, H_threadPreSpawn, H_threadBegin, H_threadEnd, H_threadJoin, H_signalSend, H_socketWait };

// ---------------------------------------------------------------- harness API
bool UnderScheduler() { return S && S->active; }
int Self() { return t_tid < 0 ? 0 : t_tid; }
unsigned long Step() { return S ? S->points : 0; }
unsigned long long FarFuture() { return muscle::GetRunTime64() + 36000000000ULL; }

int Spawn(const std::function<void()> & body)
{
   if (!UnderScheduler()) { std::thread * th = new std::thread(body); std::lock_guard<std::mutex> g(S->freeLock); S->freeThreads.push_back(th); return (int)S->freeThreads.size() - 1; }
   int id = AllocThread(NULL);
   // pthread with a small stack: under ASan the cost of creating/destroying a thread is dominated by (un)poisoning its stack shadow
   struct Start { int id; std::function<void()> b; };
   Start * st = new Start(); st->id = id; st->b = body;
   pthread_attr_t at; pthread_attr_init(&at); pthread_attr_setstacksize(&at, 512 * 1024);
   S->thr[id].os = new pthread_t();
   int rc = pthread_create(S->thr[id].os, &at, [](void * p) -> void * { Start * s = (Start *)p; t_tid = s->id; FutexWait(&S->thr[s->id].go); S->thr[s->id].pendKind = PK_NONE; s->b(); delete s; ThreadEnd(); return NULL; }, st);
   pthread_attr_destroy(&at);
   if (rc != 0) { S->failKey = "pthread_create-failed"; Report("INFRA", true); }
   return id;
}
void Join(int tid)
{
   if (!UnderScheduler()) { std::thread * th; { std::lock_guard<std::mutex> g(S->freeLock); th = S->freeThreads[(size_t)tid]; } if (th->joinable()) th->join(); return; }
   (void) Point(PK_JOIN, NULL, NULL, -1, 0, tid, "join");
   if (S->thr[tid].os) { pthread_join(*S->thr[tid].os, NULL); delete S->thr[tid].os; S->thr[tid].os = NULL; }
}
void Idle(const char * tag) { if (!UnderScheduler()) { std::this_thread::yield(); return; } if (t_tid >= 0) (void) Point(PK_IDLE, NULL, NULL, -1, 0, -1, tag); }
void Yield(const char * tag) { if (!UnderScheduler()) { std::this_thread::yield(); return; } if (t_tid >= 0) (void) Point(PK_NONE, NULL, NULL, -1, 0, -1, tag); }
void WatchAtomic(const volatile void * a) { if (S) S->watched.insert(a); }
void WatchAllAtomics(bool on) { if (S) S->watchAll = on; }
void IgnoreMutex(const void * m) { if (S) S->ignoredMutexes.insert(m); }
void Fail(const std::string & key, const std::string & msg)
{
   if (!S) return;
   if (!S->active) { std::lock_guard<std::mutex> g(S->freeLock); if (!S->failed) { S->failed = true; S->failKey = key; S->failMsg = msg; } return; }   // free run: only on the failure path
   if (!S->failed) { S->failed = true; S->failKey = key; S->failMsg = msg; }
   // A failed execution is reported at once and never continued: what follows a violated invariant (use of a freed object, a second failure ...)
   // need not be deterministic, and the first failure is the one with the shortest schedule.
   Report("VIOLATION", true);
}
void Observe(const std::string & s) { if (S && S->active) {   // (no-op in a free run: the harness must not add sharing of its own)
   S->observation += s; S->observation += ';'; } }
void Note(const std::string & s) { if (S && S->active && S->notes.size() < 2000) { S->notes += s; S->notes += ';'; } }
unsigned TimeoutsFired() { return (UnderScheduler() && t_tid >= 0) ? S->thr[t_tid].timeouts : 0; }
void SetCallKind(int k) { if (UnderScheduler() && t_tid >= 0) S->thr[t_tid].callKind = k; }

static void InitSched(bool active)
{
   // one scheduler object per process, re-initialised for every execution and never freed (an exiting thread may still be inside its last futex call)
   static Sched * theSched = NULL; if (theSched == NULL) { theSched = new Sched(); pthread_mutex_init(&theSched->mapLock, NULL); }
   S = theSched; S->active = active; S->nthr = 0; S->current = 0; S->watchAll = false; S->points = 0; S->maxPoints = 20000; S->yieldOnUnlock = false; S->reportFd = -1; S->failed = false; S->framed = false; S->warm = false; S->trace = getenv("SCHEDX_TRACE") != NULL;
   S->mutexes.clear(); S->ignoredMutexes.clear(); S->watched.clear(); S->byObj.clear(); S->prefix.clear(); S->nalt.clear(); S->taken.clear(); S->cost.clear();
   S->failKey.clear(); S->failMsg.clear(); S->observation.clear(); S->notes.clear(); S->freeThreads.clear();
   memset(S->thr, 0, sizeof(S->thr));
}

void FreeRun(const std::function<void()> & body, int iterations)
{
   for (int i = 0; i < iterations; i++) {
      InitSched(false); body();
      for (size_t k = 0; k < S->freeThreads.size(); k++) { if (S->freeThreads[k]->joinable()) S->freeThreads[k]->join(); delete S->freeThreads[k]; }
      if (S->failed) { fprintf(stderr, "FREERUN-VIOLATION %s %s\n", S->failKey.c_str(), S->failMsg.c_str()); fflush(stderr); _exit(1); }
   }
}

// Free-run pass as a result Part: the bodies of all given configurations run `iterations` times each with real concurrency in ONE forked
// child (so that a ThreadSanitizer report, which sets exit code 89, or a failed harness assertion can be turned into a violation).
void FreeRunPart(const std::string & partName, const BodyFactory & factory, const std::vector<std::string> & configs, int iterations, const verif::Args & args, verif::Result & res)
{
   const double t0 = verif::NowS();
   std::string ef = verif::Fmt("/tmp/schedx_free_%d.err", (int)getpid());
   fflush(stdout); fflush(stderr);
   pid_t pid = fork(); if (pid < 0) { perror("fork"); exit(3); }
   if (pid == 0) {
      int fd = open(ef.c_str(), O_WRONLY | O_CREAT | O_TRUNC, 0644); if (fd >= 0) { dup2(fd, 2); close(fd); }
      for (size_t i = 0; i < configs.size(); i++) { std::function<void()> b = factory(configs[i]); FreeRun(b, iterations); }
      exit(0);   // normal exit so that the sanitizer's at-exit code sets its exit status
   }
   // a free run normally takes a few seconds; one that has not finished after kFreeRunHangS of real time is reported as a hang (deadlock or lost
   // wake-up with real threads) instead of blocking the check
   const double kFreeRunHangS = 300.0; bool hung = false;
   int st = 0; while (waitpid(pid, &st, WNOHANG) == 0) { if (verif::NowS() - t0 > kFreeRunHangS) { hung = true; kill(pid, SIGKILL); waitpid(pid, &st, 0); break; } usleep(20000); }
   verif::Part p; p.name = partName; p.transitions = p.evaluations = (uint64_t)configs.size() * (uint64_t)iterations; p.states = configs.size(); p.distinct_outcomes = configs.size(); p.bound_completed = -1; p.exhaustive = true;
   p.rule = verif::Fmt("race-detector pass (NOT the deciding enumeration): the same thread bodies run free (no scheduler, real concurrency) %d times for each of %u configurations in a ThreadSanitizer build; any data-race report or failed assertion is a violation", iterations, (unsigned)configs.size());
   for (size_t i = 0; i < configs.size() && i < 3; i++) p.samples.push_back("{\"config\": " + verif::JStr(configs[(i * 7 + (size_t)args.seed) % configs.size()]) + "}");
   if (!(WIFEXITED(st) && WEXITSTATUS(st) == 0)) {
      FILE * f = fopen(ef.c_str(), "r"); std::string t; if (f) { char b[4096]; size_t r; while ((r = fread(b, 1, sizeof(b), f)) > 0 && t.size() < 200000) t.append(b, r); fclose(f); }
      std::string key = "freerun:exit" + verif::Fmt("%d", WIFEXITED(st) ? WEXITSTATUS(st) : -WTERMSIG(st)), msg = "free run failed";
      size_t su = t.find("SUMMARY: ThreadSanitizer:"); if (su != std::string::npos) { size_t e = t.find('\n', su); msg = t.substr(su, e - su); size_t in = msg.rfind(" in "); key = "tsan:" + (in == std::string::npos ? std::string("report") : msg.substr(in + 4)); }
      if (hung) { key = "freerun:hang"; msg = verif::Fmt("free run still not finished after %.0f s of real time (normally a few seconds): threads are blocked for good", kFreeRunHangS); }
      size_t fv = t.find("FREERUN-VIOLATION "); if (fv != std::string::npos) { size_t e = t.find('\n', fv); msg = t.substr(fv + 18, e - fv - 18); key = "freerun:" + msg.substr(0, msg.find(' ')); }
      std::string body = "{\"harness\": " + verif::JStr(res.harness) + ", \"part\": " + verif::JStr(partName) + ", \"observed\": " + verif::JStr(msg) + ", \"log_head\": " + verif::JStr(t.substr(0, 3000)) + "}";
      res.AddViolation(key, partName + ": " + msg, res.WriteReplay(args, partName, body));
   }
   unlink(ef.c_str());
   p.wall_s = verif::NowS() - t0; res.parts.push_back(p);
}

// Every process that runs scheduled executions first runs the body ONCE as a warm-up: muscle initialises some process-wide objects lazily
// under a Mutex on first use (one extra lock point in the first execution of a process only), and executions must not depend on whether
// they are the first one in their process.  The warm-up is the DEFAULT schedule under the scheduler (deterministic -- an earlier version
// used a free run, which on a defective tree could hang or crash by itself); its outcome is discarded unless it fails, in which case the
// failure is reported as "the default schedule already fails in a fresh process" (WARMFAIL).  Replays and explorer workers do the same.
// ---------------------------------------------------------------- one execution (child side)
static void ChildMain(const std::function<void()> & body, const std::vector<unsigned char> & choices, const Options & opt, int reportFd, bool framed, bool warm);
static void WarmUp(const std::function<void()> & body, const Options & opt, int reportFd, bool framed) { ChildMain(body, std::vector<unsigned char>(), opt, reportFd, framed, true); }
static void ChildMain(const std::function<void()> & body, const std::vector<unsigned char> & choices, const Options & opt, int reportFd, bool framed, bool warm)
{
   InitSched(true); S->warm = warm; S->prefix = choices; S->maxPoints = opt.maxPoints; S->yieldOnUnlock = opt.yieldOnUnlock; S->reportFd = reportFd; S->framed = framed;
   int id = AllocThread(NULL); S->thr[id].pendKind = PK_NONE; t_tid = id;   // the body runs as thread 0 and starts with the token
   GetMuscleVerifHooksRef() = &g_hooks;
   body();
   // wait (in the model) for every other thread, then report
   (void) Point(PK_JOINALL, NULL, NULL, -1, 0, -1, "joinall");
   GetMuscleVerifHooksRef() = NULL;
   for (int i = 0; i < S->nthr; i++) if (S->thr[i].os) { pthread_join(*S->thr[i].os, NULL); delete S->thr[i].os; S->thr[i].os = NULL; }   // harness threads the body did not join itself
   t_tid = -1;
   Report(S->failed ? "VIOLATION" : "OK", S->failed);   // after a violation the process is not reused: its state may be corrupted
}

std::string ChoicesToString(const std::vector<unsigned char> & c) { std::string s; for (size_t i = 0; i < c.size(); i++) { if (i) s += ","; s += verif::Fmt("%d", (int)c[i]); } return s; }
std::vector<unsigned char> ChoicesFromString(const std::string & s) { std::vector<unsigned char> c; const char * p = s.c_str(); while (*p) { if (isdigit((unsigned char)*p)) { c.push_back((unsigned char)strtol(p, (char **)&p, 10)); } else p++; } return c; }

static void ParseOutcome(const std::string & text, Outcome & o)
{
   o.status = "CRASH"; o.points = 0;
   size_t pos = 0; bool ended = false;
   while (pos < text.size()) {
      size_t e = text.find('\n', pos); if (e == std::string::npos) e = text.size();
      std::string line = text.substr(pos, e - pos); pos = e + 1;
      if (line == "WARMFAIL") o.notes += "[fails already in the default schedule of a fresh process]";
      else if (line.compare(0, 7, "STATUS ") == 0) o.status = line.substr(7);
      else if (line.compare(0, 4, "KEY ") == 0) o.key = line.substr(4);
      else if (line.compare(0, 4, "MSG ") == 0) verif::UnHex(line.substr(4), o.msg);
      else if (line.compare(0, 4, "OBS ") == 0) verif::UnHex(line.substr(4), o.observation);
      else if (line.compare(0, 6, "NOTES ") == 0) verif::UnHex(line.substr(6), o.notes);
      else if (line.compare(0, 7, "POINTS ") == 0) o.points = strtoul(line.c_str() + 7, NULL, 10);
      else if (line.compare(0, 7, "CHOICES") == 0) {
         const char * p = line.c_str() + 7;
         while (*p) {
            while (*p == ' ') p++; if (!*p) break;
            int n = (int)strtol(p, (char **)&p, 10); if (*p == ':') p++; int t = (int)strtol(p, (char **)&p, 10); if (*p == ':') p++;
            std::vector<unsigned char> c; while (*p && *p != ' ') c.push_back((unsigned char)(*p++ - '0'));
            o.nalt.push_back((unsigned char)n); o.taken.push_back((unsigned char)t); o.cost.push_back(c);
         }
      }
      else if (line == "END") ended = true;
   }
   if (!ended && o.status != "CRASH") o.status = "CRASH";
}

struct Child { pid_t pid; int fd; std::string buf; std::vector<unsigned char> prefix; double t0; std::string errfile; };

static void Launch(Child & c, const std::function<void()> & body, const std::vector<unsigned char> & prefix, const Options & opt, int slot)
{
   int p[2]; if (pipe(p) != 0) { perror("pipe"); exit(3); }
   c.errfile = verif::Fmt("/tmp/schedx_%d_%d.err", (int)getpid(), slot);
   fflush(stdout); fflush(stderr);
   pid_t pid = fork();
   if (pid < 0) { perror("fork"); exit(3); }
   if (pid == 0) {
      close(p[0]); if (!getenv("SCHEDX_TRACE")) { int ef = open(c.errfile.c_str(), O_WRONLY | O_CREAT | O_TRUNC, 0644); if (ef >= 0) { dup2(ef, 2); close(ef); } }
      WarmUp(body, opt, p[1], false);
      { const char * rdy = "READY\n"; if (write(p[1], rdy, 6) != 6) _exit(4); }
      ChildMain(body, prefix, opt, p[1], false, false); _exit(0);
   }
   close(p[1]); c.pid = pid; c.fd = p[0]; c.buf.clear(); c.prefix = prefix; c.t0 = verif::NowS();
}

static std::string Tail(const std::string & file, size_t n)
{
   FILE * f = fopen(file.c_str(), "r"); if (!f) return ""; std::string t; char b[4096]; size_t r; while ((r = fread(b, 1, sizeof(b), f)) > 0) t.append(b, r); fclose(f);
   std::string first; size_t e = t.find("ERROR: "); if (e == std::string::npos) e = t.find("runtime error"); if (e != std::string::npos) { size_t l = t.rfind('\n', e); l = (l == std::string::npos) ? 0 : l + 1; size_t le = t.find('\n', e); first = t.substr(l, (le == std::string::npos ? t.size() : le) - l); }
   if (!first.empty()) return first;
   return t.size() > n ? t.substr(t.size() - n) : t;
}

static void Finish(Child & c, Outcome & o, bool killed)
{
   int st = 0; waitpid(c.pid, &st, 0); close(c.fd);
   ParseOutcome(c.buf, o);
   if (killed) { o.status = "HANG"; o.key = "hang"; o.msg = "execution exceeded the real-time watchdog"; }
   else if (o.status == "CRASH") {
      o.key = WIFSIGNALED(st) ? verif::Fmt("crash:sig%d", WTERMSIG(st)) : verif::Fmt("crash:exit%d", WEXITSTATUS(st));
      o.msg = "process died: " + Tail(c.errfile, 600);
      if (WIFEXITED(st) && WEXITSTATUS(st) == 87) o.key = "crash:asan"; if (WIFEXITED(st) && WEXITSTATUS(st) == 88) o.key = "crash:ubsan";
   }
   unlink(c.errfile.c_str());
}

Outcome RunOne(const std::function<void()> & body, const std::vector<unsigned char> & choices, const Options & opt)
{
   Outcome o;
   for (int attempt = 0; attempt < 6; attempt++) {
      Child c; Launch(c, body, choices, opt, 999);
      bool killed = false;
      while (true) {
         struct pollfd p; p.fd = c.fd; p.events = POLLIN; p.revents = 0; int r = poll(&p, 1, 200);
         if (r > 0) { char b[65536]; ssize_t n = read(c.fd, b, sizeof(b)); if (n > 0) c.buf.append(b, (size_t)n); else if (n == 0) break; else if (errno != EINTR && errno != EAGAIN) break; }
         if (verif::NowS() - c.t0 > opt.execTimeoutS * 3) { kill(c.pid, SIGKILL); killed = true; break; }
      }
      const bool ready = c.buf.find("READY\n") != std::string::npos || c.buf.find("WARMFAIL\n") != std::string::npos;
      o = Outcome(); Finish(c, o, killed);
      if (ready) return o;   // otherwise the process ended inside its free warm-up run: not a statement about this schedule, try again
   }
   return o;
}

// ---------------------------------------------------------------- worker pool: W single-threaded "zygote" processes, each forks its own execution children, so that
// the (expensive, ASan-sized) forks run in parallel instead of serially in the explorer parent.
struct Worker { pid_t pid; int cmdFd, respFd; bool busy; std::vector<unsigned char> prefix; std::string buf; double t0; bool ready; };
static std::vector<Worker> g_pool; static BodyFactory g_factory; static Options g_poolOpt;

static void WriteAll(int fd, const void * p, size_t n) { const char * c = (const char *)p; while (n > 0) { ssize_t w = write(fd, c, n); if (w <= 0) { if (errno == EINTR) continue; _exit(4); } c += w; n -= (size_t)w; } }
static bool ReadAll(int fd, void * p, size_t n) { char * c = (char *)p; while (n > 0) { ssize_t r = read(fd, c, n); if (r < 0 && errno == EINTR) continue; if (r <= 0) return false; c += r; n -= (size_t)r; } return true; }

static void WorkerLoop(int cmdFd, int respFd, int slot)
{
   (void) slot; std::set<std::string> warmed;
   while (true) {
      uint32_t hdr[3];   // config length, prefix length, bound
      if (!ReadAll(cmdFd, hdr, sizeof(hdr))) _exit(0);
      std::string cfg(hdr[0], '\0'); std::vector<unsigned char> prefix(hdr[1]);
      if (hdr[0] && !ReadAll(cmdFd, &cfg[0], hdr[0])) _exit(0);
      if (hdr[1] && !ReadAll(cmdFd, &prefix[0], hdr[1])) _exit(0);
      Options opt = g_poolOpt; opt.bound = (int)hdr[2];
      std::function<void()> body = g_factory(cfg);
      if (warmed.insert(cfg).second) WarmUp(body, opt, respFd, true);
      { uint32_t len = 6; WriteAll(respFd, &len, sizeof(len)); WriteAll(respFd, "READY\n", 6); }
      // The execution runs IN this process (a fork per execution costs ~25 ms of kernel time under ASan).  Executions that end with
      // every thread finished (OK / VIOLATION) return here; anything else (deadlock, livelock, divergence, crash) ends the process
      // after reporting and the parent starts a fresh worker.  Failing executions are re-confirmed by the parent in fresh processes.
      ChildMain(body, prefix, opt, respFd, true, false);
   }
}

static void SpawnWorker(size_t w)
{
   int c[2], r[2]; if (pipe(c) != 0 || pipe(r) != 0) { perror("pipe"); exit(3); }
   fflush(stdout); fflush(stderr);
   pid_t pid = fork(); if (pid < 0) { perror("fork"); exit(3); }
   if (pid == 0) {
      close(c[1]); close(r[0]); for (size_t k = 0; k < g_pool.size(); k++) if (k != w) { close(g_pool[k].cmdFd); close(g_pool[k].respFd); }
      std::string ef = verif::Fmt("/tmp/schedx_w%d_%d.err", (int)getppid(), (int)w); int fd = open(ef.c_str(), O_WRONLY | O_CREAT | O_TRUNC, 0644); if (fd >= 0) { dup2(fd, 2); close(fd); }
      WorkerLoop(c[0], r[1], (int)w); _exit(0);
   }
   close(c[0]); close(r[1]); Worker & wk = g_pool[w]; wk.pid = pid; wk.cmdFd = c[1]; wk.respFd = r[0]; wk.busy = false;
}
static void ReapWorker(size_t w, int * st) { Worker & wk = g_pool[w]; close(wk.cmdFd); close(wk.respFd); int s = 0; waitpid(wk.pid, &s, 0); if (st) *st = s; }
void StartPool(const BodyFactory & factory, const Options & opt, int workers)
{
   g_factory = factory; g_poolOpt = opt; if (workers < 1) workers = 1; if (workers > 64) workers = 64;
   g_pool.resize((size_t)workers); for (size_t w = 0; w < g_pool.size(); w++) { g_pool[w].cmdFd = g_pool[w].respFd = -1; g_pool[w].pid = 0; }
   for (size_t w = 0; w < g_pool.size(); w++) SpawnWorker(w);
}
void StopPool() { for (size_t k = 0; k < g_pool.size(); k++) { ReapWorker(k, NULL); unlink(verif::Fmt("/tmp/schedx_w%d_%d.err", (int)getpid(), (int)k).c_str()); } g_pool.clear(); }

void Explore(const std::string & partName, const std::string & configArgs, const Options & opt, const verif::Args & args, verif::Result & res, double absDeadline)
{
   const double t0 = verif::NowS();
   if (g_pool.empty()) { res.infra_errors.push_back("schedx::Explore called without StartPool"); return; }
   std::function<void()> body = g_factory(configArgs);
   std::vector<std::vector<unsigned char> > work; work.push_back(std::vector<unsigned char>());
   unsigned long executions = 0, totalPoints = 0, totalChoicePoints = 0; unsigned long perBound[8] = {0, 0, 0, 0, 0, 0, 0, 0};
   std::set<verif::Hash128> observations; std::map<std::string, unsigned long> statusCounts; std::map<std::string, int> perKey; std::map<std::string, unsigned long> keyCounts;
   std::vector<std::string> notes; bool capped = false; std::string cap; unsigned long maxPointsSeen = 0; size_t nbusy = 0; unsigned long failingExecutions = 0; std::map<std::string, int> retries; unsigned warmupDeaths = 0; bool warmFailed = false;
   std::vector<std::string> samples;
   while (!work.empty() || nbusy > 0) {
      for (size_t w = 0; w < g_pool.size() && !work.empty(); w++) if (!g_pool[w].busy) {
         if (absDeadline > 0 && verif::NowS() > absDeadline) { capped = true; cap = "deadline"; work.clear(); break; }
         if (opt.maxExecutions && executions + nbusy >= opt.maxExecutions) { capped = true; cap = verif::Fmt("execution cap %lu", opt.maxExecutions); work.clear(); break; }
         Worker & wk = g_pool[w]; wk.prefix = work.back(); work.pop_back(); wk.busy = true; wk.buf.clear(); wk.t0 = verif::NowS(); wk.ready = false; nbusy++;
         uint32_t hdr[3] = { (uint32_t)configArgs.size(), (uint32_t)wk.prefix.size(), (uint32_t)opt.bound };
         WriteAll(wk.cmdFd, hdr, sizeof(hdr)); WriteAll(wk.cmdFd, configArgs.data(), configArgs.size()); if (!wk.prefix.empty()) WriteAll(wk.cmdFd, &wk.prefix[0], wk.prefix.size());
      }
      if (nbusy == 0) break;
      std::vector<struct pollfd> pf; std::vector<size_t> who;
      for (size_t w = 0; w < g_pool.size(); w++) if (g_pool[w].busy) { struct pollfd q; q.fd = g_pool[w].respFd; q.events = POLLIN; q.revents = 0; pf.push_back(q); who.push_back(w); }
      int pr = poll(&pf[0], pf.size(), 1000); if (pr < 0 && errno != EINTR) { perror("poll"); exit(3); }
      const double nowT = verif::NowS();
      for (size_t k = 0; k < pf.size(); k++) {
         const size_t wi = who[k]; Worker & wk = g_pool[wi];
         Outcome o; bool have = false;
         if (pf[k].revents) {
            uint32_t len = 0; std::string text; bool ok = ReadAll(wk.respFd, &len, sizeof(len)); if (ok && len) { text.resize(len); ok = ReadAll(wk.respFd, &text[0], len); }
            if (ok && text == "READY\n") { wk.ready = true; wk.t0 = verif::NowS(); continue; }   // warm-up (if any) is over, the scheduled execution starts now
            if (ok) { ParseOutcome(text, o); have = true; if (o.status != "OK") { ReapWorker(wi, NULL); SpawnWorker(wi); }   // terminal status: that worker has exited
                      if (text.compare(0, 9, "WARMFAIL\n") == 0) { warmFailed = true; } }
            else if (!wk.ready && ++warmupDeaths <= 200) {
               // the worker died before its READY marker, i.e. inside its free warm-up run (real concurrency): says nothing about this schedule => run it again elsewhere
               ReapWorker(wi, NULL); SpawnWorker(wi); work.push_back(g_pool[wi].prefix); g_pool[wi].busy = false; nbusy--;
               if (notes.size() < 20) notes.push_back("a worker ended inside its free warm-up run; schedule re-queued");
               continue;
            }
            else {
               int st = 0; ReapWorker(wi, &st); o.status = "CRASH"; o.points = 0; have = true;
               o.key = WIFSIGNALED(st) ? verif::Fmt("crash:sig%d", WTERMSIG(st)) : (WEXITSTATUS(st) == 87) ? "crash:asan" : (WEXITSTATUS(st) == 88) ? "crash:ubsan" : verif::Fmt("crash:exit%d", WEXITSTATUS(st));
               o.msg = "process died: " + Tail(verif::Fmt("/tmp/schedx_w%d_%d.err", (int)getpid(), (int)wi), 600);
               SpawnWorker(wi);
            }
         } else if (nowT - wk.t0 > opt.execTimeoutS && !wk.ready && ++warmupDeaths <= 200) {
            kill(wk.pid, SIGKILL); ReapWorker(wi, NULL); SpawnWorker(wi); work.push_back(g_pool[wi].prefix); g_pool[wi].busy = false; nbusy--; continue;
         } else if (nowT - wk.t0 > opt.execTimeoutS) {
            kill(wk.pid, SIGKILL); ReapWorker(wi, NULL); SpawnWorker(wi); o.status = "HANG"; o.key = "hang"; o.msg = "execution exceeded the real-time watchdog"; o.points = 0; have = true;
         }
         if (!have) continue;
         g_pool[wi].busy = false; nbusy--;
         std::vector<unsigned char> prefix = g_pool[wi].prefix;
         executions++; totalPoints += o.points; totalChoicePoints += o.nalt.size(); statusCounts[o.status]++; if (o.points > maxPointsSeen) maxPointsSeen = o.points;
         observations.insert(verif::HashStr(o.status + "|" + o.observation));
         if (!o.notes.empty() && notes.size() < 20) notes.push_back(o.notes);
         if (samples.size() < 3) samples.push_back("{\"config\": " + verif::JStr(configArgs) + ", \"choices\": " + verif::JStr(ChoicesToString(o.taken)) + ", \"status\": " + verif::JStr(o.status) + ", \"observation\": " + verif::JStr(o.observation.substr(0, 200)) + "}");
         int base = 0; bool consistent = o.taken.size() >= prefix.size();
         for (size_t j = 0; consistent && j < prefix.size(); j++) { if (o.taken[j] != prefix[j] || prefix[j] >= o.cost[j].size()) consistent = false; else base += o.cost[j][prefix[j]]; }
         if (!consistent && o.status != "CRASH" && o.status != "HANG" && !warmFailed) { res.infra_errors.push_back(partName + ": replayed prefix diverged (" + ChoicesToString(prefix) + " vs " + ChoicesToString(o.taken) + ")"); continue; }
         if (base < 8) perBound[base]++;
         if (o.status == "INFRA") { res.infra_errors.push_back(partName + ": " + o.key + " " + o.msg + " choices=" + ChoicesToString(prefix)); continue; }
         if (o.status != "OK") {
            const std::string key = o.key;
            keyCounts[key]++;
            if (++failingExecutions > 300 && !capped) { capped = true; cap = "more than 300 failing executions in this configuration: exploration stopped early"; work.clear(); }
            if (perKey[key]++ < 3) {
               // replay twice: identical status, key and observation required before the failure is believed
               const std::vector<unsigned char> & ch = o.taken.size() ? o.taken : prefix;
               Outcome r1 = RunOne(body, ch, opt), r2 = RunOne(body, ch, opt);
               if (o.status == "CRASH" && r1.status == r2.status && r1.key == r2.key && r1.observation == r2.observation && r1.status != "CRASH" && retries[ChoicesToString(prefix)]++ < 3) {
                  // The worker process died but the same schedule behaves identically (and differently) in two fresh processes: the death happened outside the
                  // scheduled execution (in the worker's free warm-up run, i.e. under real concurrency).  Not attributable to this schedule: run it again.
                  perKey[key]--; keyCounts[key]--; failingExecutions--; executions--; statusCounts[o.status]--; work.push_back(prefix);
                  if (notes.size() < 20) notes.push_back("a worker died during its free warm-up run (" + o.msg.substr(0, 160) + "); schedule re-queued");
                  continue;
               }
               if (r1.status != o.status || r2.status != o.status || r1.key != o.key || r2.key != o.key || r1.observation != o.observation || r2.observation != o.observation)
                  res.infra_errors.push_back(partName + ": failing schedule is not reproducible (" + o.status + "/" + r1.status + "/" + r2.status + ") config=" + configArgs + " choices=" + ChoicesToString(ch));
               else if (o.status == "HANG") res.infra_errors.push_back(partName + ": execution hangs in real time (unhooked blocking operation?) config=" + configArgs + " choices=" + ChoicesToString(prefix));
               else {
                  std::string body_ = "{\"harness\": " + verif::JStr(res.harness) + ", \"part\": " + verif::JStr(partName) + ", \"config\": " + verif::JStr(configArgs) + ", \"choices\": " + verif::JStr(ChoicesToString(ch)) + verif::Fmt(", \"cost\": %d, \"bound\": %d", base, opt.bound) + ", \"status\": " + verif::JStr(o.status) + ", \"observed\": " + verif::JStr(o.msg) + "}";
                  res.AddViolation(key, partName + " [" + configArgs + "] " + o.status + ": " + o.msg + verif::Fmt(" (cost %d, %lu points)", base, o.points), res.WriteReplay(args, partName, body_));
               }
            }
            if (o.status == "CRASH" || o.status == "HANG") continue;   // no trace to expand from
            if (warmFailed) { if (!capped) { capped = true; cap = "the default schedule of this configuration already fails in a fresh process: nothing else explored"; } work.clear(); continue; }
         }
         for (size_t j = prefix.size(); j < o.nalt.size(); j++)
            for (int alt = 1; alt < (int)o.nalt[j]; alt++)
               if (base + (int)o.cost[j][(size_t)alt] <= opt.bound) { std::vector<unsigned char> np(o.taken.begin(), o.taken.begin() + (long)j); np.push_back((unsigned char)alt); work.push_back(np); }
      }
   }
   verif::Part p; p.name = partName; p.states = executions;   /* stateless exploration: every execution is a DISTINCT schedule (choice list) by construction */ p.transitions = executions; p.evaluations = executions; p.distinct_outcomes = observations.size();
   p.bound_completed = capped ? -1 : opt.bound; p.exhaustive = !capped; p.cap = cap; p.wall_s = verif::NowS() - t0; p.samples = samples;
   p.extra["executions"] = verif::Fmt("%lu", executions);
   p.extra["executions_by_cost"] = verif::Fmt("[%lu,%lu,%lu,%lu,%lu]", perBound[0], perBound[1], perBound[2], perBound[3], perBound[4]);
   p.extra["scheduling_points_total"] = verif::Fmt("%lu", totalPoints);
   p.extra["choice_points_total"] = verif::Fmt("%lu", totalChoicePoints);
   p.extra["max_points_in_one_execution"] = verif::Fmt("%lu", maxPointsSeen);
   p.extra["preemption_bound"] = verif::Fmt("%d", opt.bound);
   std::string sc = "{"; bool first = true; for (std::map<std::string, unsigned long>::iterator it = statusCounts.begin(); it != statusCounts.end(); ++it) { if (!first) sc += ", "; first = false; sc += verif::JStr(it->first) + verif::Fmt(": %lu", it->second); } sc += "}";
   p.extra["status_counts"] = sc;
   std::string kc = "{"; first = true; for (std::map<std::string, unsigned long>::iterator it = keyCounts.begin(); it != keyCounts.end(); ++it) { if (!first) kc += ", "; first = false; kc += verif::JStr(it->first) + verif::Fmt(": %lu", it->second); } kc += "}";
   p.extra["failing_executions_by_key"] = kc;
   if (!notes.empty()) p.extra["notes"] = verif::JStrArray(notes);
   res.parts.push_back(p);
}

}  // namespace schedx
