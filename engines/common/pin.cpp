// Linked into every harness: owns the library's only unseedable nondeterminism source and sets sanitizer options.
//  * muscle::GetInsecurePseudoRandomNumber32/64 draw from std::random_device; every harness links with
//    -Wl,--wrap=<mangled> so that these deterministic counters are used instead (DESIGN 2.8 rule 1).
//  * sanitizer reports are fatal with distinctive exit codes so that the forked case runner can attribute them.
#include <stdint.h>
#include <stddef.h>

extern "C" {
uint64_t verif_rand_counter = 0;
uint32_t __wrap__ZN6muscle31GetInsecurePseudoRandomNumber32Ej(uint32_t maxVal)
{
   uint64_t x = ++verif_rand_counter; x ^= x >> 33; x *= 0xff51afd7ed558ccdULL; x ^= x >> 33; x *= 0xc4ceb9fe1a85ec53ULL; x ^= x >> 33;
   const uint32_t r = (uint32_t)x;
   return (maxVal == 0xFFFFFFFFu) ? r : (r % (maxVal ? maxVal : 1));  // same contract as the original: [0, maxVal)
}
uint64_t __wrap__ZN6muscle31GetInsecurePseudoRandomNumber64Em(uint64_t maxVal)
{
   uint64_t x = ++verif_rand_counter; x ^= x >> 33; x *= 0xff51afd7ed558ccdULL; x ^= x >> 33; x *= 0xc4ceb9fe1a85ec53ULL; x ^= x >> 33;
   return (maxVal == (uint64_t)-1) ? x : (x % (maxVal ? maxVal : 1));
}
const char * __asan_default_options() { return "detect_leaks=0:exitcode=87:allocator_may_return_null=1:abort_on_error=0:handle_abort=0:handle_segv=1:detect_stack_use_after_return=0:malloc_context_size=8"; }
const char * __ubsan_default_options() { return "halt_on_error=1:exitcode=88:print_stacktrace=1"; }
const char * __tsan_default_options() { return "exitcode=89:halt_on_error=0:report_signal_unsafe=0"; }
}
