// Common support for all verification harnesses: argument parsing, result JSON, hashing, fork-parallel helpers.
// A harness executable is run by bin/check as
//     <harness> --tier quick|thorough --out <result.json> --replays <dir> --deadline <seconds> [--seed N] [--part NAME]
//     <harness> --replay <file>
// and writes a result JSON that bin/check merges into evidence/<id>.json.
#ifndef VERIF_COMMON_H
#define VERIF_COMMON_H

#include <stdint.h>
#include <stdio.h>
#include <stdlib.h>
#include <string.h>
#include <stdarg.h>
#include <ctype.h>
#include <string>
#include <vector>
#include <map>
#include <set>
#include <algorithm>
#include <functional>
#include <unistd.h>
#include <sys/time.h>
#include <sys/wait.h>
#include <sys/mman.h>
#include <signal.h>
#include <errno.h>
#include <fcntl.h>
#include <poll.h>

namespace verif {

// ---------------------------------------------------------------- time
static inline double NowS() { struct timeval tv; gettimeofday(&tv, NULL); return (double)tv.tv_sec + 1e-6 * (double)tv.tv_usec; }

// ---------------------------------------------------------------- hashing (two independent 64-bit hashes => 128-bit state key)
struct Hash128 {
   uint64_t a, b;
   bool operator<(const Hash128 & o) const { return (a != o.a) ? (a < o.a) : (b < o.b); }
   bool operator==(const Hash128 & o) const { return a == o.a && b == o.b; }
};
static inline uint64_t Mix64(uint64_t x) { x ^= x >> 33; x *= 0xff51afd7ed558ccdULL; x ^= x >> 33; x *= 0xc4ceb9fe1a85ec53ULL; x ^= x >> 33; return x; }
static inline Hash128 HashBytes(const void * p, size_t n)
{
   const unsigned char * s = (const unsigned char *)p;
   uint64_t h1 = 0xcbf29ce484222325ULL, h2 = 0x9e3779b97f4a7c15ULL ^ (uint64_t)n;
   for (size_t i = 0; i < n; i++) {
      h1 = (h1 ^ s[i]) * 0x100000001b3ULL;
      h2 = Mix64(h2 + s[i] + 0x632be59bd9b4e019ULL);
   }
   Hash128 h; h.a = Mix64(h1 ^ n); h.b = h2; return h;
}
static inline Hash128 HashStr(const std::string & s) { return HashBytes(s.data(), s.size()); }
struct Hash128Hasher { size_t operator()(const Hash128 & h) const { return (size_t)(h.a ^ (h.b * 31)); } };

// ---------------------------------------------------------------- JSON text helpers
static inline std::string JStr(const std::string & s)
{
   std::string o = "\"";
   for (size_t i = 0; i < s.size(); i++) {
      unsigned char c = (unsigned char)s[i];
      if (c == '"') o += "\\\""; else if (c == '\\') o += "\\\\"; else if (c == '\n') o += "\\n"; else if (c == '\t') o += "\\t";
      else if (c < 0x20 || c >= 0x7f) { char b[8]; snprintf(b, sizeof(b), "\\u%04x", c); o += b; }
      else o += (char)c;
   }
   return o + "\"";
}
static inline std::string Hex(const void * p, size_t n)
{
   static const char * d = "0123456789abcdef"; std::string o; const unsigned char * s = (const unsigned char *)p;
   for (size_t i = 0; i < n; i++) { o += d[s[i] >> 4]; o += d[s[i] & 15]; }
   return o;
}
static inline std::string Hex(const std::string & s) { return Hex(s.data(), s.size()); }
static inline bool UnHex(const std::string & h, std::string & out)
{
   out.clear(); if (h.size() & 1) return false;
   for (size_t i = 0; i < h.size(); i += 2) {
      int v = 0;
      for (int k = 0; k < 2; k++) { char c = h[i + k]; int d = (c >= '0' && c <= '9') ? c - '0' : (c >= 'a' && c <= 'f') ? c - 'a' + 10 : (c >= 'A' && c <= 'F') ? c - 'A' + 10 : -1; if (d < 0) return false; v = v * 16 + d; }
      out += (char)v;
   }
   return true;
}
static inline std::string Fmt(const char * f, ...) __attribute__((format(printf, 1, 2)));
static inline std::string Fmt(const char * f, ...)
{
   char buf[4096]; va_list ap; va_start(ap, f); vsnprintf(buf, sizeof(buf), f, ap); va_end(ap); return buf;
}

// ---------------------------------------------------------------- results
struct Violation {
   std::string key;     // stable classification used to match known_findings.json (never the property id alone)
   std::string desc;    // human readable: expected vs observed
   std::string replay;  // path of the replay file
};

struct Part {
   std::string name;
   std::string rule;          // how cases are enumerated / what makes one distinct
   uint64_t states;           // distinct canonical states (or distinct nontrivial cases)
   uint64_t transitions;      // implementation executions (each one is a trace validated against the implementation)
   uint64_t evaluations;      // oracle evaluations
   uint64_t distinct_outcomes;
   int bound_completed;       // depth / deviations / preemption bound fully explored (-1 = n/a)
   bool exhaustive;           // finite stated space enumerated completely (no cap hit)
   std::string cap;           // which cap was hit, if any
   std::vector<std::string> samples;  // JSON fragments
   std::map<std::string, std::string> extra; // key -> JSON fragment
   double wall_s;
   Part() : states(0), transitions(0), evaluations(0), distinct_outcomes(0), bound_completed(-1), exhaustive(true), wall_s(0) {}
};

struct Args {
   std::string tier, out, replays, replay, part;
   double deadline;  // seconds budget for the whole harness run
   long seed;
   int workers;
   double t0;
   std::map<std::string, std::string> kv;
   Args() : tier("quick"), replays("/verif/replays"), deadline(600), seed(0), workers(16), t0(NowS()) {}
   bool Thorough() const { return tier == "thorough"; }
   double Remaining() const { return deadline - (NowS() - t0); }
   bool Expired() const { return Remaining() <= 0; }
   void Parse(int argc, char ** argv)
   {
      for (int i = 1; i < argc; i++) {
         std::string a = argv[i];
         std::string v = (i + 1 < argc) ? argv[i + 1] : "";
         if (a == "--tier") { tier = v; i++; }
         else if (a == "--out") { out = v; i++; }
         else if (a == "--replays") { replays = v; i++; }
         else if (a == "--replay") { replay = v; i++; }
         else if (a == "--deadline") { deadline = atof(v.c_str()); i++; }
         else if (a == "--seed") { seed = atol(v.c_str()); i++; }
         else if (a == "--workers") { workers = atoi(v.c_str()); i++; }
         else if (a == "--part") { part = v; i++; }
         else if (a.size() > 2 && a[0] == '-' && a[1] == '-') { kv[a.substr(2)] = v; i++; }
      }
      const char * w = getenv("VERIF_WORKERS"); if (w && atoi(w) > 0) workers = atoi(w);
      if (workers < 1) workers = 1;
   }
   bool WantPart(const std::string & p) const { return part.empty() || part == p; }
};

struct Result {
   std::string harness;
   std::vector<Part> parts;
   std::vector<Violation> violations;
   std::vector<std::string> observations;  // unspecified behaviour observed (never a violation)
   std::vector<std::string> infra_errors;   // nondeterministic replay etc. => exit 3
   int replayCounter;
   Result() : replayCounter(0) {}

   // writes a replay file and returns its path
   std::string WriteReplay(const Args & a, const std::string & stem, const std::string & jsonBody)
   {
      std::string dir = a.replays; std::string cmd = "mkdir -p '" + dir + "'"; if (system(cmd.c_str())) {}
      std::string path = dir + "/" + harness + "_" + stem + Fmt("_%d.json", replayCounter++);
      FILE * f = fopen(path.c_str(), "w"); if (f) { fputs(jsonBody.c_str(), f); fputc('\n', f); fclose(f); }
      return path;
   }
   void AddViolation(const std::string & key, const std::string & desc, const std::string & replay)
   {
      Violation v; v.key = key; v.desc = desc; v.replay = replay; violations.push_back(v);
   }
   int Write(const Args & a) const
   {
      std::string o = "{\n \"harness\": " + JStr(harness) + ",\n \"tier\": " + JStr(a.tier) + ",\n \"parts\": [\n";
      for (size_t i = 0; i < parts.size(); i++) {
         const Part & p = parts[i];
         o += "  {\"name\": " + JStr(p.name) + ", \"rule\": " + JStr(p.rule);
         o += Fmt(", \"states\": %llu, \"transitions\": %llu, \"evaluations\": %llu, \"distinct_outcomes\": %llu, \"bound_completed\": %d, \"exhaustive\": %s, \"cap\": ",
                  (unsigned long long)p.states, (unsigned long long)p.transitions, (unsigned long long)p.evaluations, (unsigned long long)p.distinct_outcomes, p.bound_completed, p.exhaustive ? "true" : "false");
         o += JStr(p.cap) + Fmt(", \"wall_s\": %.3f, \"samples\": [", p.wall_s);
         for (size_t j = 0; j < p.samples.size(); j++) { if (j) o += ", "; o += p.samples[j]; }
         o += "], \"extra\": {";
         bool first = true;
         for (std::map<std::string, std::string>::const_iterator it = p.extra.begin(); it != p.extra.end(); ++it) { if (!first) o += ", "; first = false; o += JStr(it->first) + ": " + it->second; }
         o += "}}";
         o += (i + 1 < parts.size()) ? ",\n" : "\n";
      }
      o += " ],\n \"violations\": [\n";
      for (size_t i = 0; i < violations.size(); i++) {
         const Violation & v = violations[i];
         o += "  {\"key\": " + JStr(v.key) + ", \"desc\": " + JStr(v.desc) + ", \"replay\": " + JStr(v.replay) + "}";
         o += (i + 1 < violations.size()) ? ",\n" : "\n";
      }
      o += " ],\n \"observations\": [";
      for (size_t i = 0; i < observations.size(); i++) { if (i) o += ", "; o += JStr(observations[i]); }
      o += "],\n \"infra_errors\": [";
      for (size_t i = 0; i < infra_errors.size(); i++) { if (i) o += ", "; o += JStr(infra_errors[i]); }
      o += Fmt("],\n \"wall_s\": %.3f\n}\n", NowS() - a.t0);
      if (a.out.empty()) { fputs(o.c_str(), stdout); }
      else {
         FILE * f = fopen(a.out.c_str(), "w"); if (!f) { perror(a.out.c_str()); return 3; }
         fputs(o.c_str(), f); fclose(f);
      }
      if (!infra_errors.empty()) return 3;
      return violations.empty() ? 0 : 1;
   }
};

// ---------------------------------------------------------------- tiny JSON reader for replay files (flat: strings, ints, arrays of ints/strings)
struct ReplayDoc {
   std::map<std::string, std::string> s;
   std::map<std::string, std::vector<long> > ints;
   std::map<std::string, std::vector<std::string> > strs;
   bool Load(const std::string & path)
   {
      FILE * f = fopen(path.c_str(), "r"); if (!f) return false;
      std::string t; char buf[65536]; size_t n; while ((n = fread(buf, 1, sizeof(buf), f)) > 0) t.append(buf, n); fclose(f);
      size_t i = 0;
      while (true) {
         size_t k0 = t.find('"', i); if (k0 == std::string::npos) break;
         std::string key; size_t k1 = ParseStr(t, k0, key);
         size_t c = t.find(':', k1); if (c == std::string::npos) break;
         size_t v = c + 1; while (v < t.size() && isspace((unsigned char)t[v])) v++;
         if (v >= t.size()) break;
         if (t[v] == '"') { std::string val; i = ParseStr(t, v, val); s[key] = val; }
         else if (t[v] == '[') {
            size_t e = v + 1; std::vector<long> iv; std::vector<std::string> sv;
            while (e < t.size() && t[e] != ']') {
               if (t[e] == '"') { std::string val; e = ParseStr(t, e, val); sv.push_back(val); }
               else if (t[e] == '-' || isdigit((unsigned char)t[e])) { char * end; iv.push_back(strtol(t.c_str() + e, &end, 10)); e = (size_t)(end - t.c_str()); }
               else e++;
            }
            ints[key] = iv; strs[key] = sv; i = e + 1;
         }
         else { size_t e = v; while (e < t.size() && t[e] != ',' && t[e] != '}' && t[e] != '\n') e++; s[key] = t.substr(v, e - v); i = e; }
      }
      return true;
   }
   static size_t ParseStr(const std::string & t, size_t q, std::string & out)
   {
      out.clear(); size_t i = q + 1;
      while (i < t.size() && t[i] != '"') {
         if (t[i] == '\\' && i + 1 < t.size()) {
            char c = t[i + 1];
            if (c == 'n') out += '\n'; else if (c == 't') out += '\t';
            else if (c == 'u' && i + 5 < t.size()) { out += (char)strtol(t.substr(i + 2, 4).c_str(), NULL, 16); i += 4; }
            else out += c;
            i += 2;
         } else out += t[i++];
      }
      return i + 1;
   }
   long Int(const std::string & k, long d = 0) const { std::map<std::string, std::string>::const_iterator it = s.find(k); return (it == s.end()) ? d : atol(it->second.c_str()); }
   std::string Str(const std::string & k) const { std::map<std::string, std::string>::const_iterator it = s.find(k); return (it == s.end()) ? "" : it->second; }
};

static inline std::string JIntArray(const std::vector<int> & v)
{
   std::string o = "["; for (size_t i = 0; i < v.size(); i++) { if (i) o += ","; o += Fmt("%d", v[i]); } return o + "]";
}
static inline std::string JStrArray(const std::vector<std::string> & v)
{
   std::string o = "["; for (size_t i = 0; i < v.size(); i++) { if (i) o += ", "; o += JStr(v[i]); } return o + "]";
}

// ---------------------------------------------------------------- fork-parallel map over [0,n): each worker handles indices i % W == w and streams
// variable-length records back through a pipe; the parent gathers them per worker.  fn runs in the child.
typedef std::function<void(size_t idx, std::string & recordOut)> ParFn;
struct ParRecord { size_t idx; std::string data; };

// Returns false if some worker died abnormally (the indices it had not reported are listed in `lost`).
static inline bool ParMap(size_t n, int workers, const ParFn & fn, std::vector<ParRecord> & out, std::vector<size_t> * lost = NULL, const std::function<bool()> & stop = std::function<bool()>())
{
   if (n == 0) return true;
   if ((size_t)workers > n) workers = (int)n;
   std::vector<int> fds(workers); std::vector<pid_t> pids(workers);
   fflush(stdout); fflush(stderr);
   for (int w = 0; w < workers; w++) {
      int p[2]; if (pipe(p) != 0) { perror("pipe"); exit(3); }
      pid_t pid = fork();
      if (pid < 0) { perror("fork"); exit(3); }
      if (pid == 0) {
         close(p[0]); for (int k = 0; k < w; k++) close(fds[k]);
         FILE * f = fdopen(p[1], "w");
         std::string rec;
         for (size_t i = (size_t)w; i < n; i += (size_t)workers) {
            if (stop && stop()) break;
            rec.clear(); fn(i, rec);
            uint64_t hdr[2] = { (uint64_t)i, (uint64_t)rec.size() };
            fwrite(hdr, sizeof(hdr), 1, f); if (!rec.empty()) fwrite(rec.data(), 1, rec.size(), f);
         }
         uint64_t fin[2] = { ~(uint64_t)0, 0 }; fwrite(fin, sizeof(fin), 1, f);
         fflush(f); _exit(0);
      }
      close(p[1]); fds[w] = p[0]; pids[w] = pid;
   }
   bool ok = true;
   std::vector<std::string> bufs(workers); std::vector<bool> open(workers, true), finished(workers, false);
   int nopen = workers;
   while (nopen > 0) {
      std::vector<struct pollfd> pf; std::vector<int> who;
      for (int w = 0; w < workers; w++) if (open[w]) { struct pollfd q; q.fd = fds[w]; q.events = POLLIN; q.revents = 0; pf.push_back(q); who.push_back(w); }
      if (poll(&pf[0], pf.size(), -1) < 0) { if (errno == EINTR) continue; perror("poll"); exit(3); }
      for (size_t k = 0; k < pf.size(); k++) if (pf[k].revents) {
         int w = who[k]; char tmp[1 << 16]; ssize_t r = read(fds[w], tmp, sizeof(tmp));
         if (r > 0) {
            bufs[w].append(tmp, (size_t)r);
            size_t off = 0;
            while (bufs[w].size() - off >= 16) {
               uint64_t hdr[2]; memcpy(hdr, bufs[w].data() + off, 16);
               if (hdr[0] == ~(uint64_t)0) { finished[w] = true; off += 16; break; }
               if (bufs[w].size() - off - 16 < hdr[1]) break;
               ParRecord pr; pr.idx = (size_t)hdr[0]; pr.data.assign(bufs[w].data() + off + 16, (size_t)hdr[1]); out.push_back(pr);
               off += 16 + (size_t)hdr[1];
            }
            bufs[w].erase(0, off);
         } else if (r == 0 || (r < 0 && errno != EINTR && errno != EAGAIN)) { close(fds[w]); open[w] = false; nopen--; }
      }
   }
   std::vector<bool> got; if (lost) got.assign(n, false);
   if (lost) for (size_t i = 0; i < out.size(); i++) got[out[i].idx] = true;
   for (int w = 0; w < workers; w++) {
      int st = 0; waitpid(pids[w], &st, 0);
      if (!finished[w] || !WIFEXITED(st) || WEXITSTATUS(st) != 0) {
         ok = false;
         if (lost) for (size_t i = (size_t)w; i < n; i += (size_t)workers) if (!got[i]) lost->push_back(i);
      }
   }
   std::sort(out.begin(), out.end(), [](const ParRecord & x, const ParRecord & y) { return x.idx < y.idx; });
   return ok;
}

}  // namespace verif

#endif
