// MUTX -- exhaustive enumeration of a finite, stated set of cases (inputs / environment-answer sequences with <=k deviations)
// with oracles that survive the death of the code under test.
//
//   mutx::Runner R(args, result, "part-name");
//   R.Run(numCases, [&](size_t i, mutx::Case & c) { ... run case i on the real code; c.Fail(key,msg) on a wrong answer;
//                                                    c.Outcome(str) to count distinct observable outcomes; c.Note(..) ... },
//                   [&](size_t i) -> std::string { return JSON description of case i (for replay files / samples) });
//
// Cases run in forked workers (strided).  Before each case the worker publishes the case index in shared memory, so when a
// worker dies -- sanitizer report (exit 87 ASan / 88 UBSan, see engines/common/pin.cpp), abort (MCRASH), SIGSEGV (stack
// exhaustion), CPU-time watchdog -- the parent attributes the death to that case, re-runs the case ALONE (twice; for a
// watchdog death with a 10x budget) to confirm it is deterministic, records a violation with the captured sanitizer
// summary, and restarts a worker for the rest of the stride.  Nothing is sampled: every index in [0,n) is run once.
#ifndef VERIF_MUTX_H
#define VERIF_MUTX_H

#include "engines/common/verif.h"
#include <sys/resource.h>

extern "C" void __sanitizer_set_death_callback(void (*)(void));

namespace mutx {

// ---------------------------------------------------------------- allocation meter (requested bytes, incl. failed requests)
struct Meter { volatile long long cur, peak, total, biggest; volatile int on; };
extern Meter g_meter;   // defined in engines/common/meter.cpp (which also replaces operator new / hooks malloc)
static inline void MeterBegin() { g_meter.cur = 0; g_meter.peak = 0; g_meter.total = 0; g_meter.biggest = 0; g_meter.on = 1; }
static inline void MeterEnd() { g_meter.on = 0; }

struct Case {
   bool failed; std::string key, msg, outcome, note;
   Case() : failed(false) {}
   void Fail(const std::string & k, const std::string & m) { if (!failed) { failed = true; key = k; msg = m; } }
   void Outcome(const std::string & o) { outcome = o; }
   void Note(const std::string & n) { note = n; }
};

typedef std::function<void(size_t, Case &)> CaseFn;
typedef std::function<std::string(size_t)> DescFn;

struct Shared { volatile uint64_t current[64]; };

class Runner {
public:
   Runner(const verif::Args & a, verif::Result & r, const std::string & part) : _args(a), _res(r), _part(part), _cpuLimitS(2.0), _maxPerKey(3), _haveDeadline(false), _absDeadline(0) {}
   void SetCpuLimit(double s) { _cpuLimitS = s; }     // per-case CPU budget (ITIMER_VIRTUAL); must be >= 1000x a typical case
   void SetDeadline(double abs) { _haveDeadline = true; _absDeadline = abs; }
   void SetMaxPerKey(int n) { _maxPerKey = n; }

   // returns the Part it appended (caller may refine rule/extra)
   verif::Part & Run(size_t n, const CaseFn & fn, const DescFn & desc)
   {
      const double t0 = verif::NowS();
      int W = _args.workers; if (W > 64) W = 64; if ((size_t)W > n) W = (int)(n ? n : 1);
      Shared * sh = (Shared *)mmap(NULL, sizeof(Shared), PROT_READ | PROT_WRITE, MAP_SHARED | MAP_ANONYMOUS, -1, 0);
      std::vector<pid_t> pids(W, 0); std::vector<int> fds(W, -1); std::vector<std::string> bufs(W); std::vector<std::string> errfiles(W);
      std::vector<size_t> nextStart(W); std::vector<bool> done(W, false); std::vector<std::set<size_t> > dead(W);
      for (int w = 0; w < W; w++) { nextStart[w] = (size_t)w; errfiles[w] = verif::Fmt("/tmp/mutx_%d_%d.err", (int)getpid(), w); }
      uint64_t executed = 0, failures = 0, deaths = 0; bool complete = true;
      std::set<verif::Hash128> outcomes; std::map<std::string, int> perKey; std::map<std::string, uint64_t> keyCounts;
      std::vector<std::string> notes; std::vector<size_t> high(W, 0); std::vector<bool> haveHigh(W, false);
      auto spawn = [&](int w) {
         int p[2]; if (pipe(p) != 0) { perror("pipe"); exit(3); }
         fflush(stdout); fflush(stderr);
         pid_t pid = fork();
         if (pid < 0) { perror("fork"); exit(3); }
         if (pid == 0) {
            close(p[0]);
            int ef = open(errfiles[w].c_str(), O_WRONLY | O_CREAT | O_TRUNC, 0644); if (ef >= 0) { dup2(ef, 2); close(ef); }
            FILE * f = fdopen(p[1], "w");
            int sinceFlush = 0;
            for (size_t i = nextStart[w]; i < n; i += (size_t)W) {
               if (_haveDeadline && verif::NowS() > _absDeadline) break;
               if (dead[w].count(i)) continue;   // known fatal case of this stride: already recorded by the parent
               sh->current[w] = (uint64_t)i;
               ArmWatchdog(_cpuLimitS);
               Case c; fn(i, c);
               ArmWatchdog(0);
               WriteRec(f, i, c);
               if (++sinceFlush >= 32) { fflush(f); sinceFlush = 0; }
            }
            uint64_t fin[2] = { ~(uint64_t)0, 0 }; fwrite(fin, sizeof(fin), 1, f); fflush(f); _exit(0);
         }
         close(p[1]); pids[w] = pid; fds[w] = p[0];
      };
      for (int w = 0; w < W; w++) { sh->current[w] = ~(uint64_t)0; spawn(w); }
      int alive = W;
      std::vector<bool> finished(W, false);
      while (alive > 0) {
         std::vector<struct pollfd> pf; std::vector<int> who;
         for (int w = 0; w < W; w++) if (fds[w] >= 0) { struct pollfd q; q.fd = fds[w]; q.events = POLLIN; q.revents = 0; pf.push_back(q); who.push_back(w); }
         if (poll(&pf[0], pf.size(), -1) < 0) { if (errno == EINTR) continue; perror("poll"); exit(3); }
         for (size_t k = 0; k < pf.size(); k++) if (pf[k].revents) {
            int w = who[k]; char tmp[1 << 16]; ssize_t r = read(fds[w], tmp, sizeof(tmp));
            if (r > 0) {
               bufs[w].append(tmp, (size_t)r); size_t off = 0;
               while (bufs[w].size() - off >= 16) {
                  uint64_t hdr[2]; memcpy(hdr, bufs[w].data() + off, 16);
                  if (hdr[0] == ~(uint64_t)0) { finished[w] = true; off += 16; break; }
                  if (bufs[w].size() - off - 16 < hdr[1]) break;
                  std::string rec(bufs[w].data() + off + 16, (size_t)hdr[1]); off += 16 + (size_t)hdr[1];
                  if (haveHigh[w] && (size_t)hdr[0] <= high[w]) continue;   // recomputed after a restart (indices of one stride are monotonic)
                  haveHigh[w] = true; high[w] = (size_t)hdr[0];
                  executed++; nextStart[w] = (size_t)hdr[0] + (size_t)W;
                  Absorb((size_t)hdr[0], rec, desc, outcomes, perKey, keyCounts, failures, notes);
               }
               bufs[w].erase(0, off);
            } else if (r == 0 || (r < 0 && errno != EINTR && errno != EAGAIN)) {
               close(fds[w]); fds[w] = -1; int st = 0; waitpid(pids[w], &st, 0);
               if (finished[w] && WIFEXITED(st) && WEXITSTATUS(st) == 0) { alive--; continue; }   // completeness is decided at the end by executed == n
               // ---- the worker died inside case `cur`
               size_t cur = (size_t)sh->current[w];
               if (sh->current[w] == ~(uint64_t)0 || cur >= n) { _res.infra_errors.push_back(_part + ": worker died outside any case"); alive--; continue; }
               deaths++; executed++; dead[w].insert(cur);
               std::string how = DescribeDeath(st), summary = SanitizerSummary(errfiles[w]);
               // confirm alone, twice, with a 10x CPU budget (so a watchdog death is a hang, not a slow machine) -- unless this exact
               // class of death has already been confirmed _maxPerKey times in this part (then it only adds to that class's count)
               int same = 0; std::string how2; std::string prelim = "fatal:" + DeathKey(st, summary);
               if (perKey[prelim] >= _maxPerKey) same = 2;
               else for (int rep = 0; rep < 2; rep++) { int st2 = RunAlone(cur, fn, _cpuLimitS * 10, errfiles[w] + ".alone"); how2 = DescribeDeath(st2); if (!(WIFEXITED(st2) && WEXITSTATUS(st2) == 0)) { same++; if (rep == 1) { st = st2; std::string s2 = SanitizerSummary(errfiles[w] + ".alone"); if (!s2.empty()) summary = s2; how = how2; } } }
               if (same == 2) {
                  std::string key = "fatal:" + DeathKey(st, summary);
                  keyCounts[key]++; failures++;
                  if (perKey[key]++ < _maxPerKey) {
                     std::string body = "{\"harness\": " + verif::JStr(_res.harness) + ", \"part\": " + verif::JStr(_part) + verif::Fmt(", \"index\": %llu, \"case\": ", (unsigned long long)cur) + desc(cur) + ", \"observed\": " + verif::JStr(how + " " + summary) + "}";
                     _res.AddViolation(key, _part + verif::Fmt(": case %llu: ", (unsigned long long)cur) + how + " " + summary, _res.WriteReplay(_args, _part, body));
                  }
               } else if (same == 0) {
                  notes.push_back(verif::Fmt("case %llu died once in a batch (%s) but passed twice alone: not reported", (unsigned long long)cur, how.c_str()));
               } else _res.infra_errors.push_back(_part + verif::Fmt(": case %llu is non-deterministic (died in %d of 2 isolated re-runs: %s)", (unsigned long long)cur, same, how2.c_str()));
               sh->current[w] = ~(uint64_t)0; finished[w] = false; bufs[w].clear();   // restart after the last record actually received (unflushed results are recomputed)
               if (nextStart[w] < n && !(_haveDeadline && verif::NowS() > _absDeadline)) spawn(w); else { alive--; if (nextStart[w] < n) complete = false; }
            }
         }
      }
      for (int w = 0; w < W; w++) { unlink(errfiles[w].c_str()); unlink((errfiles[w] + ".alone").c_str()); }
      munmap(sh, sizeof(Shared));
      if (executed < n) complete = false;
      verif::Part p; p.name = _part; p.states = outcomes.size(); p.transitions = executed; p.evaluations = executed; p.distinct_outcomes = outcomes.size();
      p.exhaustive = complete; if (!complete) p.cap = verif::Fmt("deadline: %llu of %llu cases run", (unsigned long long)executed, (unsigned long long)n);
      p.wall_s = verif::NowS() - t0;
      for (int k = 0; k < 3 && n > 0; k++) { size_t idx = (size_t)(((uint64_t)_args.seed * 7919u + (uint64_t)k * 104729u + (uint64_t)k * (n / 3)) % n); p.samples.push_back(desc(idx)); }
      std::string kc = "{"; bool first = true; for (std::map<std::string, uint64_t>::iterator it = keyCounts.begin(); it != keyCounts.end(); ++it) { if (!first) kc += ", "; first = false; kc += verif::JStr(it->first) + verif::Fmt(": %llu", (unsigned long long)it->second); } kc += "}";
      p.extra["failing_cases_by_key"] = kc;
      p.extra["cases"] = verif::Fmt("%llu", (unsigned long long)n);
      p.extra["process_deaths"] = verif::Fmt("%llu", (unsigned long long)deaths);
      if (!notes.empty()) { std::vector<std::string> nn(notes.begin(), notes.begin() + std::min(notes.size(), (size_t)10)); p.extra["notes"] = verif::JStrArray(nn); }
      _res.parts.push_back(p);
      return _res.parts.back();
   }

   // --replay: run one case in this process (so a debugger / sanitizer shows the failure directly)
   int ReplayIndex(size_t i, const CaseFn & fn, const DescFn & desc)
   {
      printf("replay part=%s case %llu: %s\n", _part.c_str(), (unsigned long long)i, desc(i).c_str()); fflush(stdout);
      ArmWatchdog(_cpuLimitS * 10); Case c; fn(i, c); ArmWatchdog(0);
      printf("result: %s %s %s\n", c.failed ? "VIOLATION" : "OK", c.key.c_str(), c.msg.c_str());
      return c.failed ? 1 : 0;
   }

private:
   static void ArmWatchdog(double s)
   {
      struct itimerval it; memset(&it, 0, sizeof(it));
      it.it_value.tv_sec = (long)s; it.it_value.tv_usec = (long)((s - (double)(long)s) * 1e6);
      signal(SIGVTALRM, SIG_DFL);  // default action: terminate => parent sees WTERMSIG==SIGVTALRM
      setitimer(ITIMER_VIRTUAL, &it, NULL);
   }
   static void WriteRec(FILE * f, size_t i, const Case & c)
   {
      std::string rec; rec.push_back(c.failed ? 1 : 0);
      rec += c.key; rec.push_back('\0'); rec += c.msg; rec.push_back('\0'); rec += c.outcome; rec.push_back('\0'); rec += c.note; rec.push_back('\0');
      uint64_t hdr[2] = { (uint64_t)i, (uint64_t)rec.size() }; fwrite(hdr, sizeof(hdr), 1, f); fwrite(rec.data(), 1, rec.size(), f);
   }
   void Absorb(size_t idx, const std::string & rec, const DescFn & desc, std::set<verif::Hash128> & outcomes, std::map<std::string, int> & perKey, std::map<std::string, uint64_t> & keyCounts, uint64_t & failures, std::vector<std::string> & notes)
   {
      bool failed = rec[0] != 0; const char * p = rec.c_str() + 1;
      std::string key = p; p += key.size() + 1; std::string msg = p; p += msg.size() + 1; std::string outcome = p; p += outcome.size() + 1; std::string note = p;
      outcomes.insert(verif::HashStr(outcome));
      if (!note.empty() && notes.size() < 50) notes.push_back(note);
      if (failed) {
         failures++; keyCounts[key]++;
         if (perKey[key]++ < _maxPerKey) {
            std::string body = "{\"harness\": " + verif::JStr(_res.harness) + ", \"part\": " + verif::JStr(_part) + verif::Fmt(", \"index\": %llu, \"case\": ", (unsigned long long)idx) + desc(idx) + ", \"observed\": " + verif::JStr(msg) + "}";
            _res.AddViolation(key, _part + verif::Fmt(": case %llu: ", (unsigned long long)idx) + msg, _res.WriteReplay(_args, _part, body));
         }
      }
   }
   int RunAlone(size_t i, const CaseFn & fn, double cpu, const std::string & errfile)
   {
      fflush(stdout); fflush(stderr);
      pid_t pid = fork();
      if (pid == 0) { int ef = open(errfile.c_str(), O_WRONLY | O_CREAT | O_TRUNC, 0644); if (ef >= 0) { dup2(ef, 2); close(ef); } ArmWatchdog(cpu); Case c; fn(i, c); _exit(0); }
      int st = 0; waitpid(pid, &st, 0); return st;
   }
   static std::string DescribeDeath(int st)
   {
      if (WIFSIGNALED(st)) { int s = WTERMSIG(st); return verif::Fmt("process killed by signal %d%s", s, s == SIGVTALRM ? " (CPU-time watchdog: hang)" : s == SIGABRT ? " (abort)" : s == SIGSEGV ? " (SIGSEGV)" : ""); }
      if (WIFEXITED(st)) { int e = WEXITSTATUS(st); return verif::Fmt("process exited with code %d%s", e, e == 87 ? " (AddressSanitizer)" : e == 88 ? " (UndefinedBehaviorSanitizer)" : ""); }
      return "process ended abnormally";
   }
   static std::string SanitizerSummary(const std::string & file)
   {
      FILE * f = fopen(file.c_str(), "r"); if (!f) return "";
      std::string sum, first, frames, rw; char line[2048]; int nframes = 0;
      while (fgets(line, sizeof(line), f)) {
         std::string l = line; while (!l.empty() && (l[l.size() - 1] == '\n' || l[l.size() - 1] == '\r')) l.erase(l.size() - 1);
         if (l.find("SUMMARY:") != std::string::npos && sum.empty()) sum = l;
         if (rw.empty() && (l.find("READ of size") == 0 || l.find("WRITE of size") == 0)) rw = l.substr(0, l.find(" at "));
         if (first.empty() && (l.find("ERROR: AddressSanitizer") != std::string::npos || l.find("runtime error:") != std::string::npos || l.find("ASSERTION") != std::string::npos || l.find("MCRASH") != std::string::npos || l.find("CRASH") != std::string::npos)) first = l;
         if (nframes < 4 && l.find("    #") == 0) { size_t in = l.find(" in "); if (in != std::string::npos) { std::string fn = l.substr(in + 4); size_t sp = fn.find(' '); if (sp != std::string::npos) fn = fn.substr(0, sp); size_t par = fn.find('('); if (par != std::string::npos) fn = fn.substr(0, par); if (fn.find("__interceptor") == std::string::npos && fn.find("__asan") == std::string::npos && fn.find("__sanitizer") == std::string::npos) { frames += (nframes ? " < " : "") + fn; nframes++; } } }
      }
      fclose(f);
      std::string out = first.empty() ? sum : first; if (out.size() > 300) out = out.substr(0, 300);
      if (!rw.empty()) out += " " + rw;
      if (!frames.empty()) out += " [" + frames + "]";
      return out;
   }
   // stable classification of a death: signal/exit kind + sanitizer error kind + innermost non-runtime frame
   static std::string DeathKey(int st, const std::string & summary)
   {
      std::string k;
      if (WIFSIGNALED(st)) { int s = WTERMSIG(st); k = (s == SIGVTALRM) ? "hang" : (s == SIGABRT) ? "abort" : (s == SIGSEGV) ? "segv" : verif::Fmt("sig%d", s); }
      else if (WIFEXITED(st)) { int e = WEXITSTATUS(st); k = (e == 87) ? "asan" : (e == 88) ? "ubsan" : verif::Fmt("exit%d", e); }
      static const char * kinds[] = {"heap-buffer-overflow", "stack-buffer-overflow", "global-buffer-overflow", "heap-use-after-free", "stack-overflow", "SEGV", "allocation-size-too-big", "out-of-memory", "negative-size-param", "memcpy-param-overlap", "double-free", "attempting free", "insufficient space", "load of value", "signed integer overflow", "shift exponent", "null pointer", "misaligned", "out of bounds", "not a valid value", "downcast", "member call", "division by zero", "alloc-dealloc-mismatch", "calloc-overflow", "bad-free", NULL};
      for (int i = 0; kinds[i]; i++) if (summary.find(kinds[i]) != std::string::npos) { k += std::string(":") + kinds[i]; break; }
      if (summary.find(" READ ") != std::string::npos || summary.find("READ of size") != std::string::npos) k += ":read"; else if (summary.find("WRITE of size") != std::string::npos) k += ":write";
      size_t b = summary.rfind('['); if (b != std::string::npos) { std::string fr = summary.substr(b + 1); size_t e = fr.find_first_of(" ]"); if (e != std::string::npos) fr = fr.substr(0, e); k += ":" + fr; }
      return k;
   }

   const verif::Args & _args; verif::Result & _res; std::string _part; double _cpuLimitS; int _maxPerKey; bool _haveDeadline; double _absDeadline;
};

}  // namespace mutx

#endif
