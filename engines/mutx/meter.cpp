// Allocation meter (opt-in: "// VBUILD: libs=meter").  Counts bytes REQUESTED between MeterBegin()/MeterEnd(), including
// requests that fail, so that a parser asking for gigabytes because of a declared count is seen even when the
// allocation returns NULL.  operator new/delete are replaced by malloc/free wrappers (ASan still tracks the blocks);
// plain malloc/realloc calls are seen through the sanitizer's malloc hook.
#include <stdlib.h>
#include <new>
#include "engines/mutx/mutx.h"

namespace mutx { Meter g_meter = {0, 0, 0, 0, 0}; }

static __thread int t_inNew = 0;
static inline void Count(size_t n)
{
   mutx::Meter & m = mutx::g_meter;
   if (!m.on) return;
   m.cur += (long long)n; m.total += (long long)n; if (m.cur > m.peak) m.peak = m.cur; if ((long long)n > m.biggest) m.biggest = (long long)n;
}
extern "C" size_t __sanitizer_get_allocated_size(const volatile void *) __attribute__((weak));
extern "C" void __sanitizer_malloc_hook(const volatile void * p, size_t n) { (void)p; if (!t_inNew) Count(n); }
extern "C" void __sanitizer_free_hook(const volatile void * p)
{
   mutx::Meter & m = mutx::g_meter;
   if (m.on && p && __sanitizer_get_allocated_size) { long long n = (long long)__sanitizer_get_allocated_size(p); m.cur -= n; if (m.cur < 0) m.cur = 0; }
}
static void * DoNew(size_t n) { Count(n); t_inNew++; void * p = malloc(n ? n : 1); t_inNew--; return p; }
void * operator new(size_t n) { void * p = DoNew(n); if (!p) abort(); return p; }
void * operator new[](size_t n) { void * p = DoNew(n); if (!p) abort(); return p; }
void * operator new(size_t n, const std::nothrow_t &) noexcept { return DoNew(n); }
void * operator new[](size_t n, const std::nothrow_t &) noexcept { return DoNew(n); }
void operator delete(void * p) noexcept { free(p); }
void operator delete[](void * p) noexcept { free(p); }
void operator delete(void * p, size_t) noexcept { free(p); }
void operator delete[](void * p, size_t) noexcept { free(p); }
void operator delete(void * p, const std::nothrow_t &) noexcept { free(p); }
void operator delete[](void * p, const std::nothrow_t &) noexcept { free(p); }
