// SEQX -- explicit-state breadth-first exploration of operation histories on *real* objects.
//
// State = the operation history that reaches it.  Live objects are never copied: to take a transition the whole
// history is replayed on a fresh World (real muscle objects + reference model advanced in lock-step) and the new
// op is applied; the oracle is evaluated by the World on every applied op.  States are deduplicated on a
// 128-bit hash of a per-harness canonical form.  Level-synchronous BFS; each level's frontier is sharded over
// forked worker processes (forked from a parent that holds no live muscle objects).
//
// A model type M must provide:
//    int  NumStarts() const;                         // start states (prefixes) to explore from
//    int  NumOps() const;                            // size of the alphabet
//    std::string OpName(int op) const;
//    std::string StartName(int s) const;
//    typedef ... World;                              // default-constructible holder of fresh real objects + reference
//    void Init(World & w, int start) const;          // build start state `start`
//    int  Apply(World & w, int op, std::string & msg, std::string & key) const;
//          returns SEQX_OK, SEQX_DISABLED (op not enabled here; world may be dirty, it is discarded),
//                  SEQX_VIOLATION (msg/key describe it; state is not expanded further)
//    void Canon(const World & w, std::string & out) const;
//    (optional) outcome string via w: std::string Outcome(const World&) const  -- distinct observable outcomes counter
#ifndef VERIF_SEQX_H
#define VERIF_SEQX_H

#include "engines/common/verif.h"
#include <unordered_set>
#include <unordered_map>

namespace seqx {

enum { SEQX_OK = 0, SEQX_DISABLED = 1, SEQX_VIOLATION = 2 };

struct Node { int32_t parent; int32_t op; };  // parent<0 => start state index = -1-parent

struct Stats {
   uint64_t states, transitions, disabled, violations, replayChecks;
   int depthCompleted; bool exhaustive; std::string cap;
   uint64_t distinctOutcomes;
   std::vector<uint64_t> statesPerDepth;
   Stats() : states(0), transitions(0), disabled(0), violations(0), replayChecks(0), depthCompleted(0), exhaustive(true), distinctOutcomes(0) {}
};

template <class M> class Explorer {
public:
   Explorer(const M & m, const verif::Args & args, verif::Result & res, const std::string & partName)
      : _m(m), _args(args), _res(res), _part(partName), _maxStates(0), _maxViolationsPerKey(3), _timeFrac(1.0) {}

   void SetMaxStates(uint64_t n) { _maxStates = n; }
   void SetCpuLimit(double s) { _cpuLimitS = s; }   // per transition (history replay + one op); default 10 s
   static void ArmWatchdog(double s)
   {
      struct itimerval it; memset(&it, 0, sizeof(it)); it.it_value.tv_sec = (long)s; it.it_value.tv_usec = (long)((s - (double)(long)s) * 1e6);
      signal(SIGVTALRM, SIG_DFL); setitimer(ITIMER_VIRTUAL, &it, NULL);
   }
   void SetDeadline(double absTime) { _absDeadline = absTime; _haveDeadline = true; }

   // rebuild the history of node i (list of ops, start index returned)
   int History(int32_t i, std::vector<int> & ops) const
   {
      ops.clear();
      while (_nodes[i].parent >= 0) { ops.push_back(_nodes[i].op); i = _nodes[i].parent; }
      std::reverse(ops.begin(), ops.end());
      return -1 - _nodes[i].parent;
   }

   // Replays start+ops on a fresh world; returns status of the LAST op (earlier ops must be OK, else infra error (-1)).
   int Replay(typename M::World & w, int start, const std::vector<int> & ops, std::string & msg, std::string & key) const
   {
      _m.Init(w, start);
      int st = SEQX_OK;
      for (size_t k = 0; k < ops.size(); k++) {
         msg.clear(); key.clear();
         st = _m.Apply(w, ops[k], msg, key);
         if (st != SEQX_OK && k + 1 < ops.size()) { msg = "prefix op " + _m.OpName(ops[k]) + " not OK on replay: " + msg; return -1; }
      }
      return st;
   }

   std::string HistoryJson(int start, const std::vector<int> & ops) const
   {
      std::vector<std::string> names; for (size_t i = 0; i < ops.size(); i++) names.push_back(_m.OpName(ops[i]));
      return "{\"harness\": " + verif::JStr(_res.harness) + ", \"part\": " + verif::JStr(_part) + verif::Fmt(", \"start\": %d, \"start_name\": ", start) + verif::JStr(_m.StartName(start))
           + ", \"ops\": " + verif::JIntArray(ops) + ", \"op_names\": " + verif::JStrArray(names);
   }

   Stats Run(int maxDepth)
   {
      Stats S; const double t0 = verif::NowS();
      std::unordered_set<verif::Hash128, verif::Hash128Hasher> seen;
      std::unordered_set<verif::Hash128, verif::Hash128Hasher> outcomes;
      std::vector<int32_t> frontier;
      std::map<std::string, int> violPerKey;
      // ---- start states (evaluated in a forked child so that the parent stays free of live muscle state)
      {
         std::vector<verif::ParRecord> recs;
         verif::ParMap((size_t)_m.NumStarts(), 1, [&](size_t i, std::string & rec) {
            typename M::World w; _m.Init(w, (int)i); std::string c; _m.Canon(w, c); verif::Hash128 h = verif::HashStr(c); rec.assign((const char *)&h, sizeof(h));
         }, recs);
         for (size_t i = 0; i < recs.size(); i++) {
            verif::Hash128 h; memcpy(&h, recs[i].data.data(), sizeof(h));
            if (seen.insert(h).second) { Node n; n.parent = -1 - (int32_t)recs[i].idx; n.op = -1; _nodes.push_back(n); frontier.push_back((int32_t)_nodes.size() - 1); }
         }
         if ((int)recs.size() != _m.NumStarts()) _res.infra_errors.push_back(_part + ": a start state could not be built");
      }
      S.statesPerDepth.push_back(frontier.size());
      const int nops = _m.NumOps();
      for (int depth = 1; depth <= maxDepth && !frontier.empty(); depth++) {
         if (_haveDeadline && verif::NowS() > _absDeadline) { S.exhaustive = false; S.cap = verif::Fmt("deadline before depth %d", depth); break; }
         // record layout per transition: int32 opIdx, int32 status, Hash128 canon, Hash128 outcome [, msg\0key\0 for violations/infra]
         std::vector<verif::ParRecord> recs; std::vector<size_t> lost;
         const std::vector<int32_t> & F = frontier;
         const double absDl = _absDeadline; const bool haveDl = _haveDeadline;
         bool ok = verif::ParMap(F.size(), _args.workers, [&](size_t fi, std::string & rec) {
            std::vector<int> ops; int start = History(F[fi], ops);
            ops.push_back(0);
            for (int op = 0; op < nops; op++) {
               ops.back() = op;
               std::string msg, key;
               int st;
               ArmWatchdog(_cpuLimitS);   // CPU-time limit per transition: an operation that never returns kills this worker and is attributed below
               verif::Hash128 h = {0, 0}, oh = {0, 0};
               {
                  typename M::World w;
                  st = Replay(w, start, ops, msg, key);
                  if (st == SEQX_OK) { std::string c; _m.Canon(w, c); h = verif::HashStr(c); std::string o; _m.Outcome(w, o); oh = verif::HashStr(o); }
               }
               if (st == SEQX_DISABLED) { int32_t hdr[2] = { op, SEQX_DISABLED }; rec.append((const char *)hdr, 8); continue; }
               if (st == SEQX_OK && (((fi * (size_t)nops + (size_t)op) & 63) == 0)) {
                  // replay determinism: the same history on another fresh world must give the same canonical form
                  typename M::World w2; std::string m2, k2; int st2 = Replay(w2, start, ops, m2, k2);
                  std::string c2; if (st2 == SEQX_OK) _m.Canon(w2, c2);
                  if (st2 != SEQX_OK || !(verif::HashStr(c2) == h)) { st = -1; msg = "non-deterministic replay (canonical form differs between two replays of the same history)"; }
                  else { int32_t hdr[2] = { op, 100 }; rec.append((const char *)hdr, 8); }  // 100 = replay check passed marker
               }
               int32_t hdr[2] = { op, st }; rec.append((const char *)hdr, 8);
               if (st == SEQX_OK) { rec.append((const char *)&h, sizeof(h)); rec.append((const char *)&oh, sizeof(oh)); }
               else { rec.append(msg); rec.push_back('\0'); rec.append(key); rec.push_back('\0'); }
            }
         }, recs, &lost, [haveDl, absDl]() { return haveDl && verif::NowS() > absDl; });
         bool levelComplete = ok && recs.size() == F.size();
         if (!ok && !lost.empty()) {
            // a worker died: the history it was processing crashed the process (sanitizer report, abort, ...).  Find the culprit(s)
            // by re-running each lost frontier entry op by op in its own child.
            for (size_t li = 0; li < lost.size() && li < 64; li++) {
               std::vector<int> ops; int start = History(F[lost[li]], ops); ops.push_back(0);
               for (int op = 0; op < nops; op++) {
                  ops.back() = op; fflush(stdout);
                  pid_t pid = fork();
                  if (pid == 0) { int dn = open("/dev/null", O_WRONLY); if (dn >= 0) { dup2(dn, 2); } ArmWatchdog(_cpuLimitS * 4); typename M::World w; std::string m, k; Replay(w, start, ops, m, k); _exit(0); }
                  int st = 0; waitpid(pid, &st, 0);
                  if (!(WIFEXITED(st) && WEXITSTATUS(st) == 0)) {
                     std::string what = WIFSIGNALED(st) ? verif::Fmt("killed by signal %d%s", WTERMSIG(st), WTERMSIG(st) == SIGVTALRM ? " (CPU-time watchdog: the operation does not return)" : "") : verif::Fmt("exit code %d", WEXITSTATUS(st));
                     std::string key = "fatal:" + std::string(WIFSIGNALED(st) ? verif::Fmt("sig%d", WTERMSIG(st)) : verif::Fmt("exit%d", WEXITSTATUS(st))) + ":" + _m.OpName(op);
                     if (violPerKey[key]++ < _maxViolationsPerKey) {
                        std::string body = HistoryJson(start, ops) + ", \"observed\": " + verif::JStr("process " + what + " (87=ASan, 88=UBSan, 6=abort, 11=SEGV)") + "}";
                        _res.AddViolation(key, _part + ": history ends in process death (" + what + ")", _res.WriteReplay(_args, _part, body));
                     }
                     S.violations++;
                  }
               }
            }
            S.exhaustive = false; S.cap = verif::Fmt("worker death at depth %d", depth);
         }
         std::vector<int32_t> next;
         for (size_t r = 0; r < recs.size(); r++) {
            const std::string & d = recs[r].data; size_t off = 0;
            while (off + 8 <= d.size()) {
               int32_t hdr[2]; memcpy(hdr, d.data() + off, 8); off += 8;
               if (hdr[1] == SEQX_DISABLED) { S.disabled++; continue; }
               if (hdr[1] == 100) { S.replayChecks++; continue; }
               S.transitions++;
               if (hdr[1] == SEQX_OK) {
                  verif::Hash128 h, oh; memcpy(&h, d.data() + off, sizeof(h)); off += sizeof(h); memcpy(&oh, d.data() + off, sizeof(oh)); off += sizeof(oh);
                  outcomes.insert(oh);
                  if (seen.insert(h).second) { Node n; n.parent = F[recs[r].idx]; n.op = hdr[0]; _nodes.push_back(n); next.push_back((int32_t)_nodes.size() - 1); }
               } else {
                  std::string msg = d.c_str() + off; off += msg.size() + 1; std::string key = d.c_str() + off; off += key.size() + 1;
                  std::vector<int> ops; int start = History(F[recs[r].idx], ops); ops.push_back(hdr[0]);
                  if (hdr[1] == -1) { _res.infra_errors.push_back(_part + ": " + msg + " history=" + verif::JIntArray(ops)); continue; }
                  S.violations++;
                  if (violPerKey[key]++ < _maxViolationsPerKey) {
                     std::string body = HistoryJson(start, ops) + ", \"observed\": " + verif::JStr(msg) + "}";
                     _res.AddViolation(key, _part + ": " + msg, _res.WriteReplay(_args, _part, body));
                  }
               }
            }
         }
         if (!levelComplete && S.exhaustive) { S.exhaustive = false; S.cap = verif::Fmt("deadline during depth %d", depth); }
         if (levelComplete) S.depthCompleted = depth;
         S.statesPerDepth.push_back(next.size());
         frontier.swap(next);
         if (!levelComplete) break;
         if (_maxStates && seen.size() > _maxStates && depth < maxDepth) { S.exhaustive = false; S.cap = verif::Fmt("state cap %llu reached after depth %d", (unsigned long long)_maxStates, depth); break; }
      }
      S.states = seen.size(); S.distinctOutcomes = outcomes.size();
      // samples: a few deepest histories
      verif::Part p; p.name = _part; p.states = S.states; p.transitions = S.transitions; p.evaluations = S.transitions; p.distinct_outcomes = S.distinctOutcomes;
      p.bound_completed = S.depthCompleted; p.exhaustive = S.exhaustive; p.cap = S.cap; p.wall_s = verif::NowS() - t0;
      size_t ns = _nodes.size();
      for (int k = 0; k < 3 && ns > 0; k++) {
         size_t idx = (ns - 1) - (size_t)(((uint64_t)_args.seed * 7919u + (uint64_t)k * 104729u) % ns);
         std::vector<int> ops; int start = History((int32_t)idx, ops);
         p.samples.push_back(HistoryJson(start, ops) + "}");
      }
      std::string spd = "["; for (size_t i = 0; i < S.statesPerDepth.size(); i++) { if (i) spd += ","; spd += verif::Fmt("%llu", (unsigned long long)S.statesPerDepth[i]); } spd += "]";
      p.extra["new_states_per_depth"] = spd;
      p.extra["disabled_transitions"] = verif::Fmt("%llu", (unsigned long long)S.disabled);
      p.extra["replay_determinism_checks"] = verif::Fmt("%llu", (unsigned long long)S.replayChecks);
      p.extra["violating_transitions"] = verif::Fmt("%llu", (unsigned long long)S.violations);
      p.extra["alphabet_size"] = verif::Fmt("%d", nops);
      p.extra["start_states"] = verif::Fmt("%d", _m.NumStarts());
      _res.parts.push_back(p);
      return S;
   }

   // --replay support: runs one history and reports
   int ReplayFile(const verif::ReplayDoc & d)
   {
      std::vector<int> ops; std::map<std::string, std::vector<long> >::const_iterator it = d.ints.find("ops");
      if (it != d.ints.end()) for (size_t i = 0; i < it->second.size(); i++) ops.push_back((int)it->second[i]);
      int start = (int)d.Int("start");
      typename M::World w; std::string msg, key; int st = Replay(w, start, ops, msg, key);
      printf("replay part=%s start=%d ops=", _part.c_str(), start); for (size_t i = 0; i < ops.size(); i++) printf("%s%s", i ? " ; " : "", _m.OpName(ops[i]).c_str());
      printf("\nresult: %s %s %s\n", st == SEQX_OK ? "OK" : st == SEQX_VIOLATION ? "VIOLATION" : st == SEQX_DISABLED ? "DISABLED" : "INFRA", key.c_str(), msg.c_str());
      return st == SEQX_OK ? 0 : 1;
   }

private:
   const M & _m; const verif::Args & _args; verif::Result & _res; std::string _part;
   std::vector<Node> _nodes;
   uint64_t _maxStates; int _maxViolationsPerKey; double _timeFrac; double _cpuLimitS = 10.0;
   double _absDeadline = 0; bool _haveDeadline = false;
};

}  // namespace seqx

#endif
