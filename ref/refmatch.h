// refmatch -- reference matcher for muscle's documented "simple" (glob-like) pattern syntax (regex/StringMatcher.h).
// Written from the documentation, not from the implementation: it never calls muscle and never calls regcomp().
//
// Documented meaning (StringMatcher.h, the class comment "similar to filename globbing in bash", SetPattern's comment):
//   *            any run of characters (possibly empty)
//   ?            any one character
//   [..]         a character class (single characters and ascending x-y ranges)
//   (a|b)        grouping with alternatives
//   a,b          top-level comma-separated alternatives
//   ~pattern     leading tilde: logical negation of the rest
//   <a-b,c,d->   leading range list: matches ASCII representations of integers inside one of the clauses
//                ("<-19>" = up to 19, "<21->" = 21 and up, "<->" = every integer)
//   \c           the character c taken literally
//   `regex       leading backtick: the rest is a raw regular expression (NOT modelled here => out of domain)
//   the whole subject must match.
//
// DOMAIN.  The reference answers only for *well-formed* patterns; Parse() returns inDomain=false (and a reason) otherwise.
// Out of domain (each of these cost a false-alarm round in the calibration run, see DESIGN.md section 3 C15):
//   * the backtick regex prefix (after the optional tilde);
//   * an empty pattern body, empty alternatives, empty range clauses, "~" followed by another unescaped "~";
//   * unbalanced or stray brackets, '|' outside a group, ',' inside a group, an empty or ill-formed class
//     (only [a-z0-9] members and ascending x-y ranges over them are modelled; no negated classes);
//   * a backslash before a character that is NOT a metacharacter of the simple syntax: the library hands "\c" to the
//     platform regex engine, where glibc gives \b \w \< \> \1 \` ... GNU meanings and POSIX leaves it undefined.
//     Metacharacters (exactly what EscapeRegexTokens may emit): [ ] * ? \ , | ( ) = ^ + $ { } anywhere, and
//     < ~ ` only as the first character of the body;
//   * the raw-regex characters = ^ $ { } used unescaped; bytes >= 0x80 and control characters;
//   * a leading '<' that is not a well-formed range list ('<' digits/'-'/',' ... '>' with '>' the last character,
//     clauses N, N-M with N<=M, -M, N-, or -; values <= 2^32-1).
// For range-list patterns only, SUBJECTS that begin with a digit but are not all digits, or whose value exceeds 2^32-1,
// are outside the compared domain as well (SubjectInDomain()).
#ifndef VERIF_REFMATCH_H
#define VERIF_REFMATCH_H

#include <stdint.h>
#include <string.h>
#include <string>
#include <vector>

namespace refmatch {

enum AtomKind { LIT, ANY1, STAR, CLASS, GROUP };
struct Atom;
typedef std::vector<Atom> Seq;
struct Atom {
   AtomKind k; char c; std::vector<bool> cls; std::vector<Seq> alts;
   Atom() : k(LIT), c(0) {}
};

struct Pattern {
   bool inDomain; std::string why;   // why = reason when out of domain
   bool negate;
   bool isRange; std::vector<std::pair<uint64_t, uint64_t> > ranges;
   std::vector<Seq> alts;            // top-level comma alternatives
   bool literalList;                 // every alternative consists of literal characters only
   std::vector<std::string> literals;// ... and these are the unescaped alternatives
   Pattern() : inDomain(false), negate(false), isRange(false), literalList(false) {}
};

static inline bool IsMetaAnywhere(char c) { return c != 0 && strchr("[]*?\\,|()=^+${}", c) != NULL; }
static inline bool IsMetaFirstOnly(char c) { return c == '<' || c == '~' || c == '`'; }
static inline bool IsClassMember(char c) { return (c >= 'a' && c <= 'z') || (c >= '0' && c <= '9'); }

namespace detail {
struct Parser {
   const std::string & s; size_t pos, bodyStart; std::string why;
   Parser(const std::string & str, size_t start) : s(str), pos(start), bodyStart(start) {}
   bool Fail(const char * w) { if (why.empty()) why = w; return false; }

   // parses atoms until an unescaped terminator: top level (depth 0): ',' or end;  inside a group: '|' or ')'
   bool ParseSeq(Seq & out, int depth)
   {
      while (pos < s.size()) {
         const unsigned char c = (unsigned char)s[pos];
         if (c < 0x20 || c >= 0x7f) return Fail("control-or-8bit");
         if (depth == 0 && c == ',') break;
         if (depth > 0 && (c == '|' || c == ')')) break;
         Atom a;
         switch (c) {
         case '\\': {
            if (pos + 1 >= s.size()) return Fail("trailing-backslash");
            const char n = s[pos + 1];
            if (!(IsMetaAnywhere(n) || (IsMetaFirstOnly(n) && pos == bodyStart))) return Fail("backslash-before-ordinary-char");
            a.k = LIT; a.c = n; pos += 2; break; }
         case '*': a.k = STAR; pos++; break;
         case '?': a.k = ANY1; pos++; break;
         case '[': {
            pos++; a.k = CLASS; a.cls.assign(256, false); bool any = false;
            while (true) {
               if (pos >= s.size()) return Fail("unterminated-class");
               const char m = s[pos];
               if (m == ']') { pos++; break; }
               if (!IsClassMember(m)) return Fail("class-member-not-modelled");
               if (pos + 2 < s.size() && s[pos + 1] == '-' && s[pos + 2] != ']') {
                  const char hi = s[pos + 2];
                  if (!IsClassMember(hi)) return Fail("class-member-not-modelled");
                  if ((unsigned char)hi < (unsigned char)m) return Fail("descending-class-range");
                  for (int x = (unsigned char)m; x <= (unsigned char)hi; x++) a.cls[x] = true;
                  pos += 3;
               } else { a.cls[(unsigned char)m] = true; pos++; }
               any = true;
            }
            if (!any) return Fail("empty-class");
            break; }
         case ']': return Fail("stray-]");
         case '(': {
            pos++; a.k = GROUP;
            while (true) {
               Seq alt; if (!ParseSeq(alt, depth + 1)) return false;
               if (alt.empty()) return Fail("empty-alternative-in-group");
               a.alts.push_back(alt);
               if (pos >= s.size()) return Fail("unterminated-group");
               if (s[pos] == ')') { pos++; break; }
               pos++;  // '|'
            }
            break; }
         case ')': return Fail("stray-)");
         case '|': return Fail("bar-outside-group");
         case ',': return Fail("comma-inside-group");   // depth>0 (depth 0 handled above)
         case '=': case '^': case '$': case '{': case '}': return Fail("raw-regex-char");
         case '~': if (pos == bodyStart) return Fail("double-tilde"); a.k = LIT; a.c = (char)c; pos++; break;
         default: a.k = LIT; a.c = (char)c; pos++; break;
         }
         out.push_back(a);
      }
      return true;
   }
};

static inline bool AllDigits(const std::string & s) { if (s.empty()) return false; for (size_t i = 0; i < s.size(); i++) if (s[i] < '0' || s[i] > '9') return false; return true; }
static inline bool ToU32(const std::string & s, uint64_t & v) { v = 0; for (size_t i = 0; i < s.size(); i++) { v = v * 10 + (uint64_t)(s[i] - '0'); if (v > 0xFFFFFFFFULL) return false; } return true; }

struct Cont { const Seq * seq; size_t idx; const Cont * next; };
static inline bool M(const Seq & seq, size_t i, const std::string & s, size_t pos, const Cont * k)
{
   if (i == seq.size()) { if (!k) return pos == s.size(); return M(*k->seq, k->idx, s, pos, k->next); }
   const Atom & a = seq[i];
   switch (a.k) {
   case LIT:   return pos < s.size() && s[pos] == a.c && M(seq, i + 1, s, pos + 1, k);
   case ANY1:  return pos < s.size() && M(seq, i + 1, s, pos + 1, k);
   case CLASS: return pos < s.size() && a.cls[(unsigned char)s[pos]] && M(seq, i + 1, s, pos + 1, k);
   case STAR:  for (size_t p = pos; p <= s.size(); p++) if (M(seq, i + 1, s, p, k)) return true; return false;
   case GROUP: { Cont c = { &seq, i + 1, k }; for (size_t j = 0; j < a.alts.size(); j++) if (M(a.alts[j], 0, s, pos, &c)) return true; return false; }
   }
   return false;
}
}  // namespace detail

// Parses a simple-syntax pattern.  p.inDomain tells whether the documented syntax gives it a meaning this model covers.
static inline Pattern Parse(const std::string & pat)
{
   Pattern p; size_t pos = 0;
   if (!pat.empty() && pat[0] == '~') { p.negate = true; pos = 1; }
   if (pos >= pat.size()) { p.why = "empty-body"; return p; }
   if (pat[pos] == '`') { p.why = "backtick-regex-prefix"; return p; }
   if (pat[pos] == '<') {
      // range list: '<' clause (',' clause)* '>'   with the '>' last
      p.isRange = true;
      if (pat[pat.size() - 1] != '>' || pat.find('>', pos) != pat.size() - 1) { p.why = "leading-<-not-a-range-list"; return p; }
      const std::string body = pat.substr(pos + 1, pat.size() - pos - 2);
      size_t b = 0;
      while (true) {
         size_t e = body.find(',', b); const std::string cl = body.substr(b, e == std::string::npos ? std::string::npos : e - b);
         if (cl.empty()) { p.why = "empty-range-clause"; return p; }
         const size_t d = cl.find('-');
         uint64_t lo = 0, hi = 0xFFFFFFFFULL;
         if (d == std::string::npos) {
            if (!detail::AllDigits(cl) || !detail::ToU32(cl, lo)) { p.why = "range-clause-not-a-number"; return p; }
            hi = lo;
         } else {
            const std::string l = cl.substr(0, d), r = cl.substr(d + 1);
            if (!l.empty() && (!detail::AllDigits(l) || !detail::ToU32(l, lo))) { p.why = "range-clause-not-a-number"; return p; }
            if (!r.empty() && (!detail::AllDigits(r) || !detail::ToU32(r, hi))) { p.why = "range-clause-not-a-number"; return p; }
            if (lo > hi) { p.why = "descending-range-clause"; return p; }
         }
         p.ranges.push_back(std::make_pair(lo, hi));
         if (e == std::string::npos) break;
         b = e + 1;
      }
      p.inDomain = true; return p;
   }
   detail::Parser ps(pat, pos);
   while (true) {
      Seq alt; if (!ps.ParseSeq(alt, 0)) { p.why = ps.why; return p; }
      if (alt.empty()) { p.why = "empty-alternative"; return p; }
      p.alts.push_back(alt);
      if (ps.pos >= pat.size()) break;
      ps.pos++;  // ','
      if (ps.pos >= pat.size()) { p.why = "empty-alternative"; return p; }
   }
   p.literalList = true;
   for (size_t i = 0; i < p.alts.size(); i++) {
      std::string lit;
      for (size_t j = 0; j < p.alts[i].size(); j++) { if (p.alts[i][j].k != LIT) p.literalList = false; else lit += p.alts[i][j].c; }
      p.literals.push_back(lit);
   }
   if (!p.literalList) p.literals.clear();
   p.inDomain = true; return p;
}

// For range-list patterns only some subjects have a documented answer.
static inline bool SubjectInDomain(const Pattern & p, const std::string & subj)
{
   if (!p.isRange) return true;
   if (subj.empty() || subj[0] < '0' || subj[0] > '9') return true;   // not an integer: documented as "no match"
   uint64_t v; return detail::AllDigits(subj) && detail::ToU32(subj, v);
}

// Precondition: p.inDomain && SubjectInDomain(p, subj)
static inline bool Match(const Pattern & p, const std::string & subj)
{
   bool r = false;
   if (p.isRange) {
      uint64_t v;
      if (detail::AllDigits(subj) && detail::ToU32(subj, v)) for (size_t i = 0; i < p.ranges.size(); i++) if (v >= p.ranges[i].first && v <= p.ranges[i].second) { r = true; break; }
   } else {
      for (size_t i = 0; i < p.alts.size() && !r; i++) r = detail::M(p.alts[i], 0, subj, 0, NULL);
   }
   return p.negate ? !r : r;
}

// "removes any backslashes that are not immediately preceded by another backslash" (doc of RemoveEscapeChars)
static inline std::string Unescape(const std::string & s)
{
   std::string o; bool esc = false;
   for (size_t i = 0; i < s.size(); i++) { if (!esc && s[i] == '\\') { esc = true; continue; } o += s[i]; esc = false; }
   return o;
}

// The escaped form the documentation of EscapeRegexTokens / IsRegexToken promises: a backslash before every character that is
// special to the pattern matching (first-only characters only at position 0).
static inline std::string Escape(const std::string & s)
{
   std::string o;
   for (size_t i = 0; i < s.size(); i++) { if (IsMetaAnywhere(s[i]) || (i == 0 && IsMetaFirstOnly(s[i]))) o += '\\'; o += s[i]; }
   return o;
}

// Path matching is clause-wise: segment i of the subject must match clause i; with prefixOK the subject may have more
// segments than the pattern (SegmentedStringMatcher::Match doc); a NULL-like "*" clause matches any segment.
static inline bool MatchPath(const std::vector<Pattern> & clauses, const std::vector<std::string> & segs, bool prefixOK)
{
   if (segs.size() < clauses.size()) return false;
   if (!prefixOK && segs.size() != clauses.size()) return false;
   for (size_t i = 0; i < clauses.size(); i++) if (!Match(clauses[i], segs[i])) return false;
   return true;
}

}  // namespace refmatch

#endif
