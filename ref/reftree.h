// reftree -- boring reference model of the reflector's shared node tree and of what a subscriber is entitled to see.
// Pure C++ (no muscle): sessions, their nodes (relative path -> payload id), their subscriptions (name as the client sent it ->
// filter), and the derived sets the C04 / C06 oracles compare against.
//
// DOMAIN (everything else is rejected with inDomain=false by the matcher and must not be compared):
//   * node path clauses and pattern clauses are non-empty; a pattern clause is one of
//        "*"                      matches every name
//        "(a|b|...)"              matches exactly the listed literal names (no nesting, no metacharacters inside)
//        literal                  no character of  [ ] * ? \ , | ( ) = ^ + $ { }  anywhere, and not starting with < ~ or a backtick
//   * subscription / GETDATA paths: a leading '/' makes the path absolute (/host/session/...); without it the documented
//     implicit prefix "/*/*/" is prepended ("x" == "/*/*/x", "*/y" == "/*/*/*/y").  A pattern matches a node iff it has the
//     same number of clauses as the node's full path and every clause matches.
//   * REMOVEDATA paths are relative to the sender's session directory, same clause syntax, same-number-of-clauses rule; a
//     matched node is removed together with its whole subtree.
//   * SETDATA "a/b/c" creates the missing intermediate nodes with the EMPTY payload (what 0, no fields).
//   * payloads are opaque ids; the only thing a filter can see is an optional int32 field "v" (Payload::hasV / v).
//     Filter kinds: none | v == k | v != k; a payload WITHOUT the field is rejected by both comparisons (documented
//     behaviour of NumericQueryFilter without an assumed default).
#ifndef VERIF_REFTREE_H
#define VERIF_REFTREE_H

#include <string>
#include <vector>
#include <map>
#include <set>
#include <string.h>
#include <stdio.h>

namespace reftree {

static inline std::vector<std::string> Split(const std::string & path)   // "a/b/c" or "/a/b/c" -> [a,b,c]
{
   std::vector<std::string> v; size_t pos = (!path.empty() && path[0] == '/') ? 1 : 0;
   while (pos <= path.size()) { size_t e = path.find('/', pos); if (e == std::string::npos) e = path.size(); v.push_back(path.substr(pos, e - pos)); pos = e + 1; }
   return v;
}

static inline bool HasMeta(const std::string & s) { for (size_t i = 0; i < s.size(); i++) if (strchr("[]*?\\,|()=^+${}", s[i])) return true; return (!s.empty() && (s[0] == '<' || s[0] == '~' || s[0] == '`')); }

// one clause of a pattern against one node name
static inline bool ClauseMatches(const std::string & pat, const std::string & name, bool & inDomain)
{
   if (pat.empty() || name.empty()) { inDomain = false; return false; }
   if (pat == "*") return true;
   if (pat.size() >= 2 && pat[0] == '(' && pat[pat.size() - 1] == ')') {
      const std::string body = pat.substr(1, pat.size() - 2); bool hit = false; size_t pos = 0;
      while (pos <= body.size()) {
         size_t e = body.find('|', pos); if (e == std::string::npos) e = body.size();
         const std::string alt = body.substr(pos, e - pos);
         if (alt.empty() || HasMeta(alt)) { inDomain = false; return false; }
         if (alt == name) hit = true;
         pos = e + 1;
      }
      return hit;
   }
   if (HasMeta(pat)) { inDomain = false; return false; }
   return pat == name;
}
static inline bool ClausesMatch(const std::vector<std::string> & pat, const std::vector<std::string> & path, bool & inDomain)
{
   if (pat.size() != path.size()) return false;
   for (size_t i = 0; i < pat.size(); i++) if (!ClauseMatches(pat[i], path[i], inDomain)) return false;
   return true;
}
// subscription / GETDATA path as the client wrote it -> absolute clause list
static inline std::vector<std::string> NormalizeGlobal(const std::string & p)
{
   if (!p.empty() && p[0] == '/') return Split(p);
   std::vector<std::string> v; v.push_back("*"); v.push_back("*"); std::vector<std::string> r = Split(p); v.insert(v.end(), r.begin(), r.end()); return v;
}
static inline std::string Join(const std::vector<std::string> & v) { std::string o; for (size_t i = 0; i < v.size(); i++) o += "/" + v[i]; return o; }

struct Payload { bool hasV; int v; Payload() : hasV(false), v(0) {} Payload(bool h, int vv) : hasV(h), v(vv) {} };

struct Filter {
   enum { NONE = 0, EQ = 1, NE = 2 };
   int kind, value;
   Filter() : kind(NONE), value(0) {}
   Filter(int k, int v) : kind(k), value(v) {}
   bool Accepts(const Payload & p) const { return (kind == NONE) ? true : (p.hasV && ((kind == EQ) ? (p.v == value) : (p.v != value))); }
   bool operator==(const Filter & o) const { return kind == o.kind && (kind == NONE || value == o.value); }
   std::string Text() const { if (kind == NONE) return "-"; char b[32]; snprintf(b, sizeof(b), "v%s%d", kind == EQ ? "==" : "!=", value); return b; }
};

struct Sub { std::string name; Filter f; std::vector<std::string> norm; };   // name = the text after "SUBSCRIBE:", exactly as the client sent it; norm = NormalizeGlobal(name)

struct Session {
   bool attached; std::string host, id;
   std::map<std::string, int> nodes;   // relative path ("x", "x/y") -> payload id
   std::vector<Sub> subs;              // in the order first subscribed
   bool everAliased;                   // has, at some point since it attached, held two subscription names that denote the same absolute pattern ("x" and "/*/*/x")
   Session() : attached(false), everAliased(false) {}
   std::string Root() const { return "/" + host + "/" + id; }
   int FindSub(const std::string & name) const { for (size_t i = 0; i < subs.size(); i++) if (subs[i].name == name) return (int)i; return -1; }
};

class Tree
{
public:
   std::vector<Session> S;
   std::vector<Payload> payloads;   // payload id -> what a filter can see of it
   int emptyPayload;                // id of the payload given to implicitly created intermediate nodes
   bool inDomain;                   // cleared when a pattern outside the stated domain was evaluated

   Tree() : emptyPayload(0), inDomain(true) {}

   void Arrive(int r, const std::string & host, const std::string & id) { if ((size_t)r >= S.size()) S.resize(r + 1); S[r] = Session(); S[r].attached = true; S[r].host = host; S[r].id = id; }
   void Depart(int r) { S[r] = Session(); }
   bool Attached(int r) const { return (size_t)r < S.size() && S[r].attached; }

   void SetData(int r, const std::string & relPath, int payloadId)
   {
      std::vector<std::string> c = Split(relPath); std::string p;
      for (size_t i = 0; i < c.size(); i++) {
         p += (i ? "/" : "") + c[i];
         if (i + 1 == c.size()) S[r].nodes[p] = payloadId;
         else if (!S[r].nodes.count(p)) S[r].nodes[p] = emptyPayload;
      }
   }
   // returns the relative paths removed (matched nodes and their descendants)
   std::vector<std::string> RemoveData(int r, const std::string & relPattern)
   {
      std::vector<std::string> pat = Split(relPattern), roots, gone;
      for (std::map<std::string, int>::const_iterator it = S[r].nodes.begin(); it != S[r].nodes.end(); ++it) if (ClausesMatch(pat, Split(it->first), inDomain)) roots.push_back(it->first);
      for (std::map<std::string, int>::iterator it = S[r].nodes.begin(); it != S[r].nodes.end();) {
         bool dead = false;
         for (size_t k = 0; k < roots.size() && !dead; k++) dead = (it->first == roots[k]) || (it->first.size() > roots[k].size() && it->first.compare(0, roots[k].size() + 1, roots[k] + "/") == 0);
         if (dead) { gone.push_back(it->first); S[r].nodes.erase(it++); } else ++it;
      }
      return gone;
   }
   // returns true when `name` was already subscribed (i.e. this is a re-issue, possibly with another filter)
   bool Subscribe(int r, const std::string & name, const Filter & f)
   {
      int i = S[r].FindSub(name);
      if (i >= 0) { S[r].subs[i].f = f; return true; }
      Sub s; s.name = name; s.f = f; s.norm = NormalizeGlobal(name); S[r].subs.push_back(s); if (HasAliasedSubs(r)) S[r].everAliased = true; return false;
   }
   bool Unsubscribe(int r, const std::string & name) { int i = S[r].FindSub(name); if (i < 0) return false; S[r].subs.erase(S[r].subs.begin() + i); if (S[r].subs.empty()) S[r].everAliased = false; return true; }
   void UnsubscribeAll(int r) { S[r].subs.clear(); S[r].everAliased = false; }

   // does subscriber r want (full path, payload)?  skipSub: ignore that subscription index (used to ask "does ANOTHER one want it")
   bool Wants(int r, const std::string & fullPath, int payloadId, int skipSub = -1)
   {
      const std::vector<std::string> pc = Split(fullPath);
      for (size_t i = 0; i < S[r].subs.size(); i++) {
         if ((int)i == skipSub) continue;
         if (ClausesMatch(S[r].subs[i].norm, pc, inDomain) && S[r].subs[i].f.Accepts(payloads[payloadId])) return true;
      }
      return false;
   }
   // number of r's subscriptions whose PATTERN matches the path (filters ignored): what a per-node subscriber count should be,
   // counting two spellings that normalise to the same absolute pattern once
   int PatternCount(int r, const std::string & fullPath)
   {
      const std::vector<std::string> pc = Split(fullPath); std::set<std::string> seen; int n = 0;
      for (size_t i = 0; i < S[r].subs.size(); i++) { const std::vector<std::string> & np = S[r].subs[i].norm; if (ClausesMatch(np, pc, inDomain) && seen.insert(Join(np)).second) n++; }
      return n;
   }
   // every node of every attached session: full path -> payload id
   std::map<std::string, int> All() const
   {
      std::map<std::string, int> out;
      for (size_t r = 0; r < S.size(); r++) if (S[r].attached) for (std::map<std::string, int>::const_iterator it = S[r].nodes.begin(); it != S[r].nodes.end(); ++it) out[S[r].Root() + "/" + it->first] = it->second;
      return out;
   }
   // what subscriber r must hold at a quiescent point: the nodes of the OTHER sessions that one of its subscriptions accepts
   std::map<std::string, int> Expected(int r)
   {
      std::map<std::string, int> out;
      if (S[r].subs.empty()) return out;
      for (size_t o = 0; o < S.size(); o++) if (S[o].attached && (int)o != r)
         for (std::map<std::string, int>::const_iterator it = S[o].nodes.begin(); it != S[o].nodes.end(); ++it) { const std::string fp = S[o].Root() + "/" + it->first; if (Wants(r, fp, it->second)) out[fp] = it->second; }
      return out;
   }
   // The client-side rule on unsubscribe (the server sends nothing): drop every mirrored entry that no REMAINING subscription
   // accepts, judged on the mirrored payload.  Call after Unsubscribe/UnsubscribeAll.  Entries with an unknown payload (id < 0) are kept.
   void PruneMirror(int r, std::map<std::string, int> & mirror)
   {
      for (std::map<std::string, int>::iterator it = mirror.begin(); it != mirror.end();) { if (it->second >= 0 && !Wants(r, it->first, it->second)) mirror.erase(it++); else ++it; }
   }
   // do two of r's subscription names denote the same absolute pattern (e.g. "x" and "/*/*/x")?
   bool HasAliasedSubs(int r) const
   {
      std::set<std::string> seen; for (size_t i = 0; i < S[r].subs.size(); i++) if (!seen.insert(Join(S[r].subs[i].norm)).second) return true; return false;
   }
   std::string Text() const
   {
      std::string o;
      for (size_t r = 0; r < S.size(); r++) if (S[r].attached) {
         o += S[r].Root() + ":";
         for (std::map<std::string, int>::const_iterator it = S[r].nodes.begin(); it != S[r].nodes.end(); ++it) { char b[16]; snprintf(b, sizeof(b), "=%d", it->second); o += " " + it->first + b; }
         o += " |";
         for (size_t i = 0; i < S[r].subs.size(); i++) o += " " + S[r].subs[i].name + "[" + S[r].subs[i].f.Text() + "]";
         o += "\n";
      }
      return o;
   }
};

}  // namespace reftree

#endif
