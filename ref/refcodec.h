// refcodec -- an INDEPENDENT reference codec for the MUSCLE flattened-Message wire format.
//
// Written only from the documentation: the layout comment in Message::Flatten (message/Message.cpp), the type table in
// support/MuscleSupport.h ("1 byte per bool", "each Point has two floats", ...), the comment block at the end of
// iogateway/MessageIOGateway.h (annotated hex dump + the 8-byte stream frame) and the "Format:" comment of the
// variable-size field.  It does not include or call any muscle code, so a symmetric change of muscle's writer and reader
// (which a pure round-trip check cannot see) shows up as a byte difference against this file.
//
//   flattened Message :=  u32 protocol ('PM00' = 1347235888)   u32 what   u32 number-of-fields   field*
//   field             :=  u32 name-length (incl. NUL)  name bytes  NUL   u32 type-code   u32 payload-length   payload
//   payload, by type code:
//      BOOL                       1 byte per item (0/1)
//      BYTE SHRT LONG LLNG        1/2/4/8 bytes per item, little-endian two's complement, packed
//      FLOT DBLE                  4/8 bytes per item, IEEE-754 bit pattern little-endian, packed
//      BPNT / RECT                2 / 4 floats per item (x,y / left,top,right,bottom), packed
//      MSGG                       NO item count;  per item:  u32 length, flattened Message
//      CSTR                       u32 item-count;  per item:  u32 length (incl. NUL), bytes, NUL
//      anything else (RAWT, ...)  u32 item-count;  per item:  u32 length, bytes
//   all words little-endian.  Fields of type PNTR / MTAG are never written.
//   stream frame      :=  u32 body-length   u32 encoding ('Enc0' = 1164862256, +1..+9 = zlib levels)   body
//
// Abstract Message: what + ordered list of fields; each field = (name, type code, items).  An item is the canonical value
// byte string of its type (numerics: the little-endian value bytes; bool: one byte 0/1; string: the characters WITHOUT the
// NUL; raw: the bytes) or, for MSGG, a nested abstract Message.
//
// Encode() can also record the offset/size/role of every structural word it emits (C02 mutates encodings at these offsets).
#ifndef VERIF_REFCODEC_H
#define VERIF_REFCODEC_H

#include <stdint.h>
#include <string.h>
#include <stdio.h>
#include <string>
#include <vector>

namespace refcodec {

static const uint32_t PROTOCOL_PM00 = 1347235888u;  // 'PM00'
static const uint32_t ENCODING_DEFAULT = 1164862256u;  // 'Enc0'

static const uint32_t T_BOOL = 1112493900u, T_DOUBLE = 1145195589u, T_FLOAT = 1179406164u, T_INT64 = 1280069191u, T_INT32 = 1280265799u,
                      T_INT16 = 1397248596u, T_INT8 = 1113150533u, T_MESSAGE = 1297303367u, T_POINTER = 1347310674u, T_POINT = 1112559188u,
                      T_RECT = 1380270932u, T_STRING = 1129534546u, T_RAW = 1380013908u, T_TAG = 1297367367u;

struct AbsMsg;
struct AbsField {
   std::string name;
   uint32_t type;
   std::vector<std::string> items;  // all types except T_MESSAGE
   std::vector<AbsMsg> msgs;        // T_MESSAGE only
   AbsField() : type(0) {}
   AbsField(const std::string & n, uint32_t t) : name(n), type(t) {}
   inline size_t Count() const;
};
struct AbsMsg {
   uint32_t what;
   std::vector<AbsField> fields;
   AbsMsg() : what(0) {}
   explicit AbsMsg(uint32_t w) : what(w) {}
   int Find(const std::string & n) const { for (size_t i = 0; i < fields.size(); i++) if (fields[i].name == n) return (int)i; return -1; }
};
inline size_t AbsField::Count() const { return (type == T_MESSAGE) ? msgs.size() : items.size(); }

// bytes per item on the wire for the fixed-size types, 0 for variable-size types
static inline uint32_t FixedItemSize(uint32_t type)
{
   if (type == T_BOOL || type == T_INT8) return 1;
   if (type == T_INT16) return 2;
   if (type == T_INT32 || type == T_FLOAT) return 4;
   if (type == T_INT64 || type == T_DOUBLE || type == T_POINT) return 8;
   if (type == T_RECT) return 16;
   return 0;
}
static inline bool IsFlattenableType(uint32_t type) { return type != T_POINTER && type != T_TAG; }

// ---------------------------------------------------------------- value helpers (little-endian item byte strings)
static inline std::string LE(uint64_t v, int n) { std::string s; for (int i = 0; i < n; i++) s += (char)((v >> (8 * i)) & 0xFF); return s; }
static inline uint64_t UnLE(const std::string & s) { uint64_t v = 0; for (size_t i = 0; i < s.size() && i < 8; i++) v |= ((uint64_t)(unsigned char)s[i]) << (8 * i); return v; }
static inline std::string ItemBool(bool b) { return std::string(1, b ? '\1' : '\0'); }
static inline std::string ItemI8(int8_t v) { return LE((uint8_t)v, 1); }
static inline std::string ItemI16(int16_t v) { return LE((uint16_t)v, 2); }
static inline std::string ItemI32(int32_t v) { return LE((uint32_t)v, 4); }
static inline std::string ItemI64(int64_t v) { return LE((uint64_t)v, 8); }
static inline std::string ItemF32Bits(uint32_t bits) { return LE(bits, 4); }
static inline std::string ItemF64Bits(uint64_t bits) { return LE(bits, 8); }
static inline std::string ItemPointBits(uint32_t x, uint32_t y) { return LE(x, 4) + LE(y, 4); }
static inline std::string ItemRectBits(uint32_t l, uint32_t t, uint32_t r, uint32_t b) { return LE(l, 4) + LE(t, 4) + LE(r, 4) + LE(b, 4); }
static inline bool F32BitsIsNaN(uint32_t b) { return ((b & 0x7F800000u) == 0x7F800000u) && (b & 0x007FFFFFu); }
static inline bool F64BitsIsNaN(uint64_t b) { return ((b & 0x7FF0000000000000ULL) == 0x7FF0000000000000ULL) && (b & 0x000FFFFFFFFFFFFFULL); }

// true iff some float-typed item (float, double, point, rect) at any nesting level is a NaN
static inline bool HasNaN(const AbsMsg & m)
{
   for (size_t f = 0; f < m.fields.size(); f++) {
      const AbsField & fl = m.fields[f];
      if (fl.type == T_MESSAGE) { for (size_t i = 0; i < fl.msgs.size(); i++) if (HasNaN(fl.msgs[i])) return true; }
      else if (fl.type == T_FLOAT || fl.type == T_POINT || fl.type == T_RECT) { for (size_t i = 0; i < fl.items.size(); i++) for (size_t k = 0; k + 4 <= fl.items[i].size(); k += 4) if (F32BitsIsNaN((uint32_t)UnLE(fl.items[i].substr(k, 4)))) return true; }
      else if (fl.type == T_DOUBLE) { for (size_t i = 0; i < fl.items.size(); i++) if (F64BitsIsNaN(UnLE(fl.items[i]))) return true; }
   }
   return false;
}
static inline bool HasType(const AbsMsg & m, uint32_t type)
{
   for (size_t f = 0; f < m.fields.size(); f++) {
      if (m.fields[f].type == type) return true;
      if (m.fields[f].type == T_MESSAGE) for (size_t i = 0; i < m.fields[f].msgs.size(); i++) if (HasType(m.fields[f].msgs[i], type)) return true;
   }
   return false;
}
static inline int Depth(const AbsMsg & m)
{
   int d = 0;
   for (size_t f = 0; f < m.fields.size(); f++) if (m.fields[f].type == T_MESSAGE) for (size_t i = 0; i < m.fields[f].msgs.size(); i++) { int s = 1 + Depth(m.fields[f].msgs[i]); if (s > d) d = s; }
   return d;
}

// the part of m that is serialised: fields of non-flattenable type dropped at every level
static inline AbsMsg FlattenablePart(const AbsMsg & m)
{
   AbsMsg r(m.what);
   for (size_t f = 0; f < m.fields.size(); f++) {
      if (!IsFlattenableType(m.fields[f].type)) continue;
      AbsField nf(m.fields[f].name, m.fields[f].type);
      nf.items = m.fields[f].items;
      for (size_t i = 0; i < m.fields[f].msgs.size(); i++) nf.msgs.push_back(FlattenablePart(m.fields[f].msgs[i]));
      r.fields.push_back(nf);
   }
   return r;
}

static inline bool Equal(const AbsMsg & a, const AbsMsg & b)
{
   if (a.what != b.what || a.fields.size() != b.fields.size()) return false;
   for (size_t f = 0; f < a.fields.size(); f++) {
      const AbsField & x = a.fields[f], & y = b.fields[f];
      if (x.name != y.name || x.type != y.type || x.items != y.items || x.msgs.size() != y.msgs.size()) return false;
      for (size_t i = 0; i < x.msgs.size(); i++) if (!Equal(x.msgs[i], y.msgs[i])) return false;
   }
   return true;
}

// ---------------------------------------------------------------- canonical text dump (the same text is produced by harness/C08_pycodec.py)
//   M<what>{<hexname>:<type>:[=<hexitem>,=<hexitem>];<hexname>:<type>:[M..{..},M..{..}];}
static inline std::string HexOf(const std::string & s) { static const char * d = "0123456789abcdef"; std::string o; for (size_t i = 0; i < s.size(); i++) { o += d[((unsigned char)s[i]) >> 4]; o += d[((unsigned char)s[i]) & 15]; } return o; }
static inline void DumpTo(const AbsMsg & m, std::string & o)
{
   char b[32]; snprintf(b, sizeof(b), "M%u{", (unsigned)m.what); o += b;
   for (size_t f = 0; f < m.fields.size(); f++) {
      const AbsField & fl = m.fields[f];
      o += HexOf(fl.name); snprintf(b, sizeof(b), ":%u:[", (unsigned)fl.type); o += b;
      if (fl.type == T_MESSAGE) for (size_t i = 0; i < fl.msgs.size(); i++) { if (i) o += ","; DumpTo(fl.msgs[i], o); }
      else for (size_t i = 0; i < fl.items.size(); i++) { if (i) o += ","; o += "="; o += HexOf(fl.items[i]); }   // '=' marks an item, so one empty item "[=]" differs from no item "[]"
      o += "];";
   }
   o += "}";
}
static inline std::string Dump(const AbsMsg & m) { std::string o; DumpTo(m, o); return o; }

// ---------------------------------------------------------------- encoder
struct Word {
   size_t offset;      // byte offset in the top-level encoding
   int size;           // always 4
   const char * role;  // "protocol" "what" "field_count" "name_length" "type_code" "payload_length" "item_count" "item_length" "submsg_length"
   int depth;          // nesting depth of the Message the word belongs to (0 = top level)
   int field;          // index of the field (among the flattened fields of its Message), -1 for header words
   uint32_t value;     // the value written
};

static inline void PutWord(std::string & out, uint32_t v, const char * role, int depth, int field, std::vector<Word> * words)
{
   if (words) { Word w; w.offset = out.size(); w.size = 4; w.role = role; w.depth = depth; w.field = field; w.value = v; words->push_back(w); }
   out += LE(v, 4);
}

static inline void EncodeAt(const AbsMsg & m, std::string & out, std::vector<Word> * words, int depth);

// payload bytes of one field (without the payload-length word)
static inline void EncodePayload(const AbsField & fl, std::string & out, std::vector<Word> * words, int depth, int fieldIdx)
{
   if (fl.type == T_MESSAGE) {
      for (size_t i = 0; i < fl.msgs.size(); i++) {
         std::string sub; std::vector<Word> sw; EncodeAt(fl.msgs[i], sub, words ? &sw : NULL, depth + 1);
         PutWord(out, (uint32_t)sub.size(), "submsg_length", depth, fieldIdx, words);
         if (words) for (size_t k = 0; k < sw.size(); k++) { Word w = sw[k]; w.offset += out.size(); words->push_back(w); }
         out += sub;
      }
   } else if (FixedItemSize(fl.type)) {
      for (size_t i = 0; i < fl.items.size(); i++) out += fl.items[i];
   } else {
      PutWord(out, (uint32_t)fl.items.size(), "item_count", depth, fieldIdx, words);
      for (size_t i = 0; i < fl.items.size(); i++) {
         const bool str = (fl.type == T_STRING);
         PutWord(out, (uint32_t)(fl.items[i].size() + (str ? 1 : 0)), "item_length", depth, fieldIdx, words);
         out += fl.items[i];
         if (str) out += '\0';
      }
   }
}

static inline void EncodeAt(const AbsMsg & m, std::string & out, std::vector<Word> * words, int depth)
{
   uint32_t n = 0; for (size_t f = 0; f < m.fields.size(); f++) if (IsFlattenableType(m.fields[f].type)) n++;
   PutWord(out, PROTOCOL_PM00, "protocol", depth, -1, words);
   PutWord(out, m.what, "what", depth, -1, words);
   PutWord(out, n, "field_count", depth, -1, words);
   int idx = 0;
   for (size_t f = 0; f < m.fields.size(); f++) {
      const AbsField & fl = m.fields[f];
      if (!IsFlattenableType(fl.type)) continue;
      PutWord(out, (uint32_t)fl.name.size() + 1, "name_length", depth, idx, words);
      out += fl.name; out += '\0';
      PutWord(out, fl.type, "type_code", depth, idx, words);
      std::string payload; std::vector<Word> pw; EncodePayload(fl, payload, words ? &pw : NULL, depth, idx);
      PutWord(out, (uint32_t)payload.size(), "payload_length", depth, idx, words);
      if (words) for (size_t k = 0; k < pw.size(); k++) { Word w = pw[k]; w.offset += out.size(); words->push_back(w); }
      out += payload;
      idx++;
   }
}

// Encodes m (non-flattenable fields are skipped).  `words`, if given, receives every structural word in offset order.
static inline void Encode(const AbsMsg & m, std::string & bytes, std::vector<Word> * words = NULL)
{
   bytes.clear(); if (words) words->clear();
   EncodeAt(m, bytes, words, 0);
}
static inline std::string Encode(const AbsMsg & m) { std::string b; Encode(m, b, NULL); return b; }

// ---------------------------------------------------------------- strict decoder (accepts exactly what Encode can produce)
struct Reader {
   const std::string & s; size_t pos, end; std::string err;
   Reader(const std::string & str, size_t b, size_t e) : s(str), pos(b), end(e) {}
   bool U32(uint32_t & v, const char * what) { if (end - pos < 4) { err = std::string("truncated ") + what; return false; } v = (uint32_t)UnLE(s.substr(pos, 4)); pos += 4; return true; }
   bool Bytes(size_t n, std::string & out, const char * what) { if (end - pos < n) { err = std::string("truncated ") + what; return false; } out = s.substr(pos, n); pos += n; return true; }
};

static inline bool DecodeRange(const std::string & s, size_t b, size_t e, AbsMsg & out, std::string & err, int depth)
{
   if (depth > 64) { err = "nesting too deep for the reference decoder"; return false; }
   Reader r(s, b, e); uint32_t proto, what, n;
   if (!r.U32(proto, "protocol") || !r.U32(what, "what") || !r.U32(n, "field count")) { err = r.err; return false; }
   if (proto != PROTOCOL_PM00) { err = "bad protocol word"; return false; }
   out = AbsMsg(what);
   for (uint32_t f = 0; f < n; f++) {
      uint32_t nl, type, pl; std::string name;
      if (!r.U32(nl, "name length")) { err = r.err; return false; }
      if (nl == 0) { err = "zero name length"; return false; }
      if (!r.Bytes(nl, name, "name")) { err = r.err; return false; }
      if (name[nl - 1] != '\0') { err = "name not NUL-terminated"; return false; }
      name.erase(nl - 1);
      if (name.find('\0') != std::string::npos) { err = "NUL inside name"; return false; }
      if (!r.U32(type, "type code") || !r.U32(pl, "payload length")) { err = r.err; return false; }
      if (r.end - r.pos < pl) { err = "payload longer than buffer"; return false; }
      if (out.Find(name) >= 0) { err = "duplicate field name"; return false; }
      AbsField fl(name, type);
      const size_t pe = r.pos + pl;
      if (type == T_MESSAGE) {
         Reader p(s, r.pos, pe);
         while (p.pos < pe) {
            uint32_t ml; if (!p.U32(ml, "sub-message length")) { err = p.err; return false; }
            if (pe - p.pos < ml) { err = "sub-message longer than payload"; return false; }
            AbsMsg sub; if (!DecodeRange(s, p.pos, p.pos + ml, sub, err, depth + 1)) return false;
            fl.msgs.push_back(sub); p.pos += ml;
         }
      } else if (FixedItemSize(type)) {
         const uint32_t sz = FixedItemSize(type);
         if (pl % sz) { err = "payload not a multiple of the item size"; return false; }
         for (size_t o = r.pos; o < pe; o += sz) fl.items.push_back(s.substr(o, sz));
      } else {
         Reader p(s, r.pos, pe); uint32_t cnt;
         if (!p.U32(cnt, "item count")) { err = p.err; return false; }
         for (uint32_t i = 0; i < cnt; i++) {
            uint32_t il; std::string it;
            if (!p.U32(il, "item length") || !p.Bytes(il, it, "item")) { err = p.err; return false; }
            if (type == T_STRING) { if (il == 0 || it[il - 1] != '\0') { err = "string item not NUL-terminated"; return false; } it.erase(il - 1); }
            fl.items.push_back(it);
         }
         if (p.pos != pe) { err = "trailing bytes in variable-size payload"; return false; }
      }
      r.pos = pe;
      out.fields.push_back(fl);
   }
   if (r.pos != e) { err = "trailing bytes after the last field"; return false; }
   return true;
}
static inline bool Decode(const std::string & bytes, AbsMsg & out, std::string * err = NULL)
{
   std::string e; bool ok = DecodeRange(bytes, 0, bytes.size(), out, e, 0); if (err) *err = e; return ok;
}

// ---------------------------------------------------------------- 8-byte stream frame of MessageIOGateway and its C / Python counterparts
static inline std::string Frame(uint32_t bodyLength, uint32_t encoding = ENCODING_DEFAULT) { return LE(bodyLength, 4) + LE(encoding, 4); }
static inline std::string Framed(const std::string & body, uint32_t encoding = ENCODING_DEFAULT) { return Frame((uint32_t)body.size(), encoding) + body; }
static inline bool ParseFrame(const std::string & hdr8, uint32_t & bodyLength, uint32_t & encoding)
{
   if (hdr8.size() < 8) return false;
   bodyLength = (uint32_t)UnLE(hdr8.substr(0, 4)); encoding = (uint32_t)UnLE(hdr8.substr(4, 4)); return true;
}

// ---------------------------------------------------------------- templated ("payload only") encoding, for a Message flattened against its own template
// NOT documented in the headers: derived from reading MessageField::TemplatedFlatten, used only as a regression guard.
//   u32 what;  per flattenable field in order:  MSGG: u32 item-count, per item u32 length + templated sub-Message;  every other type: its normal payload.
static inline void EncodeTemplated(const AbsMsg & m, std::string & out)
{
   out += LE(m.what, 4);
   for (size_t f = 0; f < m.fields.size(); f++) {
      const AbsField & fl = m.fields[f];
      if (!IsFlattenableType(fl.type)) continue;
      if (fl.type == T_MESSAGE) {
         out += LE((uint32_t)fl.msgs.size(), 4);
         for (size_t i = 0; i < fl.msgs.size(); i++) { std::string sub; EncodeTemplated(fl.msgs[i], sub); out += LE((uint32_t)sub.size(), 4); out += sub; }
      } else EncodePayload(fl, out, NULL, 0, 0);
   }
}

}  // namespace refcodec

#endif
