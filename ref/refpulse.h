// refpulse -- boring reference model of a tree of muscle::PulseNode objects (property C20).
//
// Per node: (parent, requested, returned, valid, disturbed).
//   requested  what GetPulseTime() would answer if the node were asked now (harness table)
//   returned   what it answered the last time it was asked (NEVER before the first call and after InvalidatePulseTime(true));
//              this is also the "scheduled time" handed to the next GetPulseTime()/Pulse() call and GetScheduledPulseTime()
//   valid      the node has been asked since it was last invalidated / detached / re-parented / pulsed
//   disturbed  since the last sweep, something below-or-at this node was invalidated, attached or detached.  This flag decides
//              nothing about what MAY run; it only marks the nodes for which "is pulsed in THIS pulse sweep" is not defined by the
//              documentation (InvalidatePulseTime: "GetPulseTime() should be called again at the beginning of the next event-loop
//              cycle"; Pulse: "called at (or shortly after) the time specified"): a due node below a disturbed node may be
//              deferred to the next cycle, but must stay pending (the next sweep reports a wake-up time <= its time).
// Rules (calibrated against the implementation, see AGENT_BRIEF.md):
//   sweep        asks exactly the attached nodes with valid==false, once each: returned := requested, valid := true
//   wake-up      min over attached nodes of returned
//   invalidate   valid := false (returned := NEVER unless clearPrevResult==false)
//   detach / re-parent / attach   valid := false
//   pulse(now)   runs exactly the attached nodes with valid && returned <= now, once each, then valid := false
//   changing `requested` alone changes nothing until the node is asked again
// Node 0 is the root (driven by the manager, never attached to anything).
#ifndef VERIF_REFPULSE_H
#define VERIF_REFPULSE_H

#include <stdint.h>

namespace refpulse {

static const uint64_t NEVER = ~(uint64_t)0;

struct Node {
   int parent;
   uint64_t requested, returned;
   bool valid, disturbed;
   Node() : parent(-1), requested(NEVER), returned(NEVER), valid(false), disturbed(false) {}
};

class Model {
public:
   enum { MAX_NODES = 8 };
   Node n[MAX_NODES]; int count;
   explicit Model(int c) : count(c) {}
   int Count() const { return count; }

   // ---- shape queries
   bool InSubtree(int x, int top) const { for (; x >= 0; x = n[x].parent) if (x == top) return true; return false; }  // top is x or an ancestor of x
   bool Attached(int x) const { return InSubtree(x, 0); }
   int Depth(int x) const { int d = 0; while (n[x].parent >= 0) { x = n[x].parent; d++; } return d; }
   int Height(int x) const { int h = 0; for (int c = 0; c < Count(); c++) if (n[c].parent == x) { int hc = 1 + Height(c); if (hc > h) h = hc; } return h; }
   int NumChildren(int x) const { int k = 0; for (int c = 0; c < Count(); c++) if (n[c].parent == x) k++; return k; }

   // ---- operations
   void Disturb(int x) { for (; x >= 0 && n[x].parent >= 0; x = n[x].parent) n[x].disturbed = true; }
   void Detach(int x) { const int p = n[x].parent; if (p < 0) return; Disturb(p); n[x].parent = -1; n[x].valid = false; n[x].disturbed = false; }
   void Attach(int x, int p) { Detach(x); n[x].parent = p; n[x].valid = false; Disturb(x); }
   void Invalidate(int x, bool clearPrevResult) { if (clearPrevResult) n[x].returned = NEVER; n[x].valid = false; Disturb(x); }
   void ClearChildren(int x) { for (int c = 0; c < Count(); c++) if (n[c].parent == x) Detach(c); }
   void Destroy(int x) { Detach(x); ClearChildren(x); n[x] = Node(); }   // the slot then holds a brand-new node

   // ---- sweep
   bool ShouldBeAsked(int x) const { return Attached(x) && !n[x].valid; }
   uint64_t Asked(int x) { n[x].returned = n[x].requested; n[x].valid = true; return n[x].returned; }
   void SweepDone() { for (int x = 0; x < Count(); x++) if (Attached(x)) n[x].disturbed = false; }
   uint64_t SubtreeMin(int x) const { uint64_t m = n[x].returned; for (int c = 0; c < Count(); c++) if (n[c].parent == x) { uint64_t mc = SubtreeMin(c); if (mc < m) m = mc; } return m; }
   uint64_t WakeUp() const { return SubtreeMin(0); }

   // ---- pulse
   bool Due(int x, uint64_t now) const { return Attached(x) && n[x].valid && n[x].returned <= now; }
   void Pulsed(int x) { n[x].valid = false; }
   bool PathDisturbed(int x) const { for (; x >= 0 && n[x].parent >= 0; x = n[x].parent) if (n[x].disturbed) return true; return false; }
};

}  // namespace refpulse

#endif
