// refstring -- the "ideal, always NUL-terminated byte string" of property C17, on std::string.
// Deliberately boring: every function is the most literal reading of the header documentation of util/String.h.
// Each function states its DOMAIN; outside it the caller records "not defined" and only the differential oracles apply.
#ifndef VERIF_REFSTRING_H
#define VERIF_REFSTRING_H

#include <string>
#include <stdint.h>
#include <stdio.h>

namespace refstring {

typedef std::string Str;
static const uint32_t NOLIMIT = 0xFFFFFFFFu;

static inline bool IsSp(char c) { return c == ' ' || c == '\t' || c == '\r' || c == '\n'; }
static inline bool IsDig(char c) { return c >= '0' && c <= '9'; }
static inline char Lo(char c) { return (c >= 'A' && c <= 'Z') ? (char)(c + 32) : c; }   // ASCII only: bytes >= 0x80 are never letters
static inline char Up(char c) { return (c >= 'a' && c <= 'z') ? (char)(c - 32) : c; }
static inline Str Lower(Str s) { for (size_t i = 0; i < s.size(); i++) s[i] = Lo(s[i]); return s; }
static inline Str Upper(Str s) { for (size_t i = 0; i < s.size(); i++) s[i] = Up(s[i]); return s; }
static inline int Sign(int x) { return (x > 0) - (x < 0); }

// characters [b, min(e,len)) ; empty if the range is empty
static inline Str Sub(const Str & a, uint32_t b, uint32_t e = NOLIMIT) { if (e > a.size()) e = (uint32_t)a.size(); return (e > b) ? a.substr(b, e - b) : Str(); }
static inline Str Take(const Str & c, uint32_t n) { return c.substr(0, (n < c.size()) ? n : c.size()); }
static inline Str Insert(const Str & s, uint32_t idx, const Str & what) { Str r = s; r.insert((idx < s.size()) ? idx : s.size(), what); return r; }
static inline bool StartsWith(const Str & s, const Str & p) { return s.size() >= p.size() && s.compare(0, p.size(), p) == 0; }
static inline bool EndsWith(const Str & s, const Str & p) { return s.size() >= p.size() && s.compare(s.size() - p.size(), p.size(), p) == 0; }

// first index >= from, -1 if none.  DOMAIN: needle non-empty
static inline int Find(const Str & h, const Str & nd, uint32_t from) { if (from >= h.size()) return -1; size_t p = h.find(nd, from); return (p == Str::npos) ? -1 : (int)p; }
// last index, -1 if none.  DOMAIN: needle non-empty
static inline int RFind(const Str & h, const Str & nd) { size_t p = h.rfind(nd); return (p == Str::npos) ? -1 : (int)p; }
// last index that is >= from ("starting at or after fromIndex")
static inline int RFindFrom(const Str & h, const Str & nd, uint32_t from) { if (from >= h.size()) return -1; int p = RFind(h, nd); return (p >= 0 && (uint32_t)p >= from) ? p : -1; }
static inline int FindCh(const Str & h, char c, uint32_t from) { for (size_t i = from; i < h.size(); i++) if (h[i] == c) return (int)i; return -1; }
static inline int RFindChFrom(const Str & h, char c, uint32_t from) { for (size_t i = h.size(); i > from; i--) if (h[i - 1] == c) return (int)i - 1; return -1; }
static inline uint32_t CountCh(const Str & h, char c, uint32_t from) { uint32_t r = 0; for (size_t i = from; i < h.size(); i++) if (h[i] == c) r++; return r; }

// true if two occurrences of nd at or after `from` overlap (then "the instances" of nd are not a well-defined set)
static inline bool Overlapping(const Str & h, const Str & nd, uint32_t from)
{
   if (nd.empty()) return true;
   long last = -1;
   for (size_t p = h.find(nd, from); p != Str::npos; p = h.find(nd, p + 1)) { if (last >= 0 && (size_t)last + nd.size() > p) return true; last = (long)p; }
   return false;
}
// DOMAIN: !Overlapping
static inline uint32_t Count(const Str & h, const Str & nd, uint32_t from) { uint32_t r = 0; if (from >= h.size()) return 0; for (size_t p = h.find(nd, from); p != Str::npos; p = h.find(nd, p + nd.size())) r++; return r; }
// replaces up to `max` instances found at or after `from`; DOMAIN: nd non-empty and !Overlapping
static inline Str Replace(const Str & s, const Str & nd, const Str & with, uint32_t max, uint32_t from, int & count)
{
   count = 0; if (from >= s.size()) return s;
   Str r = s.substr(0, from); size_t pos = from;
   while (max > 0) { size_t p = s.find(nd, pos); if (p == Str::npos) break; r += s.substr(pos, p - pos); r += with; pos = p + nd.size(); count++; if (max != NOLIMIT) max--; }
   return r + s.substr(pos);
}
static inline Str ReplaceCh(const Str & s, char a, char b, uint32_t max, uint32_t from, uint32_t & count)
{
   Str r = s; count = 0; for (size_t i = from; i < r.size() && max > 0; i++) if (r[i] == a) { r[i] = b; count++; max--; } return r;
}
static inline Str Trimmed(const Str & s) { size_t b = 0, e = s.size(); while (b < e && IsSp(s[b])) b++; while (e > b && IsSp(s[e - 1])) e--; return s.substr(b, e - b); }
static inline Str Padded(const Str & s, uint32_t minLen, bool right, char c) { if (s.size() >= minLen) return s; Str pad(minLen - s.size(), c); return right ? s + pad : pad + s; }
static inline Str Reversed(const Str & s) { return Str(s.rbegin(), s.rend()); }
// strcmp order (unsigned bytes)
static inline int Cmp(const Str & a, const Str & b) { return Sign(a.compare(b)); }
// case-insensitive order.  DOMAIN (ok=true): folding to lower and folding to upper give the same sign (the documentation does not say how bytes between 'Z' and 'a' order against letters)
static inline int CmpNoCase(const Str & a, const Str & b, bool & ok) { const int l = Cmp(Lower(a), Lower(b)), u = Cmp(Upper(a), Upper(b)); ok = (l == u); return l; }

// Arg(): DOMAIN = every '%' that is followed by a digit is followed by exactly the digit run "1"; then all "%1" become `value`
static inline bool ArgDomain(const Str & s) { for (size_t i = 0; i + 1 < s.size(); i++) if (s[i] == '%' && IsDig(s[i + 1])) { if (s[i + 1] != '1' || (i + 2 < s.size() && IsDig(s[i + 2]))) return false; } return true; }
static inline Str Arg(const Str & s, const Str & value) { int c; return (s.find("%1") == Str::npos) ? s : Replace(s, "%1", value, NOLIMIT, 0, c); }

// numeric suffix: DOMAIN = at most 9 trailing digits
static inline size_t SuffixStart(const Str & s) { size_t i = s.size(); while (i > 0 && IsDig(s[i - 1])) i--; return i; }
static inline bool SuffixDomain(const Str & s) { return s.size() - SuffixStart(s) <= 9; }
static inline uint32_t SuffixValue(const Str & s, uint32_t def) { size_t i = SuffixStart(s); if (i == s.size()) return def; uint32_t v = 0; for (; i < s.size(); i++) v = v * 10 + (uint32_t)(s[i] - '0'); return v; }

static inline Str WithoutSuffix(Str s, const Str & x, uint32_t max, bool nocase)
{
   if (x.empty()) return s;
   while (max > 0 && (nocase ? EndsWith(Lower(s), Lower(x)) : EndsWith(s, x))) { s.erase(s.size() - x.size()); max--; }
   return s;
}
static inline Str WithoutPrefix(Str s, const Str & x, uint32_t max, bool nocase)
{
   if (x.empty()) return s;
   while (max > 0 && (nocase ? StartsWith(Lower(s), Lower(x)) : StartsWith(s, x))) { s.erase(0, x.size()); max--; }
   return s;
}

}  // namespace refstring

#endif
