// reffilter -- reference evaluator for every muscle QueryFilter kind, written from the documentation in regex/QueryFilter.h
// (class and constructor comments, operator enum comments) and "Beginners Guide.html" (section "Building a QueryFilter from an
// expression-String"); plus a parser for the documented expression grammar and a grammar-directed generator of expression
// strings.  It never calls muscle.  Messages are modelled abstractly (what-code + ordered typed fields).
//
// Documented semantics modelled:
//   WhatCode(min,max)        min <= what <= max
//   ValueExists(f,type,i)    field f exists, has type `type` (or type is the ANY wildcard) and has an item at index i
//   Numeric<T>(f,op,v,i[,d]) item i of field f *of type T* (else the assumed default d, else no match), optionally passed through a
//                            bitwise mask operation (integers/bool only), compared with v by == < > <= >= !=;  Point/Rect compare
//                            lexicographically (support/Tuple.h)
//   String(f,op,v,i[,d])     item i of string field f (else default, else no match) tested with one of the 28 operators
//   NodeName(op,v)           the same test applied to the name of the DataNode (no node => no match)
//   ChildCount(op,v)         numeric test of the node's child count
//   RawData(f,op,v,type,i[,d]) byte-wise lexicographic / prefix / suffix / infix tests on the raw bytes of item i
//   Message(f,i,child[,dm])  sub-Message i of field f (else default Message dm, else no match); no child filter => match, else child's verdict
//   MinimumThreshold(n)      matches iff MORE THAN min(n, kids-1) children match; no children => true   (And = n:inf, Or = n:0)
//   MaximumThreshold(n)      the negation of MinimumThreshold(n); no children => false                   (Nand = n:inf, Nor = n:0)
//   Xor                      an odd number of children match
//
// DOMAIN.  Eval() sets `undefined` (the pair is then outside the compared domain) for what no document defines:
//   * substring searches (contains / issubstringof, also the IGNORECASE and raw-data forms) with an empty needle or empty subject;
//   * raw-data filters whose own value is empty/NULL, or that look at a field that is neither raw nor int32;
//   * wildcard operands outside refmatch's domain, ignore-case wildcard operands containing classes or escapes, regex operands
//     that are not of the anchored form ^body$ with body over letters/digits/'.'/'.*';
//   * operators / mask operators outside their enum, mask operators on float/double/Point/Rect;
//   * ChildCount without a node.
#ifndef VERIF_REFFILTER_H
#define VERIF_REFFILTER_H

#include <stdint.h>
#include <stdlib.h>
#include <string.h>
#include <string>
#include <vector>
#include <memory>
#include "ref/refmatch.h"

namespace reffilter {

enum {
   T_ANY = 1095653716, T_BOOL = 1112493900, T_DOUBLE = 1145195589, T_FLOAT = 1179406164, T_INT64 = 1280069191, T_INT32 = 1280265799,
   T_INT16 = 1397248596, T_INT8 = 1113150533, T_MESSAGE = 1297303367, T_POINT = 1112559188, T_RECT = 1380270932, T_STRING = 1129534546, T_RAW = 1380013908
};
static const uint32_t NO_LIMIT = 0xFFFFFFFFu;

struct Msg;
struct Val {
   uint32_t type; int64_t i; double d[4]; std::string s; std::shared_ptr<Msg> m;
   Val() : type(T_ANY), i(0) { d[0] = d[1] = d[2] = d[3] = 0; }
   static Val Int(uint32_t t, int64_t v) { Val r; r.type = t; r.i = v; return r; }
   static Val Bool(bool b) { return Int(T_BOOL, b ? 1 : 0); }
   static Val Flt(uint32_t t, double v) { Val r; r.type = t; r.d[0] = v; return r; }
   static Val Point(double x, double y) { Val r; r.type = T_POINT; r.d[0] = x; r.d[1] = y; return r; }
   static Val Rect(double a, double b, double c, double e) { Val r; r.type = T_RECT; r.d[0] = a; r.d[1] = b; r.d[2] = c; r.d[3] = e; return r; }
   static Val Str(const std::string & s) { Val r; r.type = T_STRING; r.s = s; return r; }
   static Val Raw(const std::string & s) { Val r; r.type = T_RAW; r.s = s; return r; }
   static Val Sub(const std::shared_ptr<Msg> & m) { Val r; r.type = T_MESSAGE; r.m = m; return r; }
};
struct Field { std::string name; uint32_t type; std::vector<Val> items; };
struct Msg {
   uint32_t what; std::vector<Field> fields;
   Msg() : what(0) {}
   const Field * Find(const std::string & n) const { for (size_t i = 0; i < fields.size(); i++) if (fields[i].name == n) return &fields[i]; return NULL; }
   Msg & Add(const std::string & n, const Val & v)
   {
      for (size_t i = 0; i < fields.size(); i++) if (fields[i].name == n) { fields[i].items.push_back(v); return *this; }
      Field f; f.name = n; f.type = v.type; f.items.push_back(v); fields.push_back(f); return *this;
   }
};
struct Node { bool present; std::string name; int childCount; Node() : present(false), childCount(0) {} };

enum Kind { K_WHAT, K_EXISTS, K_NUM, K_STRING, K_NODENAME, K_CHILDCOUNT, K_RAW, K_MESSAGE, K_MIN, K_MAX, K_XOR };
enum { OP_EQ = 0, OP_LT, OP_GT, OP_LE, OP_GE, OP_NE, NUM_CMP_OPS };
enum { SOP_STARTS_WITH = 6, SOP_ENDS_WITH, SOP_CONTAINS, SOP_START_OF, SOP_END_OF, SOP_SUBSTRING_OF, SOP_IGNORECASE_BASE = 12, SOP_WILDCARD = 24, SOP_REGEX = 25, SOP_WILDCARD_IC = 26, SOP_REGEX_IC = 27, NUM_STRING_OPS = 28 };
enum { ROP_STARTS_WITH = 6, ROP_ENDS_WITH, ROP_CONTAINS, ROP_START_OF, ROP_END_OF, ROP_SUBSET_OF, NUM_RAW_OPS };
enum { MOP_NONE = 0, MOP_AND, MOP_OR, MOP_XOR, MOP_NAND, MOP_NOR, MOP_XNOR, NUM_MASK_OPS };

struct Filter;
typedef std::shared_ptr<Filter> FilterPtr;
struct Filter {
   Kind kind;
   uint32_t minWhat, maxWhat;         // K_WHAT
   std::string field; uint32_t idx;   // value filters
   uint32_t type;                     // K_NUM: the numeric type; K_EXISTS / K_RAW: type code looked for (T_ANY = wildcard)
   int op, maskOp; Val value, mask, def; bool hasDef, hasValue;
   uint32_t n;                        // K_MIN / K_MAX threshold
   std::vector<FilterPtr> kids;       // combinators; K_MESSAGE: zero or one child
   std::shared_ptr<Msg> defMsg;       // K_MESSAGE
   Filter() : kind(K_WHAT), minWhat(0), maxWhat(0), idx(0), type(T_ANY), op(0), maskOp(0), hasDef(false), hasValue(true), n(0) {}
};

static inline FilterPtr MkWhat(uint32_t lo, uint32_t hi) { FilterPtr f(new Filter); f->kind = K_WHAT; f->minWhat = lo; f->maxWhat = hi; return f; }
static inline FilterPtr MkExists(const std::string & fn, uint32_t type, uint32_t idx) { FilterPtr f(new Filter); f->kind = K_EXISTS; f->field = fn; f->type = type; f->idx = idx; return f; }
static inline FilterPtr MkNum(uint32_t type, const std::string & fn, int op, const Val & v, uint32_t idx) { FilterPtr f(new Filter); f->kind = K_NUM; f->type = type; f->field = fn; f->op = op; f->value = v; f->idx = idx; return f; }
static inline FilterPtr MkString(const std::string & fn, int op, const std::string & v, uint32_t idx) { FilterPtr f(new Filter); f->kind = K_STRING; f->field = fn; f->op = op; f->value = Val::Str(v); f->idx = idx; return f; }
static inline FilterPtr MkMulti(Kind k, uint32_t n) { FilterPtr f(new Filter); f->kind = k; f->n = n; return f; }
static inline FilterPtr MkNot(const FilterPtr & kid) { FilterPtr f = MkMulti(K_MAX, 0); f->kids.push_back(kid); return f; }

// ------------------------------------------------------------------------------------------------ evaluation
namespace detail {
static inline std::string Lower(const std::string & s) { std::string o = s; for (size_t i = 0; i < o.size(); i++) if (o[i] >= 'A' && o[i] <= 'Z') o[i] = (char)(o[i] - 'A' + 'a'); return o; }
static inline bool StartsWith(const std::string & s, const std::string & p) { return s.size() >= p.size() && s.compare(0, p.size(), p) == 0; }
static inline bool EndsWith(const std::string & s, const std::string & p) { return s.size() >= p.size() && s.compare(s.size() - p.size(), p.size(), p) == 0; }
static inline int Cmp(const std::string & a, const std::string & b)   // unsigned byte-wise lexicographic
{
   const size_t n = a.size() < b.size() ? a.size() : b.size();
   const int r = n ? memcmp(a.data(), b.data(), n) : 0; if (r) return r < 0 ? -1 : 1;
   return a.size() < b.size() ? -1 : (a.size() > b.size() ? 1 : 0);
}
static inline bool CmpOp(int op, int c, bool & undefined)
{
   switch (op) { case OP_EQ: return c == 0; case OP_LT: return c < 0; case OP_GT: return c > 0; case OP_LE: return c <= 0; case OP_GE: return c >= 0; case OP_NE: return c != 0; }
   undefined = true; return false;
}
static inline int64_t Trunc(uint32_t type, int64_t v)
{
   switch (type) { case T_INT8: return (int8_t)v; case T_INT16: return (int16_t)v; case T_INT32: return (int32_t)v; case T_BOOL: return v ? 1 : 0; default: return v; }
}
// anchored regex subset ^body$ -> glob (body over letters, digits, '.', '.*')
static inline bool RegexToGlob(const std::string & re, std::string & glob)
{
   if (re.size() < 2 || re[0] != '^' || re[re.size() - 1] != '$') return false;
   glob.clear();
   for (size_t i = 1; i + 1 < re.size(); i++) {
      const char c = re[i];
      if (c == '.') { if (i + 2 < re.size() && re[i + 1] == '*') { glob += '*'; i++; } else glob += '?'; }
      else if ((c >= 'a' && c <= 'z') || (c >= 'A' && c <= 'Z') || (c >= '0' && c <= '9')) glob += c;
      else return false;
   }
   return !glob.empty();
}
static inline bool StringTest(int op, const std::string & s, const std::string & v, bool & undefined)
{
   if (op < 0 || op >= NUM_STRING_OPS) { undefined = true; return false; }
   if (op >= SOP_WILDCARD) {
      const bool ic = (op == SOP_WILDCARD_IC || op == SOP_REGEX_IC);
      std::string pat = v;
      if (op == SOP_REGEX || op == SOP_REGEX_IC) { if (!RegexToGlob(v, pat)) { undefined = true; return false; } }
      if (ic) { if (pat.find('[') != std::string::npos || pat.find('\\') != std::string::npos) { undefined = true; return false; } pat = Lower(pat); }
      const refmatch::Pattern p = refmatch::Parse(pat);
      const std::string subj = ic ? Lower(s) : s;
      if (!p.inDomain || !refmatch::SubjectInDomain(p, subj)) { undefined = true; return false; }
      return refmatch::Match(p, subj);
   }
   const bool ic = op >= SOP_IGNORECASE_BASE; const int b = ic ? op - SOP_IGNORECASE_BASE : op;
   const std::string S = ic ? Lower(s) : s, V = ic ? Lower(v) : v;
   switch (b) {
   case SOP_STARTS_WITH:  return StartsWith(S, V);
   case SOP_ENDS_WITH:    return EndsWith(S, V);
   case SOP_CONTAINS:     if (S.empty() || V.empty()) { undefined = true; return false; } return S.find(V) != std::string::npos;
   case SOP_START_OF:     return StartsWith(V, S);
   case SOP_END_OF:       return EndsWith(V, S);
   case SOP_SUBSTRING_OF: if (S.empty() || V.empty()) { undefined = true; return false; } return V.find(S) != std::string::npos;
   default:               return CmpOp(b, Cmp(S, V), undefined);
   }
}
static inline std::string RawBytesOf(const Val & v, bool & undefined)
{
   if (v.type == T_RAW) return v.s;
   if (v.type == T_INT32) { const int32_t x = (int32_t)v.i; return std::string((const char *)&x, 4); }   // host representation
   undefined = true; return "";
}
}  // namespace detail

static inline bool Eval(const Filter & f, const Msg & m, const Node & node, bool & undefined);

static inline bool NumericTest(const Filter & f, const Val & found, bool & undefined)
{
   using namespace detail;
   const uint32_t T = f.type;
   if (f.maskOp < 0 || f.maskOp >= NUM_MASK_OPS) { undefined = true; return false; }
   if (T == T_FLOAT || T == T_DOUBLE || T == T_POINT || T == T_RECT) {
      if (f.maskOp != MOP_NONE) { undefined = true; return false; }
      const int nd = (T == T_POINT) ? 2 : (T == T_RECT) ? 4 : 1; int c = 0;
      for (int k = 0; k < nd && c == 0; k++) { if (found.d[k] != found.d[k] || f.value.d[k] != f.value.d[k]) { undefined = true; return false; } c = (found.d[k] < f.value.d[k]) ? -1 : (found.d[k] > f.value.d[k]) ? 1 : 0; }
      return CmpOp(f.op, c, undefined);
   }
   int64_t a = found.i; const int64_t k = f.mask.i;
   if (T == T_BOOL) {
      switch (f.maskOp) { case MOP_AND: a = a & k; break; case MOP_OR: a = a | k; break; case MOP_XOR: a = a ^ k; break; case MOP_NAND: a = !(a & k); break; case MOP_NOR: a = !(a | k); break; case MOP_XNOR: a = !(a ^ k); break; default: break; }
   } else {
      switch (f.maskOp) { case MOP_AND: a = a & k; break; case MOP_OR: a = a | k; break; case MOP_XOR: a = a ^ k; break; case MOP_NAND: a = ~(a & k); break; case MOP_NOR: a = ~(a | k); break; case MOP_XNOR: a = ~(a ^ k); break; default: break; }
      a = Trunc(T, a);
   }
   return CmpOp(f.op, a < f.value.i ? -1 : (a > f.value.i ? 1 : 0), undefined);
}

static inline bool Eval(const Filter & f, const Msg & m, const Node & node, bool & undefined)
{
   using namespace detail;
   switch (f.kind) {
   case K_WHAT: return m.what >= f.minWhat && m.what <= f.maxWhat;
   case K_EXISTS: { const Field * fd = m.Find(f.field); return fd && (f.type == T_ANY || fd->type == f.type) && f.idx < fd->items.size(); }
   case K_NUM: {
      const Field * fd = m.Find(f.field);
      if (fd && fd->type == f.type && f.idx < fd->items.size()) return NumericTest(f, fd->items[f.idx], undefined);
      if (f.hasDef) return NumericTest(f, f.def, undefined);
      return false; }
   case K_CHILDCOUNT: {
      if (!node.present) { undefined = true; return false; }
      Filter g = f; g.type = T_INT32; return NumericTest(g, Val::Int(T_INT32, node.childCount), undefined); }
   case K_STRING: {
      const Field * fd = m.Find(f.field);
      if (fd && fd->type == T_STRING && f.idx < fd->items.size()) return StringTest(f.op, fd->items[f.idx].s, f.value.s, undefined);
      if (f.hasDef) return StringTest(f.op, f.def.s, f.value.s, undefined);
      return false; }
   case K_NODENAME: return node.present && StringTest(f.op, node.name, f.value.s, undefined);
   case K_RAW: {
      const Field * fd = m.Find(f.field); std::string his;
      if (fd && (f.type == T_ANY || fd->type == f.type) && f.idx < fd->items.size()) his = RawBytesOf(fd->items[f.idx], undefined);
      else if (f.hasDef) his = f.def.s;
      else return false;
      if (undefined) return false;
      if (!f.hasValue || f.value.s.empty()) { undefined = true; return false; }
      const std::string & my = f.value.s;
      switch (f.op) {
      case ROP_STARTS_WITH: return StartsWith(his, my);
      case ROP_ENDS_WITH:   return EndsWith(his, my);
      case ROP_CONTAINS:    if (his.empty()) { undefined = true; return false; } return his.find(my) != std::string::npos;
      case ROP_START_OF:    return StartsWith(my, his);
      case ROP_END_OF:      return EndsWith(my, his);
      case ROP_SUBSET_OF:   if (his.empty()) { undefined = true; return false; } return my.find(his) != std::string::npos;
      default:              return CmpOp(f.op, Cmp(his, my), undefined);
      } }
   case K_MESSAGE: {
      const Field * fd = m.Find(f.field); const Msg * sub = NULL;
      if (fd && fd->type == T_MESSAGE && f.idx < fd->items.size()) sub = fd->items[f.idx].m.get(); else sub = f.defMsg.get();
      if (!sub) return false;
      if (f.kids.empty()) return true;
      return Eval(*f.kids[0], *sub, node, undefined); }
   case K_MIN: case K_MAX: {
      uint32_t cnt = 0; for (size_t i = 0; i < f.kids.size(); i++) if (Eval(*f.kids[i], m, node, undefined)) cnt++;   // no short circuit: every leaf's domain is checked
      bool r;
      if (f.kids.empty()) r = true;
      else { const uint32_t lim = (uint32_t)f.kids.size() - 1; const uint32_t thr = f.n < lim ? f.n : lim; r = cnt > thr; }
      return (f.kind == K_MIN) ? r : !r; }
   case K_XOR: { uint32_t cnt = 0; for (size_t i = 0; i < f.kids.size(); i++) if (Eval(*f.kids[i], m, node, undefined)) cnt++; return (cnt & 1) != 0; }
   }
   undefined = true; return false;
}

// ------------------------------------------------------------------------------------------------ description (JSON-ish, for samples / replays)
static inline std::string TypeName(uint32_t t)
{
   switch (t) { case T_ANY: return "any"; case T_BOOL: return "bool"; case T_DOUBLE: return "double"; case T_FLOAT: return "float"; case T_INT64: return "int64"; case T_INT32: return "int32"; case T_INT16: return "int16"; case T_INT8: return "int8";
                case T_MESSAGE: return "message"; case T_POINT: return "point"; case T_RECT: return "rect"; case T_STRING: return "string"; case T_RAW: return "raw"; }
   char b[32]; snprintf(b, sizeof(b), "type%u", (unsigned)t); return b;
}
static inline std::string ValText(const Val & v)
{
   char b[160];
   switch (v.type) {
   case T_BOOL: return v.i ? "true" : "false";
   case T_INT8: case T_INT16: case T_INT32: case T_INT64: snprintf(b, sizeof(b), "%lld", (long long)v.i); return b;
   case T_FLOAT: case T_DOUBLE: snprintf(b, sizeof(b), "%g", v.d[0]); return b;
   case T_POINT: snprintf(b, sizeof(b), "(%g,%g)", v.d[0], v.d[1]); return b;
   case T_RECT: snprintf(b, sizeof(b), "(%g,%g,%g,%g)", v.d[0], v.d[1], v.d[2], v.d[3]); return b;
   case T_STRING: return "'" + v.s + "'";
   case T_RAW: { std::string o = "x"; for (size_t i = 0; i < v.s.size(); i++) { snprintf(b, sizeof(b), "%02x", (unsigned char)v.s[i]); o += b; } return o; }
   case T_MESSAGE: return "<msg>";
   }
   return "?";
}
static inline std::string Describe(const Filter & f)
{
   char b[256]; std::string o;
   switch (f.kind) {
   case K_WHAT: snprintf(b, sizeof(b), "what[%u..%u]", (unsigned)f.minWhat, (unsigned)f.maxWhat); return b;
   case K_EXISTS: snprintf(b, sizeof(b), "exists(%s:%u,%s)", f.field.c_str(), (unsigned)f.idx, TypeName(f.type).c_str()); return b;
   case K_NUM: case K_CHILDCOUNT:
      o = (f.kind == K_NUM) ? (TypeName(f.type) + "(" + f.field) : std::string("childcount(");
      snprintf(b, sizeof(b), ":%u op%d %s", (unsigned)f.idx, f.op, ValText(f.value).c_str()); o += b;
      if (f.maskOp) { snprintf(b, sizeof(b), " mop%d %s", f.maskOp, ValText(f.mask).c_str()); o += b; }
      if (f.hasDef) o += " default " + ValText(f.def);
      return o + ")";
   case K_STRING: case K_NODENAME:
      o = (f.kind == K_STRING) ? ("string(" + f.field) : std::string("nodename(");
      snprintf(b, sizeof(b), ":%u op%d %s", (unsigned)f.idx, f.op, ValText(f.value).c_str()); o += b;
      if (f.hasDef) o += " default " + ValText(f.def);
      return o + ")";
   case K_RAW:
      snprintf(b, sizeof(b), "raw(%s:%u,%s op%d %s", f.field.c_str(), (unsigned)f.idx, TypeName(f.type).c_str(), f.op, f.hasValue ? ValText(f.value).c_str() : "null"); o = b;
      if (f.hasDef) o += " default " + ValText(f.def);
      return o + ")";
   case K_MESSAGE:
      snprintf(b, sizeof(b), "msg(%s:%u", f.field.c_str(), (unsigned)f.idx); o = b;
      if (!f.kids.empty()) o += " child " + Describe(*f.kids[0]);
      if (f.defMsg) o += " defmsg";
      return o + ")";
   case K_MIN: case K_MAX: case K_XOR:
      if (f.kind == K_XOR) o = "xor"; else { if (f.n == NO_LIMIT) snprintf(b, sizeof(b), "%s(inf)", f.kind == K_MIN ? "min" : "max"); else snprintf(b, sizeof(b), "%s(%u)", f.kind == K_MIN ? "min" : "max", (unsigned)f.n); o = b; }
      o += "[";
      for (size_t i = 0; i < f.kids.size(); i++) { if (i) o += ", "; o += Describe(*f.kids[i]); }
      return o + "]";
   }
   return "?";
}

// ------------------------------------------------------------------------------------------------ expression grammar (Beginners Guide)
//   expr      := NOT* predicate  |  pterm ( CONJ pterm )*          all CONJ of one level equal, else "ERROR, ambiguous"
//   pterm     := NOT* '(' expr ')'
//   predicate := field INFIX [cast] value | 'what' INFIX [cast] value | 'exists' [cast] field
//   field     := name [ ':' index ] [ '|' default ]
//   INFIX     := < > == <= >= != startswith endswith contains isstartof isendof issubstringof matches matchesregex | is | equals | =
//   CONJ      := && || ^ | and | or | xor            NOT := ! | not
//   cast      := (bool) (int8) (int16) (int32) (int64) (float) (double) (string)
//   value     : "quoted" => string; true/false => bool; digits..f => float; digits.digits => double; digits => int32; other word => string
// Parse() classifies a string: WELL (the documented grammar gives it a meaning; `filter` is the denoted tree), AMBIGUOUS (the one
// documented error: operators mixed without parentheses between otherwise well-formed terms => the library must return NULL),
// or UNSPECIFIED (anything else: the documentation neither gives it a meaning nor promises an error; only crash-freedom is checked).
enum ParseClass { WELL, AMBIGUOUS, UNSPECIFIED };

namespace detail {
enum TokKind { TK_LPAREN, TK_RPAREN, TK_NOT, TK_CONJ, TK_INFIX, TK_CAST, TK_EXISTS, TK_WHAT, TK_WORD, TK_QUOTED };
struct Tok { TokKind k; int v; std::string s; };   // v: CONJ 0 and,1 or,2 xor; INFIX string-op number; CAST type code
struct KW { const char * w; TokKind k; int v; };
static const KW SYMS2[] = { {"==", TK_INFIX, 0}, {"<=", TK_INFIX, 3}, {">=", TK_INFIX, 4}, {"!=", TK_INFIX, 5}, {"&&", TK_CONJ, 0}, {"||", TK_CONJ, 1}, {NULL, TK_WORD, 0} };
static const KW WORDS[] = { {"and", TK_CONJ, 0}, {"or", TK_CONJ, 1}, {"xor", TK_CONJ, 2}, {"not", TK_NOT, 0}, {"is", TK_INFIX, 0}, {"equals", TK_INFIX, 0},
   {"startswith", TK_INFIX, 6}, {"endswith", TK_INFIX, 7}, {"contains", TK_INFIX, 8}, {"isstartof", TK_INFIX, 9}, {"isendof", TK_INFIX, 10}, {"issubstringof", TK_INFIX, 11},
   {"matches", TK_INFIX, 24}, {"matchesregex", TK_INFIX, 25}, {"exists", TK_EXISTS, 0}, {"what", TK_WHAT, 0}, {NULL, TK_WORD, 0} };
static const KW CASTS[] = { {"(bool)", TK_CAST, T_BOOL}, {"(int8)", TK_CAST, T_INT8}, {"(int16)", TK_CAST, T_INT16}, {"(int32)", TK_CAST, T_INT32}, {"(int64)", TK_CAST, T_INT64},
   {"(float)", TK_CAST, T_FLOAT}, {"(double)", TK_CAST, T_DOUBLE}, {"(string)", TK_CAST, T_STRING}, {NULL, TK_WORD, 0} };

// returns false when the string cannot be tokenised in an undisputed way (=> UNSPECIFIED)
static inline bool Lex(const std::string & e, std::vector<Tok> & out)
{
   size_t i = 0;
   while (i < e.size()) {
      const char c = e[i];
      if (c == ' ') { i++; continue; }
      if ((unsigned char)c < 0x20 || (unsigned char)c >= 0x7f) return false;
      Tok t; t.v = 0;
      if (c == '"') { const size_t q = e.find('"', i + 1); if (q == std::string::npos) return false; t.k = TK_QUOTED; t.s = e.substr(i + 1, q - i - 1); out.push_back(t); i = q + 1; continue; }
      bool done = false;
      for (int k = 0; CASTS[k].w && !done; k++) if (e.compare(i, strlen(CASTS[k].w), CASTS[k].w) == 0) { t.k = TK_CAST; t.v = CASTS[k].v; i += strlen(CASTS[k].w); done = true; }
      for (int k = 0; SYMS2[k].w && !done; k++) if (e.compare(i, 2, SYMS2[k].w) == 0) { t.k = SYMS2[k].k; t.v = SYMS2[k].v; i += 2; done = true; }
      if (!done) switch (c) {
         case '(': t.k = TK_LPAREN; i++; done = true; break;
         case ')': t.k = TK_RPAREN; i++; done = true; break;
         case '!': t.k = TK_NOT; i++; done = true; break;
         case '<': t.k = TK_INFIX; t.v = 1; i++; done = true; break;
         case '>': t.k = TK_INFIX; t.v = 2; i++; done = true; break;
         case '=': t.k = TK_INFIX; t.v = 0; i++; done = true; break;
         case '^': t.k = TK_CONJ; t.v = 2; i++; done = true; break;
         case '&': return false;   // a single '&' (not "&&") has no documented meaning
         default: break;
      }
      if (!done) {
         size_t j = i;
         while (j < e.size() && e[j] != ' ' && !strchr("()!<>=^&\"", e[j]) && !(e[j] == '|' && j + 1 < e.size() && e[j + 1] == '|')) j++;
         if (j == i) return false;
         t.k = TK_WORD; t.s = e.substr(i, j - i);
         // a symbol glued to a word is lexically disputable (the documentation separates tokens with blanks); only ( ) ! may touch a word
         if (j < e.size() && e[j] != ' ' && e[j] != ')' ) return false;
         if (i > 0 && e[i - 1] != ' ' && e[i - 1] != '(' && e[i - 1] != '!' && e[i - 1] != ')') return false;
         for (int k = 0; WORDS[k].w; k++) if (t.s == WORDS[k].w) { t.k = WORDS[k].k; t.v = WORDS[k].v; t.s.clear(); break; }
         i = j;
      }
      out.push_back(t);
   }
   return true;
}
static inline bool IsName(const std::string & s)
{
   if (s.empty() || !(isalpha((unsigned char)s[0]) || s[0] == '_')) return false;
   for (size_t i = 0; i < s.size(); i++) if (!(isalnum((unsigned char)s[i]) || s[i] == '_')) return false;
   // names that contain a keyword could be split by a keyword-driven lexer: not covered by the documentation
   static const char * kw[] = {"what", "exists", "and", "or", "xor", "not", "is", "equals", "startswith", "endswith", "contains", "isstartof", "isendof", "issubstringof", "matches", "matchesregex", "true", "false", NULL};
   for (int k = 0; kw[k]; k++) if (s.find(kw[k]) != std::string::npos) return false;
   return true;
}
static inline bool AllDigits(const std::string & s, size_t from = 0) { if (from >= s.size()) return false; for (size_t i = from; i < s.size(); i++) if (!isdigit((unsigned char)s[i])) return false; return true; }
// literal of a given type -> Val; false = not an undisputed literal of that type
static inline bool Literal(uint32_t type, const std::string & w, Val & v)
{
   switch (type) {
   case T_BOOL: if (w == "true") { v = Val::Bool(true); return true; } if (w == "false") { v = Val::Bool(false); return true; } return false;
   case T_INT8: case T_INT16: case T_INT32: case T_INT64: {
      const size_t from = (w.size() > 1 && (w[0] == '-' || w[0] == '+')) ? 1 : 0;
      if (!AllDigits(w, from) || w.size() - from > 9) return false;   // <=9 digits: no overflow questions for int32/int64
      const long long x = atoll(w.c_str());
      if (type == T_INT8 && (x < -128 || x > 127)) return false;
      if (type == T_INT16 && (x < -32768 || x > 32767)) return false;
      v = Val::Int(type, x); return true; }
   case T_FLOAT: case T_DOUBLE: {
      std::string n = w; if (!n.empty() && n[n.size() - 1] == 'f') n.erase(n.size() - 1);
      const size_t from = (n.size() > 1 && (n[0] == '-' || n[0] == '+')) ? 1 : 0; const size_t dot = n.find('.');
      if (dot == std::string::npos) { if (!AllDigits(n, from) || n.size() - from > 6) return false; }
      else { if (dot <= from || !AllDigits(n.substr(from, dot - from)) || !AllDigits(n, dot + 1) || n.size() > 12) return false; }
      const double x = atof(n.c_str()); v = Val::Flt(type, type == T_FLOAT ? (double)(float)x : x); return true; }
   case T_STRING: if (w.empty()) return false; v = Val::Str(w); return true;
   }
   return false;
}
// documented inference for an unquoted, un-cast value word
static inline uint32_t InferType(const std::string & w)
{
   if (w == "true" || w == "false") return T_BOOL;
   if (w.empty()) return T_ANY;
   const size_t from = (w.size() > 1 && (w[0] == '-' || w[0] == '+')) ? 1 : 0;
   if (isdigit((unsigned char)w[from])) {
      if (w[w.size() - 1] == 'f') return T_FLOAT;
      if (w.find('.') != std::string::npos) return T_DOUBLE;
      return T_INT32;
   }
   if (w[0] == '-' || w[0] == '+' || w[0] == '.' || isdigit((unsigned char)w[0])) return T_ANY;
   for (size_t i = 0; i < w.size(); i++) if (!(isalnum((unsigned char)w[i]) || strchr("-_*?.", w[i]))) return T_ANY;   // keep string words tame
   static const char * kw[] = {"what", "exists", "and", "or", "xor", "not", "is", "equals", "startswith", "endswith", "contains", "isstartof", "isendof", "issubstringof", "matches", "matchesregex", NULL};
   for (int k = 0; kw[k]; k++) if (w.find(kw[k]) != std::string::npos) return T_ANY;
   return T_STRING;
}

struct P {
   const std::vector<Tok> & t; size_t pos; ParseClass cls;
   P(const std::vector<Tok> & toks) : t(toks), pos(0), cls(WELL) {}
   FilterPtr Bad(ParseClass c = UNSPECIFIED) { if (cls == WELL || c == UNSPECIFIED) cls = c; return FilterPtr(); }

   bool ParseField(const std::string & w, bool allowDefault, std::string & name, uint32_t & idx, bool & hasDef, std::string & defWord)
   {
      std::string rest = w; hasDef = false; idx = 0;
      const size_t bar = rest.rfind('|');
      if (bar != std::string::npos) { if (!allowDefault) return false; hasDef = true; defWord = rest.substr(bar + 1); rest = rest.substr(0, bar); if (defWord.empty()) return false; }
      const size_t col = rest.rfind(':');
      if (col != std::string::npos) { const std::string d = rest.substr(col + 1); if (!AllDigits(d) || d.size() > 6) return false; idx = (uint32_t)atol(d.c_str()); rest = rest.substr(0, col); }
      if (!IsName(rest)) return false;
      name = rest; return true;
   }

   FilterPtr Predicate(size_t end)
   {
      // tokens [pos,end) contain no parentheses / NOT / CONJ
      std::vector<Tok> v(t.begin() + pos, t.begin() + end); pos = end;
      if (v.empty()) return Bad();
      if (v[0].k == TK_EXISTS) {
         uint32_t cast = T_ANY; size_t i = 1;
         if (i < v.size() && v[i].k == TK_CAST) { cast = (uint32_t)v[i].v; i++; }
         if (i + 1 != v.size() || v[i].k != TK_WORD) return Bad();
         std::string name, dw; uint32_t idx; bool hd;
         if (!ParseField(v[i].s, false, name, idx, hd, dw)) return Bad();
         return MkExists(name, cast, idx);
      }
      if (v.size() < 3 || v[1].k != TK_INFIX) return Bad();
      const int op = v[1].v; uint32_t cast = T_ANY; size_t i = 2;
      if (v[i].k == TK_CAST) { cast = (uint32_t)v[i].v; i++; }
      if (i + 1 != v.size()) return Bad();
      const Tok & vt = v[i];
      uint32_t type; Val val;
      if (vt.k == TK_QUOTED) { if (cast != T_ANY) return Bad(); type = T_STRING; val = Val::Str(vt.s); for (size_t k = 0; k < vt.s.size(); k++) if ((unsigned char)vt.s[k] < 0x20 || (unsigned char)vt.s[k] >= 0x7f) return Bad(); }
      else if (vt.k == TK_WORD) { type = (cast != T_ANY) ? cast : InferType(vt.s); if (type == T_ANY || !Literal(type, vt.s, val)) return Bad(); }
      else return Bad();
      if (v[0].k == TK_WHAT) {
         if (type != T_INT32 || op >= NUM_CMP_OPS || val.i < 0) return Bad();
         const uint32_t w = (uint32_t)val.i;
         switch (op) {
         case OP_EQ: return MkWhat(w, w);
         case OP_NE: return MkNot(MkWhat(w, w));
         case OP_LT: return w == 0 ? MkWhat(1, 0) : MkWhat(0, w - 1);
         case OP_GT: return MkWhat(w + 1, NO_LIMIT);
         case OP_LE: return MkWhat(0, w);
         case OP_GE: return MkWhat(w, NO_LIMIT);
         }
         return Bad();
      }
      if (v[0].k != TK_WORD) return Bad();
      std::string name, dw; uint32_t idx; bool hd;
      if (!ParseField(v[0].s, true, name, idx, hd, dw)) return Bad();
      FilterPtr f;
      if (type == T_STRING) { f = MkString(name, op, val.s, idx); if (hd) { Val d; if (!Literal(T_STRING, dw, d)) return Bad(); f->hasDef = true; f->def = d; } }
      else {
         if (op >= NUM_CMP_OPS) return Bad();   // string-only operators with a numeric value: not documented
         f = MkNum(type, name, op, val, idx);
         if (hd) { Val d; if (!Literal(type, dw, d)) return Bad(); f->hasDef = true; f->def = d; }
      }
      return f;
   }

   // parses until an unmatched ')' or the end; does not consume the ')'
   FilterPtr Expr()
   {
      int nots = 0; while (pos < t.size() && t[pos].k == TK_NOT) { nots++; pos++; }
      if (pos >= t.size()) return Bad();
      if (t[pos].k != TK_LPAREN) {
         size_t end = pos; while (end < t.size() && t[end].k != TK_RPAREN) { if (t[end].k == TK_LPAREN || t[end].k == TK_NOT || t[end].k == TK_CONJ) return Bad(); end++; }
         FilterPtr p = Predicate(end); if (!p) return p;
         return (nots & 1) ? MkNot(p) : p;
      }
      std::vector<FilterPtr> terms; int conj = -1; bool mixed = false;
      while (true) {
         if (pos >= t.size() || t[pos].k != TK_LPAREN) return Bad();
         pos++; FilterPtr sub = Expr(); if (!sub) return sub;
         if (pos >= t.size() || t[pos].k != TK_RPAREN) return Bad();
         pos++;
         terms.push_back((nots & 1) ? MkNot(sub) : sub); nots = 0;
         if (pos >= t.size() || t[pos].k == TK_RPAREN) break;
         if (t[pos].k != TK_CONJ) return Bad();
         if (conj >= 0 && conj != t[pos].v) mixed = true;
         conj = t[pos].v; pos++;
         while (pos < t.size() && t[pos].k == TK_NOT) { nots++; pos++; }
      }
      if (mixed) return Bad(AMBIGUOUS);
      if (terms.size() == 1) return terms[0];
      FilterPtr c = (conj == 0) ? MkMulti(K_MIN, NO_LIMIT) : (conj == 1) ? MkMulti(K_MIN, 0) : MkMulti(K_XOR, 0);
      c->kids = terms; return c;
   }
};
}  // namespace detail

static inline ParseClass Parse(const std::string & expr, FilterPtr & filter)
{
   filter.reset();
   std::vector<detail::Tok> toks; if (!detail::Lex(expr, toks) || toks.empty()) return UNSPECIFIED;
   detail::P p(toks); FilterPtr f = p.Expr();
   if (f && p.pos != toks.size()) return UNSPECIFIED;   // trailing tokens (e.g. an unmatched ')')
   if (!f) return (p.cls == AMBIGUOUS) ? AMBIGUOUS : UNSPECIFIED;
   filter = f; return WELL;
}

// ------------------------------------------------------------------------------------------------ grammar-directed generator
// Every derivation with 1..maxPreds predicates: predicates are drawn from p1 (single-predicate forms), p2 (pairs), p3 (triples);
// conjunctions in symbol and word form; negation of every parenthesised term; both nestings of three; and the documented
// ambiguous mixes (expected: NULL).
static inline void Generate(const std::vector<std::string> & p1, const std::vector<std::string> & p2, const std::vector<std::string> & p3, std::vector<std::string> & out)
{
   static const char * CONJ[6] = { "&&", "||", "^", "and", "or", "xor" };
   static const char * NEG[3] = { "", "!", "not " };
   for (size_t i = 0; i < p1.size(); i++) {
      const std::string & p = p1[i];
      out.push_back(p); out.push_back("(" + p + ")"); out.push_back("!(" + p + ")"); out.push_back("not (" + p + ")"); out.push_back("!!(" + p + ")"); out.push_back("((" + p + "))");
      if (p.compare(0, 7, "exists ") == 0) out.push_back("!" + p);
   }
   for (size_t a = 0; a < p2.size(); a++) for (size_t b = 0; b < p2.size(); b++) for (int c = 0; c < 6; c++) for (int n1 = 0; n1 < 3; n1++) for (int n2 = 0; n2 < 2; n2++)
      out.push_back(std::string(NEG[n1]) + "(" + p2[a] + ") " + CONJ[c] + " " + NEG[n2] + "(" + p2[b] + ")");
   for (size_t a = 0; a < p3.size(); a++) for (size_t b = 0; b < p3.size(); b++) for (size_t d = 0; d < p3.size(); d++) {
      const std::string A = "(" + p3[a] + ")", B = "(" + p3[b] + ")", D = "(" + p3[d] + ")";
      for (int c = 0; c < 3; c++) for (int n = 0; n < 8; n++)
         out.push_back(std::string((n & 1) ? "!" : "") + A + " " + CONJ[c] + " " + ((n & 2) ? "!" : "") + B + " " + CONJ[c] + " " + ((n & 4) ? "!" : "") + D);
      for (int c1 = 0; c1 < 3; c1++) for (int c2 = 0; c2 < 3; c2++) {
         for (int n = 0; n < 16; n++) {
            out.push_back(std::string((n & 8) ? "!" : "") + "(" + ((n & 1) ? "!" : "") + A + " " + CONJ[c1] + " " + ((n & 2) ? "!" : "") + B + ") " + CONJ[c2] + " " + ((n & 4) ? "!" : "") + D);
            out.push_back(std::string((n & 1) ? "!" : "") + A + " " + CONJ[c2] + " " + ((n & 8) ? "!" : "") + "(" + ((n & 2) ? "!" : "") + B + " " + CONJ[c1] + " " + ((n & 4) ? "!" : "") + D + ")");
         }
         if (c1 != c2) out.push_back(A + " " + CONJ[c1] + " " + B + " " + CONJ[c2] + " " + D);   // documented: ERROR, ambiguous
      }
   }
}

}  // namespace reffilter

#endif
