#!/usr/bin/env python3
"""C08 helper: runs the repository's Python Message codec (lang/python3/message.py) and, optionally, the framing code of
lang/python3/message_transceiver_thread.py (over a loopback TCP connection inside this process) on a batch of Messages.

usage: C08_pycodec.py <repo> <infile> <outfile> [mtt]

infile : one case per line, space separated
            <index> <flags> <body_hex> <cppframe_hex> <dump>
         flags = string of letters:  p = run parse->dump->reserialise,  n = build natively from <dump> and serialise,
                                     t = also push through MessageTransceiverThread (both directions)
         dump  = canonical text of ref/refcodec.h:  M<what>{<hexname>:<type>:[=<hexitem>,...];...}  (items of MSGG fields are nested dumps)
outfile: one line per case
            <index> <parsed_dump> <reserialised_hex> <native_hex> <mtt_sent_header_hex> <mtt_sent_body_hex> <mtt_received_dump>
         '-' = not requested, 'ERR:<text>' = the Python code raised.
The dump of a parsed Message is produced from the objects message.py built (arrays, tuples, strings, bytes, Messages),
not from its serialiser, so that parse and serialise are compared independently.
"""
import sys, struct, array, signal, socket, time

repo = sys.argv[1]
sys.path.insert(0, repo + "/lang/python3")
import message  # noqa: E402

T = message


def hexs(b):
    return bytes(b).hex()


def dump(msg):
    out = ["M%u{" % (msg.what & 0xFFFFFFFF)]
    for name in msg.GetFieldNames():
        t = msg.GetFieldType(name)
        c = msg.GetFieldContents(name)
        items = []
        if t == T.B_MESSAGE_TYPE:
            items = [dump(m) for m in c]
        elif t == T.B_BOOL_TYPE:
            items = ["%02x" % (v & 0xFF) for v in c]
        elif t in (T.B_INT8_TYPE, T.B_INT16_TYPE, T.B_INT32_TYPE, T.B_INT64_TYPE):
            # integers by VALUE (a value outside the signed range of its type raises): what a Python caller would see
            fmt = {T.B_INT8_TYPE: "<b", T.B_INT16_TYPE: "<h", T.B_INT32_TYPE: "<i", T.B_INT64_TYPE: "<q"}[t]
            items = [struct.pack(fmt, v).hex() for v in c]
        elif t in (T.B_FLOAT_TYPE, T.B_DOUBLE_TYPE):
            size = 4 if t == T.B_FLOAT_TYPE else 8
            if isinstance(c, array.array):
                raw = c.tobytes()  # exact bit patterns, as stored (keeps NaN payloads)
                if sys.byteorder != "little":
                    a2 = array.array(c.typecode, c); a2.byteswap(); raw = a2.tobytes()
                items = [raw[i:i + size].hex() for i in range(0, len(raw), size)]
            else:
                items = [struct.pack("<f" if size == 4 else "<d", v).hex() for v in c]
        elif t == T.B_POINT_TYPE:
            items = [struct.pack("<2f", *p).hex() for p in c]
        elif t == T.B_RECT_TYPE:
            items = [struct.pack("<4f", *r).hex() for r in c]
        elif t == T.B_STRING_TYPE:
            items = [s.encode("utf-8").hex() for s in c]
        else:
            items = [hexs(b) for b in c]
        if t != T.B_MESSAGE_TYPE:
            items = ["=" + x for x in items]  # '=' marks an item: one empty item "[=]" differs from no item "[]"
        out.append("%s:%u:[%s];" % (name.encode("utf-8").hex(), t, ",".join(items)))
    out.append("}")
    return "".join(out)


class Parser:
    """parses the canonical dump text into a natively built message.Message (Put* calls with plain Python values)"""

    def __init__(self, s):
        self.s = s
        self.i = 0

    def expect(self, ch):
        if self.s[self.i] != ch:
            raise ValueError("dump syntax at %d: expected %r" % (self.i, ch))
        self.i += 1

    def until(self, chars):
        j = self.i
        while self.s[j] not in chars:
            j += 1
        r = self.s[self.i:j]
        self.i = j
        return r

    def msg(self):
        self.expect("M")
        what = int(self.until("{"))
        self.expect("{")
        m = message.Message(what)
        while self.s[self.i] != "}":
            name = bytes.fromhex(self.until(":")).decode("utf-8")
            self.expect(":")
            t = int(self.until(":"))
            self.expect(":")
            self.expect("[")
            items = []
            if t == T.B_MESSAGE_TYPE:
                while self.s[self.i] != "]":
                    items.append(self.msg())
                    if self.s[self.i] == ",":
                        self.i += 1
            else:
                body = self.until("]")
                for x in (body.split(",") if body != "" else []):
                    if not x.startswith("="):
                        raise ValueError("dump syntax: item without '=' marker")
                    items.append(bytes.fromhex(x[1:]))
            self.expect("]")
            self.expect(";")
            self.put(m, name, t, items)
        self.expect("}")
        return m

    @staticmethod
    def put(m, name, t, items):
        if t == T.B_MESSAGE_TYPE:
            m.PutMessage(name, items)
        elif t == T.B_BOOL_TYPE:
            m.PutBool(name, [b[0] != 0 for b in items])
        elif t == T.B_INT8_TYPE:
            m.PutInt8(name, [struct.unpack("<b", b)[0] for b in items])
        elif t == T.B_INT16_TYPE:
            m.PutInt16(name, [struct.unpack("<h", b)[0] for b in items])
        elif t == T.B_INT32_TYPE:
            m.PutInt32(name, [struct.unpack("<i", b)[0] for b in items])
        elif t == T.B_INT64_TYPE:
            m.PutInt64(name, [struct.unpack("<q", b)[0] for b in items])
        elif t == T.B_FLOAT_TYPE:
            m.PutFloat(name, [struct.unpack("<f", b)[0] for b in items])
        elif t == T.B_DOUBLE_TYPE:
            m.PutDouble(name, [struct.unpack("<d", b)[0] for b in items])
        elif t == T.B_POINT_TYPE:
            m.PutPoint(name, [struct.unpack("<2f", b) for b in items])
        elif t == T.B_RECT_TYPE:
            m.PutRect(name, [struct.unpack("<4f", b) for b in items])
        elif t == T.B_STRING_TYPE:
            m.PutString(name, [b.decode("utf-8") for b in items])
        else:
            m.PutFieldContents(name, t, list(items))


def E(text):
    """error marker for an output column (columns are space separated)"""
    return "ERR:" + str(text).replace(" ", "_").replace("\n", "_")


def main():
    infile, outfile = sys.argv[2], sys.argv[3]
    want_mtt = len(sys.argv) > 4 and sys.argv[4] == "mtt"
    signal.alarm(900)  # watchdog only: never hang the harness
    cases = []
    with open(infile) as f:
        for line in f:
            parts = line.rstrip("\n").split(" ")
            if len(parts) != 5:
                continue
            cases.append(parts)
    res = {}
    native = {}
    for idx, flags, body_hex, frame_hex, dtext in cases:
        r = ["-"] * 6
        body = bytes.fromhex(body_hex)
        if "p" in flags:
            try:
                m = message.Message()
                m.SetFromFlattenedBuffer(body)
                r[0] = dump(m)
                r[1] = m.GetFlattenedBuffer().hex() or "-"
                if m.FlattenedSize() != len(m.GetFlattenedBuffer()):
                    r[1] = E("FlattenedSize()=%d but Flatten() wrote %d bytes" % (m.FlattenedSize(), len(m.GetFlattenedBuffer())))
            except Exception as e:  # noqa: BLE001
                r[0] = E(type(e).__name__ + ":" + str(e))
        if "n" in flags:
            try:
                p = Parser(dtext)
                nm = p.msg()
                native[idx] = nm
                r[2] = nm.GetFlattenedBuffer().hex()
            except Exception as e:  # noqa: BLE001
                r[2] = E(type(e).__name__ + ":" + str(e))
        res[idx] = r

    if want_mtt:
        import message_transceiver_thread as mttmod
        import select
        sentinel = message.Message(0x53454E54)  # 'SENT', no fields: marks the end of what the thread sent for one case
        sentinel_frame = struct.pack("<2L", 12, mttmod.MUSCLE_MESSAGE_ENCODING_DEFAULT) + struct.pack("<3L", message.CURRENT_PROTOCOL_VERSION, 0x53454E54, 0)

        class Link:
            """one MessageTransceiverThread connected to a plain listening socket of this process"""

            def __init__(self):
                self.lst = socket.socket(socket.AF_INET, socket.SOCK_STREAM)
                self.lst.bind(("127.0.0.1", 0))
                self.lst.listen(1)
                self.mtt = mttmod.MessageTransceiverThread("127.0.0.1", self.lst.getsockname()[1])
                self.mtt.start()
                self.lst.settimeout(30)
                self.conn, _ = self.lst.accept()
                self.conn.settimeout(10)
                self.conn.setsockopt(socket.IPPROTO_TCP, socket.TCP_NODELAY, 1)
                self.quickack()

            def quickack(self):
                # the thread sends header and body with separate send() calls; without immediate ACKs each Message would cost a
                # Nagle / delayed-ACK stall of ~40 ms (speed only, no effect on the bytes)
                if hasattr(socket, "TCP_QUICKACK"):
                    self.conn.setsockopt(socket.IPPROTO_TCP, socket.TCP_QUICKACK, 1)

            def close(self):
                try:
                    self.conn.close()
                    self.lst.close()
                    self.mtt.Destroy()
                except Exception:  # noqa: BLE001
                    pass

            def next_message(self, timeout):
                """next Message delivered by the thread (events are skipped); None on timeout / disconnect"""
                end = time.monotonic() + timeout
                while True:
                    ev = self.mtt.GetNextIncomingEvent()
                    if ev is None:
                        left = end - time.monotonic()
                        if left <= 0:
                            return None
                        r, _, _ = select.select([self.mtt.GetNotificationSocket()], [], [], left)
                        if r:
                            try:
                                self.mtt.GetNotificationSocket().recv(1024)
                            except OSError:
                                pass
                        continue
                    if isinstance(ev, int):
                        if ev == mttmod.MTT_EVENT_DISCONNECTED:
                            return None
                        continue
                    return ev

        link = None
        for c in cases:
            if "t" not in c[1] or c[0] not in native:
                continue
            r = res[c[0]]
            try:
                if link is None:
                    link = Link()
                # Python -> wire: everything the thread writes for this Message, up to the sentinel's frame
                link.mtt.SendOutgoingMessage(native[c[0]])
                link.mtt.SendOutgoingMessage(sentinel)
                data = b""
                while not data.endswith(sentinel_frame):
                    chunk = link.conn.recv(65536)
                    link.quickack()
                    if not chunk:
                        raise IOError("connection closed by MessageTransceiverThread")
                    data += chunk
                data = data[:-len(sentinel_frame)]
                r[3] = data[0:8].hex() or "-"
                r[4] = data[8:].hex() or "-"
                # wire -> Python: the frame + body the C++ MessageIOGateway produced
                link.conn.sendall(bytes.fromhex(c[3]) + bytes.fromhex(c[2]))
                ev = link.next_message(10)
                if ev is None:
                    r[5] = E("no Message delivered by MessageTransceiverThread")
                    link.close()
                    link = None
                else:
                    r[5] = dump(ev)
            except Exception as e:  # noqa: BLE001
                if r[3] == "-":
                    r[3] = E("mtt:" + type(e).__name__ + ":" + str(e))
                else:
                    r[5] = E("mtt:" + type(e).__name__ + ":" + str(e))
                if link is not None:
                    link.close()
                link = None
        if link is not None:
            link.close()
    with open(outfile, "w") as f:
        for c in cases:
            f.write(c[0] + " " + " ".join(res[c[0]]) + "\n")


if __name__ == "__main__":
    main()
