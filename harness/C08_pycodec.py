#!/usr/bin/env python3
"""C08 helper: runs the repository's Python Message codec (lang/python3/message.py) and, optionally, the framing code of
lang/python3/message_transceiver_thread.py (over a loopback TCP connection inside this process) on a batch of Messages.

usage: C08_pycodec.py <repo> <infile> <outfile> [mtt]

infile : one case per line, space separated
            <index> <flags> <body_hex> <cppframe_hex> <dump>
         flags = string of letters:  p = run parse->dump->reserialise,  n = build natively from <dump> and serialise,
                                     t = also push through MessageTransceiverThread (both directions)
         dump  = canonical text of ref/refcodec.h:  M<what>{<hexname>:<type>:[=<hexitem>,...];...}  (items of MSGG fields are nested dumps)
outfile: one line per case
            <index> <parsed_dump> <reserialised_hex> <native_hex> <mtt_sent_header_hex> <mtt_sent_body_hex> <mtt_received_dump>
         '-' = not requested, 'ERR:<text>' = the Python code raised.
The dump of a parsed Message is produced from the objects message.py built (arrays, tuples, strings, bytes, Messages),
not from its serialiser, so that parse and serialise are compared independently.
"""
import sys, struct, array, signal, socket, time

repo = sys.argv[1]
sys.path.insert(0, repo + "/lang/python3")
import message  # noqa: E402

T = message


def hexs(b):
    return bytes(b).hex()


def dump(msg):
    out = ["M%u{" % (msg.what & 0xFFFFFFFF)]
    for name in msg.GetFieldNames():
        t = msg.GetFieldType(name)
        c = msg.GetFieldContents(name)
        items = []
        if t == T.B_MESSAGE_TYPE:
            items = [dump(m) for m in c]
        elif t in (T.B_BOOL_TYPE, T.B_INT8_TYPE):
            items = ["%02x" % (v & 0xFF) for v in c]
        elif t in (T.B_INT16_TYPE, T.B_INT32_TYPE, T.B_INT64_TYPE, T.B_FLOAT_TYPE, T.B_DOUBLE_TYPE):
            size = {T.B_INT16_TYPE: 2, T.B_INT32_TYPE: 4, T.B_INT64_TYPE: 8, T.B_FLOAT_TYPE: 4, T.B_DOUBLE_TYPE: 8}[t]
            if isinstance(c, array.array):
                raw = c.tobytes()  # exact bit patterns, as stored
                if sys.byteorder != "little":
                    a2 = array.array(c.typecode, c); a2.byteswap(); raw = a2.tobytes()
                items = [raw[i:i + size].hex() for i in range(0, len(raw), size)]
            else:
                fmt = {T.B_INT16_TYPE: "<h", T.B_INT32_TYPE: "<i", T.B_INT64_TYPE: "<q", T.B_FLOAT_TYPE: "<f", T.B_DOUBLE_TYPE: "<d"}[t]
                items = [struct.pack(fmt, v).hex() for v in c]
        elif t == T.B_POINT_TYPE:
            items = [struct.pack("<2f", *p).hex() for p in c]
        elif t == T.B_RECT_TYPE:
            items = [struct.pack("<4f", *r).hex() for r in c]
        elif t == T.B_STRING_TYPE:
            items = [s.encode("utf-8").hex() for s in c]
        else:
            items = [hexs(b) for b in c]
        if t != T.B_MESSAGE_TYPE:
            items = ["=" + x for x in items]  # '=' marks an item: one empty item "[=]" differs from no item "[]"
        out.append("%s:%u:[%s];" % (name.encode("utf-8").hex(), t, ",".join(items)))
    out.append("}")
    return "".join(out)


class Parser:
    """parses the canonical dump text into a natively built message.Message (Put* calls with plain Python values)"""

    def __init__(self, s):
        self.s = s
        self.i = 0

    def expect(self, ch):
        if self.s[self.i] != ch:
            raise ValueError("dump syntax at %d: expected %r" % (self.i, ch))
        self.i += 1

    def until(self, chars):
        j = self.i
        while self.s[j] not in chars:
            j += 1
        r = self.s[self.i:j]
        self.i = j
        return r

    def msg(self):
        self.expect("M")
        what = int(self.until("{"))
        self.expect("{")
        m = message.Message(what)
        while self.s[self.i] != "}":
            name = bytes.fromhex(self.until(":")).decode("utf-8")
            self.expect(":")
            t = int(self.until(":"))
            self.expect(":")
            self.expect("[")
            items = []
            if t == T.B_MESSAGE_TYPE:
                while self.s[self.i] != "]":
                    items.append(self.msg())
                    if self.s[self.i] == ",":
                        self.i += 1
            else:
                body = self.until("]")
                for x in (body.split(",") if body != "" else []):
                    if not x.startswith("="):
                        raise ValueError("dump syntax: item without '=' marker")
                    items.append(bytes.fromhex(x[1:]))
            self.expect("]")
            self.expect(";")
            self.put(m, name, t, items)
        self.expect("}")
        return m

    @staticmethod
    def put(m, name, t, items):
        if t == T.B_MESSAGE_TYPE:
            m.PutMessage(name, items)
        elif t == T.B_BOOL_TYPE:
            m.PutBool(name, [b[0] != 0 for b in items])
        elif t == T.B_INT8_TYPE:
            m.PutInt8(name, [struct.unpack("<b", b)[0] for b in items])
        elif t == T.B_INT16_TYPE:
            m.PutInt16(name, [struct.unpack("<h", b)[0] for b in items])
        elif t == T.B_INT32_TYPE:
            m.PutInt32(name, [struct.unpack("<i", b)[0] for b in items])
        elif t == T.B_INT64_TYPE:
            m.PutInt64(name, [struct.unpack("<q", b)[0] for b in items])
        elif t == T.B_FLOAT_TYPE:
            m.PutFloat(name, [struct.unpack("<f", b)[0] for b in items])
        elif t == T.B_DOUBLE_TYPE:
            m.PutDouble(name, [struct.unpack("<d", b)[0] for b in items])
        elif t == T.B_POINT_TYPE:
            m.PutPoint(name, [struct.unpack("<2f", b) for b in items])
        elif t == T.B_RECT_TYPE:
            m.PutRect(name, [struct.unpack("<4f", b) for b in items])
        elif t == T.B_STRING_TYPE:
            m.PutString(name, [b.decode("utf-8") for b in items])
        else:
            m.PutFieldContents(name, t, list(items))


def recv_exact(conn, n):
    buf = b""
    while len(buf) < n:
        chunk = conn.recv(n - len(buf))
        if not chunk:
            raise IOError("connection closed after %d of %d bytes" % (len(buf), n))
        buf += chunk
    return buf


def main():
    infile, outfile = sys.argv[2], sys.argv[3]
    want_mtt = len(sys.argv) > 4 and sys.argv[4] == "mtt"
    signal.alarm(900)  # watchdog only: never hang the harness
    cases = []
    with open(infile) as f:
        for line in f:
            parts = line.rstrip("\n").split(" ")
            if len(parts) != 5:
                continue
            cases.append(parts)
    res = {}
    native = {}
    for idx, flags, body_hex, frame_hex, dtext in cases:
        r = ["-"] * 6
        body = bytes.fromhex(body_hex)
        if "p" in flags:
            try:
                m = message.Message()
                m.SetFromFlattenedBuffer(body)
                r[0] = dump(m)
                r[1] = m.GetFlattenedBuffer().hex() or "-"
                if m.FlattenedSize() != len(m.GetFlattenedBuffer()):
                    r[1] = "ERR:FlattenedSize()=%d but Flatten() wrote %d bytes" % (m.FlattenedSize(), len(m.GetFlattenedBuffer()))
            except Exception as e:  # noqa: BLE001
                r[0] = "ERR:" + type(e).__name__ + ":" + str(e).replace(" ", "_")
        if "n" in flags:
            try:
                p = Parser(dtext)
                nm = p.msg()
                native[idx] = nm
                r[2] = nm.GetFlattenedBuffer().hex()
            except Exception as e:  # noqa: BLE001
                r[2] = "ERR:" + type(e).__name__ + ":" + str(e).replace(" ", "_")
        res[idx] = r

    if want_mtt:
        try:
            import message_transceiver_thread as mttmod
            lst = socket.socket(socket.AF_INET, socket.SOCK_STREAM)
            lst.bind(("127.0.0.1", 0))
            lst.listen(1)
            port = lst.getsockname()[1]
            mtt = mttmod.MessageTransceiverThread("127.0.0.1", port)
            mtt.start()
            lst.settimeout(30)
            conn, _ = lst.accept()
            conn.settimeout(60)
            tcases = [c for c in cases if "t" in c[1] and c[0] in native]
            # Python -> wire
            for c in tcases:
                mtt.SendOutgoingMessage(native[c[0]])
            for c in tcases:
                hdr = recv_exact(conn, 8)
                blen = struct.unpack("<L", hdr[0:4])[0]
                body = recv_exact(conn, blen) if blen <= (1 << 24) else b""
                res[c[0]][3] = hdr.hex()
                res[c[0]][4] = body.hex() or "-"
            # wire -> Python: the frames the C++ MessageIOGateway produced
            for c in tcases:
                conn.sendall(bytes.fromhex(c[3]) + bytes.fromhex(c[2]))
            got = 0
            deadline = time.monotonic() + 120
            while got < len(tcases) and time.monotonic() < deadline:
                ev = mtt.GetNextIncomingEvent()
                if ev is None:
                    time.sleep(0.002)
                    continue
                if isinstance(ev, int):
                    if ev == mttmod.MTT_EVENT_DISCONNECTED:
                        break
                    continue
                res[tcases[got][0]][5] = dump(ev)
                got += 1
            for c in tcases[got:]:
                res[c[0]][5] = "ERR:no_Message_delivered_by_MessageTransceiverThread"
            conn.close()
            lst.close()
            mtt.Destroy()
        except Exception as e:  # noqa: BLE001
            for c in cases:
                if "t" in c[1] and res[c[0]][5] == "-":
                    res[c[0]][5] = "ERR:mtt:" + type(e).__name__ + ":" + str(e).replace(" ", "_")
    with open(outfile, "w") as f:
        for c in cases:
            f.write(c[0] + " " + " ".join(res[c[0]]) + "\n")


if __name__ == "__main__":
    main()
