// C07 -- L2: the socket-stepped reflector.  The same real ReflectServer, but every session is attached over a real AF_UNIX socket pair
// with its normal TCPSocketDataIO + MessageIOGateway; the harness is the peer (a client-side MessageIOGateway per role), writes bytes,
// and advances the server one non-blocking cycle at a time with ServerProcessLoop(0).  Single-threaded, deterministic.
// X NEVER reads its socket.  So that "X is not reading" has the effect it has in production -- results pile up in the server-side
// gateway's outgoing queue -- the kernel buffer of X's connection is made as small as the kernel allows and is filled first: X sends
// PINGs with a 32 KB payload until the server can no longer write the PONGs out.
// Include after harness/reflector_l1.h (uses l1::Session and the pinned session-id counter).
#ifndef VERIF_C07_L2_H
#define VERIF_C07_L2_H

#include "dataio/TCPSocketDataIO.h"
#include "iogateway/MessageIOGateway.h"
#include "util/NetworkUtilityFunctions.h"

namespace c07l2 {

using l1::MessageRef;

struct Client {
   muscle::ConstSocketRef sock;
   muscle::MessageIOGateway gw;
   muscle::QueueGatewayMessageReceiver rx;
};

class L2World
{
public:
   muscle::ReflectServer server;
   l1::SessionRef s[3];
   Client c[3];
   std::string host[3]; uint32_t id[3];

   L2World() { l1::EnsureSetup(); server.SetDoLogging(false); }
   ~L2World() { server.Cleanup(); for (int r = 0; r < 3; r++) s[r].Reset(); }

   bool Attach(int role, const std::string & h, uint32_t sessionID, bool tinyBuffers)
   {
      muscle::ConstSocketRef serverSide, clientSide;
      if (muscle::CreateConnectedSocketPair(serverSide, clientSide, false).IsError()) return false;
      if (tinyBuffers) { (void) muscle::SetSocketSendBufferSize(serverSide, 1); (void) muscle::SetSocketReceiveBufferSize(clientSide, 1); }
      muscle::_sessionIDCounter = sessionID;
      l1::Session * ses = new l1::Session(h); l1::SessionRef ref(ses);
      if (server.AddNewSession(ref, serverSide).IsError()) return false;
      s[role] = ref; host[role] = h; id[role] = sessionID;
      c[role].sock = clientSide;
      c[role].gw.SetDataIO(muscle::DataIORef(new muscle::TCPSocketDataIO(clientSide, false)));
      return true;
   }
   void Pass(int n = 1) { for (int i = 0; i < n; i++) (void) server.ServerProcessLoop(0); }

   // the client writes one Message to its socket; server cycles are run only when the socket is full.  false = could not be written
   bool Send(int role, const MessageRef & m)
   {
      if (c[role].gw.AddOutgoingMessage(m).IsError()) return false;
      for (int guard = 0; guard < 10000 && c[role].gw.HasBytesToOutput(); guard++) {
         const muscle::io_status_t r = c[role].gw.DoOutput();
         if (r.IsError()) return false;
         if (r.GetByteCount() == 0) Pass(1);
      }
      return !c[role].gw.HasBytesToOutput();
   }
   // everything that has arrived on the client's socket
   std::vector<MessageRef> Read(int role)
   {
      std::vector<MessageRef> out;
      for (int guard = 0; guard < 10000; guard++) {
         const muscle::io_status_t r = c[role].gw.DoInput(c[role].rx);
         if (r.IsError() || r.GetByteCount() == 0) break;
      }
      MessageRef m; while (c[role].rx.RemoveHead(m).IsOK()) out.push_back(m);
      return out;
   }
   uint32_t Queued(int role) const { return (s[role]() && s[role]()->GetGateway()()) ? s[role]()->GetGateway()()->GetOutgoingMessageQueue().GetNumItems() : 0; }
   bool Attached(int role) const { return s[role]() && s[role]()->IsAttachedToServer(); }

   // X sends big PINGs and never reads: returns true once the server holds at least one Message for X that it cannot write out
   bool BlockOutput(int role)
   {
      std::string big(32768, 'p');
      for (int i = 0; i < 64; i++) {
         MessageRef p = l1::Ping(-1 - i); (void) p()->AddData("pad", B_RAW_TYPE, big.data(), (uint32_t)big.size());
         if (!Send(role, p)) return false;
         Pass(3);
         if (Queued(role) >= 1) return true;
      }
      return false;
   }
};

}  // namespace c07l2

#endif
