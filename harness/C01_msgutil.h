// Shared by C01 and C08: the bridge between the abstract Message of ref/refcodec.h and a real muscle::Message, using ONLY the
// public Message API (Add*/Prepend*/Replace*/Find*/GetInfo/field-name iterator).
//   Build()    abstract -> real  (every item added with the typed Add* call of its type)
//   Extract()  real -> abstract  (the "deep comparer": type codes, counts and bit patterns of every item, recursing into sub-Messages)
#ifndef VERIF_C01_MSGUTIL_H
#define VERIF_C01_MSGUTIL_H

#include "ref/refcodec.h"
#include "message/Message.h"
#include "util/ByteBuffer.h"

namespace msgutil {

using namespace muscle;
using refcodec::AbsMsg;
using refcodec::AbsField;

// tags: an item of a B_TAG_TYPE field is modelled as the 8-byte little-endian index into this table of live RefCountable objects
class TagObj : public RefCountable { public: int id; TagObj() : id(0) {} };
static inline RefCountableRef & TagRef(int i)
{
   static RefCountableRef tags[4];
   if (tags[i]() == NULL) { TagObj * t = new TagObj; t->id = i; tags[i].SetRef(t); }
   return tags[i];
}
static inline int TagIndexOf(const RefCountable * p) { for (int i = 0; i < 4; i++) if (TagRef(i)() == p) return i; return -1; }
// pointers: an item of a B_POINTER_TYPE field is modelled as the 8-byte little-endian index of one of these static cells
static inline void * PtrCell(int i) { static char cells[4]; return &cells[i]; }
static inline int PtrIndexOf(const void * p) { for (int i = 0; i < 4; i++) if (PtrCell(i) == p) return i; return -1; }

template <class T> static inline T FromBytes(const std::string & s) { T v; memset(&v, 0, sizeof(v)); memcpy(&v, s.data(), std::min(sizeof(T), s.size())); return v; }  // host is little-endian (asserted in SelfCheck)
template <class T> static inline std::string ToBytes(const T & v) { return std::string((const char *)&v, sizeof(T)); }

static inline bool HostIsLittleEndian() { const uint32_t one = 1; return *(const unsigned char *)&one == 1; }

static inline Point PointOf(const std::string & it) { return Point(FromBytes<float>(it.substr(0, 4)), FromBytes<float>(it.substr(4, 4))); }
static inline Rect RectOf(const std::string & it) { return Rect(FromBytes<float>(it.substr(0, 4)), FromBytes<float>(it.substr(4, 4)), FromBytes<float>(it.substr(8, 4)), FromBytes<float>(it.substr(12, 4))); }

static inline status_t BuildInto(const AbsMsg & a, Message & m);
static inline MessageRef BuildRef(const AbsMsg & a)
{
   MessageRef r = GetMessageFromPool(a.what);
   if (r() && BuildInto(a, *r()).IsError()) r.Reset();
   return r;
}

enum { PUT_ADD = 0, PUT_PREPEND = 1, PUT_REPLACE = 2 };

// one item through the typed public call of its type; `how` selects Add* / Prepend* / Replace*(okayToAdd=false, index)
static inline status_t PutItem(Message & m, const String & name, uint32 type, const std::string & it, const AbsMsg * sub, int how, uint32 index = 0)
{
#define PUT3(AddCall, PrependCall, ReplaceCall) ((how == PUT_ADD) ? (AddCall) : (how == PUT_PREPEND) ? (PrependCall) : (ReplaceCall))
   switch (type) {
   case B_BOOL_TYPE:   { bool v = it[0] != 0; return PUT3(m.AddBool(name, v), m.PrependBool(name, v), m.ReplaceBool(false, name, index, v)); }
   case B_INT8_TYPE:   { int8 v = FromBytes<int8>(it); return PUT3(m.AddInt8(name, v), m.PrependInt8(name, v), m.ReplaceInt8(false, name, index, v)); }
   case B_INT16_TYPE:  { int16 v = FromBytes<int16>(it); return PUT3(m.AddInt16(name, v), m.PrependInt16(name, v), m.ReplaceInt16(false, name, index, v)); }
   case B_INT32_TYPE:  { int32 v = FromBytes<int32>(it); return PUT3(m.AddInt32(name, v), m.PrependInt32(name, v), m.ReplaceInt32(false, name, index, v)); }
   case B_INT64_TYPE:  { int64 v = FromBytes<int64>(it); return PUT3(m.AddInt64(name, v), m.PrependInt64(name, v), m.ReplaceInt64(false, name, index, v)); }
   case B_FLOAT_TYPE:  { float v = FromBytes<float>(it); return PUT3(m.AddFloat(name, v), m.PrependFloat(name, v), m.ReplaceFloat(false, name, index, v)); }
   case B_DOUBLE_TYPE: { double v = FromBytes<double>(it); return PUT3(m.AddDouble(name, v), m.PrependDouble(name, v), m.ReplaceDouble(false, name, index, v)); }
   case B_POINT_TYPE:  { Point v = PointOf(it); return PUT3(m.AddPoint(name, v), m.PrependPoint(name, v), m.ReplacePoint(false, name, index, v)); }
   case B_RECT_TYPE:   { Rect v = RectOf(it); return PUT3(m.AddRect(name, v), m.PrependRect(name, v), m.ReplaceRect(false, name, index, v)); }
   case B_STRING_TYPE: { String v(it.c_str()); return PUT3(m.AddString(name, v), m.PrependString(name, v), m.ReplaceString(false, name, index, v)); }
   case B_POINTER_TYPE: { void * v = PtrCell((int)FromBytes<uint64_t>(it)); return PUT3(m.AddPointer(name, v), m.PrependPointer(name, v), m.ReplacePointer(false, name, index, v)); }
   case B_TAG_TYPE:    { RefCountableRef v = TagRef((int)FromBytes<uint64_t>(it)); return PUT3(m.AddTag(name, v), m.PrependTag(name, v), m.ReplaceTag(false, name, index, v)); }
   case B_MESSAGE_TYPE: { MessageRef v = BuildRef(*sub); if (v() == NULL) return B_ERROR("msgutil: sub-Message could not be built"); return PUT3(m.AddMessage(name, v), m.PrependMessage(name, v), m.ReplaceMessage(false, name, index, v)); }
   default:
      if (it.size() > 0) return PUT3(m.AddData(name, type, it.data(), (uint32)it.size()), m.PrependData(name, type, it.data(), (uint32)it.size()), m.ReplaceData(false, name, type, index, it.data(), (uint32)it.size()));
      else {
         // AddData() refuses zero bytes; an empty raw buffer enters a Message through AddFlat(ByteBufferRef) (possible for B_RAW_TYPE only: the type code is ByteBuffer::TypeCode())
         if (type != B_RAW_TYPE) return B_BAD_ARGUMENT;
         ByteBufferRef b = GetByteBufferFromPool((uint32)0);
         return PUT3(m.AddFlat(name, b), m.PrependFlat(name, b), m.ReplaceFlat(false, name, index, b));
      }
   }
#undef PUT3
}

static inline status_t BuildInto(const AbsMsg & a, Message & m)
{
   m.what = a.what;
   for (size_t f = 0; f < a.fields.size(); f++) {
      const AbsField & fl = a.fields[f]; const String name(fl.name.c_str());
      const size_t n = fl.Count();
      for (size_t i = 0; i < n; i++) {
         status_t r = PutItem(m, name, fl.type, (fl.type == refcodec::T_MESSAGE) ? std::string() : fl.items[i], (fl.type == refcodec::T_MESSAGE) ? &fl.msgs[i] : NULL, PUT_ADD);
         if (r.IsError()) return r;
      }
   }
   return B_NO_ERROR;
}

// real -> abstract through the public read API.  Returns false (err says why) when the Message contradicts itself
// (GetInfo count vs. Find* success, wrong pointer, ...).  Pointer / tag items are mapped back to their table index.
static inline bool Extract(const Message & m, AbsMsg & out, std::string & err, int depth = 0)
{
   out = AbsMsg(m.what);
   if (depth > 32) { err = "nesting too deep"; return false; }
   uint32 seen = 0;
   for (MessageFieldNameIterator it = m.GetFieldNameIterator(); it.HasData(); it++, seen++) {
      const String & fn = it.GetFieldName();
      uint32 type = 0, count = 0; bool fixed = false;
      if (m.GetInfo(fn, &type, &count, &fixed).IsError()) { err = std::string("GetInfo failed for iterated field ") + fn(); return false; }
      AbsField fl(std::string(fn(), fn.Length()), type);
      if (m.GetNumValuesInName(fn, type) != count) { err = "GetNumValuesInName != GetInfo count"; return false; }
      if (m.GetFieldTypeForName(fn) != type) { err = "GetFieldTypeForName != GetInfo type"; return false; }
      for (uint32 i = 0; i <= count; i++) {
         const bool want = (i < count); status_t r; std::string item; AbsMsg sub;
         switch (type) {
         case B_BOOL_TYPE:   { bool v = false; r = m.FindBool(fn, i, v); item = refcodec::ItemBool(v); break; }
         case B_INT8_TYPE:   { int8 v = 0; r = m.FindInt8(fn, i, v); item = ToBytes(v); break; }
         case B_INT16_TYPE:  { int16 v = 0; r = m.FindInt16(fn, i, v); item = ToBytes(v); break; }
         case B_INT32_TYPE:  { int32 v = 0; r = m.FindInt32(fn, i, v); item = ToBytes(v); break; }
         case B_INT64_TYPE:  { int64 v = 0; r = m.FindInt64(fn, i, v); item = ToBytes(v); break; }
         case B_FLOAT_TYPE:  { float v = 0; r = m.FindFloat(fn, i, v); item = ToBytes(v); break; }
         case B_DOUBLE_TYPE: { double v = 0; r = m.FindDouble(fn, i, v); item = ToBytes(v); break; }
         case B_POINT_TYPE:  { Point v; r = m.FindPoint(fn, i, v); float x = v.x(), y = v.y(); item = ToBytes(x) + ToBytes(y); break; }
         case B_RECT_TYPE:   { Rect v; r = m.FindRect(fn, i, v); float a = v.left(), b = v.top(), c = v.right(), d = v.bottom(); item = ToBytes(a) + ToBytes(b) + ToBytes(c) + ToBytes(d); break; }
         case B_STRING_TYPE: { const String * s = NULL; r = m.FindString(fn, i, &s); if (r.IsOK() && s) { item.assign(s->Cstr(), s->Length()); if (strlen(s->Cstr()) != s->Length()) { err = "String length disagrees with its C string"; return false; } } break; }
         case B_POINTER_TYPE: { void * p = NULL; r = m.FindPointer(fn, i, p); if (r.IsOK()) { int idx = PtrIndexOf(p); if (idx < 0) { err = "pointer field returned an unknown pointer"; return false; } item = refcodec::LE((uint64_t)idx, 8); } break; }
         case B_TAG_TYPE:    { RefCountableRef t; r = m.FindTag(fn, i, t); if (r.IsOK()) { int idx = TagIndexOf(t()); if (idx < 0) { err = "tag field returned an unknown object"; return false; } item = refcodec::LE((uint64_t)idx, 8); } break; }
         case B_MESSAGE_TYPE: { MessageRef s; r = m.FindMessage(fn, i, s); if (r.IsOK()) { if (s() == NULL) { err = "FindMessage OK but NULL ref"; return false; } if (!Extract(*s(), sub, err, depth + 1)) return false; } break; }
         default: {
            // raw items: FindFlat() hands out the held buffer object; FindData() must agree with it for every non-empty item
            // (for a zero-length item FindData() answers B_TYPE_MISMATCH because an empty ByteBuffer has no data pointer -- an API quirk, not a codec matter)
            ConstFlatCountableRef fc; r = m.FindFlat(fn, i, fc);
            if (r.IsOK()) {
               const ByteBuffer * bb = dynamic_cast<const ByteBuffer *>(fc());
               if (bb == NULL) { err = "raw item is not held as a ByteBuffer"; return false; }
               item.assign((const char *)bb->GetBuffer(), bb->GetNumBytes());
               const void * p = NULL; uint32 n = 0; status_t r2 = m.FindData(fn, type, i, &p, &n);
               if (item.size() > 0 && (r2.IsError() || n != item.size() || memcmp(p, item.data(), n) != 0)) { err = "FindData() disagrees with FindFlat() on a raw item"; return false; }
            }
            break; }
         }
         if (r.IsOK() != want) { err = std::string("Find(") + fn() + "," + std::to_string(i) + ") status " + r() + " but GetInfo count is " + std::to_string(count); return false; }
         if (want) { if (type == B_MESSAGE_TYPE) fl.msgs.push_back(sub); else fl.items.push_back(item); }
      }
      out.fields.push_back(fl);
   }
   if (seen != m.GetNumNames()) { err = "field-name iterator length != GetNumNames()"; return false; }
   return true;
}

}  // namespace msgutil

#endif
