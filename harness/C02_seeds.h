// C02 -- seeds (valid encodings built with the real muscle encoders), structural-word walkers written from the layout
// comments in Message::Flatten / MessageField::TemplatedFlatten / MessageIOGateway, and the deviation enumerator
// (case number -> mutated byte string).  Everything here is deterministic and a pure function of its arguments.
#ifndef C02_SEEDS_H
#define C02_SEEDS_H

#include "engines/common/verif.h"
#include "message/Message.h"

namespace c02 {
using namespace muscle;

// ---------------------------------------------------------------- structural words
enum Role { R_PROTO, R_WHAT, R_NENT, R_NAMELEN, R_TYPE, R_PAYLEN, R_COUNT, R_ITEMLEN, R_SUBLEN, R_FRAMELEN, R_ENC, R_HDR, NUM_ROLES };
static const char * RoleName(int r) { static const char * n[] = {"protocol", "what", "entry-count", "name-length", "type-code", "payload-length", "item-count", "item-length", "submessage-length", "frame-length", "encoding", "header-word"}; return (r >= 0 && r < NUM_ROLES) ? n[r] : "?"; }
struct Word { uint32 off; uint8 role; };
struct Walk {
   std::vector<Word> words; std::vector<uint32> nuls;
   void W(uint32 off, int role) { Word w; w.off = off; w.role = (uint8)role; words.push_back(w); }
};
static inline uint32 RdLE(const uint8 * p) { return (uint32)p[0] | ((uint32)p[1] << 8) | ((uint32)p[2] << 16) | ((uint32)p[3] << 24); }
static inline void WrLE(uint8 * p, uint32 v) { p[0] = (uint8)v; p[1] = (uint8)(v >> 8); p[2] = (uint8)(v >> 16); p[3] = (uint8)(v >> 24); }
static inline void WrBE(uint8 * p, uint32 v) { p[3] = (uint8)v; p[2] = (uint8)(v >> 8); p[1] = (uint8)(v >> 16); p[0] = (uint8)(v >> 24); }

static uint32 FixedSize(uint32 tc)
{
   switch (tc) {
   case B_BOOL_TYPE: case B_INT8_TYPE: return 1; case B_INT16_TYPE: return 2; case B_INT32_TYPE: case B_FLOAT_TYPE: return 4;
   case B_INT64_TYPE: case B_DOUBLE_TYPE: case B_POINT_TYPE: return 8; case B_RECT_TYPE: return 16; default: return 0;
   }
}

// Walks a VALID flattened Message (layout comment in Message::Flatten); returns false if the bytes are not what the layout says.
static bool WalkMsg(const uint8 * b, uint32 n, uint32 base, Walk & w, int depth = 0)
{
   if (n < 12 || depth > 64) return false;
   w.W(base + 0, R_PROTO); w.W(base + 4, R_WHAT); w.W(base + 8, R_NENT);
   const uint32 ne = RdLE(b + 8); uint32 p = 12;
   for (uint32 i = 0; i < ne; i++) {
      if (p + 4 > n) return false; w.W(base + p, R_NAMELEN); const uint32 nl = RdLE(b + p); p += 4;
      if (p + nl > n || nl == 0) return false; w.nuls.push_back(base + p + nl - 1); p += nl;
      if (p + 8 > n) return false; w.W(base + p, R_TYPE); const uint32 tc = RdLE(b + p); p += 4;
      w.W(base + p, R_PAYLEN); const uint32 pl = RdLE(b + p); p += 4;
      if (p + pl > n) return false;
      if (tc == B_MESSAGE_TYPE) {
         uint32 q = 0;
         while (q < pl) { if (q + 4 > pl) return false; w.W(base + p + q, R_SUBLEN); const uint32 sl = RdLE(b + p + q); q += 4; if (q + sl > pl) return false; if (!WalkMsg(b + p + q, sl, base + p + q, w, depth + 1)) return false; q += sl; }
      } else if (FixedSize(tc) == 0) {
         if (pl < 4) return false; w.W(base + p, R_COUNT); const uint32 cnt = RdLE(b + p); uint32 q = 4;
         for (uint32 k = 0; k < cnt; k++) { if (q + 4 > pl) return false; w.W(base + p + q, R_ITEMLEN); const uint32 il = RdLE(b + p + q); q += 4; if (q + il > pl) return false; if (tc == B_STRING_TYPE && il > 0) w.nuls.push_back(base + p + q + il - 1); q += il; }
         if (q != pl) return false;
      }
      p += pl;
   }
   return p == n;
}

// Walks the payload-only ("templated") encoding of message m (layout: MessageField::TemplatedFlatten): what, then per flattenable
// field in table order either the bare fixed-size items or count + (length, item)*; Message items recurse.
static bool WalkTemplated(const Message & m, const uint8 * b, uint32 n, uint32 base, Walk & w, int depth = 0)
{
   if (n < 4 || depth > 64) return false;
   w.W(base, R_WHAT); uint32 p = 4;
   for (MessageFieldNameIterator it = m.GetFieldNameIterator(); it.HasData(); it++) {
      const String & fn = it.GetFieldName(); uint32 tc = 0, cnt = 0; bool fixedSz = false;
      if (m.GetInfo(fn, &tc, &cnt, &fixedSz).IsError()) return false;
      if (tc == B_POINTER_TYPE || tc == B_TAG_TYPE) continue;
      const uint32 fs = FixedSize(tc);
      if (fs > 0) { p += fs * cnt; if (p > n) return false; continue; }
      if (p + 4 > n) return false; w.W(base + p, R_COUNT); if (RdLE(b + p) != cnt) return false; p += 4;
      for (uint32 k = 0; k < cnt; k++) {
         if (p + 4 > n) return false; w.W(base + p, (tc == B_MESSAGE_TYPE) ? R_SUBLEN : R_ITEMLEN); const uint32 il = RdLE(b + p); p += 4;
         if (p + il > n) return false;
         if (tc == B_MESSAGE_TYPE) { MessageRef sub; if (m.FindMessage(fn, k, sub).IsError() || sub() == NULL) return false; if (!WalkTemplated(*sub(), b + p, il, base + p, w, depth + 1)) return false; }
         else if (tc == B_STRING_TYPE && il > 0) w.nuls.push_back(base + p + il - 1);
         p += il;
      }
   }
   return p == n;
}

// Walks a MessageIOGateway stream: (length, encoding, body)*; bodies with the default encoding are walked as Messages.
static bool WalkMsgIOStream(const uint8 * b, uint32 n, Walk & w)
{
   uint32 p = 0;
   while (p < n) {
      if (p + 8 > n) return false; w.W(p, R_FRAMELEN); w.W(p + 4, R_ENC); const uint32 len = RdLE(b + p), enc = RdLE(b + p + 4); p += 8;
      if (p + len > n) return false; if (enc == 1164862256u /* MUSCLE_MESSAGE_ENCODING_DEFAULT 'Enc0' */) { if (!WalkMsg(b + p, len, p, w)) return false; } p += len;
   }
   return true;
}

// ---------------------------------------------------------------- seeds
struct Seed {
   std::string name;
   std::string prefix;                // stream gateways: valid bytes delivered (whole, never mutated) before `bytes`, e.g. a completed WebSocket handshake
   std::string bytes;                 // the valid encoding (for packet targets: concatenation of the packets)
   std::vector<uint32> cuts;          // packet boundaries (end offsets), empty for streams / flat buffers
   Walk walk;                         // structural words (may be empty: then every 4-aligned offset is a pair candidate)
   std::vector<uint32> typeOffs;      // offsets of type-code words
   std::string expect;                // canonical form of what the valid encoding must yield
   MessageRef msg, tmpl;              // original Message / its template (templated target)
   int numMsgs;
   Seed() : numMsgs(0) {}
   void FinishWalk() { typeOffs.clear(); for (size_t i = 0; i < walk.words.size(); i++) if (walk.words[i].role == R_TYPE) typeOffs.push_back(walk.words[i].off); }
};

static std::string FlatBytes(const Message & m) { const uint32 fs = m.FlattenedSize(); std::string s(fs, '\0'); if (fs) m.FlattenToBytes((uint8 *)&s[0], fs); return s; }

#define PRIV_TYPE 0x70726976u  /* 'priv' */

struct NamedMsg { std::string name; MessageRef m; };
static void AddOne(Message & m, int type, int nItems)
{
   static const char * strs[] = {"hi", "", "xyz"};
   static const uint8 raw0[] = {0xDE, 0xAD, 0xBF}, raw1[] = {0x00}, raw2[] = {1, 2, 3, 4, 5};
   for (int k = 0; k < nItems; k++) switch (type) {
   case 0: (void)m.AddBool("b", (k & 1) == 0); break;
   case 1: (void)m.AddInt8("c", (int8)(k == 1 ? -128 : 7 + k)); break;
   case 2: (void)m.AddInt16("h", (int16)(k == 1 ? -2 : 0x1234)); break;
   case 3: (void)m.AddInt32("i", (k == 1) ? (int32)0x80000000 : 0x01020304 + k); break;
   case 4: (void)m.AddInt64("l", (k == 1) ? (int64)-1 : (int64)0x0102030405060708LL); break;
   case 5: (void)m.AddFloat("f", 1.5f + (float)k); break;
   case 6: (void)m.AddDouble("d", -2.25 + (double)k); break;
   case 7: (void)m.AddString("s", strs[k % 3]); break;
   case 8: (void)m.AddPoint("p", Point(1.0f + (float)k, -2.0f)); break;
   case 9: (void)m.AddRect("r", Rect(0.0f, 1.0f, 2.0f + (float)k, 3.0f)); break;
   case 10: (void)m.AddData("w", B_RAW_TYPE, (k == 0) ? raw0 : (k == 1) ? raw1 : raw2, (k == 0) ? 3 : (k == 1) ? 1 : 5); break;
   case 11: (void)m.AddData("x", PRIV_TYPE, (k == 0) ? raw2 : (k == 1) ? raw0 : raw1, (k == 0) ? 5 : (k == 1) ? 3 : 1); break;
   case 12: { Message sub(100 + k); if (k == 0) (void)sub.AddInt32("i", 5); else if (k == 1) { /* empty */ } else { (void)sub.AddString("s", "q"); (void)sub.AddInt8("c", 1); (void)sub.AddInt8("c", 2); } (void)m.AddMessage("m", sub); } break;
   }
}
static const char * TypeName(int t) { static const char * n[] = {"bool", "int8", "int16", "int32", "int64", "float", "double", "string", "point", "rect", "raw", "priv", "msg"}; return n[t]; }

static std::vector<NamedMsg> BuildMessages()
{
   std::vector<NamedMsg> v;
   #define PUSH(nm, M) do { NamedMsg x; x.name = (nm); x.m = GetMessageFromPool(M); v.push_back(x); } while (0)
   for (int t = 0; t < 13; t++) for (int n = 1; n <= 3; n += 2) { Message m(0x1000 + t); AddOne(m, t, n); PUSH(std::string(TypeName(t)) + (n == 1 ? "x1" : "x3"), m); }
   { Message m(0x2000); PUSH("empty", m); }
   { Message m(0x2001); (void)m.AddInt32("i", 42); (void)m.AddString("s", "hello"); (void)m.AddBool("b", true); PUSH("mix3", m); }
   { Message m(0x2002); for (int t = 0; t < 12; t++) AddOne(m, t, 1); PUSH("mix_all", m); }
   { Message m(0x2003); Message a(1); Message bb(2); (void)bb.AddString("s", "deep"); (void)a.AddMessage("m", bb); (void)m.AddMessage("m", a); (void)m.AddInt32("i", 9); PUSH("nest2", m); }
   { Message m(0x2004); Message a(1); Message bb(2); Message cc(3); (void)cc.AddInt16("h", 1); (void)cc.AddInt16("h", 2); (void)bb.AddMessage("m", cc); (void)bb.AddMessage("m", cc); (void)a.AddMessage("n", bb); (void)a.AddString("s", "x"); (void)m.AddMessage("o", a); PUSH("nest3", m); }
   { Message m(0x2005); Message a(1); AddOne(a, 7, 3); AddOne(a, 10, 2); (void)m.AddMessage("sub", a); PUSH("strs_in_sub", m); }
   { Message m(0x2006); (void)m.AddInt16("a_rather_long_field_name_of_forty_chars_", 1); (void)m.AddInt16("a_rather_long_field_name_of_forty_chars_", 2); PUSH("longname", m); }
   { Message m(0x2007); (void)m.AddString("s1", "a"); (void)m.AddString("s2", "b"); Message a(1); (void)m.AddMessage("m1", a); (void)m.AddMessage("m2", a); PUSH("two_two", m); }
   { Message m(0x2008); uint8 fake[20]; WrLE(fake, CURRENT_PROTOCOL_VERSION); WrLE(fake + 4, 7); WrLE(fake + 8, 1); WrLE(fake + 12, 0x7FFFFFFF); WrLE(fake + 16, B_STRING_TYPE); (void)m.AddData("w", B_RAW_TYPE, fake, sizeof(fake)); PUSH("raw_magic", m); }
   { Message m(0x2009); (void)m.AddString("s", ""); PUSH("emptystr", m); }
   { Message m(0x200A); AddOne(m, 9, 2); AddOne(m, 8, 2); PUSH("rect_pt", m); }
   { Message m(0x200B); AddOne(m, 7, 3); AddOne(m, 3, 3); AddOne(m, 12, 3); PUSH("s3_i3_m3", m); }
   { Message m(0x200C); (void)m.AddString("", "noname"); PUSH("emptyname", m); }
   { Message m(0x200D); AddOne(m, 0, 3); AddOne(m, 10, 3); AddOne(m, 11, 1); AddOne(m, 4, 3); PUSH("b3_w3_x1_l3", m); }
   { Message m(0x200E); for (int t = 0; t < 13; t++) AddOne(m, t, (t % 3) + 1); Message a(77); AddOne(a, 7, 2); AddOne(a, 12, 2); (void)m.AddMessage("z", a); PUSH("big", m); }
   #undef PUSH
   return v;
}

// Message-in-Message chain of the given depth, built byte-wise (building it through the Message API would recurse in the harness itself)
static std::string NestChain(uint32 depth)
{
   // level size: L(0) = 12 (empty message); L(k) = 12 + 4 + 2 + 4 + 4 + 4 + L(k-1) = L(k-1) + 30
   const size_t total = 12 + 30 * (size_t)depth; std::string s(total, '\0'); uint8 * b = (uint8 *)&s[0]; size_t p = 0;
   for (uint32 k = depth; k > 0; k--) {
      const uint32 inner = 12 + 30 * (k - 1);
      WrLE(b + p, CURRENT_PROTOCOL_VERSION); WrLE(b + p + 4, k); WrLE(b + p + 8, 1); WrLE(b + p + 12, 2); b[p + 16] = 'm'; b[p + 17] = 0;
      WrLE(b + p + 18, B_MESSAGE_TYPE); WrLE(b + p + 22, inner + 4); WrLE(b + p + 26, inner); p += 30;
   }
   WrLE(b + p, CURRENT_PROTOCOL_VERSION); WrLE(b + p + 4, 0); WrLE(b + p + 8, 0);
   return s;
}
static const uint32 kNestDepths[] = {1, 2, 16, 256, 4096, 65536};
static const int kNumNest = 6;

// all byte strings of length <=2 (1 + 256 + 65536) and of length 3,4 over the header alphabet (216 + 1296)
static const uint8 kShortAlpha[6] = {0x00, 0x01, 0x04, 0xFF, 'P', 'M'};
static const size_t kNumShorts = 1 + 256 + 65536 + 216 + 1296;
static std::string ShortString(size_t k)
{
   std::string s;
   if (k == 0) return s; k -= 1;
   if (k < 256) { s.push_back((char)k); return s; } k -= 256;
   if (k < 65536) { s.push_back((char)(k >> 8)); s.push_back((char)(k & 255)); return s; } k -= 65536;
   if (k < 216) { for (int i = 0; i < 3; i++) { s.push_back((char)kShortAlpha[k % 6]); k /= 6; } return s; } k -= 216;
   for (int i = 0; i < 4; i++) { s.push_back((char)kShortAlpha[k % 6]); k /= 6; }
   return s;
}

// ---------------------------------------------------------------- deviation enumerator
static const int kNumWordVals = 20;
static uint32 WordVal(int k, uint32 N, uint32 off, uint32 orig)
{
   const uint32 rem = (N >= off + 4) ? (N - off - 4) : 0;
   switch (k) {
   case 0: return 0; case 1: return 1; case 2: return N - 1; case 3: return N; case 4: return N + 1; case 5: return 0x7FFFFFFFu; case 6: return 0x80000000u;
   case 15: return orig - 1; case 16: return orig + 1; case 17: return orig + 4; case 18: return rem; case 19: return rem + 1;
   default: return 0xFFFFFFF8u + (uint32)(k - 7);   // 7..14
   }
}
static const char * WordValName(int k) { static const char * n[] = {"0", "1", "len-1", "len", "len+1", "2^31-1", "2^31", "2^32-8", "2^32-7", "2^32-6", "2^32-5", "2^32-4", "2^32-3", "2^32-2", "2^32-1", "orig-1", "orig+1", "orig+4", "remaining", "remaining+1"}; return n[k]; }
static const uint32 kTypeMenu[] = {B_ANY_TYPE, B_BOOL_TYPE, B_DOUBLE_TYPE, B_FLOAT_TYPE, B_INT64_TYPE, B_INT32_TYPE, B_INT16_TYPE, B_INT8_TYPE, B_MESSAGE_TYPE, B_POINTER_TYPE,
                                   B_POINT_TYPE, B_RECT_TYPE, B_STRING_TYPE, B_RAW_TYPE, B_BITCHORD_TYPE, B_TAG_TYPE, 0x4F504A54u /*'OPJT' B_OBJECT_TYPE*/, 0x4D494D45u /*'MIME'*/, 0, PRIV_TYPE};
static const int kNumTypeMenu = 20;
static const uint8 kByteMenu[5] = {0x00, 0x01, 0x7F, 0x80, 0xFF};

struct MutSpace {
   uint32 N; int endians; size_t nTrunc, nWord, nType, nByte, nNul, nPair; std::vector<uint32> pairOffs;
   // pairs==true: every pair of word mutations over the structural words (or every 4-aligned offset if the seed has no walk)
   void Init(const Seed & s, bool bigEndianToo, bool pairs)
   {
      N = (uint32)s.bytes.size(); endians = bigEndianToo ? 2 : 1;
      nTrunc = N; nWord = (N >= 4) ? (size_t)(N - 3) * kNumWordVals * endians : 0; nType = s.typeOffs.size() * kNumTypeMenu; nByte = (size_t)N * 5; nNul = s.walk.nuls.size();
      pairOffs.clear(); nPair = 0;
      if (pairs) {
         if (!s.walk.words.empty()) for (size_t i = 0; i < s.walk.words.size(); i++) pairOffs.push_back(s.walk.words[i].off);
         else for (uint32 o = 0; o + 4 <= N; o += 4) pairOffs.push_back(o);
         std::sort(pairOffs.begin(), pairOffs.end());
         const size_t P = pairOffs.size(); nPair = (P * (P - 1) / 2) * kNumWordVals * kNumWordVals;
      }
   }
   size_t Count() const { return 1 + nTrunc + nWord + nType + nByte + nNul + nPair; }
   int DeviationsOf(size_t k) const { return (k == 0) ? 0 : (k < 1 + nTrunc + nWord + nType + nByte + nNul) ? 1 : 2; }

   // k in [0,Count()): produces the mutated bytes and a JSON fragment describing the mutation
   void Decode(size_t k, const Seed & s, std::string & out, std::string & desc) const
   {
      out = s.bytes; uint8 * b = out.empty() ? NULL : (uint8 *)&out[0];
      if (k == 0) { desc = "\"mut\": \"none\""; return; } k -= 1;
      if (k < nTrunc) { out.resize(k); desc = verif::Fmt("\"mut\": \"truncate\", \"to\": %u", (unsigned)k); return; } k -= nTrunc;
      if (k < nWord) {
         const int e = (int)(k % endians); k /= endians; const int vi = (int)(k % kNumWordVals); const uint32 off = (uint32)(k / kNumWordVals);
         const uint32 orig = (e == 0) ? RdLE(b + off) : ((uint32)b[off] << 24 | (uint32)b[off + 1] << 16 | (uint32)b[off + 2] << 8 | b[off + 3]);
         const uint32 v = WordVal(vi, N, off, orig); if (e == 0) WrLE(b + off, v); else WrBE(b + off, v);
         desc = verif::Fmt("\"mut\": \"word\", \"off\": %u, \"role\": \"%s\", \"endian\": \"%s\", \"value\": \"%s\", \"v\": %u", off, RoleAt(s, off), e ? "big" : "little", WordValName(vi), v); return;
      } k -= nWord;
      if (k < nType) { const uint32 off = s.typeOffs[k / kNumTypeMenu]; const uint32 tc = kTypeMenu[k % kNumTypeMenu]; WrLE(b + off, tc); desc = verif::Fmt("\"mut\": \"type\", \"off\": %u, \"typecode\": %u", off, tc); return; } k -= nType;
      if (k < nByte) { const uint32 off = (uint32)(k / 5); b[off] = kByteMenu[k % 5]; desc = verif::Fmt("\"mut\": \"byte\", \"off\": %u, \"value\": %u", off, (unsigned)kByteMenu[k % 5]); return; } k -= nByte;
      if (k < nNul) { const uint32 off = s.walk.nuls[k]; out.erase(off, 1); desc = verif::Fmt("\"mut\": \"nul-removed\", \"off\": %u", off); return; } k -= nNul;
      // pairs
      const size_t VV = (size_t)kNumWordVals * kNumWordVals; const size_t pairIdx = k / VV; const int vi = (int)((k % VV) / kNumWordVals), vj = (int)(k % kNumWordVals);
      const size_t P = pairOffs.size(); size_t i = 0, rest = pairIdx; while (rest >= P - 1 - i) { rest -= P - 1 - i; i++; } const size_t j = i + 1 + rest;
      const uint32 oi = pairOffs[i], oj = pairOffs[j]; const uint32 a = WordVal(vi, N, oi, RdLE(b + oi)), c = WordVal(vj, N, oj, RdLE(b + oj));
      WrLE(b + oi, a); WrLE(b + oj, c);
      desc = verif::Fmt("\"mut\": \"word-pair\", \"off\": %u, \"role\": \"%s\", \"value\": \"%s\", \"off2\": %u, \"role2\": \"%s\", \"value2\": \"%s\"", oi, RoleAt(s, oi), WordValName(vi), oj, RoleAt(s, oj), WordValName(vj));
   }
   // decomposes a pair case (local index k) into its two single word mutations (index into pairOffs, value index); false if k is not a pair case
   bool PairParts(size_t k, size_t & i, int & vi, size_t & j, int & vj) const
   {
      const size_t first = 1 + nTrunc + nWord + nType + nByte + nNul; if (k < first || k >= first + nPair) return false; k -= first;
      const size_t VV = (size_t)kNumWordVals * kNumWordVals; const size_t pairIdx = k / VV; vi = (int)((k % VV) / kNumWordVals); vj = (int)(k % kNumWordVals);
      const size_t P = pairOffs.size(); i = 0; size_t rest = pairIdx; while (rest >= P - 1 - i) { rest -= P - 1 - i; i++; } j = i + 1 + rest; return true;
   }
   // the single word mutation (pairOffs[i] := value vi) applied to the seed
   void SingleOf(const Seed & s, size_t i, int vi, std::string & out) const { out = s.bytes; uint8 * b = (uint8 *)&out[0]; const uint32 o = pairOffs[i]; WrLE(b + o, WordVal(vi, N, o, RdLE(b + o))); }
   static const char * RoleAt(const Seed & s, uint32 off) { for (size_t i = 0; i < s.walk.words.size(); i++) if (s.walk.words[i].off == off) return RoleName(s.walk.words[i].role); return "unaligned-or-data"; }
};

}  // namespace c02
#endif
