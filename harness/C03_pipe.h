// C03 helper: scripted in-memory stream DataIO.
// Read() takes bytes from `in`, Write() appends to `out`; how many bytes each call moves is decided by the harness:
//   * a per-call script (list of counts; 0 = would-block) consumed one entry per call, then
//   * a default policy once the script is exhausted: ALL (everything asked for), BLOCK (0), or a uniform chunk size, and
//   * optional cut points (absolute stream offsets): a call never crosses the next cut point (short count, no would-block),
//   * optional would-block points (one zero answer when the stream stands at that offset) and a byte budget ("window").
// Every call is logged (offset at the time of the call, size asked, count returned) so that reference runs can report where
// the gateway's own buffer boundaries are.
#ifndef VERIF_C03_PIPE_H
#define VERIF_C03_PIPE_H

#include "dataio/DataIO.h"
#include "util/NetworkUtilityFunctions.h"
#include <string>
#include <vector>

namespace c03 {

using namespace muscle;

enum { POLICY_ALL = -1, POLICY_BLOCK = 0 };   // any value > 0 = at most that many bytes per call

struct Dir {
   std::vector<int> script; size_t spos;     // per-call answers (max count; 0 = would-block); consumed first
   int policy;                               // afterwards
   std::vector<uint32> cuts; size_t cpos;    // sorted absolute offsets no single call may cross
   std::vector<uint32> blockAt; size_t bpos; // sorted absolute offsets at which one call is answered with 0 (would-block) before data moves on
   long budget;                              // total bytes that may still move (a "window": socket buffer space / bytes available); -1 = unlimited
   std::vector<uint32> callOffsets;          // offset at which each call with size>0 started
   uint32 calls, zeroAnswers, maxAsked;
   Dir() : spos(0), policy(POLICY_ALL), cpos(0), bpos(0), budget(-1), calls(0), zeroAnswers(0), maxAsked(0) {}
   // how many of `asked` bytes (of which `avail` exist) this call moves, given the current absolute offset
   uint32 Decide(uint32 asked, uint32 avail, uint32 offset)
   {
      calls++; if (asked > maxAsked) maxAsked = asked;
      uint32 n = std::min(asked, avail);
      if (spos < script.size()) { int s = script[spos++]; if (s >= 0 && (uint32)s < n) n = (uint32)s; }
      else if (policy >= 0 && (uint32)policy < n) n = (uint32)policy;
      while (cpos < cuts.size() && cuts[cpos] <= offset) cpos++;
      if (cpos < cuts.size() && offset + n > cuts[cpos]) n = cuts[cpos] - offset;
      while (bpos < blockAt.size() && blockAt[bpos] < offset) bpos++;
      if (bpos < blockAt.size() && blockAt[bpos] == offset) { bpos++; n = 0; }
      if (budget >= 0) { if ((long)n > budget) n = (uint32)budget; budget -= (long)n; }
      if (n == 0) zeroAnswers++;
      return n;
   }
};

class ScriptIO : public DataIO {
public:
   std::string in; size_t inPos;   // bytes that Read() can hand out
   std::string out;                // bytes that Write() accepted
   Dir rd, wr;
   bool logCalls;
   ScriptIO() : inPos(0), logCalls(false) {}

   virtual io_status_t Read(void * buffer, uint32 size)
   {
      if (size == 0) return io_status_t(0);
      if (logCalls) rd.callOffsets.push_back((uint32)inPos);
      const uint32 n = rd.Decide(size, (uint32)(in.size() - inPos), (uint32)inPos);
      if (n) { memcpy(buffer, in.data() + inPos, n); inPos += n; }
      return io_status_t((int32)n);
   }
   virtual io_status_t Write(const void * buffer, uint32 size)
   {
      if (size == 0) return io_status_t(0);
      if (logCalls) wr.callOffsets.push_back((uint32)out.size());
      const uint32 n = wr.Decide(size, size, (uint32)out.size());
      if (n) out.append((const char *)buffer, n);
      return io_status_t((int32)n);
   }
   virtual void FlushOutput() {}
   virtual void Shutdown() {}
   virtual const ConstSocketRef & GetReadSelectSocket() const { return GetNullSocket(); }
   virtual const ConstSocketRef & GetWriteSelectSocket() const { return GetNullSocket(); }
   uint32 Available() const { return (uint32)(in.size() - inPos); }
};

}  // namespace c03

#endif
