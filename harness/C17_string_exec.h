// C17 -- execution of one operation of the alphabet on REAL muscle::String objects.
// Exec() is used unchanged for the primary execution, the storage twins and the detached-operand (alias = copy) execution:
// only the objects it is given differ.  A is the String operand, C the C-string operand (both may alias s).
#ifndef C17_STRING_EXEC_H
#define C17_STRING_EXEC_H

#include "harness/C17_string_defs.h"
#include "util/Hashtable.h"
#include "support/DataUnflattener.h"

namespace c17 {

using namespace muscle;

static inline void FlatImage(const String & a, std::vector<uint8> & buf, uint32 extra)
{
   const uint32 fs = a.FlattenedSize(); buf.assign(fs + extra, 0xEE); a.FlattenToBytes(&buf[0]);
}

static void Exec(const Op & o, String & s, String & t, const String & A, const char * C, Out & out)
{
   const uint32 n = s.Length();
   const uint32 mid = n / 2;
   switch (o.k) {
   case K_ASSIGN_STR: s = A; break;
   case K_ASSIGN_CSTR: s = C; break;
   case K_SETCSTR_N: out.Ok("SetCstr(cstr,maxLen)", s.SetCstr(C, Pos(o.p1, n))); break;
   case K_SETFROM: out.Ok("SetFromString", s.SetFromString(A, Pos(o.p1, n), Pos(o.p2, n))); break;
   case K_ASSIGN_SUBSTR: s = s.Substring(Pos(o.p1, n), Pos(o.p2, n)); break;
   case K_T_FIX: { const Str f = Gen((uint32)o.p1, o.p2); if (o.p2) t = String(f.c_str()); else t = f.c_str(); break; }
   case K_T_FROM_S: t = s; break;
   case K_SWAP: s.SwapContents(t); break;
   case K_MOVE: { s = std::move(t); Str why; if (!Inv(t, why)) out.inv = "moved-from String: " + why; t.Clear(); break; }  // moved-from value is unspecified: must be a sane String, then reset
   case K_APPEND_STR: s += A; break;
   case K_APPEND_CSTR: s += C; break;
   case K_APPEND_CHAR: if (o.p1 == ' ') s++; else s += (char)o.p1; break;
   case K_APPENDCHARS_N: out.Ok("AppendChars(cstr,n)", s.AppendChars(C, (uint32)o.p1)); break;
   case K_PREPEND_CSTR: out.Ok("PrependChars(cstr)", s.PrependChars(C)); break;
   case K_WITHPREPEND_STR: s = s.WithPrepend(A); break;
   case K_INSERT_CSTR: out.Ok("InsertChars(idx,cstr)", s.InsertChars(Pos(o.p1, n), C)); break;
   case K_WITHINSERT_STR: s = s.WithInsert(Pos(o.p1, n), A); break;
   case K_MINUS_STR: s -= A; break;
   case K_MINUS_CSTR: s -= C; break;
   case K_MINUS_CHAR: s -= (char)o.p1; break;
   case K_DEC: s--; break;
   case K_REPLACE_CHAR: out.N("Replace(char,char)", s.Replace((char)o.p1, (char)o.p2)); break;
   case K_REPLACE_STR: {
      const String lf(o.p1 >= 0 ? LIT[o.p1] : ""), lw(o.p2 >= 0 ? LIT[o.p2] : "");
      const String & F = (o.p1 == L_A) ? A : (o.p1 == L_T) ? (const String &)t : lf;
      const String & W = (o.p2 == L_A) ? A : (o.p2 == L_T) ? (const String &)t : lw;
      out.N("Replace(String,String)", s.Replace(F, W)); break; }
   case K_TRIM: s = s.Trimmed(); break;
   case K_PAD: s = s.PaddedBy(Pos(o.p1, n), o.p2 != 0, o.p2 ? '*' : ' '); break;
   case K_UPPER: s = s.ToUpperCase(); break;
   case K_REVERSE: s.Reverse(); break;
   case K_TRUNC_TO: s.TruncateToLength(Pos(o.p1, n)); break;
   case K_CLEAR: s.Clear(); break;
   case K_CLEARFLUSH: s.ClearAndFlush(); if (IsHeap(s)) out.inv = "ClearAndFlush() kept a heap buffer"; break;
   case K_ARG_INT: s = s.Arg(o.p1); break;
   case K_ARG_STR: s = s.Arg(A); break;
   case K_ARG_CSTR: s = s.Arg(C); break;
   case K_PREALLOC: out.Ok("Prealloc", s.Prealloc((uint32)o.p1)); if (s.GetNumAllocatedBytes() < (uint32)o.p1 + 1) out.inv = "Prealloc(n): fewer than n+1 bytes allocated"; break;
   case K_SHRINK: out.Ok("ShrinkToFit", s.ShrinkToFit((uint32)o.p1)); if (s.GetNumAllocatedBytes() < n + 1 + (uint32)o.p1) out.inv = "ShrinkToFit(extra): fewer than Length()+1+extra bytes allocated"; break;
   case K_UNFLATTEN_INTO:
      if (o.opnd == O_T) { std::vector<uint8> buf; FlatImage(A, buf, 0); out.Ok("Unflatten", s.UnflattenFromBytes(&buf[0], (uint32)buf.size())); }
      else out.Ok("Unflatten", s.UnflattenFromBytes((const uint8 *)C, (uint32)strlen(C) + 1));   // the flattened image IS the tail of the receiver's own buffer
      break;

   // ------------------------------------------------------------------ read-only bundles
   case K_CONSTRUCT: {
      const uint32 an = A.Length();
      { String c(A); out.S("String(String)", c); }
      { String c(C); out.S("String(cstr)", c); }
      { String c(C, CAP); out.S("String(cstr,cap)", c); }
      { String c(C, CAP + 1); out.S("String(cstr,cap+1)", c); }
      { String c(C, 0); out.S("String(cstr,0)", c); }
      { String c(A, 1, CAP + 1); out.S("String(String,1,cap+1)", c); }
      { String c(A, an / 2); out.S("String(String,mid)", c); }
      { String c(A, an, an + 3); out.S("String(String,len,len+3)", c); }
      { String c(PreallocatedItemSlotsCount(CAP + 1), C); out.S("String(prealloc,cstr)", c); }
      { String c(PreallocatedItemSlotsCount(2), C, 3); out.S("String(prealloc,cstr,3)", c); }
      { String c(A, PreallocatedItemSlotsCount(3)); out.S("String(String,prealloc)", c); }
      { String c(A); String m(std::move(c)); out.S("String(String&&)", m); Str why; if (!Inv(c, why)) out.inv = "moved-from String: " + why; }
      { String c("zz"); c = A; String & al = c; c = al; out.S("c=A;c=c", c); }
      { String c(A); c = c(); out.S("c=c()", c); }
      { String c(A); c = (const char *)NULL; out.S("c=NULL", c); }
      out.S("operator+(String,String)", s + A); out.S("operator+(String,cstr)", s + C); out.S("operator+(cstr,String)", C + s);
      out.S("operator+(String,char)", s + 'z'); out.S("operator+(char,String)", 'z' + s);
      out.S("operator-(String,String)", s - A); out.S("operator-(String,cstr)", s - C); out.S("operator-(String,char)", s - 'b');
      break; }
   case K_WITH_FORMS: {
      out.S("WithAppend(String)", s.WithAppend(A)); out.S("WithAppend(String,2)", s.WithAppend(A, 2)); out.S("WithAppend(cstr)", s.WithAppend(C)); out.S("WithAppend(cstr,2)", s.WithAppend(C, 2)); out.S("WithAppend(char,3)", s.WithAppend('z', 3));
      out.S("WithPrepend(String)", s.WithPrepend(A)); out.S("WithPrepend(String,1)", s.WithPrepend(A, 1)); out.S("WithPrepend(cstr)", s.WithPrepend(C)); out.S("WithPrepend(cstr,1)", s.WithPrepend(C, 1)); out.S("WithPrepend(char,2)", s.WithPrepend('z', 2));
      out.S("WithInsert(mid,String)", s.WithInsert(mid, A)); out.S("WithInsert(1,String,2)", s.WithInsert(1, A, 2)); out.S("WithInsert(mid,cstr)", s.WithInsert(mid, C)); out.S("WithInsert(len+1,cstr,1)", s.WithInsert(n + 1, C, 1));
      out.S("WithInsert(mid,char,3)", s.WithInsert(mid, 'z', 3)); out.S("WithInsert(0,char,0)", s.WithInsert(0, 'z', 0));
      { String c(s); out.Ok("InsertChars(mid,cstr,2)", c.InsertChars(mid, C, 2)); out.S("InsertChars(mid,cstr,2) value", c); }
      { String c(s); out.Ok("AppendChars(cstr,2)", c.AppendChars(C, 2)); out.S("AppendChars(cstr,2) value", c); }
      { String c(s); out.Ok("PrependChars(cstr,1)", c.PrependChars(C, 1)); out.S("PrependChars(cstr,1) value", c); }
      { String c(s); c << A << C << 12 << true << 1.5f; out.S("operator<<", c); }
      // separator insertion "if necessary" is not specified precisely: differential oracles only
      out.S("WithAppendedWord(String)", s.WithAppendedWord(A)); out.S("WithAppendedWord(cstr,sep)", s.WithAppendedWord(C, ", ")); out.S("WithPrependedWord(String)", s.WithPrependedWord(A));
      out.S("WithInsertedWord(mid,String)", s.WithInsertedWord(mid, A)); out.S("WithInsertedWord(1,cstr,nosep)", s.WithInsertedWord(1, C, ""));
      break; }
   case K_SUBSTR_FORMS: {
      for (int i = 0; i < NFROMS; i++) { out.cur = PosName(FROMS[i]); out.S("Substring(from)", s.Substring(Pos(FROMS[i], n))); }
      out.cur = "";
      out.S("Substring(0,cap)", s.Substring(0, CAP)); out.S("Substring(1,cap+1)", s.Substring(1, CAP + 1)); out.S("Substring(mid,len)", s.Substring(mid, n)); out.S("Substring(len,len+5)", s.Substring(n, n + 5)); out.S("Substring(mid,1)", s.Substring(mid, 1));
      out.S("Substring(markerString)", s.Substring(A)); out.S("Substring(markerCstr)", s.Substring(C));
      static const int bs[] = { P0, P1, PMID };
      for (int i = 0; i < 3; i++) { out.cur = PosName(bs[i]); out.S("Substring(from,markerString)", s.Substring(Pos(bs[i], n), A)); out.S("Substring(from,markerCstr)", s.Substring(Pos(bs[i], n), C)); }
      out.cur = "";
      break; }
   case K_REPL_FORMS: {
      out.S("WithReplacements(a->z)", s.WithReplacements('a', 'z')); out.S("WithReplacements(sp->*,1,from1)", s.WithReplacements(' ', '*', 1, 1)); out.S("WithReplacements(b->b)", s.WithReplacements('b', 'b'));
      { String c(s); out.N("Replace(b->z,2,mid)", c.Replace('b', 'z', 2, mid)); out.S("Replace(b->z,2,mid) value", c); }
      out.S("WithReplacements(A,x)", s.WithReplacements(A, "x")); out.S("WithReplacements(A,A)", s.WithReplacements(A, A)); out.S("WithReplacements(a,A,1,1)", s.WithReplacements("a", A, 1, 1));
      out.S("WithReplacements(A,empty,all,1)", s.WithReplacements(A, "", NL, 1)); out.S("WithReplacements(b,bb,2,mid)", s.WithReplacements("b", "bb", 2, mid)); out.S("WithReplacements(C,cap-long)", s.WithReplacements(C, "0123456789abcde"));
      { String c(s); out.N("Replace(a,A,1,1)", c.Replace("a", A, 1, 1)); out.S("Replace(a,A,1,1) value", c); }
      { String c(s); out.N("Replace(A,A)", c.Replace(A, A)); out.S("Replace(A,A) value", c); }
      { String c(s); out.N("Replace(x,y,0)", c.Replace("a", "y", 0)); out.S("Replace(x,y,0) value", c); }
      // simultaneous table replacement: precedence rules only loosely documented -> differential oracles only
      { Hashtable<String, String> h; (void) h.Put("a", "bb"); (void) h.Put(A, "x"); (void) h.Put("b", ""); out.S("WithReplacements(table)", s.WithReplacements(h)); String c(s); out.N("Replace(table,2)", c.Replace(h, 2)); out.S("Replace(table,2) value", c); }
      break; }
   case K_CASE_FORMS: {
      out.S("ToLowerCase", s.ToLowerCase()); out.S("ToUpperCase", s.ToUpperCase()); out.S("ToMixedCase", s.ToMixedCase()); out.S("Trimmed", s.Trimmed());
      out.S("PaddedBy(cap,left)", s.PaddedBy(CAP)); out.S("PaddedBy(cap+1,right,*)", s.PaddedBy(CAP + 1, true, '*')); out.S("PaddedBy(len)", s.PaddedBy(n)); out.S("PaddedBy(2cap+1,left,0)", s.PaddedBy(2 * CAP + 1, false, '0'));
      { String c(s); c.Reverse(); out.S("Reverse", c); }
      { String c(s); c.TruncateChars(2); out.S("TruncateChars(2)", c); }
      { String c(s); c.TruncateChars(n + 1); out.S("TruncateChars(len+1)", c); }
      { String c(s); c.TruncateToLength(1); out.S("TruncateToLength(1)", c); }
      { String c(s); c.TruncateToLength(n + 1); out.S("TruncateToLength(len+1)", c); }
      { String c(s); c--; c++; out.S("s--;s++", c); }
      out.N("Length", s.Length()); out.B("IsIndexValid(last)", s.IsIndexValid(n ? n - 1 : 0)); out.B("IsIndexValid(len)", s.IsIndexValid(n));
      if (n) { out.N("CharAt(0)", (unsigned char)s.CharAt(0)); out.N("operator[](last)", (unsigned char)s[n - 1]); } else { out.N("CharAt(0)", -1); out.N("operator[](last)", -1); }
      out.B("IsCharInLocalArray(Cstr()+mid)", s.IsCharInLocalArray(s() + mid)); out.B("IsCharInLocalArray(other)", s.IsCharInLocalArray(SKIP));
      out.S("IndentedBy(2)", s.IndentedBy(2)); out.S("WithCharsEscaped(a%)", s.WithCharsEscaped("a%")); out.N("GetDistanceTo(t)", s.GetDistanceTo(t)); out.N("GetDistanceTo(t())", s.GetDistanceTo(t(), 3));
      break; }
   case K_SEARCH: {
      for (int i = 0; i < NFROMS; i++) {
         const uint32 f = Pos(FROMS[i], n); out.cur = PosName(FROMS[i]);
         out.N("IndexOf(String,from)", s.IndexOf(A, f)); out.N("IndexOf(cstr,from)", s.IndexOf(C, f));
         out.N("IndexOfIgnoreCase(String,from)", s.IndexOfIgnoreCase(A, f)); out.N("IndexOfIgnoreCase(cstr,from)", s.IndexOfIgnoreCase(C, f));
         out.N("LastIndexOfIgnoreCase(String,from)", s.LastIndexOfIgnoreCase(A, f)); out.N("LastIndexOfIgnoreCase(cstr,from)", s.LastIndexOfIgnoreCase(C, f));
         out.N("LastIndexOf(String,from)", s.LastIndexOf(A, f)); out.N("LastIndexOf(cstr,from)", s.LastIndexOf(C, f));
         out.B("Contains(String,from)", s.Contains(A, f)); out.B("Contains(cstr,from)", s.Contains(C, f));
         out.B("ContainsIgnoreCase(String,from)", s.ContainsIgnoreCase(A, f)); out.B("ContainsIgnoreCase(cstr,from)", s.ContainsIgnoreCase(C, f));
         out.N("GetNumInstancesOf(String,from)", s.GetNumInstancesOf(A, f)); out.N("GetNumInstancesOf(cstr,from)", s.GetNumInstancesOf(C, f));
      }
      out.cur = "";
      out.N("LastIndexOf(String)", s.LastIndexOf(A)); out.N("LastIndexOf(cstr)", s.LastIndexOf(C));
      out.B("StartsWith(String)", s.StartsWith(A)); out.B("StartsWith(cstr)", s.StartsWith(C)); out.B("EndsWith(String)", s.EndsWith(A)); out.B("EndsWith(cstr)", s.EndsWith(C));
      out.B("StartsWithIgnoreCase(String)", s.StartsWithIgnoreCase(A)); out.B("StartsWithIgnoreCase(cstr)", s.StartsWithIgnoreCase(C)); out.B("EndsWithIgnoreCase(String)", s.EndsWithIgnoreCase(A)); out.B("EndsWithIgnoreCase(cstr)", s.EndsWithIgnoreCase(C));
      break; }
   case K_SEARCH_CHAR: {
      for (int ci = 0; ci < NSCHARS; ci++) {
         const char ch = SCHARS[ci];
         for (int i = 0; i < NCFROMS; i++) {
            const uint32 f = Pos(CFROMS[i], n); out.cur = PosName(CFROMS[i]);
            out.N("IndexOf(char,from)", s.IndexOf(ch, f)); out.N("LastIndexOf(char,from)", s.LastIndexOf(ch, f)); out.N("IndexOfIgnoreCase(char,from)", s.IndexOfIgnoreCase(ch, f)); out.N("LastIndexOfIgnoreCase(char,from)", s.LastIndexOfIgnoreCase(ch, f));
            out.B("Contains(char,from)", s.Contains(ch, f)); out.B("ContainsIgnoreCase(char,from)", s.ContainsIgnoreCase(ch, f)); out.N("GetNumInstancesOf(char,from)", s.GetNumInstancesOf(ch, f));
         }
         out.cur = "";
         out.B("StartsWith(char)", s.StartsWith(ch)); out.B("EndsWith(char)", s.EndsWith(ch)); out.B("StartsWithIgnoreCase(char)", s.StartsWithIgnoreCase(ch)); out.B("EndsWithIgnoreCase(char)", s.EndsWithIgnoreCase(ch));
         out.B("Equals(char)", s.Equals(ch)); out.B("EqualsIgnoreCase(char)", s.EqualsIgnoreCase(ch));
      }
      break; }
   case K_COMPARE: {
      out.Sg("CompareTo(String)", s.CompareTo(A)); out.Sg("CompareTo(cstr)", s.CompareTo(C));
      out.B("==(String)", s == A); out.B("!=(String)", s != A); out.B("<(String)", s < A); out.B(">(String)", s > A); out.B("<=(String)", s <= A); out.B(">=(String)", s >= A);
      out.B("==(cstr)", s == C); out.B("!=(cstr)", s != C); out.B("<(cstr)", s < C); out.B(">(cstr)", s > C); out.B("<=(cstr)", s <= C); out.B(">=(cstr)", s >= C);
      out.B("Equals(String)", s.Equals(A)); out.B("Equals(cstr)", s.Equals(C)); out.B("EqualsIgnoreCase(String)", s.EqualsIgnoreCase(A)); out.B("EqualsIgnoreCase(cstr)", s.EqualsIgnoreCase(C));
      out.Sg("CompareToIgnoreCase(String)", s.CompareToIgnoreCase(A)); out.Sg("CompareToIgnoreCase(cstr)", s.CompareToIgnoreCase(C));
      out.Sg("NumericAwareCompareTo(String)", s.NumericAwareCompareTo(A)); out.Sg("NumericAwareCompareTo(cstr)", s.NumericAwareCompareTo(C));
      out.Sg("NumericAwareCompareToIgnoreCase(String)", s.NumericAwareCompareToIgnoreCase(A)); out.Sg("NumericAwareCompareToIgnoreCase(cstr)", s.NumericAwareCompareToIgnoreCase(C));
      out.N("HashCode", s.HashCode()); out.N("HashCode64", (long long)s.HashCode64()); out.N("CalculateChecksum", s.CalculateChecksum());
      out.B("equal => same HashCode", !(s == A) || (s.HashCode() == A.HashCode() && s.HashCode64() == A.HashCode64()));
      break; }
   case K_ARG_FORMS: {
      out.S("Arg(int 7)", s.Arg(7)); out.S("Arg(String)", s.Arg(A)); out.S("Arg(cstr)", s.Arg(C)); out.S("Arg(uint)", s.Arg(4000000000u)); out.S("Arg(int64)", s.Arg((long long)-12345678901LL)); out.S("Arg(short)", s.Arg((short)-3));
      out.S("Arg(int).Arg(String)", s.Arg(1).Arg(A));
      out.S("Arg(bool)", s.Arg(true)); out.S("Arg(char)", s.Arg('c')); out.S("Arg(double)", s.Arg(1.5)); out.S("Arg(double,1,3)", s.Arg(2.0, 1, 3)); out.S("Arg(float,fmt)", s.Arg(0.25f, "%.3f")); out.S("Arg(int,fmt)", s.Arg(255, "%04x")); out.S("Arg(void*)", s.Arg((const void *)NULL));
      break; }
   case K_NUMERIC: {
      out.N("ParseNumericSuffix()", s.ParseNumericSuffix()); out.N("ParseNumericSuffix(99)", s.ParseNumericSuffix(99));
      { uint32 v = 77; out.S("WithoutNumericSuffix(&v)", s.WithoutNumericSuffix(&v)); out.N("WithoutNumericSuffix removed value", v); }
      out.S("WithoutNumericSuffix()", s.WithoutNumericSuffix());
      out.B("StartsWithNumber(true)", s.StartsWithNumber(true)); out.B("StartsWithNumber(false)", s.StartsWithNumber(false));
      break; }
   case K_PREFIXSUFFIX: {
      out.S("WithSuffix(String)", s.WithSuffix(A)); out.S("WithPrefix(String)", s.WithPrefix(A)); out.S("WithSuffix(char)", s.WithSuffix('b')); out.S("WithPrefix(char)", s.WithPrefix('a'));
      out.S("WithoutSuffix(String)", s.WithoutSuffix(A)); out.S("WithoutSuffix(String,1)", s.WithoutSuffix(A, 1)); out.S("WithoutPrefix(String)", s.WithoutPrefix(A)); out.S("WithoutPrefix(String,1)", s.WithoutPrefix(A, 1));
      out.S("WithoutSuffix(char)", s.WithoutSuffix('b')); out.S("WithoutPrefix(char)", s.WithoutPrefix('a')); out.S("WithoutSuffix(char,1)", s.WithoutSuffix(' ', 1)); out.S("WithoutPrefix(char,1)", s.WithoutPrefix(' ', 1));
      out.S("WithoutSuffixIgnoreCase(String)", s.WithoutSuffixIgnoreCase(A)); out.S("WithoutPrefixIgnoreCase(String)", s.WithoutPrefixIgnoreCase(A)); out.S("WithoutSuffixIgnoreCase(char)", s.WithoutSuffixIgnoreCase('B')); out.S("WithoutPrefixIgnoreCase(char)", s.WithoutPrefixIgnoreCase('A'));
      break; }
   case K_FLATTEN_RT: {
      const uint32 fs = s.FlattenedSize(); out.N("FlattenedSize", fs);
      std::vector<uint8> buf; FlatImage(s, buf, 4);
      out.Put("Flatten bytes", verif::Hex(&buf[0], fs)); out.B("Flatten wrote exactly FlattenedSize bytes", buf[fs] == 0xEE && buf[fs + 3] == 0xEE);
      { std::vector<uint8> exact(buf.begin(), buf.begin() + fs); String u(t); out.Ok("Unflatten(exact)", u.UnflattenFromBytes(&exact[0], fs)); out.S("Unflatten(exact) value", u); out.B("Unflatten(Flatten(s))==s", u == s); }
      { String u(t); out.Ok("Unflatten(with trailing bytes)", u.UnflattenFromBytes(&buf[0], fs + 4)); out.S("Unflatten(with trailing bytes) value", u); }
      out.B("TypeCode/IsFixedSize/AllowsTypeCode", s.TypeCode() == B_STRING_TYPE && !s.IsFixedSize() && s.AllowsTypeCode(B_STRING_TYPE));
      break; }
   case K_UNFLATTEN_BAD: {
      // the bytes of s WITHOUT a terminating NUL, in an exactly-sized heap block (an over-read would be an ASan report); empty buffer when s is empty
      char * raw = (char *)malloc(n ? n : 1); memcpy(raw, s(), n);
      { String u(t); const status_t r = u.UnflattenFromBytes((const uint8 *)raw, n); out.Put(n ? "Unflatten(unterminated)" : "Unflatten(empty buffer)", r.IsOK() ? "accepted" : "rejected"); }
      free(raw);
      break; }
   }
}

}  // namespace c17

#endif
