// C11 -- Thread-to-owner Messages arrive exactly once, in order, and always wake the peer.
// SCHEDX: a real muscle::Thread (both signalling mechanisms) driven by an owner (and optionally a second sender thread)
// under the controlled scheduler; every interleaving with <= bound preemptions is executed.  A receiver that stays
// blocked although a Message is queued shows up as a scheduler-detected DEADLOCK (the lost-wake-up oracle).
// VBUILD: libs=schedx
#include "engines/schedx/schedx.h"
#include <poll.h>
#include <map>
#include <algorithm>
#include "system/Thread.h"
#include "system/SetupSystem.h"
#include "message/Message.h"

using namespace muscle;

struct Config { bool sockets; std::string variant; int n; };
static std::string ConfigToString(const Config & c) { return verif::Fmt("mode=%s;variant=%s;n=%d", c.sockets ? "sock" : "wc", c.variant.c_str(), c.n); }
static Config ConfigFromString(const std::string & s)
{
   Config c; c.sockets = s.find("mode=sock") != std::string::npos; c.n = 2;
   size_t v = s.find("variant="); if (v != std::string::npos) { size_t e = s.find(';', v); c.variant = s.substr(v + 8, (e == std::string::npos ? s.size() : e) - v - 8); }
   size_t n = s.find("n="); if (n != std::string::npos) c.n = atoi(s.c_str() + n + 2);
   return c;
}

// The internal thread logs every Message id it is handed and replies with id+1000.
class EchoThread : public Thread {
public:
   EchoThread(bool sockets) : Thread(sockets), nullSeen(0) {}
   std::vector<int> handled; int nullSeen;
protected:
   virtual status_t MessageReceivedFromOwner(const MessageRef & msg, uint32 numLeft)
   {
      if (msg() == NULL) { nullSeen++; return Thread::MessageReceivedFromOwner(msg, numLeft); }   // base class: NULL => B_SHUTTING_DOWN => the thread exits
      handled.push_back((int)msg()->what);
      (void) SendMessageToOwner(MessageRef(new Message(msg()->what + 1000)));
      return B_NO_ERROR;
   }
};

// An internal thread written the other documented way: it select()s on its wake-up socket (GetInternalThreadWakeupSocket(), "so that your
// thread can block on it together with its own sockets" -- what MessageTransceiverThread does) and POLLS the queue only when that socket is
// readable.  Such a thread depends on "a queued Message always makes the wake-up socket readable", including for Messages queued before start.
static void WaitReadable(int fd)
{
   MuscleVerifHooks * h = GetMuscleVerifHooksRef();
   if (h) (void) h->socketWait(NULL, fd, 0);   // under the scheduler: a blocking point that is enabled iff the descriptor is readable
   else { struct pollfd p; p.fd = fd; p.events = POLLIN; p.revents = 0; (void) poll(&p, 1, -1); }
}
class SelectThread : public EchoThread {
public:
   SelectThread() : EchoThread(true) {}
protected:
   virtual void InternalThreadEntry()
   {
      const int fd = GetInternalThreadWakeupSocket().GetFileDescriptor();
      bool keepGoing = (fd >= 0);
      while (keepGoing) {
         WaitReadable(fd);
         MessageRef m; uint32 left = 0;
         while (keepGoing && WaitForNextMessageFromOwner(m, 0, &left).IsOK()) if (MessageReceivedFromOwner(m, left).IsError()) keepGoing = false;
      }
   }
};

static std::string Seq(const std::vector<int> & v) { std::string s; for (size_t i = 0; i < v.size(); i++) s += verif::Fmt("%s%d", i ? "," : "", v[i]); return s; }

// A compliant receiver: blocks for the next reply; B_TIMED_OUT from an untimed receive (stale signal byte, see DESIGN C11) is retried
// exactly like the library's own loop does; more than 8 consecutive spurious returns would be a livelock and is reported.
static bool NextReply(EchoThread & t, int & id, int & spurious)
{
   for (int tries = 0; tries < 9; tries++) {
      MessageRef r; status_t s = t.GetNextReplyFromInternalThread(r, MUSCLE_TIME_NEVER);
      if (s.IsOK()) { if (r() == NULL) { schedx::Fail("null-reply", "owner received a NULL reply"); return false; } id = (int)r()->what; return true; }
      if (s != B_TIMED_OUT) { schedx::Fail("receive-error", verif::Fmt("GetNextReplyFromInternalThread(MUSCLE_TIME_NEVER) returned %s", s())); return false; }
      spurious++;
   }
   schedx::Fail("receive-livelock", "untimed GetNextReplyFromInternalThread returned B_TIMED_OUT 9 times in a row"); return false;
}

static void CheckRun(const char * what, const std::vector<int> & sentA, const std::vector<int> & sentB, const std::vector<int> & handled, const std::vector<int> & replies)
{
   // exactly once: handled is a permutation of sentA+sentB; in order: the subsequence of each sender's ids is in sending order
   std::vector<int> all = sentA; all.insert(all.end(), sentB.begin(), sentB.end()); std::vector<int> h = handled; std::sort(all.begin(), all.end()); std::sort(h.begin(), h.end());
   if (h != all) { schedx::Fail("delivery", verif::Fmt("%s: sent {%s}+{%s} but the internal thread was handed {%s} (lost or duplicated)", what, Seq(sentA).c_str(), Seq(sentB).c_str(), Seq(handled).c_str())); return; }
   for (int z = 0; z < 2; z++) { const std::vector<int> & s = z ? sentB : sentA; size_t k = 0; for (size_t i = 0; i < handled.size() && k < s.size(); i++) if (handled[i] == s[k]) k++; if (k != s.size()) { schedx::Fail("order", verif::Fmt("%s: sender order {%s} not preserved in {%s}", what, Seq(s).c_str(), Seq(handled).c_str())); return; } }
   std::vector<int> expectReplies; for (size_t i = 0; i < handled.size(); i++) expectReplies.push_back(handled[i] + 1000);
   if (replies != expectReplies) schedx::Fail("reply-delivery", verif::Fmt("%s: replies sent in order {%s} but the owner received {%s}", what, Seq(expectReplies).c_str(), Seq(replies).c_str()));
}

static void Body(const Config & cfg)
{
   const std::string & v = cfg.variant;
   const bool sel = (v.compare(0, 6, "select") == 0);   // select, selectprequeue, selectqueuesock (queue, allocate sockets, start), selectsockqueue (allocate sockets, queue, start)
   EchoThread * t = sel ? new SelectThread() : new EchoThread(cfg.sockets);
   std::vector<int> sentA, sentB, replies; int spurious = 0;
   if (v == "basic" || v == "prequeue" || v == "twosenders" || sel) {
      int sender2 = -1;
      if (v == "selectsockqueue") (void) t->GetOwnerWakeupSocket();   // demand-allocates the socket pair before anything is queued
      if (v == "prequeue" || (sel && v != "select")) for (int i = 1; i <= cfg.n; i++) { sentA.push_back(i); if (t->SendMessageToInternalThread(MessageRef(new Message((uint32)i))).IsError()) schedx::Fail("send-failed", "send failed"); }
      if (v == "selectqueuesock") (void) t->GetOwnerWakeupSocket();    // ... or after the Messages were queued (their signal bytes could not be sent: no sockets yet)
      if (t->StartInternalThread().IsError()) { schedx::Fail("start-failed", "StartInternalThread failed"); delete t; return; }
      if (v == "twosenders") { EchoThread * tp = t; int n = cfg.n; std::vector<int> * sb = &sentB; for (int i = 1; i <= n; i++) sb->push_back(100 + i); sender2 = schedx::Spawn([tp, n]() { for (int i = 1; i <= n; i++) (void) tp->SendMessageToInternalThread(MessageRef(new Message((uint32)(100 + i)))); }); }
      if (v != "prequeue" && !(sel && v != "select")) for (int i = 1; i <= cfg.n; i++) { sentA.push_back(i); if (t->SendMessageToInternalThread(MessageRef(new Message((uint32)i))).IsError()) schedx::Fail("send-failed", "send failed"); }
      const size_t expect = sentA.size() + sentB.size();
      for (size_t i = 0; i < expect; i++) { int id = 0; if (!NextReply(*t, id, spurious)) break; replies.push_back(id); }
      if (sender2 >= 0) schedx::Join(sender2);
      t->ShutdownInternalThread();   // must complete (join) -- a hang here is a scheduler-detected deadlock
      CheckRun(v.c_str(), sentA, sentB, t->handled, replies);
   } else if (v == "shutdownpending") {
      if (t->StartInternalThread().IsError()) { schedx::Fail("start-failed", "StartInternalThread failed"); delete t; return; }
      for (int i = 1; i <= cfg.n; i++) { sentA.push_back(i); (void) t->SendMessageToInternalThread(MessageRef(new Message((uint32)i))); }
      t->ShutdownInternalThread();   // queued behind the n Messages: all of them must be handled before the thread exits
      { MessageRef r; while (t->GetNextReplyFromInternalThread(r, 0).IsOK()) if (r()) replies.push_back((int)r()->what); }
      CheckRun("shutdownpending", sentA, sentB, t->handled, replies);
   } else if (v == "restart") {
      for (int life = 0; life < 2; life++) {
         if (t->StartInternalThread().IsError()) { schedx::Fail("start-failed", verif::Fmt("StartInternalThread failed in life %d", life)); break; }
         const int id = 10 * (life + 1) + 1; sentA.push_back(id); (void) t->SendMessageToInternalThread(MessageRef(new Message((uint32)id)));
         int rid = 0; if (NextReply(*t, rid, spurious)) replies.push_back(rid);
         t->ShutdownInternalThread();
      }
      CheckRun("restart", sentA, sentB, t->handled, replies);
   } else schedx::Fail("harness", "unknown variant " + v);
   if (t->IsInternalThreadRunning()) schedx::Fail("still-running", "IsInternalThreadRunning() after ShutdownInternalThread(true)");
   if (spurious) schedx::Note(verif::Fmt("untimed receive returned B_TIMED_OUT %d time(s) (stale signal byte; retried as the library's own loop does)", spurious));
   schedx::Observe("handled=" + Seq(t->handled) + " replies=" + Seq(replies));
   delete t;
}

static schedx::BodyFactory Factory() { return [](const std::string & cs) { Config c = ConfigFromString(cs); return std::function<void()>([c]() { Body(c); }); }; }

int main(int argc, char ** argv)
{
   verif::Args args; args.Parse(argc, argv);
   verif::Result res; res.harness = "C11_thread";
   CompleteSetupSystem css;
   schedx::Options opt; opt.bound = args.Thorough() ? 4 : 3;
   opt.yieldOnUnlock = true;   // a lock release is a visible operation: the window between 'queue unlocked' and the next socket/condition operation must be schedulable
   if (args.kv.count("bound")) opt.bound = atoi(args.kv["bound"].c_str());
   if (!args.replay.empty()) {
      verif::ReplayDoc d; if (!d.Load(args.replay)) { fprintf(stderr, "cannot read %s\n", args.replay.c_str()); return 3; }
      Config cfg = ConfigFromString(d.Str("config")); if (d.s.count("bound")) opt.bound = (int)d.Int("bound");
      schedx::Outcome o = schedx::RunOne([cfg]() { Body(cfg); }, schedx::ChoicesFromString(d.Str("choices")), opt);
      printf("replay config=%s choices=%s\nresult: %s %s %s\nobservation: %s\n", d.Str("config").c_str(), d.Str("choices").c_str(), o.status.c_str(), o.key.c_str(), o.msg.c_str(), o.observation.c_str());
      return o.status == "OK" ? 0 : 1;
   }
   std::vector<std::string> cfgs;
   if (args.kv.count("config")) cfgs.push_back(args.kv["config"]);
   else {
      const char * variants[] = {"basic", "prequeue", "shutdownpending", "restart", "twosenders"};
      for (int m = 0; m < 2; m++) for (size_t v = 0; v < 5; v++) for (int n = 2; n <= (args.Thorough() ? 3 : 2); n++) {
         if (std::string(variants[v]) == "restart" && n > 2) continue;
         Config c; c.sockets = (m == 0); c.variant = variants[v]; c.n = n; cfgs.push_back(ConfigToString(c));
      }
      { const char * sv[] = {"select", "selectprequeue", "selectqueuesock", "selectsockqueue"}; for (int k = 0; k < 4; k++) { Config c; c.sockets = true; c.variant = sv[k]; c.n = 2; cfgs.push_back(ConfigToString(c)); } }
      if (!args.Thorough()) { Config c; c.sockets = true; c.variant = "basic"; c.n = 3; cfgs.push_back(ConfigToString(c)); c.sockets = false; cfgs.push_back(ConfigToString(c)); }
   }
   if (args.kv.count("freerun")) {
      schedx::FreeRunPart("tsan-free-run", Factory(), cfgs, atoi(args.kv["freerun"].c_str()), args, res);
      return res.Write(args);
   }
   const double deadline = args.t0 + args.deadline * 0.92;
   schedx::StartPool(Factory(), opt, args.workers);
   // quick tier: bound 3 for every configuration.  Thorough tier: the same (always run to completion first), then every configuration again with ONE MORE
   // preemption, each with a fair share of the remaining time (a configuration cut by its share is named in cap and the part is reported exhaustive:false).
   std::map<std::string, unsigned long> firstPassExecs;
   unsigned long execs = 0; bool capped = false; const int baseBound = args.kv.count("bound") ? opt.bound : 3;
   const std::string ruleTail = verif::Fmt(" of %u configurations = {socket-pair, wait-condition signalling} x {basic send/reply/shutdown, Messages queued before start, shutdown with Messages pending, start-shutdown-restart, a second sender thread} x Message count + 4 configurations with an internal thread that select()s on its wake-up socket and polls the queue (send after start; queued before start; queued, sockets allocated, start; sockets allocated, queued, start), on a real muscle::Thread under a scheduler owning every queue-lock, signal (send/Notify), blocking wait (socket/WaitCondition), spawn, exit and join point; one schedule = one execution of the real code; distinct = distinct (status, handled order, reply order)", (unsigned)cfgs.size());
   for (int pass = 0; pass < ((args.Thorough() && !args.kv.count("bound")) ? 2 : 1); pass++) {
      schedx::Options o2 = opt; o2.bound = baseBound + pass;
      verif::Part total; total.name = verif::Fmt("thread-bound%d", o2.bound); bool passCapped = false;
      // second pass: cheapest configuration first (by its execution count in the first pass), so that time a cheap one leaves unused goes to the expensive ones
      if (pass == 1) { std::vector<std::pair<unsigned long, std::string> > byCost; for (size_t i = 0; i < cfgs.size(); i++) byCost.push_back(std::make_pair(firstPassExecs[cfgs[i]], cfgs[i])); std::stable_sort(byCost.begin(), byCost.end()); for (size_t i = 0; i < cfgs.size(); i++) cfgs[i] = byCost[i].second; }
      for (size_t i = 0; i < cfgs.size(); i++) {
         const double nowT = verif::NowS();
         if (nowT > deadline) { passCapped = true; if (total.cap.empty()) total.cap = "deadline before " + cfgs[i]; break; }
         const double jobDeadline = pass ? std::min(deadline, nowT + std::max(60.0, (deadline - nowT) / (double)(cfgs.size() - i))) : deadline;
         schedx::Explore("thread", cfgs[i], o2, args, res, jobDeadline);
         verif::Part p = res.parts.back(); res.parts.pop_back(); if (pass == 0) firstPassExecs[cfgs[i]] = (unsigned long)p.transitions;
         total.states += p.states; total.transitions += p.transitions; total.evaluations += p.evaluations; total.distinct_outcomes += p.distinct_outcomes; execs += p.transitions; if (!p.exhaustive) { passCapped = true; total.cap += (total.cap.empty() ? "" : "; ") + p.cap + " in " + cfgs[i]; }
         if (total.samples.size() < 3 && !p.samples.empty()) total.samples.push_back(p.samples[(size_t)args.seed % p.samples.size()]);
         total.extra[cfgs[i]] = verif::Fmt("{\"executions\": %llu, \"distinct_outcomes\": %llu, \"by_cost\": %s, \"max_points\": %s, \"exhaustive\": %s}", (unsigned long long)p.transitions, (unsigned long long)p.distinct_outcomes, p.extra["executions_by_cost"].c_str(), p.extra["max_points_in_one_execution"].c_str(), p.exhaustive ? "true" : "false");
         if (p.extra.count("notes") && pass == 0) res.observations.push_back(cfgs[i] + ": " + p.extra["notes"].substr(0, 300));
      }
      total.exhaustive = !passCapped; total.bound_completed = passCapped ? -1 : o2.bound; if (passCapped && total.cap.empty()) total.cap = "deadline";
      total.rule = verif::Fmt("every interleaving with <=%d preemptions", o2.bound) + ruleTail;
      res.parts.push_back(total); if (passCapped) capped = true;
   }
   schedx::StopPool();
   fprintf(stderr, "C11: configs=%u executions=%lu capped=%d violations=%u wall=%.1fs\n", (unsigned)cfgs.size(), execs, (int)capped, (unsigned)res.violations.size(), verif::NowS() - args.t0);
   return res.Write(args);
}
