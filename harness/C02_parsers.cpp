// C02 -- parsing untrusted bytes is memory-safe, terminates, and costs O(input).
// MUTX fault enumeration: for every parser entry point, every deviation (<=1 everywhere, <=2 over structural words for the Message
// parsers and the standard stream gateway) from ~40 valid encodings produced by the real muscle encoders is handed to the real
// parser in a forked worker under ASan+UBSan with a CPU watchdog and an allocation meter.  See DESIGN.md section 3 "C02".
// VBUILD: libs=c
#include "harness/C02_rt.h"        // allocation meter with cap (own copy: see header), death attribution
#include "harness/C02_seeds.h"
#include "dataio/DataIO.h"
#include "dataio/ByteBufferPacketDataIO.h"
#include "iogateway/MessageIOGateway.h"
#include "iogateway/TemplatingMessageIOGateway.h"
#include "iogateway/PacketTunnelIOGateway.h"
#include "iogateway/MiniPacketTunnelIOGateway.h"
#include "iogateway/WebSocketMessageIOGateway.h"
#include "iogateway/PlainTextMessageIOGateway.h"
#include "iogateway/RawDataMessageIOGateway.h"
#include "iogateway/SLIPFramedDataMessageIOGateway.h"
#include "zlib/ZLibCodec.h"
#include "syslog/SysLog.h"
#include "lang/c/minimessage/MiniMessage.h"
#include "lang/c/minimessage/MiniMessageGateway.h"
#include "lang/c/micromessage/MicroMessage.h"
#include "lang/c/micromessage/MicroMessageGateway.h"

using namespace muscle;
using namespace c02;

extern "C" uint64_t verif_rand_counter;   // engines/common/pin.cpp: the pinned source behind GetInsecurePseudoRandomNumber32/64

// ---------------------------------------------------------------- constants of the oracle
static const long long kAllocA = 256, kAllocK = 64 * 1024;        // requested heap bytes during one parse of N bytes must stay <= a*N + K
static const long long kNewCapMin = 4LL * 1024 * 1024;            // while a parse runs a single operator-new request above max(4 MiB, 64*N) is refused (returns NULL) -- far above the asserted bound
static inline long long NewCap(size_t N) { return std::max<long long>(kNewCapMin, 64LL * (long long)N); }
static volatile unsigned g_sink;
static std::string g_tier = "quick";   // recorded in every case description: the index space depends on the tier (pair seeds)

static std::string ExactCopyHex(const std::string & s) { return verif::Hex(s); }

// exact-size heap copy so that ASan sees any read past the supplied bytes
struct ExactBuf {
   uint8 * p; uint32 n;
   explicit ExactBuf(const std::string & s) : n((uint32)s.size()) { p = (uint8 *)malloc(s.size()); if (n) memcpy(p, s.data(), n); }
   ~ExactBuf() { free(p); }
};

static const long long kMallocCap = 64LL * 1024 * 1024;   // ASAN_OPTIONS max_allocation_size_mb (see main): a larger malloc/calloc/realloc request returns NULL with errno=ENOMEM and is NOT seen by the malloc hook
static int g_lastParseErrno = 0;
static bool CheckAlloc(mutx::Case & c, size_t N)
{
   const long long lim = kAllocA * (long long)N + kAllocK;
   if (g_lastParseErrno == ENOMEM && c02::g_capHits == 0 && kMallocCap > lim) { c.Fail("alloc:single-request>256N+64K", verif::Fmt("parsing %llu bytes made a malloc-family request above %lld bytes (refused by the 64 MiB allocation cap, errno=ENOMEM; bound %lld)", (unsigned long long)N, kMallocCap, lim)); return false; }
   if (mutx::g_meter.biggest > lim) { c.Fail("alloc:single-request>256N+64K", verif::Fmt("parsing %llu bytes requested a single allocation of %lld bytes (peak %lld, bound %lld)", (unsigned long long)N, mutx::g_meter.biggest, mutx::g_meter.peak, lim)); return false; }
   if (mutx::g_meter.peak > lim) { c.Fail("alloc:peak>256N+64K", verif::Fmt("parsing %llu bytes held %lld requested bytes at peak (biggest single %lld, bound %lld)", (unsigned long long)N, mutx::g_meter.peak, mutx::g_meter.biggest, lim)); return false; }
   return true;
}
struct Metered {   // RAII: meter + operator-new cap around one parse call
   bool ended;
   explicit Metered(size_t N) : ended(false) { c02::g_capHits = 0; c02::g_allocCap = NewCap(N); errno = 0; mutx::MeterBegin(); }
   ~Metered() { End(); }
   void End() { if (ended) return; ended = true; g_lastParseErrno = errno; mutx::MeterEnd(); c02::g_allocCap = 0; }
};

// a successfully parsed Message must be well-formed: FlattenedSize() == bytes Flatten() writes (the flattener aborts on a mismatch,
// attributed to phase "reflatten"), its own output parses again and re-flattens to the same bytes.
static bool CheckReflatten(const Message & m, mutx::Case & c, const char * what)
{
   Phase("reflatten");
   const uint32 fs = m.FlattenedSize(); std::string out(fs, '\0'); { ExactBuf tmp(out); m.FlattenToBytes(tmp.p, fs); out.assign((const char *)tmp.p, fs); }
   Message m2; ExactBuf eb(out);
   if (m2.UnflattenFromBytes(eb.p, eb.n).IsError()) { c.Fail(std::string("reflatten:own-output-rejected:") + what, "a Message accepted by the parser flattens to bytes the parser rejects: " + verif::Hex(out.substr(0, 200))); return false; }
   if (FlatBytes(m2) != out) { c.Fail(std::string("reflatten:not-idempotent:") + what, "flatten(parse(flatten(m))) != flatten(m)"); return false; }
   return true;
}

// ---------------------------------------------------------------- part definition
struct PartDef;
typedef std::function<void(const PartDef &, const Seed &, const std::string & in, const std::vector<uint32> & cuts, int mode, bool dev0, mutx::Case &)> RunFn;
struct PartDef {
   std::string name, entry; std::vector<Seed> seeds; std::vector<MutSpace> spaces; std::vector<size_t> prefix;
   int modes; bool nest, shorts, bigEndianToo; size_t pairSeeds; RunFn run; std::function<std::string(const std::string &)> wrapNest;
   bool resetDocumented;   // gateway overrides Reset(): reuse after Reset() is asserted (else only observed)
   std::vector<std::vector<uint8> > fatalSingle;   // [seed][wordIdx*20+valueIdx] = 1 if that single word mutation alone kills the process (pairs containing it are skipped)
   size_t pairsSkipped;
   size_t seedCases, total;
   PartDef() : modes(1), nest(false), shorts(false), bigEndianToo(false), pairSeeds(0), resetDocumented(false), pairsSkipped(0), seedCases(0), total(0) {}
   void Finish()
   {
      // pairs go to the `pairSeeds` seeds with the fewest structural words (ties: shortest)
      std::vector<size_t> order(seeds.size()); for (size_t i = 0; i < order.size(); i++) order[i] = i;
      std::stable_sort(order.begin(), order.end(), [&](size_t a, size_t b) { size_t wa = seeds[a].walk.words.empty() ? seeds[a].bytes.size() / 4 : seeds[a].walk.words.size(), wb = seeds[b].walk.words.empty() ? seeds[b].bytes.size() / 4 : seeds[b].walk.words.size(); return (wa != wb) ? (wa < wb) : (seeds[a].bytes.size() < seeds[b].bytes.size()); });
      std::vector<bool> withPairs(seeds.size(), false); for (size_t i = 0; i < order.size() && i < pairSeeds; i++) withPairs[order[i]] = true;
      spaces.resize(seeds.size()); prefix.assign(1, 0);
      for (size_t i = 0; i < seeds.size(); i++) { spaces[i].Init(seeds[i], bigEndianToo, withPairs[i]); prefix.push_back(prefix.back() + spaces[i].Count()); }
      seedCases = prefix.back(); total = seedCases * (size_t)modes + (nest ? kNumNest : 0) + (shorts ? kNumShorts : 0);
   }
   // index -> concrete case
   struct Concrete { int seed; int mode; bool dev0; int deviations; bool skip; std::string in; std::vector<uint32> cuts; std::string desc; };
   void Decode(size_t idx, Concrete & cc, bool wantInput = true) const
   {
      cc.cuts.clear(); cc.skip = false;
      if (idx < seedCases * (size_t)modes) {
         cc.mode = (int)(idx % (size_t)modes); const size_t k = idx / (size_t)modes;
         const size_t si = (size_t)(std::upper_bound(prefix.begin(), prefix.end(), k) - prefix.begin()) - 1; const size_t local = k - prefix[si];
         cc.seed = (int)si; cc.dev0 = (local == 0); cc.deviations = spaces[si].DeviationsOf(local);
         if (cc.deviations == 2 && si < fatalSingle.size() && !fatalSingle[si].empty()) { size_t i, j; int vi, vj; if (spaces[si].PairParts(local, i, vi, j, vj) && (fatalSingle[si][i * kNumWordVals + vi] || fatalSingle[si][j * kNumWordVals + vj])) cc.skip = true; }
         std::string d; spaces[si].Decode(local, seeds[si], cc.in, d);
         const std::vector<uint32> & sc = seeds[si].cuts; for (size_t i = 0; i < sc.size(); i++) { uint32 e = std::min<uint32>(sc[i], (uint32)cc.in.size()); if (cc.cuts.empty() ? (e > 0) : (e > cc.cuts.back())) cc.cuts.push_back(e); }
         if (!sc.empty() && (cc.cuts.empty() || cc.cuts.back() < cc.in.size()) && !cc.in.empty()) cc.cuts.push_back((uint32)cc.in.size());
         cc.desc = "{\"seed\": " + verif::JStr(seeds[si].name) + verif::Fmt(", \"seed_len\": %u, ", (unsigned)seeds[si].bytes.size()) + d + ", \"delivery\": \"" + ModeName(cc.mode) + "\"";
      } else {
         size_t k = idx - seedCases * (size_t)modes; cc.mode = 0; cc.seed = 0; cc.dev0 = false; cc.deviations = 1;
         if (nest && k < (size_t)kNumNest) { cc.in = wrapNest ? wrapNest(NestChain(kNestDepths[k])) : NestChain(kNestDepths[k]); cc.desc = verif::Fmt("{\"seed\": \"nest-chain\", \"mut\": \"nesting-depth\", \"depth\": %u, \"len\": %u", kNestDepths[k], (unsigned)cc.in.size()); }
         else { if (nest) k -= kNumNest; cc.in = ShortString(k); cc.desc = "{\"seed\": \"short-string\", \"mut\": \"all-short-strings\""; }
      }
      if (cc.in.size() <= 700) cc.desc += ", \"input_hex\": \"" + verif::Hex(cc.in) + "\""; else cc.desc += verif::Fmt(", \"input_len\": %u", (unsigned)cc.in.size());
      cc.desc += ", \"tier\": \"" + g_tier + "\"}";
   }
   const char * ModeName(int m) const { return (modes == 1) ? "whole" : (m == 0 ? "whole" : "one-byte-at-a-time"); }
};

// ================================================================ direct parsers
static void RunMsgUnflatten(const PartDef &, const Seed & seed, const std::string & in, const std::vector<uint32> &, int, bool dev0, mutx::Case & c)
{
   ExactBuf eb(in);
   {
      Message m;
      Phase("parse"); status_t st; { Metered mt(eb.n); st = m.UnflattenFromBytes(eb.p, eb.n); }
      CheckAlloc(c, in.size());
      if (st.IsOK()) { c.Outcome("ok"); if (!CheckReflatten(m, c, "Message")) return; if (dev0 && FlatBytes(m) != seed.bytes) c.Fail("seed:round-trip-differs", "valid seed parsed but re-flattens differently"); }
      else {
         c.Outcome(std::string("err:") + st());
         if (dev0) c.Fail("seed:rejected", std::string("valid seed rejected: ") + st());
         Phase("reuse"); ExactBuf sb(seed.bytes);
         if (m.UnflattenFromBytes(sb.p, sb.n).IsError()) c.Fail("reuse:valid-seed-rejected-after-failed-parse", "object that failed a parse rejects a valid encoding");
         else { Message fresh; (void)fresh.UnflattenFromBytes(sb.p, sb.n); if (!(m == fresh) || FlatBytes(m) != FlatBytes(fresh)) c.Fail("reuse:differs-from-fresh-parse", "object that failed a parse, then parsed a valid encoding, differs from a fresh parse"); }
      }
      Phase("destroy");
   }
   Phase("idle");
}

static void RunMsgTemplated(const PartDef &, const Seed & seed, const std::string & in, const std::vector<uint32> &, int, bool dev0, mutx::Case & c)
{
   ExactBuf eb(in);
   {
      Message m; const Message & T = *seed.tmpl();
      Phase("parse"); status_t st; { Metered mt(eb.n); DataUnflattener uf(eb.p, eb.n); st = m.TemplatedUnflatten(T, uf); }
      CheckAlloc(c, in.size());
      if (st.IsOK()) {
         c.Outcome("ok"); if (!CheckReflatten(m, c, "TemplatedUnflatten")) return;
         Phase("reflatten-templated"); const uint32 ts = m.TemplatedFlattenedSize(T); std::string o(ts, '\0'); { ExactBuf tb(o); m.TemplatedFlatten(T, DataFlattener(tb.p, ts)); }
         if (dev0 && !(m == *seed.msg())) c.Fail("seed:round-trip-differs", "valid templated payload parsed to a different Message");
      } else {
         c.Outcome(std::string("err:") + st());
         if (dev0) c.Fail("seed:rejected", std::string("valid templated payload rejected: ") + st());
         Phase("reuse"); ExactBuf sb(seed.bytes); DataUnflattener uf(sb.p, sb.n);
         if (m.TemplatedUnflatten(T, uf).IsError()) c.Fail("reuse:valid-seed-rejected-after-failed-parse", "object that failed a templated parse rejects a valid payload");
         else if (!(m == *seed.msg())) c.Fail("reuse:differs-from-fresh-parse", "object reused after a failed templated parse differs from the original Message");
      }
      Phase("destroy");
   }
   Phase("idle");
}

static std::string MMFlat(const MMessage * mm) { const uint32 fs = MMGetFlattenedSize(mm); std::string o(fs, '\0'); ExactBuf tb(o); MMFlattenMessage(mm, tb.p); return std::string((const char *)tb.p, fs); }
static void RunMiniUnflatten(const PartDef &, const Seed & seed, const std::string & in, const std::vector<uint32> &, int, bool dev0, mutx::Case & c)
{
   ExactBuf eb(in);
   MMessage * mm = MMAllocMessage(0); if (!mm) { c.Fail("infra:MMAllocMessage", "out of memory"); return; }
   Phase("parse"); c_status_t st; { Metered mt(eb.n); st = MMUnflattenMessage(mm, eb.p, eb.n); }
   CheckAlloc(c, in.size());
   if (st == CB_NO_ERROR) {
      c.Outcome("ok"); Phase("reflatten"); const std::string o = MMFlat(mm);
      MMessage * m2 = MMAllocMessage(0); ExactBuf ob(o);
      if (MMUnflattenMessage(m2, ob.p, ob.n) != CB_NO_ERROR) c.Fail("reflatten:own-output-rejected:MMessage", "MMFlattenMessage output is rejected by MMUnflattenMessage");
      else if (MMFlat(m2) != o) c.Fail("reflatten:not-idempotent:MMessage", "flatten(parse(flatten(m))) != flatten(m)");
      else if (!MMAreMessagesEqual(mm, m2)) c.Note("observed, unspecified: MMUnflattenMessage accepts an encoding with two fields of the same name and builds an MMessage with duplicate field names (re-flattens consistently, but MMAreMessagesEqual(m, parse(flatten(m))) is false)");
      MMFreeMessage(m2);
      if (dev0 && o != seed.bytes) c.Fail("seed:round-trip-differs", "valid seed re-flattens differently through the mini C codec");
   } else {
      c.Outcome("err"); if (dev0) c.Fail("seed:rejected", "valid seed rejected by MMUnflattenMessage");
      Phase("reuse"); ExactBuf sb(seed.bytes);
      if (MMUnflattenMessage(mm, sb.p, sb.n) != CB_NO_ERROR) c.Fail("reuse:valid-seed-rejected-after-failed-parse", "MMessage that failed a parse rejects a valid encoding");
      else { MMessage * fresh = MMAllocMessage(0); (void)MMUnflattenMessage(fresh, sb.p, sb.n); if (!MMAreMessagesEqual(mm, fresh) || MMFlat(mm) != MMFlat(fresh)) c.Fail("reuse:differs-from-fresh-parse", "reused MMessage differs from a fresh parse"); MMFreeMessage(fresh); }
   }
   Phase("destroy"); MMFreeMessage(mm); Phase("idle");
}

// ---- micro-Message: read-only view API; "parse" = initialise + walk every field with every accessor
static inline void Touch(const void * p, uint32 n) { if (p && n) { const volatile uint8 * b = (const volatile uint8 *)p; g_sink += b[0]; g_sink += b[n - 1]; } }
static bool UMWalk(const UMessage * msg, int depth, long & budget)
{
   g_sink += (unsigned)UMIsMessageValid(msg) + UMGetWhatCode(msg) + UMGetNumFields(msg) + UMGetFlattenedSize(msg) + (unsigned)UMIsMessageReadOnly(msg) + UMGetMaximumSize(msg);
   Touch(UMGetFlattenedBuffer(msg), UMGetFlattenedSize(msg));
   static const uint32 iterTypes[] = {B_ANY_TYPE, B_STRING_TYPE, B_INT32_TYPE, B_MESSAGE_TYPE, B_RAW_TYPE};
   for (int ti = 0; ti < 5; ti++) {
      UMessageFieldNameIterator it; UMIteratorInitialize(&it, msg, iterTypes[ti]);
      while (true) {
         if (--budget < 0) return false;
         uint32 n = 0, tc = 0; const char * fn = UMIteratorGetCurrentFieldName(&it, &n, &tc); if (!fn) break;
         g_sink += (unsigned)strlen(fn);
         if (ti == 0) {
            g_sink += UMGetNumItemsInField(msg, fn, tc) + UMGetNumItemsInField(msg, fn, B_ANY_TYPE) + UMGetFieldTypeCode(msg, fn);
            // every typed accessor on every field (a mismatching type must simply fail)
            { UBool v; g_sink += (unsigned)UMFindBool(msg, fn, 0, &v); } { int8 v; g_sink += (unsigned)UMFindInt8(msg, fn, 0, &v); } { int16 v; g_sink += (unsigned)UMFindInt16(msg, fn, 0, &v); }
            { int32 v; g_sink += (unsigned)UMFindInt32(msg, fn, 0, &v); } { int64 v; g_sink += (unsigned)UMFindInt64(msg, fn, 0, &v); } { float v; g_sink += (unsigned)UMFindFloat(msg, fn, 0, &v); }
            { double v; g_sink += (unsigned)UMFindDouble(msg, fn, 0, &v); } { UPoint v; g_sink += (unsigned)UMFindPoint(msg, fn, 0, &v); } { URect v; g_sink += (unsigned)UMFindRect(msg, fn, 0, &v); }
            uint32 idxs[5] = {0, 1, 2, n ? n - 1 : 0, n};   // first items, last item, one past the end (must fail)
            for (int q = 0; q < 5; q++) {
               const uint32 idx = idxs[q]; bool dup = false; for (int z = 0; z < q; z++) if (idxs[z] == idx) dup = true; if (dup) continue;
               switch (tc) {
               case B_BOOL_TYPE: { UBoolArrayHandle h = UMGetBools(msg, fn); if (idx < UMGetNumItemsInArray(h)) g_sink += (unsigned)UMGetBoolFromArray(h, idx); } break;
               case B_INT8_TYPE: { Int8ArrayHandle h = UMGetInt8s(msg, fn); if (idx < UMGetNumItemsInArray(h)) g_sink += (unsigned)UMGetInt8FromArray(h, idx); } break;
               case B_INT16_TYPE: { Int16ArrayHandle h = UMGetInt16s(msg, fn); if (idx < UMGetNumItemsInArray(h)) g_sink += (unsigned)UMGetInt16FromArray(h, idx); } break;
               case B_INT32_TYPE: { Int32ArrayHandle h = UMGetInt32s(msg, fn); if (idx < UMGetNumItemsInArray(h)) g_sink += (unsigned)UMGetInt32FromArray(h, idx); } break;
               case B_INT64_TYPE: { Int64ArrayHandle h = UMGetInt64s(msg, fn); if (idx < UMGetNumItemsInArray(h)) g_sink += (unsigned)UMGetInt64FromArray(h, idx); } break;
               case B_FLOAT_TYPE: { FloatArrayHandle h = UMGetFloats(msg, fn); if (idx < UMGetNumItemsInArray(h)) g_sink += (unsigned)(UMGetFloatFromArray(h, idx) != 0.0f); } break;
               case B_DOUBLE_TYPE: { DoubleArrayHandle h = UMGetDoubles(msg, fn); if (idx < UMGetNumItemsInArray(h)) g_sink += (unsigned)(UMGetDoubleFromArray(h, idx) != 0.0); } break;
               case B_POINT_TYPE: { UPointArrayHandle h = UMGetPoints(msg, fn); if (idx < UMGetNumItemsInArray(h)) g_sink += (unsigned)(UMGetPointFromArray(h, idx).x != 0.0f); } break;
               case B_RECT_TYPE: { URectArrayHandle h = UMGetRects(msg, fn); if (idx < UMGetNumItemsInArray(h)) g_sink += (unsigned)(UMGetRectFromArray(h, idx).left != 0.0f); } break;
               case B_STRING_TYPE: { const char * s = UMGetString(msg, fn, idx); if (s) g_sink += (unsigned)strlen(s); } break;
               case B_MESSAGE_TYPE: { UMessage sub; if (UMFindMessage(msg, fn, idx, &sub) == CB_NO_ERROR && depth < 24) { if (!UMWalk(&sub, depth + 1, budget)) return false; } } break;
               default: { const void * d = NULL; uint32 nb = 0; if (UMFindData(msg, fn, tc, idx, &d, &nb) == CB_NO_ERROR) Touch(d, nb); } break;
               }
            }
         }
         UMIteratorAdvance(&it);
      }
   }
   return true;
}
static bool g_contain = true;   // false in --replay: the case then dies with the full sanitizer report
// runs the walk; with containment a faulting READ is unwound and recorded as a violation; returns false if the walk did not complete
static bool ContainedWalk(const UMessage * um, mutx::Case & c, const char * what)
{
   volatile bool completed = false; volatile bool endless = false;
   {
      c02::FaultScope fs(g_contain);
      if (sigsetjmp(c02::g_faultJmp, 1) == 0) { long budget = 1000 + 4L * (long)UMGetFlattenedSize(um); if (!UMWalk(um, 0, budget)) endless = true; completed = true; }
   }
   if (c02::g_faultCaught == 2) { c02::Phase("write-fault-in-read-API"); abort(); }   // a write through the read API: never contained
   if (c02::g_faultCaught == 1) c.Fail(std::string("contained:segv:read-past-end-of-buffer:") + what, "READ access past the last supplied byte inside the micro-Message read API (an accessor follows a length/count word out of the buffer; input placed directly before inaccessible memory)");
   else if (endless) c.Fail(std::string("walk:field-iteration-does-not-end:") + what, "field iteration exceeded 1000 + 4*N steps (a valid N-byte buffer has at most N/12 fields)");
   return completed && !endless;
}
static void RunMicroRead(const PartDef &, const Seed & seed, const std::string & in, const std::vector<uint32> &, int, bool dev0, mutx::Case & c)
{
   static c02::GuardArena arena;
   // stage 1: input directly before 4 GiB of inaccessible address space (forward over-reads fault; contained unless replaying)
   bool stage1Clean = true;
   { UMessage um; memset(&um, 0, sizeof(um)); uint8 * gp = arena.Place(in.data(), in.size());
     if (gp) { Phase("parse(guard-page)"); if (UMInitializeWithExistingData(&um, gp, (uint32)in.size()) == CB_NO_ERROR) { Phase("field-walk(guard-page)"); if (!ContainedWalk(&um, c, "field-walk")) stage1Clean = false; } } }
   if (!stage1Clean || c.failed) { c.Outcome("ok"); Phase("idle"); return; }
   // stage 2: the same input in an exact-size sanitizer-tracked heap block (catches what a guard page cannot: reads before the start, small strays); any report is fatal
   ExactBuf eb(in); UMessage um; memset(&um, 0, sizeof(um));
   Phase("parse"); c_status_t st; { Metered mt(eb.n); st = UMInitializeWithExistingData(&um, eb.p, eb.n); }
   CheckAlloc(c, in.size());
   if (st == CB_NO_ERROR) {
      c.Outcome("ok"); Phase("field-walk"); long budget = 1000 + 4L * (long)in.size();
      { Metered mt(eb.n); if (!UMWalk(&um, 0, budget)) c.Fail("walk:field-iteration-does-not-end:field-walk", "field iteration exceeded 1000 + 4*N steps (a valid N-byte buffer has at most N/12 fields)"); }
      CheckAlloc(c, in.size());
   } else { c.Outcome("err"); if (dev0) c.Fail("seed:rejected", "valid seed rejected by UMInitializeWithExistingData"); }
   if (!dev0) { Phase("reuse"); ExactBuf sb(seed.bytes); long budget = 1000 + 4L * (long)seed.bytes.size(); if (UMInitializeWithExistingData(&um, sb.p, sb.n) != CB_NO_ERROR || !UMWalk(&um, 0, budget)) c.Fail("reuse:valid-seed-rejected", "UMessage object re-initialised with a valid encoding fails"); }
   Phase("idle");
}

static void RunZlibInflate(const PartDef &, const Seed & seed, const std::string & in, const std::vector<uint32> &, int, bool dev0, mutx::Case & c)
{
   ExactBuf eb(in);
   {
      ZLibCodec codec(6);
      Phase("parse"); ByteBufferRef r = codec.Inflate(eb.p, eb.n);
      if (r()) { c.Outcome("ok"); if (dev0 && std::string((const char *)r()->GetBuffer(), r()->GetNumBytes()) != seed.expect) c.Fail("seed:round-trip-differs", "valid deflated buffer inflates to different bytes"); }
      else {
         c.Outcome("err"); if (dev0) c.Fail("seed:rejected", "valid deflated buffer rejected");
         Phase("reuse"); ExactBuf sb(seed.bytes); ByteBufferRef r2 = codec.Inflate(sb.p, sb.n);
         if (r2() == NULL || std::string((const char *)r2()->GetBuffer(), r2()->GetNumBytes()) != seed.expect) c.Fail("reuse:valid-seed-rejected-after-failed-parse", "codec that failed an Inflate() cannot inflate a valid independent buffer");
      }
      Phase("destroy");
   }
   Phase("idle");
}

// ================================================================ gateways
// scripted in-memory stream: releases bytes up to `avail`; when nothing is released returns 0 (would block), after `eof` an error (peer closed)
class ScriptIO : public DataIO {
public:
   const uint8 * data; uint32 len, pos, avail; bool eof; uint64 written;
   ScriptIO(const uint8 * d, uint32 n) : data(d), len(n), pos(0), avail(0), eof(false), written(0) {}
   virtual io_status_t Read(void * buffer, uint32 size) { if (pos < avail && pos < len) { const uint32 n = muscleMin(size, muscleMin(avail, len) - pos); if (n) memcpy(buffer, data + pos, n); pos += n; return io_status_t((int32)n); } return eof ? io_status_t(B_END_OF_STREAM) : io_status_t(0); }
   virtual io_status_t Write(const void *, uint32 size) { written += size; return io_status_t((int32)size); }
   virtual void FlushOutput() {}
   virtual void Shutdown() {}
   virtual const ConstSocketRef & GetReadSelectSocket() const { return GetNullSocket(); }
   virtual const ConstSocketRef & GetWriteSelectSocket() const { return GetNullSocket(); }
};
class Collect : public AbstractGatewayMessageReceiver {
public:
   std::vector<MessageRef> msgs;
   virtual void MessageReceivedFromGateway(const MessageRef & m, void *) { if (m()) msgs.push_back(m); }
};

enum CanonKind { CANON_MSGS, CANON_LINES, CANON_RAWCAT, CANON_FRAMES };
static std::string Canon(const std::vector<MessageRef> & v, int kind)
{
   std::string o;
   for (size_t i = 0; i < v.size(); i++) {
      const Message & m = *v[i]();
      if (kind == CANON_MSGS) { Message t(m); (void)t.RemoveName(PR_NAME_PACKET_REMOTE_LOCATION); o += verif::Hex(FlatBytes(t)) + "|"; }
      else if (kind == CANON_LINES) { const String * s; for (uint32 k = 0; m.FindString(PR_NAME_TEXT_LINE, k, &s).IsOK(); k++) o += verif::Hex(std::string(s->Cstr(), s->Length())) + ","; }
      else { const void * d; uint32 nb; for (uint32 k = 0; m.FindData(PR_NAME_DATA_CHUNKS, B_ANY_TYPE, k, &d, &nb).IsOK(); k++) { if (kind == CANON_FRAMES) { if (nb) o += verif::Hex(d, nb) + ","; } else o += verif::Hex(d, nb); } }
   }
   return o;
}

static void PumpOutput(AbstractMessageIOGateway * gw) { for (int g = 0; g < 64 && gw->HasBytesToOutput(); g++) if (gw->DoOutput().GetByteCount() <= 0) break; }
// returns false if the guard tripped (a gateway that keeps claiming progress on no new input)
static bool PumpStream(AbstractMessageIOGateway * gw, ScriptIO & io, Collect & rx, int mode, uint32 prefixLen)
{
   const uint32 N = io.len; long guard = 64 + 8L * (long)N;
   if (prefixLen > 0 && mode != 0) { io.avail = prefixLen; while (gw->IsReadyForInput()) { if (--guard < 0) return false; const io_status_t r = gw->DoInput(rx); PumpOutput(gw); if (r.GetByteCount() <= 0) break; } }
   if (mode == 0) { io.avail = N; while (gw->IsReadyForInput()) { if (--guard < 0) return false; const io_status_t r = gw->DoInput(rx); PumpOutput(gw); if (r.GetByteCount() <= 0) break; } }
   else for (uint32 k = prefixLen + 1; k <= N; k++) { io.avail = k; bool stop = false; while (gw->IsReadyForInput()) { if (--guard < 0) return false; const io_status_t r = gw->DoInput(rx); PumpOutput(gw); if (r.IsError()) { stop = true; break; } if (r.GetByteCount() <= 0) break; } if (stop) break; }
   io.eof = true; for (int g = 0; g < 4 && gw->IsReadyForInput(); g++) { const io_status_t r = gw->DoInput(rx); if (r.GetByteCount() <= 0) break; }
   return true;
}

struct GwKind { std::function<AbstractMessageIOGatewayRef()> make; int canon; bool frameRef; GwKind() : canon(0), frameRef(false) {} };   // frameRef: plain 8-byte-header framing (length, encoding), see CheckFrames()
static std::map<std::string, GwKind> g_gw;

// Differential oracle for the standard stream framing (8-byte header: body length, encoding word; both little-endian): the i-th Message a
// MessageIOGateway delivers must be the parse of the i-th frame's body AND NOTHING ELSE -- i.e. that body, handed to Message::UnflattenFromBytes
// in an exact-size heap copy, must be accepted and flatten to the same bytes.  (A gateway that lets the Message parser run past the end of the
// frame reads bytes that are not part of the supplied input -- stale bytes of its own receive buffer -- which no sanitizer can see.)
// Only "delivered => frame body parses standalone to the same Message" is asserted; which malformed streams are rejected is left to the gateway.
static void CheckFrames(const std::string & stream, const std::vector<MessageRef> & got, mutx::Case & c)
{
   size_t o = 0;
   for (size_t i = 0; i < got.size(); i++) {
      if (stream.size() < o + 8) { c.Fail("frame:more-messages-than-frames", verif::Fmt("Message #%u was delivered but the stream holds only %u complete frames", (unsigned)i, (unsigned)i)); return; }
      const uint32 bl = RdLE((const uint8 *)stream.data() + o), enc = RdLE((const uint8 *)stream.data() + o + 4);
      if (stream.size() - o - 8 < (size_t)bl) { c.Fail("frame:message-from-incomplete-frame", verif::Fmt("Message #%u was delivered although its frame (header at offset %u, body length %u) is not complete in the stream (%u bytes)", (unsigned)i, (unsigned)o, bl, (unsigned)stream.size())); return; }
      if (enc == (uint32)MUSCLE_MESSAGE_ENCODING_DEFAULT) {
         ExactBuf body(stream.substr(o + 8, bl)); Message ref;
         if (ref.UnflattenFromBytes(body.p, body.n).IsError()) { c.Fail("frame:delivered-but-body-rejected-standalone", verif::Fmt("Message #%u was delivered from a frame (offset %u, body length %u) whose body the Message parser rejects when it is given exactly those %u bytes: the gateway let the parser read past the end of the frame", (unsigned)i, (unsigned)o, bl, bl)); return; }
         if (FlatBytes(ref) != FlatBytes(*got[i]())) { c.Fail("frame:delivered-differs-from-body", verif::Fmt("Message #%u differs from the standalone parse of its frame's body (offset %u, body length %u)", (unsigned)i, (unsigned)o, bl)); return; }
      }
      o += 8 + (size_t)bl;
   }
}

static void RunStreamGateway(const PartDef & pd, const Seed & seed, const std::string & in, const std::vector<uint32> &, int mode, bool dev0, mutx::Case & c)
{
   const GwKind & gk = g_gw[pd.name]; ExactBuf eb(seed.prefix + in); c02::g_allocCap = NewCap(eb.n); const uint32 pfx = (uint32)seed.prefix.size();
   {
      ScriptIO io(eb.p, eb.n); Collect rx; verif_rand_counter = 0;
      AbstractMessageIOGatewayRef gw = gk.make(); gw()->SetDataIO(DummyDataIORef(io));
      Phase("parse"); if (!PumpStream(gw(), io, rx, mode, pfx)) c.Fail("progress:input-loop-does-not-settle", "DoInput keeps reporting progress although no new bytes are delivered");
      c.Outcome(verif::Fmt("%d msgs", (int)rx.msgs.size()));
      for (size_t i = 0; i < rx.msgs.size(); i++) if (!CheckReflatten(*rx.msgs[i](), c, "delivered-Message")) break;
      if (gk.frameRef && seed.prefix.empty() && !c.failed) { Phase("frame-check"); CheckFrames(in, rx.msgs, c); Phase("parse"); }
      if (dev0) { const std::string got = Canon(rx.msgs, gk.canon); if (got != seed.expect) c.Fail(std::string("valid-stream:not-delivered:") + pd.ModeName(mode), verif::Fmt("fault-free valid stream (%u bytes, %d Messages expected) delivered %d Messages / different content when fed ", (unsigned)in.size(), seed.numMsgs, (int)rx.msgs.size()) + pd.ModeName(mode)); }
      else {
         // reuse: Reset() is documented to make the gateway "ready to send and receive fresh data streams"
         Phase("reuse"); gw()->Reset(); ExactBuf sb(seed.prefix + seed.bytes); ScriptIO io2(sb.p, sb.n); Collect rx2; verif_rand_counter = 0; gw()->SetDataIO(DummyDataIORef(io2));
         (void)PumpStream(gw(), io2, rx2, 0, pfx);
         if (Canon(rx2.msgs, gk.canon) != seed.expect) { if (pd.resetDocumented) c.Fail("reuse:valid-stream-not-delivered-after-Reset", "after a mutated stream and Reset() the gateway does not deliver a valid stream"); else c.Note("observed (not asserted: gateway class has no Reset() override): after a mutated stream and Reset() the valid stream is not delivered"); }
         gw()->SetDataIO(DataIORef());
      }
      Phase("destroy"); gw()->SetDataIO(DataIORef()); gw.Reset(); rx.msgs.clear();
   }
   Phase("idle");
}

static void RunPacketGateway(const PartDef & pd, const Seed & seed, const std::string & in, const std::vector<uint32> & cuts, int, bool dev0, mutx::Case & c)
{
   const GwKind & gk = g_gw[pd.name]; c02::g_allocCap = NewCap(in.size());
   {
      Queue<ConstByteBufferRef> pk; uint32 from = 0;
      for (size_t i = 0; i < cuts.size(); i++) { ByteBufferRef b = GetByteBufferFromPool(cuts[i] - from, (const uint8 *)in.data() + from); (void)b()->FreeExtraBytes(); (void)pk.AddTail(b); from = cuts[i]; }
      ByteBufferPacketDataIO io(pk, IPAddressAndPort(), 1400, false); Collect rx;
      AbstractMessageIOGatewayRef gw = gk.make(); gw()->SetDataIO(DummyDataIORef(io));
      Phase("parse"); long guard = 64 + 4L * (long)cuts.size();
      while (gw()->IsReadyForInput()) { if (--guard < 0) { c.Fail("progress:input-loop-does-not-settle", "DoInput keeps reporting progress although no packets are left"); break; } const io_status_t r = gw()->DoInput(rx); if (r.GetByteCount() <= 0) break; }
      c.Outcome(verif::Fmt("%d msgs", (int)rx.msgs.size()));
      for (size_t i = 0; i < rx.msgs.size(); i++) if (!CheckReflatten(*rx.msgs[i](), c, "delivered-Message")) break;
      if (dev0) { if (Canon(rx.msgs, gk.canon) != seed.expect) c.Fail("valid-stream:not-delivered:packets", verif::Fmt("fault-free valid packet sequence (%d packets, %d Messages expected) delivered %d Messages / different content", (int)cuts.size(), seed.numMsgs, (int)rx.msgs.size())); }
      Phase("destroy"); gw()->SetDataIO(DataIORef()); gw.Reset(); rx.msgs.clear();
   }
   Phase("idle");
}

// ---- C gateways
struct CIo { const uint8 * d; uint32 len, pos, avail; bool eof; };
static int32 CRecv(uint8 * buf, uint32 n, void * arg) { CIo * io = (CIo *)arg; if (io->pos < io->avail && io->pos < io->len) { uint32 k = std::min(n, std::min(io->avail, io->len) - io->pos); memcpy(buf, io->d + io->pos, k); io->pos += k; return (int32)k; } return io->eof ? -1 : 0; }
static void RunMiniGateway(const PartDef & pd, const Seed & seed, const std::string & in, const std::vector<uint32> &, int mode, bool dev0, mutx::Case & c)
{
   ExactBuf eb(in); CIo io = {eb.p, eb.n, 0, 0, false}; std::string got; int nm = 0;
   MMessageGateway * gw = MGAllocMessageGateway(); if (!gw) { c.Fail("infra:MGAllocMessageGateway", "out of memory"); return; }
   Phase("parse"); long guard = 64 + 8L * (long)eb.n; bool err = false;
   for (uint32 k = (mode == 0) ? eb.n : (eb.n ? 1 : 0); k <= eb.n && !err; k++) {
      io.avail = k;
      while (true) { if (--guard < 0) { c.Fail("progress:input-loop-does-not-settle", "MGDoInput keeps reporting progress"); err = true; break; } MMessage * m = NULL; const int32 r = MGDoInput(gw, ~(uint32)0, CRecv, &io, &m); if (m) { nm++; Phase("reflatten"); got += verif::Hex(MMFlat(m)) + "|"; MMFreeMessage(m); Phase("parse"); } if (r < 0) { err = true; break; } if (r == 0 && m == NULL) break; }
      if (eb.n == 0) break;
   }
   if (!err) { io.eof = true; MMessage * m = NULL; (void)MGDoInput(gw, ~(uint32)0, CRecv, &io, &m); if (m) MMFreeMessage(m); }
   c.Outcome(verif::Fmt("%d msgs%s", nm, err ? " err" : ""));
   if (dev0 && got != seed.expect) c.Fail(std::string("valid-stream:not-delivered:") + pd.ModeName(mode), "fault-free valid stream not delivered by MGDoInput");
   Phase("destroy"); MGFreeMessageGateway(gw); Phase("idle");
}
static void RunMicroGateway(const PartDef & pd, const Seed & seed, const std::string & in, const std::vector<uint32> &, int mode, bool dev0, mutx::Case & c)
{
   ExactBuf eb(in); CIo io = {eb.p, eb.n, 0, 0, false}; std::string got; int nm = 0;
   const uint32 IB = 2048; uint8 * inb = (uint8 *)malloc(IB); uint8 * outb = (uint8 *)malloc(64); UMessageGateway gw; UGGatewayInitialize(&gw, inb, IB, outb, 64);
   Phase("parse"); long guard = 64 + 8L * (long)eb.n; bool err = false;
   for (uint32 k = (mode == 0) ? eb.n : (eb.n ? 1 : 0); k <= eb.n && !err; k++) {
      io.avail = k;
      while (true) {
         if (--guard < 0) { c.Fail("progress:input-loop-does-not-settle", "UGDoInput keeps reporting progress"); err = true; break; }
         UMessage m; const int32 r = UGDoInput(&gw, ~(uint32)0, CRecv, &io, &m); const bool have = UMIsMessageValid(&m);
         if (have) { nm++; const uint32 fs = UMGetFlattenedSize(&m); const uint8 * fb = UMGetFlattenedBuffer(&m); Touch(fb, fs); g_sink += UMGetWhatCode(&m) + UMGetNumFields(&m); got += verif::Hex(fb, fs) + "|"; }
         if (r < 0) { err = true; break; } if (r == 0 && !have) break;
      }
      if (eb.n == 0) break;
   }
   if (!err) { io.eof = true; UMessage m; (void)UGDoInput(&gw, ~(uint32)0, CRecv, &io, &m); }
   c.Outcome(verif::Fmt("%d msgs%s", nm, err ? " err" : ""));
   if (dev0 && got != seed.expect) c.Fail(std::string("valid-stream:not-delivered:") + pd.ModeName(mode), "fault-free valid stream not delivered by UGDoInput");
   Phase("destroy"); free(inb); free(outb); Phase("idle");
}

// ================================================================ seed construction with the real encoders
static std::string g_setupErrors;
static void SetupError(const std::string & s) { g_setupErrors += s + "; "; }

static Seed MsgSeed(const NamedMsg & nm)
{
   Seed s; s.name = nm.name; s.msg = nm.m; s.bytes = FlatBytes(*nm.m()); s.numMsgs = 1;
   if (!WalkMsg((const uint8 *)s.bytes.data(), (uint32)s.bytes.size(), 0, s.walk)) SetupError("walker rejects seed " + nm.name);
   s.FinishWalk(); return s;
}
static std::string CanonOf(const std::vector<MessageRef> & v) { return Canon(v, CANON_MSGS); }

// sender side: push messages through a real gateway into a byte sink
class SinkIO : public DataIO {
public:
   std::string out;
   virtual io_status_t Read(void *, uint32) { return io_status_t(0); }
   virtual io_status_t Write(const void * b, uint32 n) { out.append((const char *)b, n); return io_status_t((int32)n); }
   virtual void FlushOutput() {}
   virtual void Shutdown() {}
   virtual const ConstSocketRef & GetReadSelectSocket() const { return GetNullSocket(); }
   virtual const ConstSocketRef & GetWriteSelectSocket() const { return GetNullSocket(); }
};
static std::string SendThrough(AbstractMessageIOGateway & gw, const std::vector<MessageRef> & msgs)
{
   SinkIO sink; gw.SetDataIO(DummyDataIORef(sink));
   for (size_t i = 0; i < msgs.size(); i++) (void)gw.AddOutgoingMessage(msgs[i]);
   for (int g = 0; g < 100000 && gw.HasBytesToOutput(); g++) if (gw.DoOutput().GetByteCount() < 0) break;
   gw.SetDataIO(DataIORef()); return sink.out;
}
static Seed StreamSeed(const std::string & name, AbstractMessageIOGateway & sender, const std::vector<MessageRef> & msgs, bool walkIt)
{
   Seed s; s.name = name; s.bytes = SendThrough(sender, msgs); s.expect = CanonOf(msgs); s.numMsgs = (int)msgs.size();
   if (walkIt) { if (!WalkMsgIOStream((const uint8 *)s.bytes.data(), (uint32)s.bytes.size(), s.walk)) SetupError("stream walker rejects " + name); s.FinishWalk(); }
   return s;
}
static Seed PacketSeed(const std::string & name, AbstractMessageIOGateway & sender, const std::vector<MessageRef> & msgs, uint32 mtu)
{
   Seed s; s.name = name; s.expect = CanonOf(msgs); s.numMsgs = (int)msgs.size();
   ByteBufferPacketDataIO pio(mtu); sender.SetDataIO(DummyDataIORef(pio));
   for (size_t i = 0; i < msgs.size(); i++) (void)sender.AddOutgoingMessage(msgs[i]);
   for (int g = 0; g < 100000 && sender.HasBytesToOutput(); g++) if (sender.DoOutput().GetByteCount() < 0) break;
   Queue<ByteBufferRefAndIPAddressAndPort> & w = pio.GetWrittenBuffers();
   for (uint32 i = 0; i < w.GetNumItems(); i++) { const ByteBuffer * b = w[i].GetByteBufferRef()(); s.bytes.append((const char *)b->GetBuffer(), b->GetNumBytes()); s.cuts.push_back((uint32)s.bytes.size()); }
   sender.SetDataIO(DataIORef()); return s;
}

// RFC 6455 frame written by the harness (client frames are masked with the key octets in transmission order)
static std::string WsFrame(uint8 opcode, bool fin, const std::string & payload, bool masked, int lenForm, uint8 k0)
{
   std::string f; f.push_back((char)((fin ? 0x80 : 0) | opcode)); const size_t n = payload.size(); const uint8 mb = masked ? 0x80 : 0;
   if (lenForm == 127) { f.push_back((char)(mb | 127)); for (int i = 7; i >= 0; i--) f.push_back((char)((uint64_t)n >> (8 * i))); }
   else if (lenForm == 126 || n > 125) { f.push_back((char)(mb | 126)); f.push_back((char)(n >> 8)); f.push_back((char)n); }
   else f.push_back((char)(mb | n));
   uint8 key[4] = {k0, (uint8)(k0 + 0x31), (uint8)(k0 * 3 + 7), (uint8)(k0 ^ 0xA5)};
   if (masked) f.append((const char *)key, 4);
   for (size_t i = 0; i < n; i++) f.push_back((char)(masked ? ((uint8)payload[i] ^ key[i & 3]) : (uint8)payload[i]));
   return f;
}
static const char * kWsRequest = "GET /muscle HTTP/1.1\r\nHost: localhost\r\nUpgrade: websocket\r\nConnection: Upgrade\r\nSec-WebSocket-Key: dGhlIHNhbXBsZSBub25jZQ==\r\nSec-WebSocket-Version: 13\r\n\r\n";

static AbstractMessageIOGatewayRef MakeWsServer() { WebSocketMessageIOGateway * g = new WebSocketMessageIOGateway(); g->SetSlaveGateway(AbstractMessageIOGatewayRef(new MessageIOGateway())); return AbstractMessageIOGatewayRef(g); }
static AbstractMessageIOGatewayRef MakeWsClient() { WebSocketMessageIOGateway * g = new WebSocketMessageIOGateway("/muscle", "localhost", "", ""); g->SetSlaveGateway(AbstractMessageIOGatewayRef(new MessageIOGateway())); return AbstractMessageIOGatewayRef(g); }

// reference line splitter: CR, LF and CRLF each end one line (text after the last terminator is delivered at end of stream)
static std::string ExpectLines(const std::string & t)
{
   std::string o, cur; bool prevCR = false;
   for (size_t i = 0; i < t.size(); i++) { const char ch = t[i]; if (ch == '\r') { o += verif::Hex(cur) + ","; cur.clear(); } else if (ch == '\n') { if (!prevCR) { o += verif::Hex(cur) + ","; cur.clear(); } } else cur.push_back(ch); prevCR = (ch == '\r'); }
   if (!cur.empty()) o += verif::Hex(cur) + ",";
   return o;
}

static std::vector<PartDef> g_parts;

static void BuildParts(bool thorough, verif::Result & res)
{
   const std::vector<NamedMsg> msgs = BuildMessages();
   std::map<std::string, MessageRef> byName; for (size_t i = 0; i < msgs.size(); i++) byName[msgs[i].name] = msgs[i].m;
   const size_t pairQ = 10;   // quick tier: pairs on the 10 seeds with the fewest structural words

   // ---- Message::UnflattenFromBytes
   { PartDef p; p.name = "msg_unflatten"; p.entry = "Message::UnflattenFromBytes"; for (size_t i = 0; i < msgs.size(); i++) p.seeds.push_back(MsgSeed(msgs[i])); p.nest = p.shorts = true; p.pairSeeds = thorough ? p.seeds.size() : pairQ; p.run = RunMsgUnflatten; g_parts.push_back(p); }
   // ---- Message::TemplatedUnflatten (template made from the seed)
   { PartDef p; p.name = "msg_templated"; p.entry = "Message::TemplatedUnflatten(CreateMessageTemplate(seed))";
     for (size_t i = 0; i < msgs.size(); i++) {
        Seed s; s.name = msgs[i].name; s.msg = msgs[i].m; s.tmpl = msgs[i].m()->CreateMessageTemplate(); s.numMsgs = 1; if (s.tmpl() == NULL) { SetupError("no template for " + s.name); continue; }
        const uint32 ts = s.msg()->TemplatedFlattenedSize(*s.tmpl()); s.bytes.assign(ts, '\0'); if (ts) s.msg()->TemplatedFlatten(*s.tmpl(), DataFlattener((uint8 *)&s.bytes[0], ts));
        if (!WalkTemplated(*s.msg(), (const uint8 *)s.bytes.data(), ts, 0, s.walk)) SetupError("templated walker rejects " + s.name);
        s.FinishWalk(); p.seeds.push_back(s);
     }
     p.shorts = true; p.pairSeeds = thorough ? p.seeds.size() : pairQ; p.run = RunMsgTemplated; g_parts.push_back(p); }
   // ---- MMUnflattenMessage
   { PartDef p; p.name = "mmsg_unflatten"; p.entry = "MMUnflattenMessage (C mini-Message)"; for (size_t i = 0; i < msgs.size(); i++) p.seeds.push_back(MsgSeed(msgs[i])); p.nest = p.shorts = true; p.pairSeeds = thorough ? p.seeds.size() : pairQ; p.run = RunMiniUnflatten; g_parts.push_back(p); }
   // ---- micro-Message read API
   { PartDef p; p.name = "umsg_read"; p.entry = "UMInitializeWithExistingData + iterator walk + every UMFind*/UMGet* accessor (C micro-Message read API)";
     for (size_t i = 0; i < msgs.size(); i++) p.seeds.push_back(MsgSeed(msgs[i]));
     p.nest = p.shorts = true; p.run = RunMicroRead; g_parts.push_back(p); }
   // ---- ZLibCodec::Inflate
   { PartDef p; p.name = "zlib_inflate"; p.entry = "ZLibCodec::Inflate"; const char * pick[] = {"mix3", "big", "stringx3", "emptystr", "nest2"};
     for (int i = 0; i < 5; i++) { Seed s; s.name = std::string("deflate6(") + pick[i] + ")"; s.expect = FlatBytes(*byName[pick[i]]()); ZLibCodec z(6); ByteBufferRef d = z.Deflate((const uint8 *)s.expect.data(), (uint32)s.expect.size(), true); if (d() == NULL) { SetupError("deflate failed"); continue; } s.bytes.assign((const char *)d()->GetBuffer(), d()->GetNumBytes()); s.walk.W(0, R_HDR); s.walk.W(4, R_HDR); p.seeds.push_back(s); }
     p.shorts = false; p.bigEndianToo = false; p.run = RunZlibInflate; g_parts.push_back(p); }

   // ---- message streams for the gateways
   std::vector<std::vector<MessageRef> > seqs; std::vector<std::string> seqNames;
   { const char * singles[] = {"mix3", "stringx3", "msgx3", "rawx3", "nest2", "boolx3", "empty", "big"}; for (int i = 0; i < 8; i++) { seqs.push_back(std::vector<MessageRef>(1, byName[singles[i]])); seqNames.push_back(singles[i]); }
     std::vector<MessageRef> t; t.push_back(byName["mix3"]); t.push_back(byName["stringx3"]); t.push_back(byName["nest2"]); seqs.push_back(t); seqNames.push_back("mix3+stringx3+nest2"); }

   // MessageIOGateway, default encoding
   { PartDef p; p.name = "gw_message"; p.entry = "MessageIOGateway::DoInput (default encoding)"; p.modes = 2; p.resetDocumented = true; p.nest = true;
     p.wrapNest = [](const std::string & b) { std::string s(8, '\0'); WrLE((uint8 *)&s[0], (uint32)b.size()); WrLE((uint8 *)&s[4], (uint32)MUSCLE_MESSAGE_ENCODING_DEFAULT); return s + b; };
     for (size_t i = 0; i < seqs.size(); i++) { MessageIOGateway snd; p.seeds.push_back(StreamSeed("frames(" + seqNames[i] + ")", snd, seqs[i], true)); }
     // one frame that does NOT fit the gateway's 2048-byte scratch receive buffer (the large-frame path receives into an exact-size pooled buffer)
     { Message m(0x2010); std::string blob(2100, '\0'); for (size_t i = 0; i < blob.size(); i++) blob[i] = (char)(i * 7 + 1); (void)m.AddData("w", B_RAW_TYPE, blob.data(), (uint32)blob.size()); (void)m.AddInt64("l", 0x0102030405060708LL); (void)m.AddString("s", "tail");
       MessageIOGateway snd; p.seeds.push_back(StreamSeed("frames(raw2100+int64+string)", snd, std::vector<MessageRef>(1, GetMessageFromPool(m)), true)); }
     p.pairSeeds = thorough ? 6 : 0; p.run = RunStreamGateway; GwKind k; k.make = []() { return AbstractMessageIOGatewayRef(new MessageIOGateway()); }; k.canon = CANON_MSGS; k.frameRef = true; g_gw[p.name] = k; g_parts.push_back(p); }
   // MessageIOGateway, zlib encoding
   { PartDef p; p.name = "gw_message_zlib"; p.entry = "MessageIOGateway::DoInput (zlib-6 encoded stream)"; p.modes = 2; p.resetDocumented = true;
     for (size_t i = 0; i < seqs.size(); i++) { MessageIOGateway snd(MUSCLE_MESSAGE_ENCODING_ZLIB_6); p.seeds.push_back(StreamSeed("zframes(" + seqNames[i] + ")", snd, seqs[i], false)); }
     p.run = RunStreamGateway; GwKind k; k.make = []() { return AbstractMessageIOGatewayRef(new MessageIOGateway()); }; k.canon = CANON_MSGS; k.frameRef = true; g_gw[p.name] = k; g_parts.push_back(p); }
   // TemplatingMessageIOGateway: same-shaped Messages twice so that the payload-only encoding appears
   { PartDef p; p.name = "gw_templating"; p.entry = "TemplatingMessageIOGateway::DoInput"; p.modes = 2; p.resetDocumented = true;
     const char * names[] = {"mix3", "stringx3", "msgx3", "rawx3", "nest2", "big"};
     for (int i = 0; i < 6; i++) { std::vector<MessageRef> t(2, byName[names[i]]); TemplatingMessageIOGateway snd; p.seeds.push_back(StreamSeed(std::string("tframes(2x") + names[i] + ")", snd, t, false)); }
     { std::vector<MessageRef> t; t.push_back(byName["mix3"]); t.push_back(byName["empty"]); t.push_back(byName["s3_i3_m3"]); t.push_back(byName["mix3"]); t.push_back(byName["s3_i3_m3"]); TemplatingMessageIOGateway snd; p.seeds.push_back(StreamSeed("tframes(mix3,empty,s3_i3_m3,mix3,s3_i3_m3)", snd, t, false)); }
     { std::vector<MessageRef> t(2, byName["big"]); TemplatingMessageIOGateway snd(1024 * 1024, MUSCLE_MESSAGE_ENCODING_ZLIB_6); p.seeds.push_back(StreamSeed("tzframes(2xbig)", snd, t, false)); }
     p.run = RunStreamGateway; GwKind k; k.make = []() { return AbstractMessageIOGatewayRef(new TemplatingMessageIOGateway()); }; k.canon = CANON_MSGS; g_gw[p.name] = k; g_parts.push_back(p); }
   // WebSocket, server role (harness-framed client stream), slave MessageIOGateway
   { PartDef p; p.name = "gw_websocket_server"; p.entry = "WebSocketMessageIOGateway::DoInput (server role: HTTP upgrade + masked frames, slave MessageIOGateway)"; p.modes = 2; p.bigEndianToo = true;
     MessageIOGateway fr; const std::string f1 = SendThrough(fr, seqs[0]), f2 = SendThrough(fr, seqs[1]), f3 = SendThrough(fr, seqs[4]);
     const std::string fall = SendThrough(fr, seqs[2]) ; const MessageRef mixall = byName["mix_all"]; const std::string fmid = SendThrough(fr, std::vector<MessageRef>(1, mixall));
     { Seed s; s.name = "ws(upgrade, bin[mix3])  [handshake and frame mutated]"; s.bytes = std::string(kWsRequest) + WsFrame(2, true, f1, true, 0, 0x11); s.expect = CanonOf(seqs[0]); s.numMsgs = 1; p.seeds.push_back(s); }
     { Seed s; s.name = "ws(upgrade | bin[mix3], bin126[mix_all], bin127[nest2])  [frames mutated after a completed upgrade]"; s.prefix = kWsRequest; s.bytes = WsFrame(2, true, f1, true, 0, 0x21) + WsFrame(2, true, fmid, true, 126, 0x22) + WsFrame(2, true, f3, true, 127, 0x23); std::vector<MessageRef> t; t.push_back(seqs[0][0]); t.push_back(mixall); t.push_back(seqs[4][0]); s.expect = CanonOf(t); s.numMsgs = 3; p.seeds.push_back(s); }
     { Seed s; s.name = "ws(upgrade | text, ping, bin-fragmented[stringx3], close)  [frames mutated after a completed upgrade]"; s.prefix = kWsRequest; MessageRef tm = GetMessageFromPool(PR_COMMAND_TEXT_STRINGS); (void)tm()->AddString(PR_NAME_TEXT_LINE, "hello"); (void)tm()->AddString(PR_NAME_TEXT_LINE, "world");
       s.bytes = WsFrame(1, true, "hello\r\nworld", true, 0, 0x31) + WsFrame(9, true, "pp", true, 0, 0x32) + WsFrame(2, false, f2.substr(0, 10), true, 0, 0x33) + WsFrame(0, true, f2.substr(10), true, 0, 0x34) + WsFrame(8, true, "", true, 0, 0x35);
       std::vector<MessageRef> t; t.push_back(tm); t.push_back(seqs[1][0]); s.expect = CanonOf(t); s.numMsgs = 2; p.seeds.push_back(s); }
     // (a control frame BETWEEN the fragments of a message is legal RFC 6455 but not supported by this gateway -- it takes any FIN frame as the end of the
     //  pending message -- so the seed has none; its expectations are about zero-length continuation frames only)
     { Seed s; s.name = "ws(upgrade | bin-fragment[stringx3 part 1], EMPTY continuation, EMPTY continuation, final continuation, bin[mix3])  [zero-length frames while a fragment is pending]"; s.prefix = kWsRequest;
       s.bytes = WsFrame(2, false, f2.substr(0, 10), true, 0, 0x41) + WsFrame(0, false, "", true, 0, 0x42) + WsFrame(0, false, "", true, 0, 0x43) + WsFrame(0, true, f2.substr(10), true, 0, 0x44) + WsFrame(2, true, f1, true, 0, 0x45);
       std::vector<MessageRef> t; t.push_back(seqs[1][0]); t.push_back(seqs[0][0]); s.expect = CanonOf(t); s.numMsgs = 2; p.seeds.push_back(s); }
     p.run = RunStreamGateway; GwKind k; k.make = MakeWsServer; k.canon = CANON_MSGS; g_gw[p.name] = k; g_parts.push_back(p); }
   // WebSocket, client role: stream produced by the real server-role gateway in answer to the (pinned-key) client request
   { PartDef p; p.name = "gw_websocket_client"; p.entry = "WebSocketMessageIOGateway::DoInput (client role: HTTP 101 answer + unmasked frames from the real server-role gateway)"; p.modes = 2; p.bigEndianToo = true;
     for (int v = 0; v < 2; v++) {
        verif_rand_counter = 0; AbstractMessageIOGatewayRef cl = MakeWsClient(); SinkIO cs; cl()->SetDataIO(DummyDataIORef(cs)); for (int g = 0; g < 100 && cl()->HasBytesToOutput(); g++) (void)cl()->DoOutput(); cl()->SetDataIO(DataIORef());
        AbstractMessageIOGatewayRef sv = MakeWsServer(); ExactBuf rq(cs.out); ScriptIO rio(rq.p, rq.n); rio.avail = rq.n; Collect rx; sv()->SetDataIO(DummyDataIORef(rio)); for (int g = 0; g < 1000; g++) if (sv()->DoInput(rx).GetByteCount() <= 0) break;
        const std::vector<MessageRef> & t = (v == 0) ? seqs[0] : seqs[8];
        Seed s; s.name = (v == 0) ? "wsc(101, bin[mix3])  [answer and frame mutated]" : "wsc(101 | bin[mix3], bin[stringx3], bin[nest2])  [frames mutated after a completed upgrade]"; s.bytes = SendThrough(*sv(), t); s.expect = CanonOf(t); s.numMsgs = (int)t.size();
        if (v == 1) { const size_t e = s.bytes.find("\r\n\r\n"); if (e == std::string::npos) SetupError("no HTTP answer from the server-role gateway"); else { s.prefix = s.bytes.substr(0, e + 4); s.bytes = s.bytes.substr(e + 4); } }
        p.seeds.push_back(s);
     }
     p.run = RunStreamGateway; GwKind k; k.make = MakeWsClient; k.canon = CANON_MSGS; g_gw[p.name] = k; g_parts.push_back(p); }
   // text gateways
   { const char * texts[] = {"hello\n", "one\r\ntwo\rthree\n\nfive\n", "tab\tand spaces  \n\xC3\xA9\xE2\x82\xAC utf8\r\n"};
     PartDef p; p.name = "gw_plaintext"; p.entry = "PlainTextMessageIOGateway::DoInput"; p.modes = 2; p.resetDocumented = true;
     for (int i = 0; i < 3; i++) { Seed s; s.name = verif::Fmt("text%d", i); s.bytes = texts[i]; s.numMsgs = 1; s.expect = ExpectLines(s.bytes); p.seeds.push_back(s); }
     p.run = RunStreamGateway; GwKind k; k.make = []() { return AbstractMessageIOGatewayRef(new PlainTextMessageIOGateway()); }; k.canon = CANON_LINES; g_gw[p.name] = k; g_parts.push_back(p);
     PartDef q; q.name = "gw_telnet"; q.entry = "TelnetPlainTextMessageIOGateway::DoInput"; q.modes = 2; q.resetDocumented = true;
     { Seed s; s.name = "telnet(IAC WILL ECHO, line, IAC SB .. SE, line)"; static const char tn[] = "\xFF\xFB\x01" "login\r\n" "\xFF\xFA\x18\x01\xFF\xF0" "pass\r\n"; s.bytes = std::string(tn, sizeof(tn) - 1); s.expect = "6c6f67696e,70617373,"; s.numMsgs = 1; q.seeds.push_back(s); }
     { Seed s; s.name = "telnet(plain)"; s.bytes = "abc\ndef\n"; s.expect = "616263,646566,"; s.numMsgs = 1; q.seeds.push_back(s); }
     q.run = RunStreamGateway; GwKind k2; k2.make = []() { return AbstractMessageIOGatewayRef(new TelnetPlainTextMessageIOGateway()); }; k2.canon = CANON_LINES; g_gw[q.name] = k2; g_parts.push_back(q); }
   // raw + SLIP
   { std::vector<MessageRef> rm; { MessageRef m = GetMessageFromPool(PR_COMMAND_RAW_DATA); const uint8 d1[] = {1, 2, 3, 0xC0, 0xDB, 4}; const uint8 d2[] = {0xDB, 0xDC, 0xC0, 0xDD, 9}; (void)m()->AddData(PR_NAME_DATA_CHUNKS, B_RAW_TYPE, d1, sizeof(d1)); (void)m()->AddData(PR_NAME_DATA_CHUNKS, B_RAW_TYPE, d2, sizeof(d2)); rm.push_back(m); }
     { MessageRef m = GetMessageFromPool(PR_COMMAND_RAW_DATA); std::string big; for (int i = 0; i < 90; i++) big.push_back((char)(i * 7)); (void)m()->AddData(PR_NAME_DATA_CHUNKS, B_RAW_TYPE, big.data(), (uint32)big.size()); rm.push_back(m); }
     PartDef p; p.name = "gw_rawdata"; p.entry = "RawDataMessageIOGateway::DoInput"; p.modes = 2; p.resetDocumented = true;
     { RawDataMessageIOGateway snd; Seed s; s.name = "raw(2 chunks)+raw(90 bytes)"; s.bytes = SendThrough(snd, rm); s.expect = "010203c0db04dbdcc0dd09"; for (int i = 0; i < 90; i++) s.expect += verif::Fmt("%02x", (unsigned)(uint8)(i * 7)); s.numMsgs = 2; p.seeds.push_back(s); }
     p.run = RunStreamGateway; GwKind k; k.make = []() { return AbstractMessageIOGatewayRef(new RawDataMessageIOGateway()); }; k.canon = CANON_RAWCAT; g_gw[p.name] = k; g_parts.push_back(p);
     PartDef q; q.name = "gw_slip"; q.entry = "SLIPFramedDataMessageIOGateway::DoInput"; q.modes = 2; q.resetDocumented = true;
     { SLIPFramedDataMessageIOGateway snd; Seed s; s.name = "slip(2 frames)+slip(90 bytes)"; s.bytes = SendThrough(snd, rm); s.expect = "010203c0db04,dbdcc0dd09,"; for (int i = 0; i < 90; i++) s.expect += verif::Fmt("%02x", (unsigned)(uint8)(i * 7)); s.expect += ","; s.numMsgs = 2; q.seeds.push_back(s); }
     q.run = RunStreamGateway; GwKind k2; k2.make = []() { return AbstractMessageIOGatewayRef(new SLIPFramedDataMessageIOGateway()); }; k2.canon = CANON_FRAMES; g_gw[q.name] = k2; g_parts.push_back(q); }
   // packet tunnels (ByteBufferPacketDataIO)
   { PartDef p; p.name = "gw_packettunnel"; p.entry = "PacketTunnelIOGateway::DoInput (MTU 96, no slave gateway)"; p.bigEndianToo = true;
     for (size_t i = 0; i < seqs.size(); i++) { PacketTunnelIOGateway snd(AbstractMessageIOGatewayRef(), 96); p.seeds.push_back(PacketSeed("tunnel96(" + seqNames[i] + ")", snd, seqs[i], 96)); }
     p.run = RunPacketGateway; GwKind k; k.make = []() { return AbstractMessageIOGatewayRef(new PacketTunnelIOGateway(AbstractMessageIOGatewayRef(), 96)); }; k.canon = CANON_MSGS; g_gw[p.name] = k; g_parts.push_back(p); }
   { PartDef p; p.name = "gw_packettunnel_zlib"; p.entry = "PacketTunnelIOGateway::DoInput (MTU 96, slave MessageIOGateway with zlib-6)"; p.bigEndianToo = true;
     for (size_t i = 0; i < seqs.size(); i += 2) { PacketTunnelIOGateway snd(AbstractMessageIOGatewayRef(new MessageIOGateway(MUSCLE_MESSAGE_ENCODING_ZLIB_6)), 96); p.seeds.push_back(PacketSeed("ztunnel96(" + seqNames[i] + ")", snd, seqs[i], 96)); }
     p.run = RunPacketGateway; GwKind k; k.make = []() { return AbstractMessageIOGatewayRef(new PacketTunnelIOGateway(AbstractMessageIOGatewayRef(new MessageIOGateway()), 96)); }; k.canon = CANON_MSGS; g_gw[p.name] = k; g_parts.push_back(p); }
   { PartDef p; p.name = "gw_minipackettunnel"; p.entry = "MiniPacketTunnelIOGateway::DoInput (no compression)"; p.bigEndianToo = true;
     for (size_t i = 0; i < seqs.size(); i++) { MiniPacketTunnelIOGateway snd(AbstractMessageIOGatewayRef(), 1400); p.seeds.push_back(PacketSeed("mini(" + seqNames[i] + ")", snd, seqs[i], 1400)); }
     p.run = RunPacketGateway; GwKind k; k.make = []() { return AbstractMessageIOGatewayRef(new MiniPacketTunnelIOGateway(AbstractMessageIOGatewayRef(), 1400)); }; k.canon = CANON_MSGS; g_gw[p.name] = k; g_parts.push_back(p); }
   { PartDef p; p.name = "gw_minipackettunnel_zlib"; p.entry = "MiniPacketTunnelIOGateway::DoInput (zlib level 6 packets)"; p.bigEndianToo = true;
     for (size_t i = 0; i < seqs.size(); i += 2) { MiniPacketTunnelIOGateway snd(AbstractMessageIOGatewayRef(), 1400); snd.SetZLibCompressionLevel(6); p.seeds.push_back(PacketSeed("zmini(" + seqNames[i] + ")", snd, seqs[i], 1400)); }
     p.run = RunPacketGateway; GwKind k; k.make = []() { return AbstractMessageIOGatewayRef(new MiniPacketTunnelIOGateway(AbstractMessageIOGatewayRef(), 1400)); }; k.canon = CANON_MSGS; g_gw[p.name] = k; g_parts.push_back(p); }
   // C gateways (stream = the standard MessageIOGateway framing with the default encoding)
   { PartDef p; p.name = "gw_c_mini"; p.entry = "MGDoInput (C MiniMessageGateway)"; p.modes = 2; p.nest = true;
     p.wrapNest = [](const std::string & b) { std::string s(8, '\0'); WrLE((uint8 *)&s[0], (uint32)b.size()); WrLE((uint8 *)&s[4], (uint32)MUSCLE_MESSAGE_ENCODING_DEFAULT); return s + b; };
     for (size_t i = 0; i < seqs.size(); i++) { if (seqNames[i] == "empty") continue; MessageIOGateway snd; Seed s = StreamSeed("frames(" + seqNames[i] + ")", snd, seqs[i], true); s.expect = CanonOf(seqs[i]); p.seeds.push_back(s); }
     p.run = RunMiniGateway; g_parts.push_back(p);
     PartDef q; q.name = "gw_c_micro"; q.entry = "UGDoInput (C MicroMessageGateway, 2048-byte input buffer)"; q.modes = 2;
     for (size_t i = 0; i < seqs.size(); i++) { if (seqNames[i] == "empty") continue; MessageIOGateway snd; Seed s = StreamSeed("frames(" + seqNames[i] + ")", snd, seqs[i], true); s.expect = CanonOf(seqs[i]); q.seeds.push_back(s); }
     q.run = RunMicroGateway; g_parts.push_back(q); }

   for (size_t i = 0; i < g_parts.size(); i++) g_parts[i].Finish();
   (void)res;
}

// Deviation-2 pruning: a pair is only run if neither of its two word mutations kills the process by itself (such a mutation is reported at
// deviation 1; thousands of pairs containing it would each cost a worker process and say nothing new).  Every single structural-word
// mutation of every pair seed is run once in its own forked process here, in parallel, before the enumeration.
static void ComputeFatalSingles(PartDef & pd, int workers)
{
   struct Unit { size_t seed, word; }; std::vector<Unit> units;
   for (size_t si = 0; si < pd.seeds.size(); si++) if (pd.spaces[si].nPair) for (size_t w = 0; w < pd.spaces[si].pairOffs.size(); w++) { Unit u; u.seed = si; u.word = w; units.push_back(u); }
   pd.fatalSingle.assign(pd.seeds.size(), std::vector<uint8>()); for (size_t si = 0; si < pd.seeds.size(); si++) if (pd.spaces[si].nPair) pd.fatalSingle[si].assign(pd.spaces[si].pairOffs.size() * kNumWordVals, 0);
   if (units.empty()) return;
   std::vector<verif::ParRecord> out;
   verif::ParMap(units.size(), workers, [&](size_t u, std::string & rec) {
      const size_t si = units[u].seed, w = units[u].word; rec.assign(kNumWordVals, '\0');
      for (int vi = 0; vi < kNumWordVals; vi++) {
         fflush(stdout); fflush(stderr); const pid_t pid = fork();
         if (pid == 0) {
            const int dn = open("/dev/null", O_WRONLY); if (dn >= 0) { dup2(dn, 2); close(dn); }
            struct itimerval itv; memset(&itv, 0, sizeof(itv)); itv.it_value.tv_sec = 5; signal(SIGVTALRM, SIG_DFL); setitimer(ITIMER_VIRTUAL, &itv, NULL);
            std::string in; pd.spaces[si].SingleOf(pd.seeds[si], w, vi, in); std::vector<uint32> cuts;
            for (int mode = 0; mode < pd.modes; mode++) { mutx::Case c; pd.run(pd, pd.seeds[si], in, cuts, mode, false, c); c02::g_allocCap = 0; }
            _exit(0);
         }
         int st = 0; if (pid > 0) waitpid(pid, &st, 0); rec[vi] = (pid > 0 && WIFEXITED(st) && WEXITSTATUS(st) == 0) ? 0 : 1;
      }
   }, out);
   for (size_t k = 0; k < out.size(); k++) { const Unit & u = units[out[k].idx]; for (int vi = 0; vi < kNumWordVals && vi < (int)out[k].data.size(); vi++) pd.fatalSingle[u.seed][u.word * kNumWordVals + vi] = (uint8)out[k].data[vi]; }
   // exact number of pair cases that will be skipped
   pd.pairsSkipped = 0;
   for (size_t si = 0; si < pd.seeds.size(); si++) if (pd.spaces[si].nPair) { const std::vector<uint8> & f = pd.fatalSingle[si]; const size_t P = pd.spaces[si].pairOffs.size();
      for (size_t i = 0; i < P; i++) for (size_t j = i + 1; j < P; j++) for (int vi = 0; vi < kNumWordVals; vi++) for (int vj = 0; vj < kNumWordVals; vj++) if (f[i * kNumWordVals + vi] || f[j * kNumWordVals + vj]) pd.pairsSkipped++; }
   pd.pairsSkipped *= (size_t)pd.modes;
}

// stable key: <part>:<engine or oracle key>; a stack overflow ends in whichever frame of the recursion hits the guard page, so the frame is dropped
static std::string NormalizeKey(const std::string & part, const std::string & k)
{
   std::string key = k; const size_t so = key.find("stack-overflow"); if (so != std::string::npos) key = key.substr(0, so + 14);
   // without symbols the engine's "innermost frame" slot can pick up an address from the report text: drop any component that is an address
   std::string out; size_t p = 0; while (p <= key.size()) { size_t q = key.find(':', p); if (q == std::string::npos) q = key.size(); const std::string comp = key.substr(p, q - p); if (!(comp.size() > 2 && comp[0] == '0' && comp[1] == 'x')) { if (!out.empty()) out += ":"; out += comp; } p = q + 1; }
   return part + ":" + out;
}

int main(int argc, char ** argv)
{
   // the sanitizer option that bounds a single malloc cannot be set from inside a running process: re-exec once with it set (see report)
   if (getenv("C02_ASAN_OPTS_SET") == NULL) {
      // enumeration runs unsymbolized (llvm-symbolizer costs ~0.2 s per dying case); --replay keeps the symbolized report
      bool isReplayRun = false; for (int i = 1; i < argc; i++) if (strcmp(argv[i], "--replay") == 0 || strcmp(argv[i], "--hex") == 0) isReplayRun = true;
      const char * old = getenv("ASAN_OPTIONS"); std::string o = (old && *old) ? (std::string(old) + ":") : std::string(); o += "max_allocation_size_mb=64"; if (!isReplayRun) o += ":symbolize=0";
      setenv("ASAN_OPTIONS", o.c_str(), 1);
      if (!isReplayRun) { const char * ou = getenv("UBSAN_OPTIONS"); std::string u = (ou && *ou) ? (std::string(ou) + ":") : std::string(); u += "symbolize=0"; setenv("UBSAN_OPTIONS", u.c_str(), 1); } setenv("C02_ASAN_OPTS_SET", "1", 1); execv("/proc/self/exe", argv); perror("execv"); return 3;
   }
   verif::Args args; args.Parse(argc, argv); verif::Result res; res.harness = "C02_parsers";
   (void)SetConsoleLogLevel(MUSCLE_LOG_NONE);
   c02::InstallDeathAttribution();
   g_contain = args.replay.empty() && !args.kv.count("hex");
   if (g_contain) { if (!freopen("/dev/null", "w", stdout)) {} }   // the C codecs printf() diagnostics on bad input; results go to --out

   std::string replayPart; size_t replayIndex = 0; bool thorough = args.Thorough();
   if (!args.replay.empty()) { verif::ReplayDoc d; if (!d.Load(args.replay)) { fprintf(stderr, "cannot read %s\n", args.replay.c_str()); return 3; } replayPart = d.Str("part"); replayIndex = (size_t)d.Int("index"); if (d.Str("tier") == "thorough") thorough = true; }
   g_tier = thorough ? "thorough" : "quick"; BuildParts(thorough, res);
   if (!g_setupErrors.empty()) { res.infra_errors.push_back("seed construction: " + g_setupErrors); const int rc0 = res.Write(args); g_parts.clear(); g_gw.clear(); return rc0; }

   // warm the object pools / lazily created statics with every valid seed of every part (in the parent, so every forked worker starts identical),
   // and calibrate the allocation bound on the valid encodings
   long long calMaxPeak = 0; double calMaxRatio = 0; std::string calWorst;
   for (int round = 0; round < 2; round++) for (size_t pi = 0; pi < g_parts.size(); pi++) { const PartDef & pd = g_parts[pi];
      for (size_t si = 0; si < pd.seeds.size(); si++) for (int mode = 0; mode < pd.modes; mode++) {
         mutx::Case c; std::vector<uint32> cuts = pd.seeds[si].cuts; pd.run(pd, pd.seeds[si], pd.seeds[si].bytes, cuts, mode, true, c); c02::g_allocCap = 0;
         if (round == 1 && c.failed && args.replay.empty()) { /* reported by the enumeration itself (deviation 0) */ }
         if (round == 1 && pi < 4) { const long long pk1 = mutx::g_meter.peak, pk2 = mutx::g_meter.biggest; const long long pk = std::max(pk1, pk2); const double ratio = (double)pk / (double)std::max<size_t>(1, pd.seeds[si].bytes.size()); if (pk > calMaxPeak) calMaxPeak = pk; if (ratio > calMaxRatio) { calMaxRatio = ratio; calWorst = pd.name + "/" + pd.seeds[si].name; } }
      } }

   // ad-hoc: run one arbitrary input on one part in this process:  --part NAME --hex BYTES [--mode 0|1] [--seedname NAME]
   if (args.kv.count("hex")) {
      std::string in; if (!verif::UnHex(args.kv["hex"], in)) { fprintf(stderr, "bad --hex\n"); _exit(3); }
      g_contain = false;
      for (size_t pi = 0; pi < g_parts.size(); pi++) if (g_parts[pi].name == args.part) {
         const PartDef & pd = g_parts[pi]; size_t si = 0; for (size_t k = 0; k < pd.seeds.size(); k++) if (pd.seeds[k].name == args.kv["seedname"]) si = k;
         std::vector<uint32> cuts; if (!pd.seeds[si].cuts.empty()) cuts.push_back((uint32)in.size());
         mutx::Case c; pd.run(pd, pd.seeds[si], in, cuts, atoi(args.kv["mode"].c_str()), false, c);
         fprintf(stderr, "part=%s seed(for reuse)=%s len=%u outcome: %s result: %s %s %s\n", pd.name.c_str(), pd.seeds[si].name.c_str(), (unsigned)in.size(), c.outcome.c_str(), c.failed ? "VIOLATION" : "OK", c.failed ? NormalizeKey(pd.name, c.key).c_str() : "", c.msg.c_str()); _exit(c.failed ? 1 : 0);
      }
      fprintf(stderr, "unknown --part\n"); _exit(3);
   }
   const bool isReplay = !args.replay.empty();
   // ---- tier-dependent part list; deadline split evenly over the remaining parts
   size_t nRun = 0; for (size_t pi = 0; pi < g_parts.size(); pi++) if (args.WantPart(g_parts[pi].name)) nRun++;
   size_t done = 0;
   for (size_t pi = 0; pi < g_parts.size(); pi++) {
      PartDef & pd = g_parts[pi];
      if (isReplay ? (pd.name != replayPart) : !args.WantPart(pd.name)) continue;
      if (!isReplay) ComputeFatalSingles(pd, args.workers);
      mutx::Runner R(args, res, pd.name); R.SetCpuLimit(5.0);
      mutx::CaseFn fn = [&pd](size_t i, mutx::Case & c) { PartDef::Concrete cc; pd.Decode(i, cc); if (cc.skip) { c.Outcome("pair skipped: one of its two mutations is fatal by itself (reported at deviation 1)"); return; } pd.run(pd, pd.seeds[cc.seed], cc.in, cc.cuts, cc.mode, cc.dev0, c); c02::g_allocCap = 0; };
      mutx::DescFn desc = [&pd](size_t i) { PartDef::Concrete cc; pd.Decode(i, cc); return cc.desc; };
      if (isReplay) { if (replayIndex >= pd.total) { fprintf(stderr, "index out of range for part %s (tier mismatch? pass --tier thorough)\n", pd.name.c_str()); return 3; } printf("replay part=%s case %llu: %s\n", pd.name.c_str(), (unsigned long long)replayIndex, desc(replayIndex).c_str()); fflush(stdout);
         struct itimerval itv; memset(&itv, 0, sizeof(itv)); itv.it_value.tv_sec = 50; signal(SIGVTALRM, SIG_DFL); setitimer(ITIMER_VIRTUAL, &itv, NULL);   // same watchdog as the engine's confirmation run (10 x 5 s CPU)
         mutx::Case c; fn(replayIndex, c);
         printf("outcome: %s\n%s%sresult: %s %s %s\n", c.outcome.c_str(), c.note.empty() ? "" : c.note.c_str(), c.note.empty() ? "" : "\n", c.failed ? "VIOLATION" : "OK", c.failed ? NormalizeKey(pd.name, c.key).c_str() : "", c.msg.c_str());
         fflush(stdout); _exit(c.failed ? 1 : 0); }
      // deadline split over the remaining parts in proportion to their case counts (plus a constant per part)
      double wMine = (double)pd.total + 50000.0, wRest = 0; for (size_t pj = pi; pj < g_parts.size(); pj++) if (args.WantPart(g_parts[pj].name)) wRest += (double)g_parts[pj].total + 50000.0;
      const double now = verif::NowS(), end = args.t0 + args.deadline * 0.92; const double share = (end - now) * wMine / std::max(1.0, wRest);
      R.SetDeadline(now + std::max(5.0, share));
      const size_t v0 = res.violations.size();
      verif::Part & part = R.Run(pd.total, fn, desc);
      { std::map<std::string, int> perKey; std::vector<verif::Violation> kept(res.violations.begin(), res.violations.begin() + v0);   // normalise keys; keep at most 3 violations (replays) per normalised key
        for (size_t v = v0; v < res.violations.size(); v++) { verif::Violation x = res.violations[v]; x.key = NormalizeKey(pd.name, x.key); if (perKey[x.key]++ < 3) kept.push_back(x); }
        res.violations.swap(kept); }
      if (!part.exhaustive && part.transitions >= pd.total) { part.exhaustive = true; part.cap = ""; }   // engine quirk: a fatal case at the very end of a stride leaves its "complete" flag false although every index was run
      if (part.exhaustive) { part.transitions -= std::min<uint64_t>(part.transitions, pd.pairsSkipped); part.evaluations = part.transitions; }   // skipped pairs are not executions
      part.extra["pair_cases_skipped_because_one_component_is_fatal_alone"] = verif::Fmt("%llu", (unsigned long long)pd.pairsSkipped);
      size_t nPairSeeds = 0, nPairs = 0, nSingles = 0; for (size_t si = 0; si < pd.spaces.size(); si++) { if (pd.spaces[si].nPair) nPairSeeds++; nPairs += pd.spaces[si].nPair; nSingles += pd.spaces[si].Count() - pd.spaces[si].nPair; }
      size_t minLen = (size_t)-1, maxLen = 0; for (size_t si = 0; si < pd.seeds.size(); si++) { minLen = std::min(minLen, pd.seeds[si].bytes.size()); maxLen = std::max(maxLen, pd.seeds[si].bytes.size()); }
      part.rule = "entry point: " + pd.entry + verif::Fmt(". %d valid seed encodings (%u..%u bytes) built by the real encoders; per seed: the seed itself (must parse and round-trip), every truncation 0..N-1, every byte offset x 20 word values {0,1,len-1,len,len+1,2^31-1,2^31,2^32-8..2^32-1,orig-1,orig+1,orig+4,remaining,remaining+1}%s, every type-code word x 20 type codes (incl. B_POINTER_TYPE,B_TAG_TYPE,B_ANY_TYPE,0), every byte x {00,01,7F,80,FF}, every NUL terminator deleted",
                        (int)pd.seeds.size(), (unsigned)minLen, (unsigned)maxLen, pd.bigEndianToo ? " in little- and big-endian order" : " (little-endian)")
                + verif::Fmt("; every PAIR of word mutations (20x20 values) over the structural words of %u seed(s) [%llu pair cases x deliveries, of which %llu are not run because one of the two mutations already kills the process by itself (reported at deviation 1); %llu single-deviation cases]", (unsigned)nPairSeeds, (unsigned long long)nPairs, (unsigned long long)pd.pairsSkipped, (unsigned long long)nSingles)
                + (pd.modes == 2 ? "; every mutated stream delivered whole and one byte at a time (x2)" : "") + (pd.nest ? "; Message-in-Message chains of depth 1,2,16,256,4096,65536" : "") + (pd.shorts ? "; all byte strings of length <=2 and of length 3..4 over {00,01,04,FF,'P','M'}" : "")
                + ". A case is distinct by (seed, mutation, delivery); case index decodes to it. Oracle: no ASan/UBSan report, abort, signal or CPU-watchdog (5 s, x10 on confirmation); result = error status or object that re-flattens consistently; failed object reusable"
                + (pi < 4 ? verif::Fmt("; requested heap bytes during the parse <= %lld*N + %lld (pools warmed)", kAllocA, kAllocK) : "") + ".";
      part.bound_completed = part.exhaustive ? (nPairs ? 2 : 1) : 0;
      part.extra["deviation_bound"] = verif::Fmt("\"1 everywhere%s\"", nPairs ? ", 2 over structural words of the pair seeds" : "");
      done++;
   }
   res.observations.push_back(verif::Fmt("allocation calibration on the valid seeds of the four Message parsers (pools warm): max requested bytes during one parse = %lld, max ratio requested/N = %.1f (%s); asserted bound a=%lld, K=%lld", calMaxPeak, calMaxRatio, calWorst.c_str(), kAllocA, kAllocK));
   res.observations.push_back("unspecified behaviour observed, not asserted: (1) MMUnflattenMessage accepts an encoding with two fields of the same name and builds an MMessage with duplicate field names; (2) gateway classes without their own Reset() override (WebSocket, packet tunnels) are exercised for reuse after Reset() but a failure to deliver the valid stream afterwards is only noted in the part's extra.notes");
   res.observations.push_back("environment assumption: a single malloc above 64 MiB fails (ASAN_OPTIONS max_allocation_size_mb=64, set by re-exec) and a single operator-new request above max(4 MiB, 64*N) fails while a parser runs; the request is still counted by the meter");
   const int rc = res.Write(args);
   g_parts.clear(); g_gw.clear();   // release the seed Messages before the library's static object pools are destroyed
   return rc;
}
