// C08 -- all Message implementations shipped in the repository agree on ONE wire format, byte for byte.
// VBUILD: libs=c
// Exhaustive enumeration of a generated set of Messages (the type repertoire common to the implementations) and, for every
// one of them, a differential comparison of five programs: the C++ Message class, the independent reference codec
// ref/refcodec.h (documented layout), the C MiniMessage codec, the C MicroMessage codec and the Python Message class
// (one python3 subprocess running harness/C08_pycodec.py), in both directions, plus the 8-byte stream frame of the
// C++ / mini / micro / Python gateways.
#include "engines/mutx/mutx.h"
#include "harness/C01_msgutil.h"
#include "iogateway/MessageIOGateway.h"
#include "dataio/ByteBufferDataIO.h"
#include "lang/c/minimessage/MiniMessage.h"
#include "lang/c/minimessage/MiniMessageGateway.h"
#include "lang/c/micromessage/MicroMessage.h"
#include "lang/c/micromessage/MicroMessageGateway.h"

using namespace muscle;
using namespace msgutil;
namespace rc = refcodec;

// ================================================================ the generated set
struct Kind { std::string name; uint32 type; std::string v[3]; rc::AbsMsg mv[3]; };

static rc::AbsMsg SubLeaf() { rc::AbsMsg s(0); return s; }
static rc::AbsMsg SubFields()
{
   rc::AbsMsg s(rc::PROTOCOL_PM00);
   rc::AbsField a("arr", rc::T_INT32); a.items.push_back(rc::ItemI32(-1)); a.items.push_back(rc::ItemI32(0x7FFFFFFF)); s.fields.push_back(a);
   rc::AbsField b("s", rc::T_STRING); b.items.push_back(""); s.fields.push_back(b);
   return s;
}
static rc::AbsMsg SubNested()
{
   rc::AbsMsg s(7);
   rc::AbsField f("d", rc::T_DOUBLE); f.items.push_back(rc::ItemF64Bits(0x400921FB54442D18ULL)); s.fields.push_back(f);
   rc::AbsField g("sub", rc::T_MESSAGE); g.msgs.push_back(SubFields()); g.msgs.push_back(SubLeaf()); s.fields.push_back(g);
   return s;
}

static std::vector<Kind> MakeKinds()
{
   std::vector<Kind> K;
#define KIND(nm, ty, a, b, c) do { Kind k; k.name = nm; k.type = ty; k.v[0] = a; k.v[1] = b; k.v[2] = c; K.push_back(k); } while (0)
   KIND("bool", rc::T_BOOL, rc::ItemBool(true), rc::ItemBool(false), rc::ItemBool(true));
   KIND("int8", rc::T_INT8, rc::ItemI8(-128), rc::ItemI8(127), rc::ItemI8(-1));
   KIND("int16", rc::T_INT16, rc::ItemI16(-32768), rc::ItemI16(32767), rc::ItemI16(0x0100));
   KIND("int32", rc::T_INT32, rc::ItemI32((int32_t)0x80000000u), rc::ItemI32(0x7FFFFFFF), rc::ItemI32((int32_t)rc::PROTOCOL_PM00));
   KIND("int64", rc::T_INT64, rc::ItemI64((int64_t)0x8000000000000000ULL), rc::ItemI64(0x7FFFFFFFFFFFFFFFLL), rc::ItemI64(0x0102030405060708LL));
   KIND("floatA", rc::T_FLOAT, rc::ItemF32Bits(0x80000000u), rc::ItemF32Bits(0x7FA12345u) /* sNaN+payload */, rc::ItemF32Bits(0x7F800000u));
   KIND("floatB", rc::T_FLOAT, rc::ItemF32Bits(0xFFC00001u) /* -qNaN+payload */, rc::ItemF32Bits(0xFF800000u), rc::ItemF32Bits(0x00000001u));
   KIND("floatC", rc::T_FLOAT, rc::ItemF32Bits(0x00000000u), rc::ItemF32Bits(0x7F7FFFFFu), rc::ItemF32Bits(0xC0490FDBu));
   KIND("doubleA", rc::T_DOUBLE, rc::ItemF64Bits(0x8000000000000000ULL), rc::ItemF64Bits(0x7FF4000000ABCDEFULL), rc::ItemF64Bits(0x7FF0000000000000ULL));
   KIND("doubleB", rc::T_DOUBLE, rc::ItemF64Bits(0xFFF8000000000001ULL), rc::ItemF64Bits(0xFFF0000000000000ULL), rc::ItemF64Bits(0x0000000000000001ULL));
   KIND("doubleC", rc::T_DOUBLE, rc::ItemF64Bits(0), rc::ItemF64Bits(0x7FEFFFFFFFFFFFFFULL), rc::ItemF64Bits(0xC00921FB54442D18ULL));
   KIND("string", rc::T_STRING, std::string(""), std::string("h\xC3\xA9\xE2\x82\xAC\xF0\x9D\x84\x9E!") /* UTF-8: 2-, 3- and 4-byte sequences */, std::string("PM00-a string longer than any small-string buffer, 0123456789abcdef"));
   KIND("stringRaw", rc::T_STRING, std::string("\xFF\x80\x01z") /* not UTF-8 */, std::string("a"), std::string(""));
   KIND("pointA", rc::T_POINT, rc::ItemPointBits(0x80000000u, 0x7FA00007u) /* NaN */, rc::ItemPointBits(0x7F800000u, 0xFF800000u), rc::ItemPointBits(0x3FC00000u, 0x7F7FFFFFu));
   KIND("pointB", rc::T_POINT, rc::ItemPointBits(0x80000000u, 0x00000001u), rc::ItemPointBits(0x7F800000u, 0xFF800000u), rc::ItemPointBits(0x3FC00000u, 0x7F7FFFFFu));
   KIND("rectA", rc::T_RECT, rc::ItemRectBits(0x80000000u, 0, 0x7FC00000u, 0xFFA00001u) /* NaNs */, rc::ItemRectBits(0x7F800000u, 0xFF800000u, 1, 0x80000001u), rc::ItemRectBits(0x3F800000u, 0x40000000u, 0x40400000u, 0x40800000u));
   KIND("rectB", rc::T_RECT, rc::ItemRectBits(0x80000000u, 0, 0x7F7FFFFFu, 0xFF7FFFFFu), rc::ItemRectBits(0x7F800000u, 0xFF800000u, 1, 0x80000001u), rc::ItemRectBits(0x3F800000u, 0x40000000u, 0x40400000u, 0x40800000u));
   KIND("raw", rc::T_RAW, rc::LE(rc::PROTOCOL_PM00, 4) + rc::LE(0, 4) + rc::LE(0xFFFFFFFFu, 4), std::string("\0\xFF\x80", 3), std::string("x"));
   KIND("rawEmpty", rc::T_RAW, std::string("ab"), std::string(""), std::string("") /* zero-length buffers, also as LAST item */);
   KIND("rawpriv", 0x76726679u /* 'vrfy' */, std::string("\0", 1), rc::LE(rc::PROTOCOL_PM00, 4) + rc::LE(9, 4) + rc::LE(1, 4), std::string("\x80\x81\x82\x83\x84\x85\x86\x87\x88", 9));
   { Kind k; k.name = "message"; k.type = rc::T_MESSAGE; k.mv[0] = SubLeaf(); k.mv[1] = SubFields(); k.mv[2] = SubNested(); K.push_back(k); }
#undef KIND
   return K;
}

static bool ValidUTF8(const std::string & s)
{
   size_t i = 0;
   while (i < s.size()) {
      unsigned char c = (unsigned char)s[i]; int n = (c < 0x80) ? 0 : ((c & 0xE0) == 0xC0) ? 1 : ((c & 0xF0) == 0xE0) ? 2 : ((c & 0xF8) == 0xF0) ? 3 : -1;
      if (n < 0 || i + (size_t)n >= s.size()) return false;
      for (int k = 1; k <= n; k++) if ((((unsigned char)s[i + k]) & 0xC0) != 0x80) return false;
      i += n + 1;
   }
   return true;
}
static bool AllTextUTF8(const rc::AbsMsg & m)
{
   for (size_t f = 0; f < m.fields.size(); f++) {
      if (!ValidUTF8(m.fields[f].name)) return false;
      if (m.fields[f].type == rc::T_STRING) for (size_t i = 0; i < m.fields[f].items.size(); i++) if (!ValidUTF8(m.fields[f].items[i])) return false;
      for (size_t i = 0; i < m.fields[f].msgs.size(); i++) if (!AllTextUTF8(m.fields[f].msgs[i])) return false;
   }
   return true;
}
// NaN in a type Python handles through struct.pack/unpack of Python floats (point, rect): a signalling NaN may be quietened
static bool HasNaNInPointRect(const rc::AbsMsg & m)
{
   for (size_t f = 0; f < m.fields.size(); f++) {
      const rc::AbsField & fl = m.fields[f];
      if (fl.type == rc::T_POINT || fl.type == rc::T_RECT) for (size_t i = 0; i < fl.items.size(); i++) for (size_t k = 0; k + 4 <= fl.items[i].size(); k += 4) if (rc::F32BitsIsNaN((uint32_t)rc::UnLE(fl.items[i].substr(k, 4)))) return true;
      for (size_t i = 0; i < fl.msgs.size(); i++) if (HasNaNInPointRect(fl.msgs[i])) return true;
   }
   return false;
}
static bool HasNonAsciiName(const rc::AbsMsg & m)
{
   for (size_t f = 0; f < m.fields.size(); f++) {
      for (size_t i = 0; i < m.fields[f].name.size(); i++) if (((unsigned char)m.fields[f].name[i]) >= 0x80) return true;
      for (size_t i = 0; i < m.fields[f].msgs.size(); i++) if (HasNonAsciiName(m.fields[f].msgs[i])) return true;
   }
   return false;
}
static bool HasEmptyRawItem(const rc::AbsMsg & m)
{
   for (size_t f = 0; f < m.fields.size(); f++) {
      const rc::AbsField & fl = m.fields[f];
      if (fl.type != rc::T_MESSAGE && rc::FixedItemSize(fl.type) == 0 && fl.type != rc::T_STRING) for (size_t i = 0; i < fl.items.size(); i++) if (fl.items[i].empty()) return true;
      for (size_t i = 0; i < fl.msgs.size(); i++) if (HasEmptyRawItem(fl.msgs[i])) return true;
   }
   return false;
}

struct Gen {
   std::vector<Kind> kinds; bool thorough;
   explicit Gen(bool t) : kinds(MakeKinds()), thorough(t) {}
   // ONE index space for both tiers (replays do not depend on the tier):
   //   primary kind x item count (1..4) x second field (none | kind x 1..3 items) x wrap level (0..3, capped so that nesting <= 3)
   // quick tier = the sub-space {item count <= 3, second field absent or with 2 items}; thorough tier = everything.
   size_t NK() const { return kinds.size(); }
   size_t Count() const { return NK() * 4 * (NK() * 3 + 1) * 4; }
   void Decode(size_t i, int & k, int & c, int & k2, int & n2, int & wrap) const
   {
      wrap = (int)(i % 4); i /= 4; const size_t sec = i % (NK() * 3 + 1); i /= (NK() * 3 + 1); c = 1 + (int)(i % 4); i /= 4; k = (int)i;
      if (sec == 0) { k2 = -1; n2 = 0; } else { k2 = (int)((sec - 1) / 3); n2 = 1 + (int)((sec - 1) % 3); }
   }
   bool InQuick(size_t i) const { int k, c, k2, n2, w; Decode(i, k, c, k2, n2, w); return c <= 3 && (k2 < 0 || n2 == 2); }
   // the part "mini-gateway-out" runs a sub-space (see main): quick: no second field; thorough: no second field or a second field of the primary's kind
   bool MiniOutSelected(size_t i) const { int k, c, k2, n2, w; Decode(i, k, c, k2, n2, w); return thorough ? (k2 < 0 || k2 == k) : (InQuick(i) && k2 < 0); }
   static void Fill(rc::AbsField & f, const Kind & k, int from, int n) { for (int j = 0; j < n; j++) { if (k.type == rc::T_MESSAGE) f.msgs.push_back(k.mv[(from + j) % 3]); else f.items.push_back(k.v[(from + j) % 3]); } }
   // returns false if index i is not part of the enumerated set (outside the tier's sub-space, or wrap level beyond the nesting cap)
   bool Make(size_t i, rc::AbsMsg & out, std::string * desc = NULL) const
   {
      if (!thorough && !InQuick(i)) return false;
      int k, c, k2, n2, wrap; Decode(i, k, c, k2, n2, wrap);
      static const char * names[] = {"f", "", "n\xC3\xA9", "four"};   // 1 item: "f"; 2 items: EMPTY field name; 3 items: non-ASCII (UTF-8) name
      static const uint32 whats[] = {0, rc::PROTOCOL_PM00, 0xFFFFFFFFu, 0x80000000u};
      rc::AbsMsg m(whats[(c + wrap) % 4]);
      rc::AbsField f(names[c - 1], kinds[k].type); Fill(f, kinds[k], 0, c); m.fields.push_back(f);
      if (k2 >= 0) { rc::AbsField g("second", kinds[k2].type); Fill(g, kinds[k2], 1, n2); m.fields.push_back(g); }
      if (rc::Depth(m) + wrap > 3) return false;
      for (int w = 0; w < wrap; w++) {
         rc::AbsMsg p(whats[w]); rc::AbsField s("sub", rc::T_MESSAGE); s.msgs.push_back(m); if (w == 1) s.msgs.push_back(m);   // second level holds the Message twice
         rc::AbsField t("tail", rc::T_INT16); t.items.push_back(rc::ItemI16((int16_t)(w + 1)));
         if (w % 2) { p.fields.push_back(t); p.fields.push_back(s); } else { p.fields.push_back(s); p.fields.push_back(t); }
         m = p;
      }
      out = m;
      if (desc) *desc = verif::Fmt("{\"primary\": \"%s\", \"items\": %d, \"second\": \"%s\", \"second_items\": %d, \"wrap\": %d, \"dump\": ", kinds[k].name.c_str(), c, (k2 >= 0) ? kinds[k2].name.c_str() : "-", n2, wrap) + verif::JStr(rc::Dump(m)) + "}";
      return true;
   }
};

// ================================================================ MiniMessage bridge
static bool MiniWalk(const MMessage * mm, rc::AbsMsg & out, std::string & err, int depth = 0)
{
   out = rc::AbsMsg(MMGetWhat(mm)); if (depth > 16) { err = "too deep"; return false; }
   MMessageIterator it = MMGetFieldNameIterator(mm, B_ANY_TYPE); uint32 type = 0; const char * name;
   while ((name = MMGetNextFieldName(&it, &type)) != NULL) {
      rc::AbsField f(name, type); uint32 n = 0;
      uint32 n2 = 0, t2 = 0; if (MMGetFieldInfo(mm, name, B_ANY_TYPE, &n2, &t2) != CB_NO_ERROR || t2 != type) { err = "MMGetFieldInfo disagrees with the iterator"; return false; }
      switch (type) {
      case B_BOOL_TYPE:   { const MBool * p = MMGetBoolField(mm, name, &n); for (uint32 i = 0; p && i < n; i++) f.items.push_back(std::string(1, p[i])); break; }
      case B_INT8_TYPE:   { const int8 * p = MMGetInt8Field(mm, name, &n); for (uint32 i = 0; p && i < n; i++) f.items.push_back(ToBytes(p[i])); break; }
      case B_INT16_TYPE:  { const int16 * p = MMGetInt16Field(mm, name, &n); for (uint32 i = 0; p && i < n; i++) f.items.push_back(ToBytes(p[i])); break; }
      case B_INT32_TYPE:  { const int32 * p = MMGetInt32Field(mm, name, &n); for (uint32 i = 0; p && i < n; i++) f.items.push_back(ToBytes(p[i])); break; }
      case B_INT64_TYPE:  { const int64 * p = MMGetInt64Field(mm, name, &n); for (uint32 i = 0; p && i < n; i++) f.items.push_back(ToBytes(p[i])); break; }
      case B_FLOAT_TYPE:  { const float * p = MMGetFloatField(mm, name, &n); for (uint32 i = 0; p && i < n; i++) f.items.push_back(std::string((const char *)&p[i], 4)); break; }
      case B_DOUBLE_TYPE: { const double * p = MMGetDoubleField(mm, name, &n); for (uint32 i = 0; p && i < n; i++) f.items.push_back(std::string((const char *)&p[i], 8)); break; }
      case B_POINT_TYPE:  { const MPoint * p = MMGetPointField(mm, name, &n); for (uint32 i = 0; p && i < n; i++) f.items.push_back(std::string((const char *)&p[i].x, 4) + std::string((const char *)&p[i].y, 4)); break; }
      case B_RECT_TYPE:   { const MRect * p = MMGetRectField(mm, name, &n); for (uint32 i = 0; p && i < n; i++) f.items.push_back(std::string((const char *)&p[i].left, 4) + std::string((const char *)&p[i].top, 4) + std::string((const char *)&p[i].right, 4) + std::string((const char *)&p[i].bottom, 4)); break; }
      case B_MESSAGE_TYPE: { MMessage ** p = MMGetMessageField(mm, name, &n); for (uint32 i = 0; p && i < n; i++) { if (p[i] == NULL) { err = "NULL sub-MMessage"; return false; } rc::AbsMsg s; if (!MiniWalk(p[i], s, err, depth + 1)) return false; f.msgs.push_back(s); } break; }
      case B_STRING_TYPE: { MByteBuffer ** p = MMGetStringField(mm, name, &n); for (uint32 i = 0; p && i < n; i++) { if (p[i] == NULL || p[i]->numBytes == 0 || (&p[i]->bytes)[p[i]->numBytes - 1] != 0) { err = "string item not a NUL-terminated buffer"; return false; } f.items.push_back(std::string((const char *)&p[i]->bytes, p[i]->numBytes - 1)); } break; }
      default:            { MByteBuffer ** p = MMGetDataField(mm, type, name, &n); for (uint32 i = 0; p && i < n; i++) { if (p[i] == NULL) { err = "NULL data item"; return false; } f.items.push_back(std::string((const char *)&p[i]->bytes, p[i]->numBytes)); } break; }
      }
      if (n != n2) { err = "item count of MMGet*Field disagrees with MMGetFieldInfo"; return false; }
      out.fields.push_back(f);
   }
   return true;
}
static MMessage * MiniBuild(const rc::AbsMsg & a)
{
   MMessage * mm = MMAllocMessage(a.what); if (!mm) return NULL;
   for (size_t fi = 0; fi < a.fields.size(); fi++) {
      const rc::AbsField & f = a.fields[fi]; const char * nm = f.name.c_str(); const uint32 n = (uint32)f.Count(); bool ok = true;
      switch (f.type) {
      case B_BOOL_TYPE:   { MBool * p = MMPutBoolField(mm, MFalse, nm, n); ok = p; for (uint32 i = 0; ok && i < n; i++) p[i] = f.items[i][0] ? MTrue : MFalse; break; }
      case B_INT8_TYPE:   { int8 * p = MMPutInt8Field(mm, MFalse, nm, n); ok = p; for (uint32 i = 0; ok && i < n; i++) p[i] = FromBytes<int8>(f.items[i]); break; }
      case B_INT16_TYPE:  { int16 * p = MMPutInt16Field(mm, MFalse, nm, n); ok = p; for (uint32 i = 0; ok && i < n; i++) p[i] = FromBytes<int16>(f.items[i]); break; }
      case B_INT32_TYPE:  { int32 * p = MMPutInt32Field(mm, MFalse, nm, n); ok = p; for (uint32 i = 0; ok && i < n; i++) p[i] = FromBytes<int32>(f.items[i]); break; }
      case B_INT64_TYPE:  { int64 * p = MMPutInt64Field(mm, MFalse, nm, n); ok = p; for (uint32 i = 0; ok && i < n; i++) p[i] = FromBytes<int64>(f.items[i]); break; }
      case B_FLOAT_TYPE:  { float * p = MMPutFloatField(mm, MFalse, nm, n); ok = p; for (uint32 i = 0; ok && i < n; i++) memcpy(&p[i], f.items[i].data(), 4); break; }
      case B_DOUBLE_TYPE: { double * p = MMPutDoubleField(mm, MFalse, nm, n); ok = p; for (uint32 i = 0; ok && i < n; i++) memcpy(&p[i], f.items[i].data(), 8); break; }
      case B_POINT_TYPE:  { MPoint * p = MMPutPointField(mm, MFalse, nm, n); ok = p; for (uint32 i = 0; ok && i < n; i++) { memcpy(&p[i].x, f.items[i].data(), 4); memcpy(&p[i].y, f.items[i].data() + 4, 4); } break; }
      case B_RECT_TYPE:   { MRect * p = MMPutRectField(mm, MFalse, nm, n); ok = p; for (uint32 i = 0; ok && i < n; i++) { memcpy(&p[i].left, f.items[i].data(), 4); memcpy(&p[i].top, f.items[i].data() + 4, 4); memcpy(&p[i].right, f.items[i].data() + 8, 4); memcpy(&p[i].bottom, f.items[i].data() + 12, 4); } break; }
      case B_MESSAGE_TYPE: { MMessage ** p = MMPutMessageField(mm, MFalse, nm, n); ok = p; for (uint32 i = 0; ok && i < n; i++) { p[i] = MiniBuild(f.msgs[i]); ok = p[i]; } break; }
      case B_STRING_TYPE: { MByteBuffer ** p = MMPutStringField(mm, MFalse, nm, n); ok = p; for (uint32 i = 0; ok && i < n; i++) { p[i] = MBStrdupByteBuffer(f.items[i].c_str()); ok = p[i]; } break; }
      default:            { MByteBuffer ** p = MMPutDataField(mm, MFalse, f.type, nm, n); ok = p; for (uint32 i = 0; ok && i < n; i++) { p[i] = MBAllocByteBuffer((uint32)f.items[i].size(), MFalse); ok = p[i]; if (ok) memcpy(&p[i]->bytes, f.items[i].data(), f.items[i].size()); } break; }
      }
      if (!ok) { MMFreeMessage(mm); return NULL; }
   }
   return mm;
}
static std::string MiniFlatten(const MMessage * mm)
{
   const uint32 n = MMGetFlattenedSize(mm); std::vector<uint8> b(n + 32, 0xA5); MMFlattenMessage(mm, &b[16]);
   for (int i = 0; i < 16; i++) if (b[i] != 0xA5 || b[16 + n + i] != 0xA5) return std::string("FENCE");
   return std::string((const char *)&b[16], n);
}

// ================================================================ MicroMessage bridge
static bool MicroWalk(const UMessage * um, rc::AbsMsg & out, std::string & err, int depth = 0)
{
   out = rc::AbsMsg(UMGetWhatCode(um)); if (depth > 16) { err = "too deep"; return false; }
   UMessageFieldNameIterator it; UMIteratorInitialize(&it, um, B_ANY_TYPE); uint32 seen = 0;
   while (true) {
      uint32 n = 0, type = 0; const char * name = UMIteratorGetCurrentFieldName(&it, &n, &type); if (name == NULL) break;
      rc::AbsField f(name, type); seen++;
      if (UMGetFieldTypeCode(um, name) != type || UMGetNumItemsInField(um, name, type) != n) { err = "UMGetFieldTypeCode/UMGetNumItemsInField disagree with the iterator"; return false; }
      for (uint32 i = 0; i <= n; i++) {
         const bool want = i < n; c_status_t r = CB_ERROR; std::string item; rc::AbsMsg sub;
         switch (type) {
         case B_BOOL_TYPE:   { UBool v = 0; r = UMFindBool(um, name, i, &v); item = std::string(1, v); break; }
         case B_INT8_TYPE:   { int8 v = 0; r = UMFindInt8(um, name, i, &v); item = ToBytes(v); break; }
         case B_INT16_TYPE:  { int16 v = 0; r = UMFindInt16(um, name, i, &v); item = ToBytes(v); break; }
         case B_INT32_TYPE:  { int32 v = 0; r = UMFindInt32(um, name, i, &v); item = ToBytes(v); break; }
         case B_INT64_TYPE:  { int64 v = 0; r = UMFindInt64(um, name, i, &v); item = ToBytes(v); break; }
         case B_FLOAT_TYPE:  { float v = 0; r = UMFindFloat(um, name, i, &v); item = ToBytes(v); break; }
         case B_DOUBLE_TYPE: { double v = 0; r = UMFindDouble(um, name, i, &v); item = ToBytes(v); break; }
         case B_POINT_TYPE:  { UPoint v; memset(&v, 0, sizeof(v)); r = UMFindPoint(um, name, i, &v); item = ToBytes(v.x) + ToBytes(v.y); break; }
         case B_RECT_TYPE:   { URect v; memset(&v, 0, sizeof(v)); r = UMFindRect(um, name, i, &v); item = ToBytes(v.left) + ToBytes(v.top) + ToBytes(v.right) + ToBytes(v.bottom); break; }
         case B_STRING_TYPE: { const char * s = NULL; r = UMFindString(um, name, i, &s); if (r == CB_NO_ERROR && s) item = s; break; }
         case B_MESSAGE_TYPE: { UMessage s; if (want) { r = UMFindMessage(um, name, i, &s); if (r == CB_NO_ERROR && !MicroWalk(&s, sub, err, depth + 1)) return false; } else r = CB_ERROR; break; }   // (UMFindMessage has no upper index check by design of its "paranoia" loop: only asked for valid indices)
         default:            { const void * p = NULL; uint32 nb = 0; r = UMFindData(um, name, type, i, &p, &nb); if (r == CB_NO_ERROR) item.assign((const char *)p, nb); break; }
         }
         if ((r == CB_NO_ERROR) != want) { err = verif::Fmt("UMFind*(%s, %u) returned %s but the field has %u items", name, i, (r == CB_NO_ERROR) ? "success" : "CB_ERROR", n); return false; }
         if (want) { if (type == B_MESSAGE_TYPE) f.msgs.push_back(sub); else f.items.push_back(item); }
      }
      out.fields.push_back(f);
      UMIteratorAdvance(&it);
   }
   if (seen != UMGetNumFields(um)) { err = "iterator length != UMGetNumFields"; return false; }
   return true;
}
// builds `a` with UMAdd* into the supplied buffer (room bytes); returns the flattened bytes or "" on error
static bool MicroBuildInto(UMessage * um, const rc::AbsMsg & a, std::string & err)
{
   for (size_t fi = 0; fi < a.fields.size(); fi++) {
      const rc::AbsField & f = a.fields[fi]; const char * nm = f.name.c_str(); const uint32 n = (uint32)f.Count(); c_status_t r = CB_NO_ERROR;
      switch (f.type) {
      case B_BOOL_TYPE:   { std::vector<UBool> v(n); for (uint32 i = 0; i < n; i++) v[i] = f.items[i][0]; r = UMAddBools(um, nm, &v[0], n); break; }
      case B_INT8_TYPE:   { std::vector<int8> v(n); for (uint32 i = 0; i < n; i++) v[i] = FromBytes<int8>(f.items[i]); r = UMAddInt8s(um, nm, &v[0], n); break; }
      case B_INT16_TYPE:  { std::vector<int16> v(n); for (uint32 i = 0; i < n; i++) v[i] = FromBytes<int16>(f.items[i]); r = UMAddInt16s(um, nm, &v[0], n); break; }
      case B_INT32_TYPE:  { std::vector<int32> v(n); for (uint32 i = 0; i < n; i++) v[i] = FromBytes<int32>(f.items[i]); r = UMAddInt32s(um, nm, &v[0], n); break; }
      case B_INT64_TYPE:  { std::vector<int64> v(n); for (uint32 i = 0; i < n; i++) v[i] = FromBytes<int64>(f.items[i]); r = UMAddInt64s(um, nm, &v[0], n); break; }
      case B_FLOAT_TYPE:  { std::vector<float> v(n); for (uint32 i = 0; i < n; i++) memcpy(&v[i], f.items[i].data(), 4); r = UMAddFloats(um, nm, &v[0], n); break; }
      case B_DOUBLE_TYPE: { std::vector<double> v(n); for (uint32 i = 0; i < n; i++) memcpy(&v[i], f.items[i].data(), 8); r = UMAddDoubles(um, nm, &v[0], n); break; }
      case B_POINT_TYPE:  { std::vector<UPoint> v(n); for (uint32 i = 0; i < n; i++) memcpy(&v[i], f.items[i].data(), 8); r = UMAddPoints(um, nm, &v[0], n); break; }
      case B_RECT_TYPE:   { std::vector<URect> v(n); for (uint32 i = 0; i < n; i++) memcpy(&v[i], f.items[i].data(), 16); r = UMAddRects(um, nm, &v[0], n); break; }
      case B_STRING_TYPE: { std::vector<const char *> v(n); for (uint32 i = 0; i < n; i++) v[i] = f.items[i].c_str(); r = UMAddStrings(um, nm, &v[0], n); break; }
      case B_MESSAGE_TYPE: {
         std::vector<std::vector<uint8> > bufs(n); std::vector<UMessage> subs(n);
         for (uint32 i = 0; i < n && r == CB_NO_ERROR; i++) { bufs[i].resize(rc::Encode(f.msgs[i]).size() + 16); r = UMInitializeToEmptyMessage(&subs[i], &bufs[i][0], (uint32)bufs[i].size(), f.msgs[i].what); if (r == CB_NO_ERROR && !MicroBuildInto(&subs[i], f.msgs[i], err)) return false; }
         if (r == CB_NO_ERROR) r = UMAddMessages(um, nm, &subs[0], n);
         break; }
      default: for (uint32 i = 0; i < n && r == CB_NO_ERROR; i++) r = UMAddData(um, nm, f.type, f.items[i].data(), (uint32)f.items[i].size()); break;
      }
      if (r != CB_NO_ERROR) { err = "UMAdd* failed for field '" + f.name + "'"; return false; }
   }
   return true;
}
static bool MicroBuild(const rc::AbsMsg & a, std::string & bytes, std::string & err)
{
   std::vector<uint8> buf(rc::Encode(a).size() + 64, 0xA5); UMessage um;
   if (UMInitializeToEmptyMessage(&um, &buf[0], (uint32)buf.size() - 16, a.what) != CB_NO_ERROR) { err = "UMInitializeToEmptyMessage failed"; return false; }
   if (!MicroBuildInto(&um, a, err)) return false;
   for (size_t i = buf.size() - 16; i < buf.size(); i++) if (buf[i] != 0xA5) { err = "micro codec wrote past its buffer"; return false; }
   bytes.assign((const char *)UMGetFlattenedBuffer(&um), UMGetFlattenedSize(&um));
   return true;
}

// ================================================================ C++ side helpers
static std::string CppFlatten(const Message & m) { const uint32 n = m.FlattenedSize(); std::vector<uint8> b(n ? n : 1); m.FlattenToBytes(&b[0], n); return std::string((const char *)&b[0], n); }
static bool CppParse(const std::string & bytes, rc::AbsMsg & out, std::string & err)
{
   Message p; status_t r = p.UnflattenFromBytes((const uint8 *)bytes.data(), (uint32)bytes.size());
   if (r.IsError()) { err = std::string("Message::Unflatten: ") + r(); return false; }
   return Extract(p, out, err);
}
// MessageIOGateway (default encoding) -> bytes, through an in-memory DataIO
static bool CppGatewayOut(const Message & m, std::string & stream, std::string & err)
{
   ByteBufferRef bb = GetByteBufferFromPool((uint32)0); DataIORef io(new ByteBufferDataIO(bb));
   MessageIOGateway gw; gw.SetDataIO(io);
   MessageRef mr = GetMessageFromPool(m);
   if (mr() == NULL || gw.AddOutgoingMessage(mr).IsError()) { err = "AddOutgoingMessage failed"; return false; }
   for (int guard = 0; gw.HasBytesToOutput() && guard < 1000; guard++) { io_status_t r = gw.DoOutput(); if (r.IsError()) { err = std::string("DoOutput: ") + r(); return false; } }
   if (gw.HasBytesToOutput()) { err = "gateway output never drained"; return false; }
   stream.assign((const char *)bb()->GetBuffer(), bb()->GetNumBytes());
   return true;
}
// bytes -> MessageIOGateway -> Messages
static bool CppGatewayIn(const std::string & stream, std::vector<rc::AbsMsg> & out, std::string & err)
{
   ByteBufferRef bb = GetByteBufferFromPool((uint32)stream.size(), (const uint8 *)stream.data()); DataIORef io(new ByteBufferDataIO(bb));
   MessageIOGateway gw; gw.SetDataIO(io); QueueGatewayMessageReceiver q;
   for (int guard = 0; guard < 1000; guard++) { io_status_t r = gw.DoInput(q); if (r.IsError()) { err = std::string("DoInput: ") + r(); return false; } if (r.GetByteCount() == 0) break; }
   MessageRef mr; while (q.RemoveHead(mr).IsOK()) { rc::AbsMsg a; if (mr() == NULL || !Extract(*mr(), a, err)) return false; out.push_back(a); }
   return true;
}
struct Cursor { const std::string * s; size_t pos; size_t chunk; std::string sink; };
static int32 RecvCb(uint8 * buf, uint32 n, void * arg) { Cursor * c = (Cursor *)arg; size_t k = std::min((size_t)n, c->s->size() - c->pos); if (c->chunk && k > c->chunk) k = c->chunk; memcpy(buf, c->s->data() + c->pos, k); c->pos += k; return (int32)k; }
static int32 SendCb(const uint8 * buf, uint32 n, void * arg) { Cursor * c = (Cursor *)arg; size_t k = n; if (c->chunk && k > c->chunk) k = c->chunk; c->sink.append((const char *)buf, k); return (int32)k; }

// ================================================================ the per-Message differential check (C++ / refcodec / mini / micro)
#define CFAIL(k, text) do { c.Fail((k), (text)); return; } while (0)
// The same content built the other way round: for every field with >= 2 items the items 1..n-1 are added and item 0 is then PREPENDED (at every
// nesting level, sub-Messages too).  The field arrays are ring buffers; this construction leaves them wrapped, and the wire bytes must not depend on it.
static status_t BuildIntoPrepending(const rc::AbsMsg & a, Message & m)
{
   m.what = a.what;
   for (size_t f = 0; f < a.fields.size(); f++) {
      const rc::AbsField & fl = a.fields[f]; const String name(fl.name.c_str()); const size_t n = fl.Count(); const bool isMsg = (fl.type == rc::T_MESSAGE);
      for (size_t k = 0; k < n; k++) {
         const size_t i = (n >= 2) ? ((k + 1 < n) ? k + 1 : 0) : k;   // 1, 2, .., n-1, then 0
         MessageRef sub; if (isMsg) { sub = GetMessageFromPool(); if (sub() == NULL || BuildIntoPrepending(fl.msgs[i], *sub()).IsError()) return B_ERROR("sub-Message could not be built"); }
         status_t r = isMsg ? ((n >= 2 && i == 0) ? m.PrependMessage(name, sub) : m.AddMessage(name, sub))
                            : PutItem(m, name, fl.type, fl.items[i], NULL, (n >= 2 && i == 0) ? PUT_PREPEND : PUT_ADD);
         if (r.IsError()) return r;
      }
   }
   return B_NO_ERROR;
}

static void CheckCodecs(const Gen & G, size_t i, mutx::Case & c)
{
   rc::AbsMsg model; if (!G.Make(i, model)) { c.Outcome("not-in-set"); return; }
   const std::string mdump = rc::Dump(model); std::string err;
   Message m; if (BuildInto(model, m).IsError()) CFAIL("harness:build", "could not build the C++ Message");
   const std::string bytes = CppFlatten(m);
   // --- C++ == documented layout
   const std::string ref = rc::Encode(model);
   if (bytes != ref) CFAIL("layout:cpp", "C++ Flatten() differs from the documented layout: cpp " + verif::Hex(bytes) + " reference " + verif::Hex(ref));
   { rc::AbsMsg back; if (!CppParse(bytes, back, err) || !rc::Equal(back, model)) CFAIL("parse:cpp", "C++ does not parse its own bytes back to the same content: " + err); }
   // --- C++: the bytes do not depend on how the content was put together
   { Message mw; if (BuildIntoPrepending(model, mw).IsError()) CFAIL("harness:build", "could not build the C++ Message (prepending construction)");
     const std::string wb = CppFlatten(mw); if (wb != ref) CFAIL("layout:cpp:construction-order", "C++ Flatten() of the same content built by Add,..,Add,Prepend (wrapped field arrays) differs from the documented layout: cpp " + verif::Hex(wb) + " reference " + verif::Hex(ref)); }
   // --- mini: parse, content, re-serialise
   {
      MMessage * mm = MMAllocMessage(0x6A756E6B); if (!mm) CFAIL("harness:mini", "MMAllocMessage failed");
      if (MMUnflattenMessage(mm, bytes.data(), (uint32)bytes.size()) != CB_NO_ERROR) { MMFreeMessage(mm); CFAIL("parse:mini", "MMUnflattenMessage rejects the C++ bytes " + verif::Hex(bytes)); }
      rc::AbsMsg got; const bool ok = MiniWalk(mm, got, err); const std::string re = MiniFlatten(mm); const uint32 adv = MMGetFlattenedSize(mm); MMFreeMessage(mm);
      if (!ok) CFAIL("content:mini", "walking the parsed MMessage failed: " + err);
      if (!rc::Equal(got, model)) CFAIL("content:mini", "MiniMessage parsed different content: mini " + rc::Dump(got) + " expected " + mdump);
      if (adv != bytes.size()) CFAIL("size:mini", verif::Fmt("MMGetFlattenedSize %u != %u", adv, (unsigned)bytes.size()));
      if (re != bytes) CFAIL("reflatten:mini", "MMFlattenMessage differs from the C++ bytes: mini " + verif::Hex(re) + " cpp " + verif::Hex(bytes));
   }
   // --- mini native -> C++
   {
      MMessage * mm = MiniBuild(model); if (!mm) CFAIL("native:mini", "building the content with MMPut*Field failed");
      const std::string nb = MiniFlatten(mm); MMFreeMessage(mm);
      rc::AbsMsg back; if (!CppParse(nb, back, err)) CFAIL("accept:mini->cpp", "C++ rejects what MiniMessage produced: " + err + " bytes " + verif::Hex(nb));
      if (!rc::Equal(back, model)) CFAIL("accept:mini->cpp", "C++ parses MiniMessage's bytes to different content: " + rc::Dump(back) + " expected " + mdump);
      if (nb != bytes) CFAIL("native-bytes:mini", "natively built MiniMessage serialises differently: mini " + verif::Hex(nb) + " cpp " + verif::Hex(bytes));
   }
   // --- micro: read API on the C++ bytes
   {
      UMessage um;
      if (UMInitializeWithExistingData(&um, (const uint8 *)bytes.data(), (uint32)bytes.size()) != CB_NO_ERROR) CFAIL("parse:micro", "UMInitializeWithExistingData rejects the C++ bytes");
      rc::AbsMsg got; if (!MicroWalk(&um, got, err)) CFAIL(HasEmptyRawItem(model) ? "content:micro:empty-raw-item" : "content:micro", "MicroMessage read API: " + err + "; message " + mdump);
      if (!rc::Equal(got, model)) CFAIL("content:micro", "MicroMessage read different content: micro " + rc::Dump(got) + " expected " + mdump);
      if (UMGetFlattenedSize(&um) != bytes.size()) CFAIL("size:micro", "UMGetFlattenedSize differs");
   }
   // --- micro native (UMAdd*) -> same bytes -> C++
   {
      std::string nb; if (!MicroBuild(model, nb, err)) CFAIL("native:micro", "building the content with UMAdd* failed: " + err);
      rc::AbsMsg back; if (!CppParse(nb, back, err)) CFAIL("accept:micro->cpp", "C++ rejects what MicroMessage produced: " + err + " bytes " + verif::Hex(nb));
      if (!rc::Equal(back, model)) CFAIL("accept:micro->cpp", "C++ parses MicroMessage's bytes to different content: " + rc::Dump(back) + " expected " + mdump);
      if (nb != bytes) CFAIL("native-bytes:micro", "content rebuilt with UMAdd* serialises differently: micro " + verif::Hex(nb) + " cpp " + verif::Hex(bytes));
   }
   c.Outcome(verif::Hex(bytes));
}

// ================================================================ stream frame: C++ gateway <-> mini gateway <-> micro gateway
static void CheckFrames(const Gen & G, size_t i, mutx::Case & c)
{
   rc::AbsMsg model; if (!G.Make(i, model)) { c.Outcome("not-in-set"); return; }
   std::string err; Message m; if (BuildInto(model, m).IsError()) CFAIL("harness:build", "could not build the C++ Message");
   const std::string body = rc::Encode(model), expect = rc::Framed(body);
   // C++ gateway output == documented frame + body
   std::string cpp; if (!CppGatewayOut(m, cpp, err)) CFAIL("frame:cpp-out", err);
   if (cpp != expect) CFAIL("frame:cpp-out", "MessageIOGateway output differs from frame(body length, 'Enc0') + body: got " + verif::Hex(cpp.substr(0, 8)) + "... expected " + verif::Hex(expect.substr(0, 8)) + "...");
   // two Messages back to back, delivered in 5-byte pieces, into the mini gateway
   const std::string two = cpp + cpp;
   {
      MMessageGateway * g = MGAllocMessageGateway(); if (!g) CFAIL("harness:mini", "MGAllocMessageGateway failed");
      Cursor cur = { &two, 0, 5, "" }; int got = 0; std::string why;
      for (int guard = 0; guard < 100000 && cur.pos < two.size() && why.empty(); guard++) {
         MMessage * mm = NULL; int32 r = MGDoInput(g, ~(uint32)0, RecvCb, &cur, &mm);
         if (r < 0) why = "MGDoInput reported an error";
         if (mm) { rc::AbsMsg a; if (!MiniWalk(mm, a, err) || !rc::Equal(a, model)) why = "mini gateway delivered different content " + err; got++; MMFreeMessage(mm); }
      }
      MGFreeMessageGateway(g);
      if (!why.empty()) CFAIL("frame:cpp->mini", why);
      if (got != 2) CFAIL("frame:cpp->mini", verif::Fmt("mini gateway delivered %d of 2 Messages", got));
   }
   // ... and into the micro gateway
   {
      std::vector<uint8> inb(body.size() + 64), outb(16); UMessageGateway g; UGGatewayInitialize(&g, &inb[0], (uint32)inb.size(), &outb[0], (uint32)outb.size());
      Cursor cur = { &two, 0, 5, "" }; int got = 0; std::string why;
      for (int guard = 0; guard < 100000 && cur.pos < two.size() && why.empty(); guard++) {
         UMessage um; int32 r = UGDoInput(&g, ~(uint32)0, RecvCb, &cur, &um);
         if (r < 0) why = "UGDoInput reported an error";
         if (UMIsMessageValid(&um)) { rc::AbsMsg a; if (!MicroWalk(&um, a, err) || !rc::Equal(a, model)) why = "micro gateway delivered different content " + err; got++; }
      }
      if (!why.empty()) CFAIL(HasEmptyRawItem(model) ? "frame:cpp->micro:empty-raw-item" : "frame:cpp->micro", why);
      if (got != 2) CFAIL("frame:cpp->micro", verif::Fmt("micro gateway delivered %d of 2 Messages", got));
   }
   // micro gateway output
   {
      std::vector<uint8> inb(16), outb(2 * (body.size() + 8) + 64); UMessageGateway g; UGGatewayInitialize(&g, &inb[0], (uint32)inb.size(), &outb[0], (uint32)outb.size());
      Cursor cur = { NULL, 0, 7, "" }; std::string why;
      for (int k = 0; k < 2 && why.empty(); k++) {
         UMessage um = UGGetOutgoingMessage(&g, model.what);
         if (!UMIsMessageValid(&um)) why = "UGGetOutgoingMessage returned an invalid UMessage";
         else if (!MicroBuildInto(&um, model, err)) why = "UMAdd* into the gateway's buffer failed: " + err;
         else UGOutgoingMessagePrepared(&g, &um);
      }
      for (int guard = 0; why.empty() && guard < 100000 && UGHasBytesToOutput(&g); guard++) if (UGDoOutput(&g, ~(uint32)0, SendCb, &cur) < 0) why = "UGDoOutput reported an error";
      if (!why.empty()) CFAIL("frame:micro-out", why);
      if (cur.sink != two) CFAIL("frame:micro-out", "micro gateway stream differs from the C++ gateway stream: header " + verif::Hex(cur.sink.substr(0, 8)) + " expected " + verif::Hex(expect.substr(0, 8)));
      std::vector<rc::AbsMsg> in; if (!CppGatewayIn(cur.sink, in, err)) CFAIL("frame:micro->cpp", "C++ gateway rejects the micro gateway's stream: " + err);
      if (in.size() != 2 || !rc::Equal(in[0], model) || !rc::Equal(in[1], model)) CFAIL("frame:micro->cpp", verif::Fmt("C++ gateway delivered %u Messages / different content", (unsigned)in.size()));
   }
   c.Outcome(verif::Hex(expect.substr(0, 8)));
}

// mini gateway output -> identical stream -> C++ gateway input (its own part: see the note in main)
static void CheckMiniGatewayOut(const Gen & G, size_t i, mutx::Case & c)
{
   rc::AbsMsg model; if (!G.Make(i, model)) { c.Outcome("not-in-set"); return; }
   std::string err; const std::string body = rc::Encode(model), expect = rc::Framed(body), two = expect + expect;
   MMessage * mm = MiniBuild(model); MMessageGateway * g = MGAllocMessageGateway(); if (!mm || !g) CFAIL("harness:mini", "allocation failed");
   Cursor cur = { NULL, 0, 7, "" }; bool ok = (MGAddOutgoingMessage(g, mm) == CB_NO_ERROR) && (MGAddOutgoingMessage(g, mm) == CB_NO_ERROR);
   for (int guard = 0; ok && guard < 100000 && MGHasBytesToOutput(g); guard++) if (MGDoOutput(g, ~(uint32)0, SendCb, &cur) < 0) ok = false;
   MMFreeMessage(mm); MGFreeMessageGateway(g);
   if (!ok) CFAIL("frame:mini-out", "mini gateway output failed");
   if (cur.sink != two) CFAIL("frame:mini-out", "mini gateway stream differs from frame + body: header " + verif::Hex(cur.sink.substr(0, 8)) + " expected " + verif::Hex(expect.substr(0, 8)));
   std::vector<rc::AbsMsg> in; if (!CppGatewayIn(cur.sink, in, err)) CFAIL("frame:mini->cpp", "C++ gateway rejects the mini gateway's stream: " + err);
   if (in.size() != 2 || !rc::Equal(in[0], model) || !rc::Equal(in[1], model)) CFAIL("frame:mini->cpp", verif::Fmt("C++ gateway delivered %u Messages / different content", (unsigned)in.size()));
   c.Outcome(verif::Hex(expect.substr(0, 8)));
}

// ================================================================ Python
struct PyRow { std::string dump, reflat, native, sentHdr, sentBody, recvDump; bool have; PyRow() : have(false) {} };
struct PyData { std::vector<PyRow> rows; std::vector<std::string> flags; std::string error; };

static std::string PyFlags(const rc::AbsMsg & model)
{
   if (!AllTextUTF8(model)) return "x";   // message.py decodes names and strings as UTF-8: outside its repertoire
   std::string f = "p";
   if (!rc::HasNaN(model)) f += "nt";      // native build goes through Python floats: all NaN-carrying Messages excluded there
   return f;
}

static void CheckPython(const Gen & G, const PyData & P, size_t i, mutx::Case & c)
{
   rc::AbsMsg model; if (!G.Make(i, model)) { c.Outcome("not-in-set"); return; }
   const std::string & fl = P.flags[i]; const PyRow & r = P.rows[i];
   if (fl == "x") { c.Outcome("skipped:non-utf8"); return; }
   if (!r.have) CFAIL("harness:python", "no result line from the Python helper: " + P.error);
   const std::string body = rc::Encode(model), mdump = rc::Dump(model); std::string err;
   const std::string sfx = HasNonAsciiName(model) ? ":non-ascii-field-name" : "";   // failure class (the key names the input class that fails, see known_findings)
   const bool cmpParse = !HasNaNInPointRect(model);
   if (r.dump.compare(0, 4, "ERR:") == 0) CFAIL("parse:python" + sfx, "message.py raised while parsing the C++ bytes: " + r.dump);
   if (cmpParse) {
      if (r.dump != mdump) CFAIL("content:python" + sfx, "message.py parsed different content: python " + r.dump + " expected " + mdump);
      if (r.reflat.compare(0, 4, "ERR:") == 0) CFAIL("size:python" + sfx, "message.py: " + r.reflat + " for " + mdump);
      if (r.reflat != verif::Hex(body)) CFAIL("reflatten:python" + sfx, "message.py re-serialises differently: python " + r.reflat + " cpp " + verif::Hex(body));
   }
   if (fl.find('n') != std::string::npos) {
      if (r.native.compare(0, 4, "ERR:") == 0) CFAIL("native:python" + sfx, "building the content with message.py Put* raised: " + r.native);
      std::string nb; if (!verif::UnHex(r.native, nb)) CFAIL("harness:python", "bad hex from helper");
      rc::AbsMsg back; if (!CppParse(nb, back, err)) CFAIL("accept:python->cpp" + sfx, "C++ rejects what message.py produced: " + err + " bytes " + r.native + " expected " + verif::Hex(body));
      if (!rc::Equal(back, model)) CFAIL("accept:python->cpp" + sfx, "C++ parses message.py's bytes to different content: " + rc::Dump(back) + " expected " + mdump);
      if (nb != body) CFAIL("native-bytes:python" + sfx, "natively built Python Message serialises differently: python " + r.native + " cpp " + verif::Hex(body));
   }
   if (fl.find('t') != std::string::npos) {
      if (r.sentHdr == "-" && r.recvDump == "-") CFAIL("harness:python", "the transceiver exercise did not run for this case");
      if (r.sentHdr.compare(0, 4, "ERR:") == 0) CFAIL("frame:python-out" + sfx, "MessageTransceiverThread: " + r.sentHdr);
      if (r.sentHdr != verif::Hex(rc::Frame((uint32_t)body.size()))) CFAIL("frame:python-out" + sfx, "message_transceiver_thread.py frame header " + r.sentHdr + " expected " + verif::Hex(rc::Frame((uint32_t)body.size())) + " for " + mdump);
      if (r.sentBody != verif::Hex(body)) CFAIL("frame:python-out" + sfx, "message_transceiver_thread.py sent a different body");
      if (r.recvDump.compare(0, 4, "ERR:") == 0) CFAIL("frame:cpp->python" + sfx, "MessageTransceiverThread: " + r.recvDump);
      if (r.recvDump != mdump) CFAIL("frame:cpp->python" + sfx, "MessageTransceiverThread delivered different content for the C++ gateway's stream: " + r.recvDump + " expected " + mdump);
   }
   c.Outcome(fl + ":" + r.reflat);
}

static std::string MkTempDir() { char t[] = "/tmp/c08_XXXXXX"; return mkdtemp(t) ? std::string(t) : std::string(); }

// runs the helper once over all cases; body bytes and gateway frames are produced by the real C++ code in forked children
static void RunPython(const Gen & G, const verif::Args & args, PyData & P, bool withMtt)
{
   const size_t N = G.Count(); P.rows.assign(N, PyRow()); P.flags.assign(N, "x");
   std::vector<verif::ParRecord> recs;
   verif::ParMap(N, args.workers, [&](size_t i, std::string & rec) {
      rc::AbsMsg model; if (!G.Make(i, model)) { rec = "dup"; return; }
      Message m; std::string err, stream;
      if (BuildInto(model, m).IsError() || !CppGatewayOut(m, stream, err) || stream.size() < 8) { rec = "err"; return; }
      rec = PyFlags(model) + " " + verif::Hex(stream.substr(8)) + " " + verif::Hex(stream.substr(0, 8)) + " " + rc::Dump(model);
   }, recs);
   const std::string dir = MkTempDir(); if (dir.empty()) { P.error = "mkdtemp failed"; return; }
   const std::string in = dir + "/in.txt", out = dir + "/out.txt";
   FILE * f = fopen(in.c_str(), "w"); if (!f) { P.error = "cannot write " + in; return; }
   for (size_t r = 0; r < recs.size(); r++) {
      const std::string & d = recs[r].data; if (d == "dup" || d == "err") continue;
      P.flags[recs[r].idx] = d.substr(0, d.find(' '));
      if (P.flags[recs[r].idx] != "x") fprintf(f, "%llu %s\n", (unsigned long long)recs[r].idx, d.c_str());
   }
   fclose(f);
   const char * root = getenv("VERIF_ROOT"); const char * repo = getenv("VERIF_REPO");
   const std::string cmd = std::string("python3 '") + (root ? root : "/verif") + "/harness/C08_pycodec.py' '" + (repo ? repo : "/repo") + "' '" + in + "' '" + out + "'" + (withMtt ? " mtt" : "") + " 2>'" + dir + "/err.txt'";
   const int rcode = system(cmd.c_str());
   if (rcode != 0) { P.error = verif::Fmt("python helper exit status %d", rcode); FILE * e = fopen((dir + "/err.txt").c_str(), "r"); if (e) { char buf[2000]; size_t n = fread(buf, 1, sizeof(buf) - 1, e); buf[n] = 0; P.error += std::string(": ") + buf; fclose(e); } }
   FILE * o = fopen(out.c_str(), "r");
   if (o) {
      std::string line; int ch;
      while (true) {
         ch = fgetc(o);
         if (ch == '\n' || ch == EOF) {
            if (!line.empty()) {
               std::vector<std::string> p; size_t s = 0; while (true) { size_t e = line.find(' ', s); p.push_back(line.substr(s, e == std::string::npos ? std::string::npos : e - s)); if (e == std::string::npos) break; s = e + 1; }
               if (p.size() == 7) { size_t idx = (size_t)strtoull(p[0].c_str(), NULL, 10); if (idx < N) { PyRow & r = P.rows[idx]; r.dump = p[1]; r.reflat = p[2]; r.native = p[3]; r.sentHdr = p[4]; r.sentBody = p[5]; r.recvDump = p[6]; r.have = true; } }
            }
            line.clear(); if (ch == EOF) break;
         } else line += (char)ch;
      }
      fclose(o);
   }
   if (getenv("VERIF_C08_KEEP")) fprintf(stderr, "C08: helper files kept in %s\n", dir.c_str());
   else { const std::string rm = "rm -rf '" + dir + "'"; if (system(rm.c_str())) {} }
}

int main(int argc, char ** argv)
{
   verif::Args args; args.Parse(argc, argv);
   verif::Result res; res.harness = "C08_crosscodec";
   if (!HostIsLittleEndian()) { res.infra_errors.push_back("host is not little-endian"); return res.Write(args); }
   Gen G(args.Thorough() || !args.replay.empty()); const size_t N = G.Count();
   auto desc = [&](size_t i) -> std::string { rc::AbsMsg m; std::string d; return G.Make(i, m, &d) ? d : std::string("{\"not_in_set\": true}"); };
   size_t inSet = 0, distinct = 0, pyRun = 0, pyNative = 0, pySkipped = 0;
   { rc::AbsMsg m; std::set<verif::Hash128> uniq; for (size_t i = 0; i < N; i++) if (G.Make(i, m)) { inSet++; uniq.insert(verif::HashStr(rc::Dump(m))); distinct = uniq.size(); std::string f = PyFlags(m); if (f == "x") pySkipped++; else { pyRun++; if (f.find('n') != std::string::npos) pyNative++; } } }
   const std::string setText = verif::Fmt("every Message of the generated set: primary field of each of %u kinds (bool, int8/16/32/64, 3 float and 3 double value sets incl. +-0, signalling/quiet NaN with payload, +-inf, denormal, max; UTF-8 string incl. empty and 2/3/4-byte sequences; non-UTF-8 string; point and rect with and without NaN; B_RAW_TYPE incl. a buffer holding the protocol magic and zero-length buffers (also as last item); raw with a private type code; nested Message (empty / with fields / with sub-sub-Messages)) x %s items (field name 'f' / EMPTY / non-ASCII UTF-8 / 'four') x (no second field | a second field of each kind with %s items) x wrapped 0..3 times into parent Messages (the second level holding it twice, sibling int16 field before or after), nesting capped at 3: %u cases, %u distinct Messages (index space of %u; an index outside the tier's sub-space or beyond the nesting cap is not a case; some kinds share values, so a few cases coincide).", (unsigned)G.NK(), args.Thorough() ? "1..4" : "1..3", args.Thorough() ? "1..3" : "2", (unsigned)inSet, (unsigned)distinct, (unsigned)N);
   // MUTX counts every index it visits; report the cases that are really Messages of the set
   auto fixCounts = [&](verif::Part & p, size_t ran) {
      // engine quirk (engines/mutx/mutx.h): a stride whose LAST case died keeps nextStart < n, and the run is then flagged "deadline: n of n cases run"
      // although every case was executed; all n executed => complete
      if (!p.exhaustive && p.cap == verif::Fmt("deadline: %llu of %llu cases run", (unsigned long long)N, (unsigned long long)N)) { p.exhaustive = true; p.cap.clear(); } p.transitions = p.evaluations = ran; if (ran < N && p.distinct_outcomes > 0) p.distinct_outcomes--; p.states = p.distinct_outcomes; p.extra["index_space"] = verif::Fmt("%llu", (unsigned long long)N); };

   if (!args.replay.empty()) {
      verif::ReplayDoc d; if (!d.Load(args.replay)) { fprintf(stderr, "cannot read %s\n", args.replay.c_str()); return 3; }
      const std::string part = d.Str("part"); const size_t idx = (size_t)d.Int("index");
      if (part == "codecs") { mutx::Runner R(args, res, "codecs"); return R.ReplayIndex(idx, [&](size_t i, mutx::Case & c) { CheckCodecs(G, i, c); }, desc); }
      if (part == "mini-gateway-out") { mutx::Runner R(args, res, "mini-gateway-out"); return R.ReplayIndex(idx, [&](size_t i, mutx::Case & c) { CheckMiniGatewayOut(G, i, c); }, desc); }
      if (part == "stream-frame") { mutx::Runner R(args, res, "stream-frame"); return R.ReplayIndex(idx, [&](size_t i, mutx::Case & c) { CheckFrames(G, i, c); }, desc); }
      if (part == "python") { PyData P; RunPython(G, args, P, true); mutx::Runner R(args, res, "python"); return R.ReplayIndex(idx, [&](size_t i, mutx::Case & c) { CheckPython(G, P, i, c); }, desc); }
      fprintf(stderr, "unknown part '%s'\n", part.c_str()); return 3;
   }
   const double budget = args.deadline * 0.9;
   if (args.WantPart("codecs")) {
      mutx::Runner R(args, res, "codecs"); R.SetCpuLimit(20); R.SetDeadline(args.t0 + budget * 0.4);
      verif::Part & p = R.Run(N, [&](size_t i, mutx::Case & c) { CheckCodecs(G, i, c); }, desc);
      p.rule = setText + " Per Message M (4 programs + reference): bytes = C++ Flatten(M); bytes == ref/refcodec.h's encoding of the abstract content (documented layout, independent of muscle); C++ parses them back to the same content; MMUnflattenMessage(bytes) -> field walk == content, MMGetFlattenedSize/MMFlattenMessage == bytes; UMInitializeWithExistingData(bytes) -> field walk through UMFind* == content (every index 0..count, one past the end must fail); the same content built natively with MMPut*Field and with UMAdd* serialises to the same bytes and Message::Unflatten accepts them with equal content.";
      fixCounts(p, inSet); p.extra["programs"] = "4"; p.extra["programs_compared"] = "[\"C++ Message\", \"ref/refcodec.h (documented layout)\", \"C MiniMessage\", \"C MicroMessage\"]";
      p.extra["disagreements_checked"] = verif::Fmt("%llu", (unsigned long long)inSet * 9); p.extra["distinct_messages"] = verif::Fmt("%llu", (unsigned long long)distinct);
      fprintf(stderr, "C08 codecs: cases=%llu outcomes=%llu wall=%.1fs\n", (unsigned long long)p.transitions, (unsigned long long)p.distinct_outcomes, p.wall_s);
   }
   if (args.WantPart("stream-frame")) {
      mutx::Runner R(args, res, "stream-frame"); R.SetCpuLimit(20); R.SetDeadline(args.t0 + budget * 0.55);
      verif::Part & p = R.Run(N, [&](size_t i, mutx::Case & c) { CheckFrames(G, i, c); }, desc);
      p.rule = setText + " Per Message: the bytes a real MessageIOGateway (default encoding) writes into an in-memory ByteBufferDataIO == refcodec frame (u32 body length, u32 'Enc0') + body; that stream, two Messages back to back fed in 5-byte pieces, is consumed by MGDoInput (mini) and UGDoInput (micro) which deliver both Messages with the same content; UGGetOutgoingMessage+UMAdd*+UGOutgoingMessagePrepared/UGDoOutput (7-byte pieces) produce the identical stream, which a MessageIOGateway reading from a ByteBufferDataIO turns back into two equal Messages.";
      fixCounts(p, inSet); p.extra["programs"] = "3"; p.extra["programs_compared"] = "[\"C++ MessageIOGateway\", \"C MiniMessageGateway (input side)\", \"C MicroMessageGateway\"]"; p.extra["disagreements_checked"] = verif::Fmt("%llu", (unsigned long long)inSet * 5);
      fprintf(stderr, "C08 stream-frame: cases=%llu outcomes=%llu wall=%.1fs\n", (unsigned long long)p.transitions, (unsigned long long)p.distinct_outcomes, p.wall_s);
   }
   if (args.WantPart("mini-gateway-out")) {
      // The output side of the mini gateway is a part of its own: on the pinned tree MGAddOutgoingMessage trips UBSan (misaligned pointer store) on
      // every call, which ends the case's process; kept apart, that finding cannot mask the other gateway comparisons.  Quick tier: the Messages
      // without a second field; thorough tier: also those whose second field has the primary's kind (each death costs ~0.1 s of symbolisation).
      const bool all = args.Thorough(); size_t ran = 0; { rc::AbsMsg m; for (size_t i = 0; i < N; i++) if (G.MiniOutSelected(i) && G.Make(i, m)) ran++; }
      mutx::Runner R(args, res, "mini-gateway-out"); R.SetCpuLimit(20); R.SetDeadline(args.t0 + budget * 0.7);
      verif::Part & p = R.Run(N, [&](size_t i, mutx::Case & c) { if (!G.MiniOutSelected(i)) { c.Outcome("not-in-set"); return; } CheckMiniGatewayOut(G, i, c); }, desc);
      p.rule = setText + verif::Fmt(" Per Message (%s: %u Messages): the content built natively with MMPut*Field is queued twice with MGAddOutgoingMessage and drained by MGDoOutput in 7-byte pieces; the stream must equal refcodec frame + body twice, and a C++ MessageIOGateway reading it from a ByteBufferDataIO must deliver two Messages with the same content.", all ? "thorough tier: the Messages without a second field or with a second field of the primary's kind" : "quick tier: the Messages without a second field", (unsigned)ran);
      fixCounts(p, ran); p.extra["programs"] = "2"; p.extra["programs_compared"] = "[\"C MiniMessageGateway (output side)\", \"C++ MessageIOGateway\"]"; p.extra["disagreements_checked"] = verif::Fmt("%llu", (unsigned long long)ran * 2); p.extra["messages_run"] = verif::Fmt("%llu", (unsigned long long)ran);
      fprintf(stderr, "C08 mini-gateway-out: cases=%llu outcomes=%llu wall=%.1fs\n", (unsigned long long)p.transitions, (unsigned long long)p.distinct_outcomes, p.wall_s);
   }
   if (args.WantPart("python")) {
      PyData P; const double t0 = verif::NowS(); RunPython(G, args, P, true);
      if (!P.error.empty()) res.infra_errors.push_back("python helper: " + P.error);
      mutx::Runner R(args, res, "python"); R.SetCpuLimit(20); R.SetDeadline(args.t0 + budget);
      verif::Part & p = R.Run(N, [&](size_t i, mutx::Case & c) { CheckPython(G, P, i, c); }, desc);
      p.wall_s = verif::NowS() - t0;
      p.rule = setText + verif::Fmt(" One python3 process (harness/C08_pycodec.py) imports lang/python3/message.py and handles the whole batch: SetFromFlattenedBuffer(C++ bytes) -> canonical dump of the objects it built == content, GetFlattenedBuffer() == C++ bytes, FlattenedSize() == length; the same content built natively with Put* serialises to the same bytes and Message::Unflatten accepts them with equal content; every natively built Message is also sent through a real MessageTransceiverThread over a loopback TCP connection inside the helper (its 8 frame bytes == refcodec frame, body == C++ bytes) and the C++ MessageIOGateway's frame+body is written to that connection and must be delivered as a Message with the same content. Exclusions (Python only, stated): %u Messages with a field name or string that is not UTF-8 are not given to Python at all (message.py decodes text as UTF-8); parse/re-serialise comparison is skipped for Messages with a NaN inside a point or rect (message.py unpacks those into Python floats and struct.pack('<f') may quieten a signalling NaN); native build and transceiver run for the %u NaN-free Messages only (Python floats are doubles). Float and double ARRAYS with NaN are compared (message.py keeps them as raw array bytes).", (unsigned)pySkipped, (unsigned)pyNative);
      fixCounts(p, inSet); p.extra["programs"] = "2"; p.extra["programs_compared"] = "[\"C++ Message / MessageIOGateway\", \"Python message.py / message_transceiver_thread.py\"]";
      p.extra["disagreements_checked"] = verif::Fmt("%llu", (unsigned long long)(pyRun * 3 + pyNative * 5)); p.extra["python_parse_cases"] = verif::Fmt("%llu", (unsigned long long)pyRun); p.extra["python_native_and_transceiver_cases"] = verif::Fmt("%llu", (unsigned long long)pyNative); p.extra["python_skipped_non_utf8"] = verif::Fmt("%llu", (unsigned long long)pySkipped);
      fprintf(stderr, "C08 python: cases=%llu outcomes=%llu wall=%.1fs\n", (unsigned long long)p.transitions, (unsigned long long)p.distinct_outcomes, p.wall_s);
   }
   // documentation check (observation only): the annotated example at the end of iogateway/MessageIOGateway.h
   {
      rc::AbsMsg ex(2);
      { rc::AbsField f("!SnKy", rc::T_STRING); f.items.push_back("/*/*/beshare"); ex.fields.push_back(f); }
      { rc::AbsField f("session", rc::T_STRING); f.items.push_back("123"); ex.fields.push_back(f); }
      { rc::AbsField f("text", rc::T_STRING); f.items.push_back("Hi!"); ex.fields.push_back(f); }
      Message real; const size_t n = BuildInto(ex, real).IsOK() ? real.FlattenedSize() : 0;
      if (n != 88) res.observations.push_back(verif::Fmt("the annotated byte dump at the end of iogateway/MessageIOGateway.h (88-byte body) omits, per field, the payload-length word and the string item-count word that Message::Flatten's layout comment and the variable-size field's \"Format:\" comment describe and that every implementation compared here writes; the C++ Message class serialises the example Message to %u bytes (reference codec: %u)", (unsigned)n, (unsigned)rc::Encode(ex).size()));
   }
   return res.Write(args);
}
