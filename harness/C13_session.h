// C13 helper: an l1::Session subclass that exposes the protected subtree API of StorageReflectSession through two extra
// commands, the way a customised daemon would call it from its own MessageReceivedFromGateway() (so the calls run inside a
// normal command context and are followed by the normal after-message subscription flush):
//    C13_CMD_CLONE    {src, dst, times}   CloneDataNodeSubtree(*GetDataNode(src), dst), `times` times in a row
//    C13_CMD_RESTORE  {node, remove}      SaveNodeTreeToMessage(node); RemoveDataNodes(remove); RestoreNodeTreeFromMessage(saved, node)
// Use:  world.makeSession = a function returning new c13::C13Session(host).   Include after harness/reflector_l1.h.
#ifndef VERIF_C13_SESSION_H
#define VERIF_C13_SESSION_H

#include "harness/reflector_l1.h"

namespace c13 {

enum { C13_CMD_CLONE = 0x63313363 /* 'c13c' */, C13_CMD_RESTORE = 0x63313372 /* 'c13r' */ };

static std::string g_apiError;   // set when one of the protected calls returned an error (none is expected in the harness's domain)

class C13Session : public l1::Session
{
public:
   explicit C13Session(const std::string & host) : l1::Session(host) {}
   virtual const char * GetTypeName() const { return "C13Session"; }

   virtual void MessageReceivedFromGateway(const muscle::MessageRef & msg, void * userData)
   {
      if (msg() && msg()->what == C13_CMD_CLONE) {
         const muscle::String src = msg()->GetString("src"), dst = msg()->GetString("dst");
         const int32_t times = msg()->GetInt32("times", 1);
         for (int32_t i = 0; i < times; i++) {
            muscle::DataNode * n = GetDataNode(src);
            if (n == NULL) { g_apiError = "clone: source node not found"; return; }
            const muscle::status_t r = CloneDataNodeSubtree(*n, dst);
            if (r.IsError()) { g_apiError = std::string("CloneDataNodeSubtree returned ") + r(); return; }
         }
         return;
      }
      if (msg() && msg()->what == C13_CMD_RESTORE) {
         const muscle::String node = msg()->GetString("node"), rm = msg()->GetString("remove");
         muscle::DataNode * n = GetDataNode(node);
         if (n == NULL) { g_apiError = "restore: node not found"; return; }
         muscle::Message saved;
         muscle::status_t r = SaveNodeTreeToMessage(saved, n, "", true);
         if (r.IsError()) { g_apiError = std::string("SaveNodeTreeToMessage returned ") + r(); return; }
         r = RemoveDataNodes(rm);
         if (r.IsError()) { g_apiError = std::string("RemoveDataNodes returned ") + r(); return; }
         r = RestoreNodeTreeFromMessage(saved, node, true);
         if (r.IsError()) { g_apiError = std::string("RestoreNodeTreeFromMessage returned ") + r(); return; }
         return;
      }
      l1::Session::MessageReceivedFromGateway(msg, userData);
   }
};

static inline l1::MessageRef CloneCommand(const std::string & src, const std::string & dst, int times)
{
   l1::MessageRef m = l1::NewMsg(C13_CMD_CLONE); (void) m()->AddString("src", src.c_str()); (void) m()->AddString("dst", dst.c_str()); (void) m()->AddInt32("times", times); return m;
}
static inline l1::MessageRef SaveRemoveRestoreCommand(const std::string & node, const std::string & remove)
{
   l1::MessageRef m = l1::NewMsg(C13_CMD_RESTORE); (void) m()->AddString("node", node.c_str()); (void) m()->AddString("remove", remove.c_str()); return m;
}

}  // namespace c13

#endif
