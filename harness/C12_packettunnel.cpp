// C12 -- The packet tunnel never delivers a Message that was not sent.
//
// (a) faults-*: SEQX graph exploration.  Real sender gateways (PacketTunnelIOGateway / MiniPacketTunnelIOGateway, with and without a
//     slave MessageIOGateway, one or several senders distinguished by source address) produce a packet log; the alphabet is
//     "deliver packet k (with the source address of its sender) to the receiver gateway".  Every delivery word -- i.e. every pattern
//     of loss, duplication and reordering -- is explored as a graph whose states are the receiver's private receive state; on every
//     transition each Message handed to the receiver must be bit-identical to a Message sent FROM THAT SOURCE.
// (b) exact-*: MUTX-style exhaustive enumeration (no hashing): for every gateway configuration, every MTU and every Message size
//     in the stated ranges the packets are delivered once and in order; delivered must equal sent (minus the Messages the mini
//     tunnel documents it drops), in order, exactly once, and no packet may exceed the MTU.
#include "engines/seqx/seqx.h"
#include "engines/mutx/mutx.h"
#include "iogateway/PacketTunnelIOGateway.h"
#include "iogateway/MiniPacketTunnelIOGateway.h"
#include "iogateway/MessageIOGateway.h"
#include "dataio/ByteBufferPacketDataIO.h"
#include "dataio/ByteBufferDataIO.h"
#include "dataio/PacketizedProxyDataIO.h"
#include "syslog/SysLog.h"

using namespace muscle;

// ---------------------------------------------------------------- Messages
// payload < 0: a Message without fields (12 bytes flattened); otherwise one raw-data field "d" of `payload` bytes (34+payload bytes).
// shape 0: incompressible-looking byte pattern derived from the seed; shape 1: long runs (so that the mini tunnel's zlib stage really compresses)
struct MsgSpec { uint32 what; int payload; int seed; int shape; };
static const int FIELD_OVERHEAD = 34;  // verified at run time against Message::FlattenedSize()
static int FlatSizeOf(const MsgSpec & s) { return (s.payload < 0) ? 12 : FIELD_OVERHEAD + s.payload; }
static MsgSpec SpecForFlatSize(uint32 what, int flat, int seed, int shape = 0) { MsgSpec s; s.what = what; s.payload = (flat <= 12) ? -1 : flat - FIELD_OVERHEAD; s.seed = seed; s.shape = shape; return s; }
static bool ReachableFlatSize(int flat) { return flat == 12 || flat > FIELD_OVERHEAD; }   // (a zero-byte raw field is not used)

static MessageRef MakeMsg(const MsgSpec & s)
{
   MessageRef m = GetMessageFromPool(s.what);
   if (m() && s.payload >= 0) {
      std::string b((size_t)s.payload, '\0');
      for (int i = 0; i < s.payload; i++) b[i] = (char)((s.shape == 1) ? (s.seed + (i / 24)) : (s.seed * 37 + i * 7 + (i >> 8) * 3 + 1));
      (void) m()->AddData("d", B_RAW_TYPE, b.data(), (uint32)b.size());
   }
   return m;
}
static std::string Flat(const Message & m) { std::string s(m.FlattenedSize(), '\0'); if (!s.empty()) m.FlattenToBytes((uint8 *)&s[0], (uint32)s.size()); return s; }

// ---------------------------------------------------------------- gateway configurations
enum { K_TUNNEL = 0, K_MINI = 1 };
enum { IO_PACKET = 0, IO_PACKETIZED_STREAM = 1 };
struct GwCfg { int kind; bool slave; int comp; uint32 mtu; int io; };
static uint32 MinMtu(int kind) { return (kind == K_TUNNEL) ? 25 : 17; }
static uint32 EffMtu(const GwCfg & c) { return std::max(c.mtu, MinMtu(c.kind)); }   // both constructors document this clamping
static uint32 PerChunkOverhead(int kind) { return (kind == K_TUNNEL) ? 24 : 16; }
static std::string CfgName(const GwCfg & c)
{
   std::string n = (c.kind == K_TUNNEL) ? "tunnel" : "mini";
   if (c.slave) n += "+slave"; if (c.comp) n += verif::Fmt("+zlib%d", c.comp); if (c.io == IO_PACKETIZED_STREAM) n += "+packetized-stream";
   return n;
}

struct Gw {
   AbstractMessageIOGatewayRef gw; PacketTunnelIOGateway * t; MiniPacketTunnelIOGateway * m; MessageIOGateway * slave;
   Gw() : t(NULL), m(NULL), slave(NULL) {}
   void Build(const GwCfg & c)
   {
      AbstractMessageIOGatewayRef sl; if (c.slave) { slave = new MessageIOGateway; sl.SetRef(slave); }
      if (c.kind == K_TUNNEL) { t = new PacketTunnelIOGateway(sl, c.mtu); gw.SetRef(t); }
      else { m = new MiniPacketTunnelIOGateway(sl, c.mtu); gw.SetRef(m); if (c.comp) m->SetZLibCompressionLevel((uint8)c.comp); }
   }
};

static IPAddressAndPort Src(int i)
{
   switch (i) {
   case 0: return IPAddressAndPort(IPAddress(0x0a000001), 4000);
   case 1: return IPAddressAndPort(IPAddress(0x0a000002), 4000);
   case 2: return IPAddressAndPort(IPAddress(0x0a000001), 4001);   // same host as source 0, other port
   default: return IPAddressAndPort(IPAddress(0x0b000000 + (uint64)i), 5000);
   }
}

// ---------------------------------------------------------------- receiver side collector
struct Delivered { std::string flat; bool hasUd; IPAddressAndPort ud; bool hasTag; IPAddressAndPort tag; };
class Collector : public AbstractGatewayMessageReceiver {
public:
   std::vector<Delivered> items;
   virtual void MessageReceivedFromGateway(const MessageRef & msg, void * ud)
   {
      Delivered d; d.hasUd = (ud != NULL); if (ud) d.ud = *static_cast<const IPAddressAndPort *>(ud);
      d.hasTag = false;
      if (msg() == NULL) { d.flat = "<null MessageRef>"; items.push_back(d); return; }
      Message copy(*msg());
      // calibration: in packet mode the slave MessageIOGateway tags every received Message with its source; check and strip it
      d.hasTag = copy.FindFlat(PR_NAME_PACKET_REMOTE_LOCATION, d.tag).IsOK();
      if (copy.HasName(PR_NAME_PACKET_REMOTE_LOCATION)) (void) copy.RemoveName(PR_NAME_PACKET_REMOTE_LOCATION);
      d.flat = Flat(copy);
      items.push_back(d);
   }
};

// ---------------------------------------------------------------- sender => packet log
struct Packet { std::string bytes; int src; };
struct SenderSpec { int src; uint32 startId; std::vector<MsgSpec> msgs; };

// runs a real sender gateway over a ByteBufferPacketDataIO and appends what it emits to `log`
static bool RunSender(const GwCfg & c, const SenderSpec & s, std::vector<Packet> & log, std::vector<std::string> & sentFlat, std::string & err)
{
   Gw tx; tx.Build(c);
   ByteBufferPacketDataIO io(EffMtu(c));
   tx.gw()->SetDataIO(DummyDataIORef(io));
   if (s.startId && tx.t) tx.t->_sendMessageIDCounter = s.startId;   // DESIGN C12: message-id counter started near 2^32 so that ids wrap
   for (size_t i = 0; i < s.msgs.size(); i++) {
      MessageRef m = MakeMsg(s.msgs[i]);
      if (m() == NULL || (int)m()->FlattenedSize() != FlatSizeOf(s.msgs[i])) { err = "harness size model wrong"; return false; }
      sentFlat.push_back(Flat(*m()));
      if (tx.gw()->AddOutgoingMessage(m).IsError()) { err = "AddOutgoingMessage failed"; return false; }
   }
   for (int guard = 0; guard < 1000000; guard++) { io_status_t r = tx.gw()->DoOutput(); if (r.IsError()) { err = "DoOutput error"; return false; } if (r.GetByteCount() <= 0) break; }
   if (tx.gw()->HasBytesToOutput()) { err = "sender still has bytes to output after DoOutput returned 0"; return false; }
   const Queue<ByteBufferRefAndIPAddressAndPort> & q = io.GetWrittenBuffers();
   for (uint32 i = 0; i < q.GetNumItems(); i++) { Packet p; p.src = s.src; const ByteBuffer * b = q[i].GetByteBufferRef()(); p.bytes.assign((const char *)b->GetBuffer(), b->GetNumBytes()); log.push_back(p); }
   tx.gw()->SetDataIO(DataIORef());
   return true;
}

// ================================================================================================ (a) SEQX: every delivery word
struct Scenario {
   std::string name; GwCfg cfg; std::vector<SenderSpec> senders; bool preloadStart;
   // filled by Prepare() (computed in a forked child so that the exploring processes never ran a sender: no recycled sender buffers)
   std::vector<Packet> log; std::vector<std::vector<std::string> > sentBySrc; std::vector<int> sentOrderSrc; std::vector<std::string> sentOrder;
   Scenario() : preloadStart(false) {}
};

static void PutStr(std::string & o, const std::string & s) { uint32_t n = (uint32_t)s.size(); o.append((const char *)&n, 4); o += s; }
static bool GetStr(const std::string & d, size_t & off, std::string & s) { if (off + 4 > d.size()) return false; uint32_t n; memcpy(&n, d.data() + off, 4); off += 4; if (off + n > d.size()) return false; s.assign(d.data() + off, n); off += n; return true; }

struct FWorld {
   Gw rx; ByteBufferPacketDataIO * io; Collector col; std::string outcome; int lastInflated;
   FWorld() : io(NULL), lastInflated(-1) {}
   ~FWorld() { if (rx.gw()) rx.gw()->SetDataIO(DataIORef()); delete io; }
};

class FaultModel {
public:
   const Scenario & sc;
   FaultModel(const Scenario & s) : sc(s) {}
   typedef FWorld World;
   int NumStarts() const { return (sc.preloadStart && sc.cfg.kind == K_TUNNEL) ? 2 : 1; }
   int NumOps() const { return (int)sc.log.size(); }
   std::string StartName(int s) const { return s == 0 ? "fresh receiver" : "receiver holding 257 half-received Messages from other sources (so that a new source evicts the oldest state)"; }
   std::string OpName(int i) const
   {
      const Packet & p = sc.log[i]; std::string what;
      if (sc.cfg.kind == K_TUNNEL) {
         // list the fragments in this packet: id/offset/size/total
         size_t off = 0; while (off + 24 <= p.bytes.size()) { uint32_t w[6]; memcpy(w, p.bytes.data() + off, 24); what += verif::Fmt("%s[id=%u off=%u len=%u of %u]", what.empty() ? "" : "+", w[2], w[3], w[4], w[5]); off += 24 + w[4]; }
      } else what = verif::Fmt("[%u bytes%s]", (unsigned)p.bytes.size(), (p.bytes.size() >= 12 && p.bytes[11]) ? ", deflated" : "");
      return verif::Fmt("deliver pkt%d from src%d ", i, p.src) + what;
   }
   void Init(World & w, int start) const
   {
      SetConsoleLogLevel(MUSCLE_LOG_NONE);
      w.rx.Build(sc.cfg);
      w.io = new ByteBufferPacketDataIO(EffMtu(sc.cfg));
      w.rx.gw()->SetDataIO(DummyDataIORef(*w.io));
      if (start == 1) {
         Collector scratch;
         // the first packet of the log starts with a fragment at offset 0, so it creates a receive state for each foreign source
         for (int i = 0; i < 257; i++) { ByteBufferRef b = GetByteBufferFromPool((uint32)sc.log[0].bytes.size(), (const uint8 *)sc.log[0].bytes.data()); w.io->SetBuffersToRead(b, Src(100 + i)); (void) w.rx.gw()->DoInput(scratch); }
      }
   }
   int Apply(World & w, int op, std::string & msg, std::string & key) const
   {
      const Packet & p = sc.log[op]; const IPAddressAndPort from = Src(p.src);
      ByteBufferRef b = GetByteBufferFromPool((uint32)p.bytes.size(), (const uint8 *)p.bytes.data());
      w.io->SetBuffersToRead(b, from);
      const size_t before = w.col.items.size();
      const io_status_t r = w.rx.gw()->DoInput(w.col);
      const std::string cn = CfgName(sc.cfg);
      if (r.IsError()) { msg = OpName(op) + verif::Fmt(": DoInput returned error [%s]", r.GetStatus()()); key = "input-error:" + cn; return seqx::SEQX_VIOLATION; }
      if (r.GetByteCount() != (int32)p.bytes.size()) { msg = OpName(op) + verif::Fmt(": DoInput consumed %d bytes of a %u-byte packet", r.GetByteCount(), (unsigned)p.bytes.size()); key = "input-count:" + cn; return seqx::SEQX_VIOLATION; }
      if (sc.cfg.kind == K_MINI && p.bytes.size() >= 12 && p.bytes[11] != 0) w.lastInflated = op;
      w.outcome.clear();
      for (size_t i = before; i < w.col.items.size(); i++) {
         const Delivered & d = w.col.items[i];
         if (!d.hasUd || !(d.ud == from)) { msg = OpName(op) + ": Message handed over with source " + (d.hasUd ? std::string(d.ud.ToString()()) : std::string("(none)")) + " but the packet came from " + from.ToString()(); key = "source-argument-wrong:" + cn; return seqx::SEQX_VIOLATION; }
         if (sc.cfg.slave && (!d.hasTag || !(d.tag == from))) { msg = OpName(op) + ": PR_NAME_PACKET_REMOTE_LOCATION tag " + (d.hasTag ? std::string(d.tag.ToString()()) : std::string("missing")) + " does not name the packet's source " + from.ToString()(); key = "source-tag-wrong:" + cn; return seqx::SEQX_VIOLATION; }
         if (!sc.cfg.slave && d.hasTag) { msg = OpName(op) + ": unexpected source tag on a Message that was sent without one"; key = "source-tag-unexpected:" + cn; return seqx::SEQX_VIOLATION; }
         int found = -1, foundOther = -1;
         for (size_t s = 0; s < sc.sentBySrc.size(); s++) for (size_t k = 0; k < sc.sentBySrc[s].size(); k++) if (sc.sentBySrc[s][k] == d.flat) { if ((int)s == p.src) found = (int)k; else foundOther = (int)s; }
         if (found < 0) {
            if (foundOther >= 0) { msg = OpName(op) + verif::Fmt(": delivered (as coming from src%d) a Message that only src%d sent", p.src, foundOther); key = "message-from-other-sender:" + cn; }
            else { msg = OpName(op) + verif::Fmt(": delivered a %u-byte Message that is bit-identical to NO sent Message: ", (unsigned)d.flat.size()) + verif::Hex(d.flat.substr(0, 96)); key = "bogus-message:" + cn; }
            return seqx::SEQX_VIOLATION;
         }
         w.outcome += verif::Fmt("s%dm%d,", p.src, found);
      }
      return seqx::SEQX_OK;
   }
   // Canonical form = everything the receive path reads besides the incoming packet: per source (in table order, which decides eviction)
   // message id, expected offset, reassembly-buffer size and its valid prefix; slave gateway error/partial state; for the mini tunnel
   // (stateless apart from its inflater) which deflated packet was inflated last.  The delivered list is deliberately NOT part of the key:
   // the oracle is evaluated on every transition for the Messages delivered by that transition, which depend on (state, packet) only.
   // (a template so that the harness does not depend on the key type of the private table)
   template <class K, class V> static void CanonReceiveStates(const Hashtable<K, V> & table, std::string & out)
   {
      for (ConstHashtableIterator<K, V> it(table); it.HasData(); it++) {
         const V & rs = it.GetValue(); const ByteBuffer * b = rs._buf();
         out += verif::Fmt("|%s id=%u off=%u size=%d:", it.GetKey().ToString()(), rs._messageID, rs._offset, b ? (int)b->GetNumBytes() : -1);
         if (b) out += verif::Hex(b->GetBuffer(), std::min(rs._offset, b->GetNumBytes()));
      }
   }
   void Canon(const World & w, std::string & out) const
   {
      if (w.rx.t) {
         CanonReceiveStates(w.rx.t->_receiveStates, out);
      }
      if (w.rx.m) out += verif::Fmt("|codec=%d last=%d", w.rx.m->_codec() ? 1 : 0, w.lastInflated);
      if (w.rx.slave) out += verif::Fmt("|slave err=%d partial=%d", w.rx.slave->GetUnrecoverableErrorStatus().IsError() ? 1 : 0, w.rx.slave->_recvBuffer._buffer() ? 1 : 0);
      out += verif::Fmt("|gwerr=%d", w.rx.gw()->GetUnrecoverableErrorStatus().IsError() ? 1 : 0);
   }
   void Outcome(const World & w, std::string & out) const { out = w.outcome; }
};

static MsgSpec MS(uint32 what, int flat, int seed, int shape = 0) { return SpecForFlatSize(what, flat, seed, shape); }
static SenderSpec Sender(int src, uint32 startId, const std::vector<MsgSpec> & m) { SenderSpec s; s.src = src; s.startId = startId; s.msgs = m; return s; }
static GwCfg Cfg(int kind, bool slave, int comp, uint32 mtu, int io = IO_PACKET) { GwCfg c; c.kind = kind; c.slave = slave; c.comp = comp; c.mtu = mtu; c.io = io; return c; }

static void BuildScenarios(std::vector<Scenario> & out, bool thorough)
{
#define V(...) std::vector<MsgSpec>({__VA_ARGS__})
   // flattened sizes: tunnel at MTU 64 carries 40 payload bytes per packet
   { Scenario s; s.name = "faults-tunnel-equal-sizes"; s.cfg = Cfg(K_TUNNEL, false, 0, 64); s.preloadStart = true;
     s.senders.push_back(Sender(0, 0, V(MS(1, 95, 1), MS(2, 95, 2), MS(3, 38, 3)))); out.push_back(s); }     // two Messages of EQUAL total size, different bytes
   { Scenario s; s.name = "faults-tunnel-slave-equal-sizes"; s.cfg = Cfg(K_TUNNEL, true, 0, 64);
     s.senders.push_back(Sender(0, 0, V(MS(1, 95, 1), MS(1, 95, 2), MS(3, 38, 3)))); out.push_back(s); }
   { Scenario s; s.name = "faults-tunnel-min-mtu"; s.cfg = Cfg(K_TUNNEL, false, 0, 25);                         // 1 payload byte per packet: 12+12 packets
     s.senders.push_back(Sender(0, 0, V(MS(1, 12, 0), MS(2, 12, 0)))); out.push_back(s); }
   { Scenario s; s.name = "faults-tunnel-fragment-edges"; s.cfg = Cfg(K_TUNNEL, false, 0, 100);                 // 76 payload bytes per packet: exactly 1, 1+1 byte, exactly 2, 2+1 byte
     s.senders.push_back(Sender(0, 0, V(MS(1, 76, 1), MS(2, 77, 2), MS(3, 152, 3), MS(4, 153, 4)))); out.push_back(s); }
   { Scenario s; s.name = "faults-tunnel-two-senders"; s.cfg = Cfg(K_TUNNEL, false, 0, 64);                     // same ids, same sizes, different bytes, different source address
     s.senders.push_back(Sender(0, 0, V(MS(1, 95, 1), MS(3, 38, 3)))); s.senders.push_back(Sender(1, 0, V(MS(1, 95, 4), MS(3, 40, 5)))); out.push_back(s); }
   { Scenario s; s.name = "faults-tunnel-slave-three-senders"; s.cfg = Cfg(K_TUNNEL, true, 0, 64);              // third sender: same host, other port
     s.senders.push_back(Sender(0, 0, V(MS(1, 60, 1)))); s.senders.push_back(Sender(1, 0, V(MS(1, 60, 2)))); s.senders.push_back(Sender(2, 0, V(MS(1, 60, 3)))); out.push_back(s); }
   { Scenario s; s.name = "faults-tunnel-id-wrap"; s.cfg = Cfg(K_TUNNEL, false, 0, 64);                         // ids 0xFFFFFFFF, 0, 1
     s.senders.push_back(Sender(0, 0xFFFFFFFFu, V(MS(1, 95, 1), MS(2, 95, 2), MS(3, 38, 3)))); out.push_back(s); }
   { Scenario s; s.name = "faults-tunnel-id-wrap-two-senders"; s.cfg = Cfg(K_TUNNEL, true, 0, 64);
     s.senders.push_back(Sender(0, 0xFFFFFFFFu, V(MS(1, 60, 1), MS(2, 60, 2)))); s.senders.push_back(Sender(1, 0, V(MS(1, 60, 3), MS(2, 60, 4)))); out.push_back(s); }
   { Scenario s; s.name = "faults-mini"; s.cfg = Cfg(K_MINI, false, 0, 120);                                     // several Messages per packet, one that fills a packet exactly (104)
     s.senders.push_back(Sender(0, 0, V(MS(1, 38, 1), MS(2, 12, 0), MS(3, 95, 2), MS(4, 95, 3), MS(5, 104, 4)))); s.senders.push_back(Sender(1, 0, V(MS(1, 38, 5), MS(3, 95, 6)))); out.push_back(s); }
   { Scenario s; s.name = "faults-mini-slave-zlib6"; s.cfg = Cfg(K_MINI, true, 6, 200);                           // compressible payloads: the packets really are deflated
     s.senders.push_back(Sender(0, 0, V(MS(1, 150, 1, 1), MS(2, 150, 2, 1), MS(3, 60, 3, 1), MS(4, 12, 0)))); s.senders.push_back(Sender(1, 0, V(MS(1, 150, 7, 1), MS(2, 40, 8, 0)))); out.push_back(s); }
   { Scenario s; s.name = "faults-mini-zlib9"; s.cfg = Cfg(K_MINI, false, 9, 150);
     s.senders.push_back(Sender(0, 0, V(MS(1, 120, 1, 1), MS(2, 120, 2, 1), MS(3, 120, 1, 0), MS(4, 35, 4, 0)))); out.push_back(s); }
   {
      { Scenario s; s.name = "faults-tunnel-long"; s.cfg = Cfg(K_TUNNEL, false, 0, 40); s.preloadStart = true;   // 16 payload bytes per packet
        s.senders.push_back(Sender(0, 0xFFFFFFFEu, V(MS(1, 95, 1), MS(2, 95, 2), MS(3, 38, 3), MS(4, 95, 1)))); s.senders.push_back(Sender(1, 0xFFFFFFFEu, V(MS(1, 95, 2), MS(2, 38, 3)))); out.push_back(s); }
      { Scenario s; s.name = "faults-tunnel-slave-long"; s.cfg = Cfg(K_TUNNEL, true, 0, 48);
        s.senders.push_back(Sender(0, 0, V(MS(1, 130, 1), MS(2, 130, 2), MS(3, 12, 0), MS(4, 131, 3)))); s.senders.push_back(Sender(2, 0, V(MS(1, 130, 2), MS(2, 12, 0)))); out.push_back(s); }
      { Scenario s; s.name = "faults-tunnel-three-senders-long"; s.cfg = Cfg(K_TUNNEL, false, 0, 48);           // 24 payload bytes per packet; per-source states multiply
        s.senders.push_back(Sender(0, 0, V(MS(1, 60, 1), MS(2, 60, 2)))); s.senders.push_back(Sender(1, 0, V(MS(1, 60, 3), MS(2, 60, 4)))); s.senders.push_back(Sender(2, 0xFFFFFFFFu, V(MS(1, 60, 5), MS(2, 60, 6)))); out.push_back(s); }
      { Scenario s; s.name = "faults-mini-slave-long"; s.cfg = Cfg(K_MINI, true, 1, 100);
        s.senders.push_back(Sender(0, 0, V(MS(1, 60, 1, 1), MS(2, 12, 0), MS(3, 70, 2, 1), MS(4, 76, 3), MS(5, 77, 4), MS(6, 35, 5), MS(7, 36, 6))));
        s.senders.push_back(Sender(1, 0, V(MS(1, 60, 1, 1), MS(2, 61, 7, 1)))); out.push_back(s); }
   }
   if (thorough) {
      { Scenario s; s.name = "faults-tunnel-min-mtu-three-messages"; s.cfg = Cfg(K_TUNNEL, false, 0, 26);                 // 2 payload bytes per packet
        s.senders.push_back(Sender(0, 0xFFFFFFFFu, V(MS(1, 12, 0), MS(2, 12, 0), MS(1, 12, 0)))); s.senders.push_back(Sender(1, 0, V(MS(2, 12, 0)))); out.push_back(s); }
      { Scenario s; s.name = "faults-tunnel-four-senders"; s.cfg = Cfg(K_TUNNEL, true, 0, 60); s.preloadStart = true;        // 36 payload bytes per packet
        for (int k = 0; k < 4; k++) s.senders.push_back(Sender(k == 3 ? 7 : k, k == 1 ? 0xFFFFFFFFu : 0, V(MS(1, 60, k + 1), MS(2, 60, k + 5)))); out.push_back(s); }
      { Scenario s; s.name = "faults-tunnel-five-messages"; s.cfg = Cfg(K_TUNNEL, false, 0, 56);                             // 32 payload bytes per packet
        s.senders.push_back(Sender(0, 0, V(MS(1, 95, 1), MS(2, 95, 2), MS(3, 12, 0), MS(4, 95, 1), MS(5, 96, 3)))); s.senders.push_back(Sender(2, 5, V(MS(1, 95, 2), MS(2, 95, 1)))); out.push_back(s); }
   }
#undef V
}

// builds all packet logs in forked children; returns false on failure
static bool PrepareScenarios(std::vector<Scenario> & scs, const verif::Args & args, verif::Result & res)
{
   std::vector<verif::ParRecord> recs;
   const std::vector<Scenario> & S = scs;
   verif::ParMap(S.size(), args.workers, [&](size_t i, std::string & rec) {
      SetConsoleLogLevel(MUSCLE_LOG_NONE);
      const Scenario & sc = S[i]; std::string err;
      std::vector<Packet> log; std::vector<std::pair<int, std::string> > sent;
      for (size_t k = 0; k < sc.senders.size() && err.empty(); k++) { std::vector<std::string> sf; if (!RunSender(sc.cfg, sc.senders[k], log, sf, err)) break; for (size_t j = 0; j < sf.size(); j++) sent.push_back(std::make_pair(sc.senders[k].src, sf[j])); }
      PutStr(rec, err);
      uint32_t n = (uint32_t)log.size(); rec.append((const char *)&n, 4); for (size_t k = 0; k < log.size(); k++) { int32_t s = log[k].src; rec.append((const char *)&s, 4); PutStr(rec, log[k].bytes); }
      n = (uint32_t)sent.size(); rec.append((const char *)&n, 4); for (size_t k = 0; k < sent.size(); k++) { int32_t s = sent[k].first; rec.append((const char *)&s, 4); PutStr(rec, sent[k].second); }
   }, recs);
   if (recs.size() != scs.size()) { res.infra_errors.push_back("packet logs could not be built (a sender process died)"); return false; }
   for (size_t r = 0; r < recs.size(); r++) {
      Scenario & sc = scs[recs[r].idx]; const std::string & d = recs[r].data; size_t off = 0; std::string err;
      const bool got = GetStr(d, off, err);
      if (got && err.find("harness") == 0) { res.infra_errors.push_back(sc.name + ": " + err); return false; }
      if (!got || !err.empty()) { res.AddViolation("sender:" + CfgName(sc.cfg) + ":" + (err.empty() ? "?" : err), sc.name + ": sender run failed: " + err, ""); return false; }
      uint32_t n; memcpy(&n, d.data() + off, 4); off += 4;
      for (uint32_t k = 0; k < n; k++) { int32_t s; memcpy(&s, d.data() + off, 4); off += 4; Packet p; p.src = s; GetStr(d, off, p.bytes); sc.log.push_back(p); }
      memcpy(&n, d.data() + off, 4); off += 4;
      int maxSrc = 0; for (size_t k = 0; k < sc.senders.size(); k++) maxSrc = std::max(maxSrc, sc.senders[k].src);
      sc.sentBySrc.assign((size_t)maxSrc + 1, std::vector<std::string>());
      for (uint32_t k = 0; k < n; k++) { int32_t s; memcpy(&s, d.data() + off, 4); off += 4; std::string f; GetStr(d, off, f); sc.sentBySrc[(size_t)s].push_back(f); sc.sentOrderSrc.push_back(s); sc.sentOrder.push_back(f); }
   }
   return true;
}

// fault-free sanity of a scenario: the identity word must deliver exactly the sent sequence (checked before the exploration counts)
static void CheckIdentityWord(const Scenario & sc, const verif::Args & args, verif::Result & res)
{
   std::vector<verif::ParRecord> recs;
   verif::ParMap(1, 1, [&](size_t, std::string & rec) {
      SetConsoleLogLevel(MUSCLE_LOG_NONE);
      FaultModel m(sc); FWorld w; m.Init(w, 0); std::string msg, key;
      for (int op = 0; op < m.NumOps(); op++) if (m.Apply(w, op, msg, key) != seqx::SEQX_OK) { rec = key + "\n" + msg; return; }
      // documented limit of the mini tunnel: a Message that cannot fit one packet is dropped whole
      std::vector<std::string> expected; for (size_t i = 0; i < sc.sentOrder.size(); i++) if (sc.cfg.kind == K_TUNNEL || sc.sentOrder[i].size() + (sc.cfg.slave ? 8 : 0) + 16 <= EffMtu(sc.cfg)) expected.push_back(sc.sentOrder[i]);
      bool same = (w.col.items.size() == expected.size());
      for (size_t i = 0; same && i < expected.size(); i++) if (w.col.items[i].flat != expected[i]) same = false;
      if (!same) rec = "identity-word-not-exact:" + CfgName(sc.cfg) + "\n" + verif::Fmt("delivering every packet once and in order handed over %u Messages, %u were expected of %u sent (or content/order differs)", (unsigned)w.col.items.size(), (unsigned)expected.size(), (unsigned)sc.sentOrder.size());
   }, recs);
   if (recs.size() != 1) { res.infra_errors.push_back(sc.name + ": identity word run died"); return; }
   if (!recs[0].data.empty()) {
      size_t nl = recs[0].data.find('\n'); std::vector<int> ops; for (size_t i = 0; i < sc.log.size(); i++) ops.push_back((int)i);
      std::string body = "{\"harness\": " + verif::JStr(res.harness) + ", \"part\": " + verif::JStr(sc.name) + ", \"start\": 0, \"ops\": " + verif::JIntArray(ops) + ", \"observed\": " + verif::JStr(recs[0].data.substr(nl + 1)) + "}";
      res.AddViolation(recs[0].data.substr(0, nl), sc.name + ": " + recs[0].data.substr(nl + 1), res.WriteReplay(args, sc.name, body));
   }
}

// ================================================================================================ (b) exactness without faults
struct ExactCase { int cfg; uint32 mtu; int seq; int flat; };   // seq 0: [M(flat,a), M(12), M(flat,b)]   seq 1: every reachable size 12..flat ascending in one queue

static std::vector<GwCfg> ExactCfgs()
{
   std::vector<GwCfg> v;
   v.push_back(Cfg(K_TUNNEL, false, 0, 0)); v.push_back(Cfg(K_TUNNEL, true, 0, 0));
   v.push_back(Cfg(K_MINI, false, 0, 0)); v.push_back(Cfg(K_MINI, true, 0, 0)); v.push_back(Cfg(K_MINI, false, 6, 0)); v.push_back(Cfg(K_MINI, true, 6, 0));
   v.push_back(Cfg(K_TUNNEL, true, 0, 0, IO_PACKETIZED_STREAM)); v.push_back(Cfg(K_TUNNEL, false, 0, 0, IO_PACKETIZED_STREAM)); v.push_back(Cfg(K_MINI, true, 6, 0, IO_PACKETIZED_STREAM));
   return v;
}

static void SeqFor(const ExactCase & e, std::vector<MsgSpec> & out)
{
   if (e.seq == 0) { out.push_back(MS(1, e.flat, 1, 0)); out.push_back(MS(2, 12, 0)); out.push_back(MS(3, e.flat, 2, (e.flat % 3 == 0) ? 1 : 0)); }
   else { uint32 w = 1; for (int f = 12; f <= e.flat; f++) if (ReachableFlatSize(f)) out.push_back(MS(w++, f, f, (f % 5 == 0) ? 1 : 0)); }
}

static std::string ExactDesc(const std::vector<GwCfg> & cfgs, const ExactCase & e)
{
   return verif::Fmt("{\"gateway\": \"%s\", \"mtu\": %u, \"sequence\": \"%s\", \"flattened_size\": %d}", CfgName(cfgs[e.cfg]).c_str(), e.mtu,
                     e.seq == 0 ? "Message(size), empty Message, Message(size) with other bytes" : "one Message of every size from 12 up to size, ascending", e.flat);
}

// A packet transport that accepts everything it is offered EXCEPT that its `refuseAt`-th WriteTo() call is answered with 0 ("try again later",
// e.g. a full socket buffer) once; whatever it accepted is delivered once and in order.  The sender must offer the refused packet again.
class RefusingPacketIO : public ByteBufferPacketDataIO {
public:
   int calls, refuseAt; bool refusedNow;
   RefusingPacketIO(uint32 mtu, int refuse) : ByteBufferPacketDataIO(mtu), calls(0), refuseAt(refuse), refusedNow(false) {}
   virtual io_status_t WriteTo(const void * buffer, uint32 size, const IPAddressAndPort & dest)
   {
      if (calls++ == refuseAt) { refusedNow = true; return io_status_t(0); }
      return ByteBufferPacketDataIO::WriteTo(buffer, size, dest);
   }
};

static void RunExactCaseR(const std::vector<GwCfg> & cfgs, const ExactCase & e, int refuse, mutx::Case & c);
static void RunExactCase(const std::vector<GwCfg> & cfgs, const ExactCase & e, mutx::Case & c)
{
   RunExactCaseR(cfgs, e, -1, c);
   if (cfgs[e.cfg].io == IO_PACKET) for (int r = 0; r < 3 && !c.failed; r++) RunExactCaseR(cfgs, e, r, c);   // the same exchange with the 1st / 2nd / 3rd packet write refused once
}
static void RunExactCaseR(const std::vector<GwCfg> & cfgs, const ExactCase & e, int refuse, mutx::Case & c)
{
   SetConsoleLogLevel(MUSCLE_LOG_NONE);
   GwCfg cfg = cfgs[e.cfg]; cfg.mtu = e.mtu; const uint32 mtu = EffMtu(cfg); const std::string cn = CfgName(cfg) + (refuse >= 0 ? ":one-packet-write-refused-once" : "");
   std::vector<MsgSpec> seq; SeqFor(e, seq);
   std::vector<std::string> sent, expected; std::vector<int> expectedIdx; uint32 biggestExpected = 0;
   Gw tx; tx.Build(cfg); Gw rx; rx.Build(cfg);
   RefusingPacketIO txp(mtu, refuse); ByteBufferPacketDataIO rxp(mtu);
   ByteBufferRef stream = GetByteBufferFromPool(0);
   ByteBufferDataIO txs(stream), rxs(stream); PacketizedProxyDataIO txz(DummyDataIORef(txs), mtu), rxz(DummyDataIORef(rxs), mtu);
   if (cfg.io == IO_PACKET) { tx.gw()->SetDataIO(DummyDataIORef(txp)); rx.gw()->SetDataIO(DummyDataIORef(rxp)); }
   else { tx.gw()->SetDataIO(DummyDataIORef(txz)); rx.gw()->SetDataIO(DummyDataIORef(rxz)); }
   for (size_t i = 0; i < seq.size(); i++) {
      MessageRef m = MakeMsg(seq[i]);
      if (m() == NULL || (int)m()->FlattenedSize() != FlatSizeOf(seq[i])) { c.Fail("harness:size-model", "harness error: flattened size differs from the harness's size model"); return; }
      sent.push_back(Flat(*m()));
      const uint32 buf = (uint32)sent.back().size() + (cfg.slave ? 8 : 0);
      // documented limit of the mini tunnel: a Message that does not fit into one packet is dropped (never truncated); the tunnel has no limit
      if (cfg.kind == K_TUNNEL || buf + 16 <= mtu) { expected.push_back(sent.back()); expectedIdx.push_back((int)i); biggestExpected = std::max(biggestExpected, buf); }
      if (tx.gw()->AddOutgoingMessage(m).IsError()) { c.Fail("exact:" + cn + ":AddOutgoingMessage-failed", "AddOutgoingMessage failed"); return; }
   }
   for (int guard = 0; ; guard++) {
      io_status_t r = tx.gw()->DoOutput();
      if (r.IsError()) { c.Fail("exact:" + cn + ":output-error", verif::Fmt("DoOutput returned error [%s]", r.GetStatus()())); return; }
      if (r.GetByteCount() <= 0 && txp.refusedNow) { txp.refusedNow = false; continue; }   // the transport said "later": the caller comes back, as an event loop does when the socket is writable again
      if (r.GetByteCount() <= 0) break;
      if (guard > 10000000) { c.Fail("exact:" + cn + ":output-never-ends", "DoOutput keeps returning >0"); return; }
   }
   if (tx.gw()->HasBytesToOutput()) { c.Fail("exact:" + cn + ":output-stuck", "HasBytesToOutput() still true after DoOutput() returned 0 on a transport that accepts everything"); return; }
   Collector col; const IPAddressAndPort from = Src(0); uint32 npk = 0;
   if (cfg.io == IO_PACKET) {
      const Queue<ByteBufferRefAndIPAddressAndPort> & q = txp.GetWrittenBuffers(); npk = q.GetNumItems();
      for (uint32 i = 0; i < q.GetNumItems(); i++) {
         const ByteBufferRef & b = q[i].GetByteBufferRef();
         if (b()->GetNumBytes() > mtu) { c.Fail("exact:" + cn + ":packet-exceeds-mtu", verif::Fmt("packet %u has %u bytes, MTU is %u", i, b()->GetNumBytes(), mtu)); return; }
         rxp.SetBuffersToRead(b, from);
         io_status_t r = rx.gw()->DoInput(col);
         if (r.IsError()) { c.Fail("exact:" + cn + ":input-error", verif::Fmt("DoInput returned error [%s] on packet %u", r.GetStatus()(), i)); return; }
      }
   } else {
      (void) rxs.Seek(0, SeekableDataIO::IO_SEEK_SET);
      for (int guard = 0; guard < 10000000; guard++) { io_status_t r = rx.gw()->DoInput(col); if (r.IsError()) { c.Fail("exact:" + cn + ":input-error", verif::Fmt("DoInput returned error [%s]", r.GetStatus()())); return; } if (r.GetByteCount() <= 0) break; }
      npk = stream()->GetNumBytes();
   }
   tx.gw()->SetDataIO(DataIORef()); rx.gw()->SetDataIO(DataIORef());
   // ---- oracle: delivered == expected, in order, exactly once, with the right source
   bool same = (col.items.size() == expected.size());
   for (size_t i = 0; same && i < expected.size(); i++) if (col.items[i].flat != expected[i]) same = false;
   if (!same) {
      // classify: every delivered Message a sent one?  which expected ones are missing?
      size_t bogus = 0; std::vector<int> missing; std::vector<bool> used(col.items.size(), false);
      for (size_t i = 0; i < col.items.size(); i++) { bool f = false; for (size_t k = 0; k < sent.size(); k++) if (sent[k] == col.items[i].flat) f = true; if (!f) bogus++; }
      size_t di = 0; for (size_t k = 0; k < expected.size(); k++) { if (di < col.items.size() && col.items[di].flat == expected[k]) di++; else missing.push_back(expectedIdx[k]); }
      std::string key = "exact:" + cn + ":";
      bool allMissingBig = !missing.empty() && di == col.items.size();
      for (size_t k = 0; k < missing.size(); k++) if (sent[(size_t)missing[k]].size() + (cfg.slave ? 8 : 0) <= 1168) allMissingBig = false;
      if (bogus) key += "bogus-message";
      else if (allMissingBig && cfg.slave && cfg.io == IO_PACKET) key += "dropped:slave-buffer>1168";   // ProxyIOGateway::_fakePacketReceiveIO has the default 1168-byte packet limit
      else if (!missing.empty() && di == col.items.size()) key += "message-not-delivered";
      else key += "order-or-duplicate";
      std::string ms; for (size_t k = 0; k < missing.size() && k < 6; k++) ms += verif::Fmt("%s#%d(%u bytes flattened)", k ? ", " : "", missing[k], (unsigned)sent[(size_t)missing[k]].size());
      c.Fail(key, verif::Fmt("fault-free in-order delivery of %u packets/bytes: %u Messages sent, %u expected, %u delivered, %u delivered Messages equal no sent Message; missing: ", npk, (unsigned)sent.size(), (unsigned)expected.size(), (unsigned)col.items.size(), (unsigned)bogus) + ms);
      return;
   }
   for (size_t i = 0; i < col.items.size(); i++) {
      const Delivered & d = col.items[i];
      const bool pkt = (cfg.io == IO_PACKET);
      if (pkt && (!d.hasUd || !(d.ud == from))) { c.Fail("exact:" + cn + ":source-argument-wrong", "Message handed over with a source other than the packet's"); return; }
      if (pkt && cfg.slave && (!d.hasTag || !(d.tag == from))) { c.Fail("exact:" + cn + ":source-tag-wrong", "PR_NAME_PACKET_REMOTE_LOCATION tag missing or wrong"); return; }
      if ((!pkt || !cfg.slave) && d.hasTag) { c.Fail("exact:" + cn + ":source-tag-unexpected", "unexpected source tag"); return; }
   }
   if (refuse < 0) c.Outcome(verif::Fmt("%s/%u/%u", cn.c_str(), (unsigned)expected.size(), (unsigned)(sent.size() - expected.size())));
}

static void AddSizesAround(std::set<int> & s, int centre, int radius, int maxFlat) { for (int d = -radius; d <= radius; d++) { int f = centre + d; if (f >= 12 && f <= maxFlat && ReachableFlatSize(f)) s.insert(f); } }

int main(int argc, char ** argv)
{
   verif::Args args; args.Parse(argc, argv);
   verif::Result res; res.harness = "C12_packettunnel";
   const bool T = args.Thorough();
   std::vector<GwCfg> cfgs = ExactCfgs();

   // ---- case lists of the exactness parts (pure arithmetic; no muscle code runs in this process)
   std::vector<ExactCase> small, large;
   const uint32 maxSmallMtu = T ? 560 : 160;
   for (size_t ci = 0; ci < cfgs.size(); ci++) {
      const uint32 lo = MinMtu(cfgs[ci].kind) - 1;   // one below the documented minimum: the constructors clamp it
      for (uint32 mtu = lo; mtu <= maxSmallMtu; mtu++) {
         const int top = 3 * (int)mtu + 1 + 8;
         for (int f = 12; f <= top; f++) if (ReachableFlatSize(f)) { ExactCase e = { (int)ci, mtu, 0, f }; small.push_back(e); }
         ExactCase e = { (int)ci, mtu, 1, top }; small.push_back(e);
      }
      static const uint32 bigMtusQ[] = { 64, 576, 1168, 1200, 1500, 9000 }; static const uint32 bigMtusT[] = { 64, 300, 576, 1000, 1167, 1168, 1169, 1200, 1388, 1500, 4096, 9000, 65507 };
      const uint32 * bm = T ? bigMtusT : bigMtusQ; const size_t nbm = T ? sizeof(bigMtusT) / sizeof(uint32) : sizeof(bigMtusQ) / sizeof(uint32);
      for (size_t mi = 0; mi < nbm; mi++) {
         const uint32 mtu = bm[mi]; const int maxFlat = (int)std::min<uint64_t>((uint64_t)mtu * (T ? 600 : 300), 70000);   // bounds the number of packets per Message
         std::set<int> sizes; const int pay = (int)mtu - (int)PerChunkOverhead(cfgs[ci].kind);
         for (int k = 1; k <= (T ? 6 : 4); k++) { AddSizesAround(sizes, k * (int)mtu, 2, maxFlat); AddSizesAround(sizes, k * (int)mtu - 8, 2, maxFlat); AddSizesAround(sizes, k * pay, 2, maxFlat); AddSizesAround(sizes, k * pay - 8, 2, maxFlat); }
         AddSizesAround(sizes, 1168, T ? 80 : 20, maxFlat);      // default UDP payload size used for ProxyIOGateway's internal packet I/O
         AddSizesAround(sizes, 2048, 12, maxFlat);               // MessageIOGateway's scratch receive buffer
         AddSizesAround(sizes, 4096, 2, maxFlat);
         AddSizesAround(sizes, 20 * 1024, T ? 40 : 12, maxFlat); // MAX_CACHE_SIZE of the tunnel's reassembly/scratch buffers
         AddSizesAround(sizes, 65536, 10, maxFlat);
         for (std::set<int>::iterator it = sizes.begin(); it != sizes.end(); ++it) { ExactCase e = { (int)ci, mtu, 0, *it }; large.push_back(e); }
      }
   }

   std::vector<Scenario> scs; BuildScenarios(scs, T);

   // ---- replay
   if (!args.replay.empty()) {
      verif::ReplayDoc d; if (!d.Load(args.replay)) { fprintf(stderr, "cannot read %s\n", args.replay.c_str()); return 3; }
      const std::string part = d.Str("part");
      if (part == "exact-small" || part == "exact-large") {
         const std::vector<ExactCase> & L = (part == "exact-small") ? small : large; size_t idx = (size_t)d.Int("index");
         // replay files carry the case itself, so they stay valid when the case list changes
         ExactCase e; bool have = d.ints.count("exact_case") && d.ints["exact_case"].size() == 4;
         if (have) { e.cfg = (int)d.ints["exact_case"][0]; e.mtu = (uint32)d.ints["exact_case"][1]; e.seq = (int)d.ints["exact_case"][2]; e.flat = (int)d.ints["exact_case"][3]; }
         else if (idx < L.size()) e = L[idx]; else { fprintf(stderr, "bad index\n"); return 3; }
         mutx::Runner R(args, res, part); R.SetCpuLimit(60);
         return R.ReplayIndex(0, [&](size_t, mutx::Case & c) { RunExactCase(cfgs, e, c); }, [&](size_t) { return ExactDesc(cfgs, e); });
      }
      std::vector<Scenario> all; BuildScenarios(all, true);
      for (size_t i = 0; i < all.size(); i++) if (all[i].name == part) {
         std::vector<Scenario> one(1, all[i]); if (!PrepareScenarios(one, args, res)) return 3;
         SetConsoleLogLevel(MUSCLE_LOG_NONE);
         FaultModel m(one[0]); seqx::Explorer<FaultModel> ex(m, args, res, part); return ex.ReplayFile(d);
      }
      fprintf(stderr, "unknown part %s\n", part.c_str()); return 3;
   }

   const double tEnd = args.t0 + args.deadline * 0.9;
   // ---- (a) faults
   if (!PrepareScenarios(scs, args, res)) return res.Write(args);
   for (size_t i = 0; i < scs.size(); i++) {
      const Scenario & sc = scs[i];
      if (!args.WantPart(sc.name)) continue;
      CheckIdentityWord(sc, args, res);
      FaultModel m(sc);
      seqx::Explorer<FaultModel> ex(m, args, res, sc.name);
      // the fault parts are small; give each what is left of 40% of the budget
      ex.SetDeadline(std::min(tEnd, args.t0 + args.deadline * 0.4));
      const int n = m.NumOps(); const int depth = std::max(n + 2, 64);   // n+2 is the stated bound; the graphs close (empty frontier) long before depth 64
      seqx::Stats S = ex.Run(depth);
      verif::Part & p = res.parts.back();
      const bool closed = S.exhaustive && S.statesPerDepth.size() >= 2 && S.statesPerDepth.back() == 0;
      std::string sd; for (size_t k = 0; k < sc.senders.size(); k++) { sd += verif::Fmt("%ssrc%d%s:", k ? "; " : "", sc.senders[k].src, sc.senders[k].startId ? verif::Fmt("(first id %u)", sc.senders[k].startId).c_str() : ""); for (size_t j = 0; j < sc.senders[k].msgs.size(); j++) sd += verif::Fmt(" %d", FlatSizeOf(sc.senders[k].msgs[j])); }
      p.rule = verif::Fmt("%s gateway, MTU %u; senders and flattened Message sizes: %s => %d packets. Alphabet: deliver packet k (with its sender's source address) to one real receiver gateway through ByteBufferPacketDataIO; every delivery word (every loss/duplication/reordering pattern) of length <= %d explored breadth-first as a graph, states deduplicated on the receiver's private receive state (per source: message id, expected offset, reassembly buffer size and valid prefix; slave/codec state)%s. On every transition each Message handed to the receiver must carry the packet's source and be bit-identical (flattened bytes, source tag stripped) to a Message sent by that source.",
                          CfgName(sc.cfg).c_str(), EffMtu(sc.cfg), sd.c_str(), n, S.depthCompleted, closed ? "; the graph closed (no new state at the last depth), so words of every length are covered" : "");
      p.extra["packets"] = verif::Fmt("%d", n);
      p.extra["graph_closed"] = closed ? "true" : "false";
      if (S.depthCompleted < n + 2 && !closed) { p.exhaustive = false; if (p.cap.empty()) p.cap = verif::Fmt("depth %d < n+2", S.depthCompleted); }
      fprintf(stderr, "C12 %-36s packets=%d states=%llu transitions=%llu depth=%d closed=%d violations=%llu\n", sc.name.c_str(), n, (unsigned long long)S.states, (unsigned long long)S.transitions, S.depthCompleted, (int)closed, (unsigned long long)S.violations);
   }

   // ---- (b) exactness
   for (int part = 0; part < 2; part++) {
      const char * pn = part == 0 ? "exact-small" : "exact-large";
      if (!args.WantPart(pn)) continue;
      const std::vector<ExactCase> & L = part == 0 ? small : large;
      mutx::Runner R(args, res, pn); R.SetCpuLimit(part == 0 ? 20 : 120);
      R.SetDeadline(part == 0 ? args.t0 + args.deadline * 0.7 : tEnd);
      verif::Part & p = R.Run(L.size(), [&](size_t i, mutx::Case & c) { RunExactCase(cfgs, L[i], c); },
                              [&](size_t i) { std::string d = ExactDesc(cfgs, L[i]); d.erase(d.size() - 1); return d + verif::Fmt(", \"exact_case\": [%d, %u, %d, %d]}", L[i].cfg, L[i].mtu, L[i].seq, L[i].flat); });
      std::string cn; for (size_t i = 0; i < cfgs.size(); i++) cn += (i ? ", " : "") + CfgName(cfgs[i]);
      if (part == 0) p.rule = verif::Fmt("fault-free exactness, no hashing: for each of %u gateway configurations (%s), every MTU from one below the documented minimum (25 tunnel / 17 mini; clamped) to %u, and every reachable flattened Message size from 12 to 3*MTU+9 bytes: the sequence [Message(size), empty Message, Message(size, other bytes)] plus one run per MTU queueing one Message of every size ascending; packets delivered once, in order; delivered must equal sent (for the mini tunnel: minus the Messages that cannot fit one packet, which must be dropped whole), in order, exactly once, correct source, no packet above the MTU",
                                    (unsigned)cfgs.size(), cn.c_str(), maxSmallMtu);
      else p.rule = verif::Fmt("as exact-small for large MTUs/Messages: MTU in {64,...,%s} and flattened sizes within +-2 of k*MTU, k*MTU-8, k*(MTU-header), k*(MTU-header)-8 (k<=%d) and around 1168 (internal default packet size), 2048 (scratch receive buffer), 4096, 20480 (MAX_CACHE_SIZE), 65536; at most %d packets per Message", T ? "65507" : "9000", T ? 6 : 4, T ? 600 : 300);
      p.states = p.transitions;   // every case is a distinct (configuration, MTU, size) triple
      fprintf(stderr, "C12 %-36s cases=%llu exhaustive=%d wall=%.1fs\n", pn, (unsigned long long)p.transitions, (int)p.exhaustive, p.wall_s);
   }
   fprintf(stderr, "C12: violations=%u wall=%.1fs\n", (unsigned)res.violations.size(), verif::NowS() - args.t0);
   return res.Write(args);
}
