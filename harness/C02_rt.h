// C02 runtime support (included by exactly one TU: C02_parsers.cpp).
//  * allocation meter = copy of engines/mutx/meter.cpp plus a settable per-request CAP: while the cap is armed, an
//    operator-new request above it is counted (g_meter.biggest / peak see it) and then REFUSED (nothrow form returns
//    NULL), so that a count-bomb (F1: 10^8 Strings requested from 30 input bytes) ends in microseconds instead of
//    touching gigabytes.  engines/mutx/meter.cpp has no such cap, hence this harness links its own copy
//    (VBUILD libs=c, not "meter").
//  * death attribution helpers for the MUTX engine (which classifies a death from the worker's stderr):
//      - SIGABRT (MCRASH / failed flattener size check): handler prints which PHASE of the case aborted as a
//        pseudo frame, so the key becomes fatal:abort:phase:<parse|reflatten|reuse|...>
//      - AddressSanitizer SEGV reports carry their access kind on a separate line the engine does not read; the report
//        callback re-emits it in the "READ of size"/"WRITE of size" form the engine keys on.
#ifndef C02_RT_H
#define C02_RT_H

#include <stdlib.h>
#include <new>
#include "engines/mutx/mutx.h"

namespace mutx { Meter g_meter = {0, 0, 0, 0, 0}; }

namespace c02 {
static volatile long long g_allocCap = 0;      // 0 = no cap; else single-request limit (bytes) for operator new
static volatile long long g_capHits = 0;       // refused requests since last reset
static volatile long long g_capBiggest = 0;    // biggest refused request
static const char * volatile g_phase = "idle"; // what the current case is doing (for abort attribution)
static inline void Phase(const char * p) { g_phase = p; }
}

static __thread int t_inNew = 0;
static inline void C02Count(size_t n)
{
   mutx::Meter & m = mutx::g_meter;
   if (!m.on) return;
   m.cur += (long long)n; m.total += (long long)n; if (m.cur > m.peak) m.peak = m.cur; if ((long long)n > m.biggest) m.biggest = (long long)n;
}
extern "C" size_t __sanitizer_get_allocated_size(const volatile void *) __attribute__((weak));
extern "C" void __sanitizer_malloc_hook(const volatile void * p, size_t n) { (void)p; if (!t_inNew) C02Count(n); }
extern "C" void __sanitizer_free_hook(const volatile void * p)
{
   mutx::Meter & m = mutx::g_meter;
   if (m.on && p && __sanitizer_get_allocated_size) { long long n = (long long)__sanitizer_get_allocated_size(p); m.cur -= n; if (m.cur < 0) m.cur = 0; }
}
static void * C02DoNew(size_t n)
{
   C02Count(n);
   if (c02::g_allocCap > 0 && (long long)n > c02::g_allocCap) { c02::g_capHits++; if ((long long)n > c02::g_capBiggest) c02::g_capBiggest = (long long)n; return NULL; }
   t_inNew++; void * p = malloc(n ? n : 1); t_inNew--; return p;
}
void * operator new(size_t n) { void * p = C02DoNew(n); if (!p) abort(); return p; }
void * operator new[](size_t n) { void * p = C02DoNew(n); if (!p) abort(); return p; }
void * operator new(size_t n, const std::nothrow_t &) noexcept { return C02DoNew(n); }
void * operator new[](size_t n, const std::nothrow_t &) noexcept { return C02DoNew(n); }
void operator delete(void * p) noexcept { free(p); }
void operator delete[](void * p) noexcept { free(p); }
void operator delete(void * p, size_t) noexcept { free(p); }
void operator delete[](void * p, size_t) noexcept { free(p); }
void operator delete(void * p, const std::nothrow_t &) noexcept { free(p); }
void operator delete[](void * p, const std::nothrow_t &) noexcept { free(p); }

extern "C" void __asan_set_error_report_callback(void (*)(const char *));

namespace c02 {
static void WriteErr(const char * s) { size_t n = strlen(s); while (n > 0) { ssize_t w = write(2, s, n); if (w <= 0) break; s += w; n -= (size_t)w; } }
static void OnAbort(int)
{
   // async-signal-safe: only write(2); then die by the default action so the parent sees WTERMSIG == SIGABRT
   WriteErr("ASSERTION/abort() during phase="); WriteErr(g_phase); WriteErr("\n    #0 0x0 in phase:"); WriteErr(g_phase); WriteErr(" (harness)\n");
   signal(SIGABRT, SIG_DFL); raise(SIGABRT);
}
static void OnAsanReport(const char * report)
{
   if (strstr(report, "SEGV on unknown address") || strstr(report, "stack-overflow")) {
      if (strstr(report, "caused by a WRITE memory access")) WriteErr("WRITE of size 0 at wild-address (from SEGV report)\n");
      else if (strstr(report, "caused by a READ memory access")) WriteErr("READ of size 0 at wild-address (from SEGV report)\n");
   }
}
static void InstallDeathAttribution()
{
   signal(SIGABRT, OnAbort);
   __asan_set_error_report_callback(OnAsanReport);
}
}  // namespace c02

#endif
