// C02 runtime support (included by exactly one TU: C02_parsers.cpp).
//  * allocation meter = copy of engines/mutx/meter.cpp plus a settable per-request CAP: while the cap is armed, an
//    operator-new request above it is counted (g_meter.biggest / peak see it) and then REFUSED (nothrow form returns
//    NULL), so that a count-bomb (F1: 10^8 Strings requested from 30 input bytes) ends in microseconds instead of
//    touching gigabytes.  engines/mutx/meter.cpp has no such cap, hence this harness links its own copy
//    (VBUILD libs=c, not "meter").
//  * death attribution helpers for the MUTX engine (which classifies a death from the worker's stderr):
//      - SIGABRT (MCRASH / failed flattener size check): handler prints which PHASE of the case aborted as a
//        pseudo frame, so the key becomes fatal:abort:phase:<parse|reflatten|reuse|...>
//      - AddressSanitizer SEGV reports carry their access kind on a separate line the engine does not read; the report
//        callback re-emits it in the "READ of size"/"WRITE of size" form the engine keys on.
#ifndef C02_RT_H
#define C02_RT_H

#include <stdlib.h>
#include <setjmp.h>
#include <ucontext.h>
#include <new>
#include "engines/mutx/mutx.h"

namespace mutx { Meter g_meter = {0, 0, 0, 0, 0}; }

namespace c02 {
static volatile long long g_allocCap = 0;      // 0 = no cap; else single-request limit (bytes) for operator new
static volatile long long g_capHits = 0;       // refused requests since last reset
static volatile long long g_capBiggest = 0;    // biggest refused request
static const char * volatile g_phase = "idle"; // what the current case is doing (for abort attribution)
static inline void Phase(const char * p) { g_phase = p; }
}

static __thread int t_inNew = 0;
static inline void C02Count(size_t n)
{
   mutx::Meter & m = mutx::g_meter;
   if (!m.on) return;
   m.cur += (long long)n; m.total += (long long)n; if (m.cur > m.peak) m.peak = m.cur; if ((long long)n > m.biggest) m.biggest = (long long)n;
}
extern "C" size_t __sanitizer_get_allocated_size(const volatile void *) __attribute__((weak));
extern "C" void __sanitizer_malloc_hook(const volatile void * p, size_t n) { (void)p; if (!t_inNew) C02Count(n); }
extern "C" void __sanitizer_free_hook(const volatile void * p)
{
   mutx::Meter & m = mutx::g_meter;
   if (m.on && p && __sanitizer_get_allocated_size) { long long n = (long long)__sanitizer_get_allocated_size(p); m.cur -= n; if (m.cur < 0) m.cur = 0; }
}
static void * C02DoNew(size_t n)
{
   C02Count(n);
   if (c02::g_allocCap > 0 && (long long)n > c02::g_allocCap) { c02::g_capHits++; if ((long long)n > c02::g_capBiggest) c02::g_capBiggest = (long long)n; return NULL; }
   t_inNew++; void * p = malloc(n ? n : 1); t_inNew--; return p;
}
void * operator new(size_t n) { void * p = C02DoNew(n); if (!p) abort(); return p; }
void * operator new[](size_t n) { void * p = C02DoNew(n); if (!p) abort(); return p; }
void * operator new(size_t n, const std::nothrow_t &) noexcept { return C02DoNew(n); }
void * operator new[](size_t n, const std::nothrow_t &) noexcept { return C02DoNew(n); }
void operator delete(void * p) noexcept { free(p); }
void operator delete[](void * p) noexcept { free(p); }
void operator delete(void * p, size_t) noexcept { free(p); }
void operator delete[](void * p, size_t) noexcept { free(p); }
void operator delete(void * p, const std::nothrow_t &) noexcept { free(p); }
void operator delete[](void * p, const std::nothrow_t &) noexcept { free(p); }

extern "C" void __asan_set_error_report_callback(void (*)(const char *));

namespace c02 {
static void WriteErr(const char * s) { size_t n = strlen(s); while (n > 0) { ssize_t w = write(2, s, n); if (w <= 0) break; s += w; n -= (size_t)w; } }
static void OnAbort(int)
{
   // async-signal-safe: only write(2); then die by the default action so the parent sees WTERMSIG == SIGABRT
   WriteErr("ASSERTION/abort() during phase="); WriteErr(g_phase); WriteErr("\n    #0 0x0 in phase:"); WriteErr(g_phase); WriteErr(" (harness)\n");
   signal(SIGABRT, SIG_DFL); raise(SIGABRT);
}
// ---- read-fault containment (used by the micro-Message part only, never in --replay): thousands of cases of one known class (F12:
// reads outside the buffer) would otherwise each cost a worker process.  The input is placed at the very end of a private mapping that
// is followed by 4 GiB of PROT_NONE address space, so that any forward read past the supplied bytes (the reader adds 32-bit lengths to
// a pointer) faults; inside a FaultScope the SIGSEGV/SIGBUS of a READ access is caught and unwound with siglongjmp and the case
// function turns it into a violation.  A faulting WRITE is never contained.  Sanitizer reports are always fatal.
static sigjmp_buf g_faultJmp;
static volatile int g_faultCaught = 0;        // 1 = read fault, 2 = write fault
static void OnAsanReport(const char * report)
{
   if (strstr(report, "SEGV on unknown address") || strstr(report, "stack-overflow")) {
      if (strstr(report, "caused by a WRITE memory access")) WriteErr("WRITE of size 0 at wild-address (from SEGV report)\n");
      else if (strstr(report, "caused by a READ memory access")) WriteErr("READ of size 0 at wild-address (from SEGV report)\n");
   }
}
static void OnFault(int, siginfo_t *, void * ucv)
{
   const ucontext_t * uc = (const ucontext_t *)ucv;
   g_faultCaught = (uc->uc_mcontext.gregs[REG_ERR] & 2) ? 2 : 1;
   siglongjmp(g_faultJmp, 1);
}
struct FaultScope {   // installs the containment handlers for SIGSEGV/SIGBUS and restores the sanitizer's own afterwards
   struct sigaction oldSegv, oldBus; bool on;
   explicit FaultScope(bool enable) : on(enable)
   {
      g_faultCaught = 0;
      if (!on) return;
      struct sigaction sa; memset(&sa, 0, sizeof(sa)); sa.sa_sigaction = OnFault; sa.sa_flags = SA_SIGINFO | SA_NODEFER | SA_ONSTACK; sigemptyset(&sa.sa_mask);
      sigaction(SIGSEGV, &sa, &oldSegv); sigaction(SIGBUS, &sa, &oldBus);
   }
   ~FaultScope() { if (on) { sigaction(SIGSEGV, &oldSegv, NULL); sigaction(SIGBUS, &oldBus, NULL); } }
};
// input placed so that its last byte is the last accessible byte before 4 GiB of inaccessible address space
struct GuardArena {
   uint8_t * base; size_t rw; uint8_t * guard;
   GuardArena() : base(NULL), rw(4u << 20), guard(NULL)
   {
      const size_t total = rw + ((size_t)4 << 30) + 4096;
      void * m = mmap(NULL, total, PROT_NONE, MAP_PRIVATE | MAP_ANONYMOUS | MAP_NORESERVE, -1, 0);
      if (m != MAP_FAILED && mprotect(m, rw, PROT_READ | PROT_WRITE) == 0) { base = (uint8_t *)m; guard = base + rw; }
   }
   uint8_t * Place(const void * d, size_t n) { if (!base || n > rw) return NULL; uint8_t * p = guard - n; if (n) memcpy(p, d, n); return p; }
};
static void InstallDeathAttribution()
{
   signal(SIGABRT, OnAbort);
   __asan_set_error_report_callback(OnAsanReport);
}
}  // namespace c02

#endif
