// C04 -- A subscriber's mirror converges to the server's tree.
//
// SEQX over the in-process reflector (harness/reflector_l1.h): a real ReflectServer with real StorageReflectSessions
//   A (host hA, id 1)  publisher
//   B (host hA, id 2)  subscriber
//   C (host hC, id 3)  publisher + subscriber, arrives and leaves
//   O (host hO, id 4)  observer: no data, no subscriptions; reads the tree back with GETDATA after every command
// Every history of commands from the alphabet below (up to a depth, from several start states, deduplicated on the canonical
// server dump + mirrors) is replayed on a fresh server.  After EVERY command (the server is quiescent by construction, and
// that is checked) each client's outgoing queue is drained and every PR_RESULT_DATAITEMS is applied in order -- removals
// first, then sets, within one Message -- to that client's mirror; the mirror must equal reftree.Expected(client): the nodes
// of the OTHER sessions matched by one of its subscription patterns whose filter accepts the payload -- none missing, none
// stale, none extra.  Witnesses of the true tree: the in-process walk and the observer's GETDATA must both equal the
// reference tree.  The server's SUBSCRIBE: parameter set must equal the reference's subscription set.
//
// Client-side rules (DESIGN.md C04): the server sends NOTHING when a subscription is removed, so at the moment it sends
// REMOVEPARAMETERS the client drops every mirrored entry that no remaining subscription (pattern AND its own filter, judged on
// the mirrored payload) accepts.  For filter CHANGES the server is responsible (enter/leave notices); the mirror does nothing.
// A client that subscribes QUIETLY to a NEW path asked not to be sent the current values, so it fetches them itself with a
// GETDATA for the same path and filter right after (both Messages are one operation of the alphabet); a quiet re-issue of an
// existing subscription with another filter is NOT followed by a fetch -- the enter/leave notices alone must do.
// Entries under the client's own session directory are ignored on both sides.
//
// Outside the compared domain (never issued): SETDATA with the QUIET flag and REMOVEDATA with PR_NAME_REMOVE_QUIETLY (the
// publisher asks the server not to notify; the mirror is then stale by request), PR_NAME_DISABLE_SUBSCRIPTIONS.
#include "harness/reflector_l1.h"
#include "ref/reftree.h"
#include "engines/seqx/seqx.h"

using namespace seqx;
using l1::MessageRef;

enum { RA = 0, RB = 1, RC = 2, RO = 3, NCLIENT = 3 };
static const char * kHost[4] = { "hA", "hA", "hC", "hO" };
static const uint32_t kId[4] = { 1, 2, 3, 4 };
static const char kRoleCh[4] = { 'A', 'B', 'C', 'O' };

enum { PE = 0, PV1 = 1, PV2 = 2, NPAYLOAD = 3 };            // payload ids: empty (implicit intermediate nodes), {v:1}, {v:2}
static const char * kPayName[NPAYLOAD] = { "{}", "v1", "v2" };
enum { FNONE = 0, FEQ1 = 1, FNE1 = 2 };
static const char * kFiltName[3] = { "", " [v==1]", " [v!=1]" };
static const char * kPat[6] = { "/*/*/x", "/*/*/*", "x", "/hA/*/x/y", "*/y", "/*/*/(x|y)" };

static MessageRef MakePayload(int id) { return id == PE ? l1::EmptyPayload(0) : l1::Payload(id == PV1 ? 1 : 2); }
static MessageRef MakeFilter(int f)
{
   if (f == FNONE) return MessageRef();
   return l1::Int32Filter("v", (uint8_t)(f == FEQ1 ? muscle::Int32QueryFilter::OP_EQUAL_TO : muscle::Int32QueryFilter::OP_NOT_EQUAL_TO), 1);
}
static reftree::Filter RefFilter(int f) { return f == FNONE ? reftree::Filter() : reftree::Filter(f == FEQ1 ? reftree::Filter::EQ : reftree::Filter::NE, 1); }

enum Kind { K_SET, K_SET2, K_RM, K_BATCH_SET_RM, K_BATCH_SET_SET, K_SUB, K_SUB2, K_UNSUB, K_UNSUB_ALL, K_MAXITEMS, K_SELF, K_ARRIVE, K_LEAVE };
struct Op { Kind kind; int role; std::string path; int payload; int pat; int filt; bool quiet; bool on; std::string name; int pat2, filt2; Op() : pat2(0), filt2(0) {} };   // pat2/filt2: second SUBSCRIBE field of K_SUB2

// enabledness of an operation depends only on this much (kept eagerly, see "lazy execution" below)
struct Shadow { bool attached[NCLIENT]; std::map<std::string, int> subs[NCLIENT]; Shadow() { for (int i = 0; i < NCLIENT; i++) attached[i] = false; } };

struct World {
   l1::L1World w;
   bool built;
   reftree::Tree ref;
   std::map<std::string, int> mirror[NCLIENT];    // full path -> payload id (-1: bytes that are not one of the payloads ever sent)
   std::string payBytes[NPAYLOAD];
   std::vector<std::pair<int, MessageRef> > received;   // what the clients were sent by the last executed command
   Shadow sh;
   std::vector<int> pending;                      // operations accepted but not yet executed on the real server (their prefix is known clean)
   verif::Hash128 hist, seed;                     // running hash of (part, start, ops applied so far): key of the per-process memo below
   std::string initError, initKey;
   World() : built(false) { hist.a = hist.b = seed.a = seed.b = 0; }
   std::string ReceivedText() const { std::string o; for (size_t i = 0; i < received.size(); i++) o += std::string(1, kRoleCh[received[i].first]) + "<-" + l1::MsgText(received[i].second) + "\n"; return o; }
};

// LAZY EXECUTION.  SEQX takes a transition by replaying the whole history on a fresh World and then applying the new
// operation, once per alphabet symbol, including the symbols that turn out to be disabled.  The verdict of the oracle for a
// history prefix is a pure function of that prefix (replays are deterministic; the engine samples that).  Each process
// therefore remembers the prefixes it has already executed and compared clean.  Apply() of an operation whose prefix
// (including itself) is known clean only queues it; the queue is executed on the real server -- state-carrying part only:
// inject, drain, apply to the mirrors, advance the reference -- when an operation with an unknown verdict arrives, or when
// the canonical form is asked for.  The operation with the unknown verdict is then executed with ALL comparisons.  Whether
// an operation is enabled depends only on the Shadow (who is attached, who is subscribed to what), which is kept eagerly, so
// a disabled symbol costs no server work at all.  Every distinct prefix is still executed and compared at least once in
// every process that extends it.
static std::set<verif::Hash128> g_cleanPrefixes;

struct MirrorModel {
   std::vector<Op> ops;
   std::vector<std::vector<int> > starts; std::vector<std::string> startNames;
   int partId;

   static const std::string & FiltBytes(int f) { static std::string b[3]; if (b[1].empty()) for (int k = 1; k < 3; k++) b[k] = l1::Flat(MakeFilter(k)); return b[f]; }
   int AddOp(const Op & o) { ops.push_back(o); return (int)ops.size() - 1; }
   int FindOp(const std::string & name) const { for (size_t i = 0; i < ops.size(); i++) if (ops[i].name == name) return (int)i; fprintf(stderr, "C04: no op named '%s'\n", name.c_str()); exit(3); }

   void DataOps(int role)
   {
      const std::string R(1, kRoleCh[role]);
      Op o; o.role = role; o.pat = 0; o.filt = 0; o.quiet = false; o.on = false; o.payload = 0;
      o.kind = K_SET; o.path = "x";   o.payload = PV1; o.name = R + ": SETDATA x=v1";   AddOp(o);
      o.kind = K_SET; o.path = "x";   o.payload = PV2; o.name = R + ": SETDATA x=v2";   AddOp(o);
      o.kind = K_SET; o.path = "x/y"; o.payload = PV1; o.name = R + ": SETDATA x/y=v1"; AddOp(o);
      o.kind = K_SET; o.path = "y";   o.payload = PV1; o.name = R + ": SETDATA y=v1";   AddOp(o);
      o.kind = K_RM;  o.path = "x";   o.name = R + ": REMOVEDATA x";   AddOp(o);
      o.kind = K_RM;  o.path = "x/*"; o.name = R + ": REMOVEDATA x/*"; AddOp(o);
      o.kind = K_RM;  o.path = "*";   o.name = R + ": REMOVEDATA *";   AddOp(o);
      o.path = "x";
      o.kind = K_BATCH_SET_RM;  o.name = R + ": BATCH[SETDATA x=v1, REMOVEDATA x]";   AddOp(o);
      o.kind = K_BATCH_SET_SET; o.name = R + ": BATCH[SETDATA x=v1, SETDATA x=v2]";   AddOp(o);
      o.kind = K_SET2;          o.name = R + ": SETDATA x=[v1,v2] (two values in one field)"; AddOp(o);
   }
   void SubOp(int role, int pat, int filt, bool quiet)
   {
      Op o; o.kind = K_SUB; o.role = role; o.pat = pat; o.filt = filt; o.quiet = quiet; o.on = false; o.payload = 0;
      o.name = std::string(1, kRoleCh[role]) + ": SETPARAMETERS SUBSCRIBE:" + kPat[pat] + kFiltName[filt] + (quiet ? " quietly" : ""); AddOp(o);
   }
   // ONE SETPARAMETERS Message carrying TWO subscriptions (field order = the order given); enabled only while the session holds neither
   void Sub2Op(int role, int pat, int filt, int pat2, int filt2)
   {
      Op o; o.kind = K_SUB2; o.role = role; o.pat = pat; o.filt = filt; o.pat2 = pat2; o.filt2 = filt2; o.quiet = false; o.on = false; o.payload = 0;
      o.name = std::string(1, kRoleCh[role]) + ": SETPARAMETERS SUBSCRIBE:" + kPat[pat] + kFiltName[filt] + " + SUBSCRIBE:" + kPat[pat2] + kFiltName[filt2] + " (one Message)"; AddOp(o);
   }
   void UnsubOp(int role, int pat)
   {
      Op o; o.kind = K_UNSUB; o.role = role; o.pat = pat; o.filt = 0; o.quiet = false; o.on = false; o.payload = 0;
      o.name = std::string(1, kRoleCh[role]) + ": REMOVEPARAMETERS SUBSCRIBE:" + kPat[pat]; AddOp(o);
   }
   void SimpleOp(Kind k, int role, bool on, const std::string & text)
   {
      Op o; o.kind = k; o.role = role; o.pat = 0; o.filt = 0; o.quiet = false; o.on = on; o.payload = 0; o.name = std::string(1, kRoleCh[role]) + ": " + text; AddOp(o);
   }

   explicit MirrorModel(bool /*thorough*/) : partId(0)
   {
      // simplest first
      DataOps(RA);
      for (int p = 0; p < 6; p++) for (int f = 0; f < 3; f++) SubOp(RB, p, f, false);
      for (int p = 0; p < 2; p++) for (int f = 0; f < 3; f++) SubOp(RB, p, f, true);
      Sub2Op(RB, 0, 1, 1, 0); Sub2Op(RB, 0, 2, 3, 0); Sub2Op(RB, 1, 0, 0, 1); Sub2Op(RB, 4, 2, 5, 1);
      for (int p = 0; p < 6; p++) UnsubOp(RB, p);
      SimpleOp(K_UNSUB_ALL, RB, false, "REMOVEPARAMETERS SUBSCRIBE:*");
      SimpleOp(K_MAXITEMS, RB, true, "SETPARAMETERS max-update-items=1");
      SimpleOp(K_MAXITEMS, RB, false, "REMOVEPARAMETERS max-update-items");
      SimpleOp(K_ARRIVE, RC, true, "session arrives");
      SimpleOp(K_LEAVE, RC, false, "session leaves");
      DataOps(RC);
      for (int f = 0; f < 3; f++) SubOp(RC, 1, f, false);
      for (int f = 0; f < 3; f++) SubOp(RC, 2, f, false);
      for (int f = 0; f < 3; f++) SubOp(RC, 1, f, true);
      UnsubOp(RC, 1); UnsubOp(RC, 2);
      SimpleOp(K_UNSUB_ALL, RC, false, "REMOVEPARAMETERS SUBSCRIBE:*");
      SimpleOp(K_SELF, RC, true, "SETPARAMETERS reflect-to-self");
      SimpleOp(K_SELF, RC, false, "REMOVEPARAMETERS reflect-to-self");
   }

   void AddStart(const std::string & name, const char * const * opNames)
   {
      std::vector<int> v; for (int i = 0; opNames && opNames[i]; i++) v.push_back(FindOp(opNames[i]));
      starts.push_back(v); startNames.push_back(name);
   }
   void EmptyStartOnly() { starts.clear(); startNames.clear(); AddStart("A, B and the observer attached; no data, no subscriptions", NULL); }
   void PrefixStarts()
   {
      starts.clear(); startNames.clear();
      static const char * s1[] = { "A: SETDATA x=v2", "A: SETDATA x/y=v1", "A: SETDATA y=v1", NULL };
      AddStart("A holds x=v2, x/y=v1, y=v1", s1);
      static const char * s2[] = { "A: SETDATA x=v2", "A: SETDATA x/y=v1", "B: SETPARAMETERS SUBSCRIBE:/*/*/*", "B: SETPARAMETERS SUBSCRIBE:/*/*/x", NULL };
      AddStart("A holds x=v2, x/y=v1; B subscribed to the overlapping /*/*/* and /*/*/x", s2);
      static const char * s3[] = { "A: SETDATA x=v1", "A: SETDATA y=v1", "C: session arrives", "C: SETDATA x=v2", "C: SETPARAMETERS SUBSCRIBE:/*/*/* [v==1] quietly",
                                   "B: SETPARAMETERS SUBSCRIBE:x [v!=1]", "B: SETPARAMETERS max-update-items=1", NULL };
      AddStart("A holds x=v1, y=v1; C present with x=v2 and a quiet filtered subscription; B subscribed to x [v!=1] with one item per update", s3);
      static const char * s4[] = { "A: SETDATA x/y=v1", "B: SETPARAMETERS SUBSCRIBE:/hA/*/x/y", "B: SETPARAMETERS SUBSCRIBE:*/y [v==1]", "C: session arrives", "C: SETPARAMETERS reflect-to-self",
                                   "C: SETDATA x/y=v1", "C: SETPARAMETERS SUBSCRIBE:x", NULL };
      AddStart("A and C hold x/y=v1; B subscribed to /hA/*/x/y and */y [v==1]; C reflects to self and is subscribed to x", s4);
   }

   typedef ::World World;
   int NumStarts() const { return (int)starts.size(); }
   int NumOps() const { return (int)ops.size(); }
   std::string OpName(int op) const { return ops[op].name; }
   std::string StartName(int s) const { return startNames[s]; }

   void Init(World & W, int start) const
   {
      W.seed.a = verif::Mix64(0x1234567ULL + (uint64_t)start * 977 + (uint64_t)partId * 7919); W.seed.b = verif::Mix64(W.seed.a ^ 0x9e3779b97f4a7c15ULL);
      W.hist = W.seed;
      W.sh.attached[RA] = W.sh.attached[RB] = true;
      std::string msg, key;
      for (size_t i = 0; i < starts[start].size(); i++) {
         const int st = Apply(W, starts[start][i], msg, key);
         if (st != SEQX_OK) { W.initError = "start-state prefix op '" + ops[starts[start][i]].name + "': " + (st == SEQX_DISABLED ? std::string("disabled") : msg); W.initKey = (st == SEQX_DISABLED || st < 0) ? "infra" : key; return; }
      }
   }

   // builds the real world of the (bare) start state: A, B and the observer attached
   int Build(World & W, std::string & msg, std::string & key) const
   {
      W.built = true;
      for (int i = 0; i < NPAYLOAD; i++) { W.payBytes[i] = l1::Flat(MakePayload(i)); W.ref.payloads.push_back(i == PE ? reftree::Payload() : reftree::Payload(true, i == PV1 ? 1 : 2)); }
      W.ref.emptyPayload = PE;
      const int initial[3] = { RA, RB, RO };
      for (int k = 0; k < 3; k++) { const int r = initial[k]; if (!W.w.Attach(r, kHost[r], kId[r])) { msg = "attach failed"; key = "infra"; return -1; } W.ref.Arrive(r, kHost[r], l1::U32(kId[r])); }
      int st = Carry(W, "start", msg, key);
      if (st == SEQX_OK && !g_cleanPrefixes.count(W.seed)) { st = Compare(W, "start", -1, -1, msg, key); if (st == SEQX_OK) g_cleanPrefixes.insert(W.seed); }
      return st;
   }
   // executes everything queued (state-carrying part only).  Anything but OK here contradicts the memo => infrastructure error.
   int Flush(World & W, std::string & msg, std::string & key) const
   {
      if (!W.built) { const int st = Build(W, msg, key); if (st != SEQX_OK) return st; }
      for (size_t i = 0; i < W.pending.size(); i++) {
         const int st = Exec(W, W.pending[i], false, msg, key);
         if (st != SEQX_OK) { msg = "operation '" + ops[W.pending[i]].name + "' of a prefix recorded as clean did not re-execute cleanly: " + msg; key = "infra"; W.pending.clear(); return -1; }
      }
      W.pending.clear();
      return SEQX_OK;
   }

   int PayloadId(const World & W, const std::string & bytes) const { for (int i = 0; i < NPAYLOAD; i++) if (W.payBytes[i] == bytes) return i; return -1; }
   static std::string PayText(int id) { return (id >= 0 && id < NPAYLOAD) ? kPayName[id] : "<alien payload>"; }

   // applies everything role r was sent to a mirror; returns false (msg set) on a Message that has no business being there
   bool DrainInto(World & W, int r, std::map<std::string, int> & mirror, bool ignoreOwn, bool record, std::string & msg) const
   {
      std::vector<MessageRef> got = W.w.Drain(r);
      const std::string own = W.w.Root(r) + "/";
      for (size_t i = 0; i < got.size(); i++) {
         l1::DataItems d;
         if (record) W.received.push_back(std::make_pair(r, got[i]));
         if (!l1::ParseDataItems(got[i], d)) { msg = std::string("client ") + kRoleCh[r] + " was sent an unexpected Message " + l1::MsgText(got[i]); return false; }
         for (size_t k = 0; k < d.removed.size(); k++) { if (ignoreOwn && d.removed[k].compare(0, own.size(), own) == 0) continue; mirror.erase(d.removed[k]); }
         for (size_t k = 0; k < d.sets.size(); k++) { if (ignoreOwn && d.sets[k].first.compare(0, own.size(), own) == 0) continue; mirror[d.sets[k].first] = PayloadId(W, l1::Flat(d.sets[k].second)); }
      }
      return true;
   }

   // state-carrying part of the oracle: the server must be quiescent; every client's queue is drained and applied to its mirror
   int Carry(World & W, const std::string & opKind, std::string & msg, std::string & key) const
   {
      std::string q = W.w.CheckQuiescent();
      if (!q.empty()) { key = "not-quiescent:" + opKind; msg = "server not quiescent after the command: " + q; return SEQX_VIOLATION; }
      W.received.clear();
      for (int r = 0; r < NCLIENT; r++) if (W.w.IsAttached(r)) {
         if (!DrainInto(W, r, W.mirror[r], true, true, msg)) { key = "unexpected-message:" + opKind; return SEQX_VIOLATION; }
      }
      if (W.w.Pending(RO)) { key = "unexpected-message:" + opKind; msg = "the observer (no subscriptions) was sent " + l1::MsgText(W.w.Drain(RO)[0]); return SEQX_VIOLATION; }
      return SEQX_OK;
   }

   // the comparisons.  changedRole/changedSub identify the subscription whose filter the command changed (classification of F11)
   int Compare(World & W, const std::string & opKind, int changedRole, int changedSub, std::string & msg, std::string & key) const
   {
      std::string q = W.w.CheckTreeInvariants();
      if (!q.empty()) { key = "tree-invariant:" + opKind; msg = q; return SEQX_VIOLATION; }
      // the true tree, three ways
      const std::map<std::string, int> all = W.ref.All();
      {
         std::map<std::string, std::string> walk = W.w.WalkTree(3);
         std::string diff;
         for (std::map<std::string, int>::const_iterator it = all.begin(); it != all.end(); ++it) { std::map<std::string, std::string>::const_iterator f = walk.find(it->first); if (f == walk.end()) diff += " missing " + it->first; else if (f->second != W.payBytes[it->second]) diff += " wrong payload at " + it->first; }
         for (std::map<std::string, std::string>::const_iterator it = walk.begin(); it != walk.end(); ++it) if (!all.count(it->first)) diff += " extra " + it->first;
         if (!diff.empty()) { key = "tree-mismatch:" + opKind; msg = "server tree (in-process walk) differs from the reference tree:" + diff + "; reference: " + W.ref.Text(); return SEQX_VIOLATION; }
      }
      {
         W.w.Inject(RO, l1::GetData(l1::Keys("/*/*/*", "/*/*/*/*")));
         std::map<std::string, int> seen; std::string m2;
         if (!DrainInto(W, RO, seen, false, false, m2)) { key = "unexpected-message:" + opKind; msg = m2; return SEQX_VIOLATION; }
         if (seen != all) {
            std::string diff;
            for (std::map<std::string, int>::const_iterator it = all.begin(); it != all.end(); ++it) { std::map<std::string, int>::const_iterator f = seen.find(it->first); if (f == seen.end()) diff += " missing " + it->first; else if (f->second != it->second) diff += " wrong payload at " + it->first; }
            for (std::map<std::string, int>::const_iterator it = seen.begin(); it != seen.end(); ++it) if (!all.count(it->first)) diff += " extra " + it->first;
            key = "getdata-mismatch:" + opKind; msg = "observer's GETDATA /*/*/* + /*/*/*/* differs from the reference tree:" + diff; return SEQX_VIOLATION;
         }
      }
      // the server's SUBSCRIBE: parameters == the reference's subscriptions (name, filter archive)
      for (int r = 0; r < NCLIENT; r++) if (W.w.IsAttached(r)) {
         std::map<std::string, std::string> have, want;
         const muscle::Message & pm = W.w.S(r)->GetParametersConst();
         for (muscle::MessageFieldNameIterator it = pm.GetFieldNameIterator(); it.HasData(); it++) if (it.GetFieldName().StartsWith(PR_NAME_SUBSCRIBE_PREFIX)) {
            muscle::ConstMessageRef f; have[it.GetFieldName()()] = (pm.FindMessage(it.GetFieldName(), f).IsOK()) ? l1::Flat(f) : std::string("-");
         }
         for (size_t i = 0; i < W.ref.S[r].subs.size(); i++) {
            const reftree::Filter & f = W.ref.S[r].subs[i].f;
            want[l1::SubscribeName(W.ref.S[r].subs[i].name)] = (f.kind == reftree::Filter::NONE) ? std::string("-") : FiltBytes(f.kind == reftree::Filter::EQ ? FEQ1 : FNE1);
         }
         if (have != want) {
            key = "subscription-parameters-mismatch:" + opKind; msg = std::string("session ") + kRoleCh[r] + ": SUBSCRIBE: parameters held by the server differ from the subscriptions the client set; server has:";
            for (std::map<std::string, std::string>::const_iterator it = have.begin(); it != have.end(); ++it) msg += " " + it->first; msg += "; client set:";
            for (std::map<std::string, std::string>::const_iterator it = want.begin(); it != want.end(); ++it) msg += " " + it->first;
            return SEQX_VIOLATION;
         }
      }
      // the mirrors
      for (int r = 0; r < NCLIENT; r++) if (W.w.IsAttached(r)) {
         const std::map<std::string, int> exp = W.ref.Expected(r);
         if (!W.ref.inDomain) { key = "infra"; msg = "reference evaluated a pattern outside its domain"; return -1; }
         if (exp == W.mirror[r]) continue;
         std::string kind, first, all3;
         for (std::map<std::string, int>::const_iterator it = exp.begin(); it != exp.end(); ++it) if (!W.mirror[r].count(it->first)) { if (kind.empty()) { kind = "missing"; first = it->first; } all3 += " missing " + it->first + "=" + PayText(it->second); }
         for (std::map<std::string, int>::const_iterator it = exp.begin(); it != exp.end(); ++it) { std::map<std::string, int>::const_iterator f = W.mirror[r].find(it->first); if (f != W.mirror[r].end() && f->second != it->second) { if (kind.empty()) { kind = "stale"; first = it->first; } all3 += " stale " + it->first + " (mirror " + PayText(f->second) + ", server " + PayText(it->second) + ")"; } }
         for (std::map<std::string, int>::const_iterator it = W.mirror[r].begin(); it != W.mirror[r].end(); ++it) if (!exp.count(it->first)) { if (kind.empty()) { kind = "extra"; first = it->first; } all3 += " extra " + it->first + "=" + PayText(it->second); }
         std::string qual;
         if (kind == "missing" && changedRole == r && changedSub >= 0 && W.ref.Wants(r, first, exp.find(first)->second, changedSub)) qual = "filter-change-with-overlapping-subscription";   // finding F11
         else if (W.ref.S[r].everAliased) qual = "client-has-held-two-spellings-of-one-subscription-path";   // "x" and "/*/*/x": one server-side entry behind two parameters
         else qual = opKind;
         key = "mirror-" + kind + ":" + qual;
         msg = std::string("mirror of client ") + kRoleCh[r] + " differs from the nodes matching its subscriptions:" + all3 + "; received by the last command: " + W.ReceivedText() + "; reference: " + W.ref.Text();
         return SEQX_VIOLATION;
      }
      return SEQX_OK;
   }

   // is the operation enabled (judged on the shadow)?
   bool Enabled(const Shadow & sh, const Op & o) const
   {
      const int r = o.role;
      if (o.kind == K_ARRIVE) return !sh.attached[r];
      if (!sh.attached[r]) return false;
      if (o.kind == K_SUB) { std::map<std::string, int>::const_iterator it = sh.subs[r].find(kPat[o.pat]); if (o.quiet && it != sh.subs[r].end() && it->second == o.filt) return false; }   // a quiet re-issue with the same filter asks the server for nothing
      if (o.kind == K_SUB2) return !sh.subs[r].count(kPat[o.pat]) && !sh.subs[r].count(kPat[o.pat2]);
      if (o.kind == K_UNSUB || o.kind == K_UNSUB_ALL) return !sh.subs[r].empty();   // (removing a subscription while holding none: nothing to observe)
      return true;
   }
   void AdvanceShadow(Shadow & sh, const Op & o) const
   {
      const int r = o.role;
      switch (o.kind) {
         case K_ARRIVE: sh.attached[r] = true; sh.subs[r].clear(); break;
         case K_LEAVE: sh.attached[r] = false; sh.subs[r].clear(); break;
         case K_SUB: sh.subs[r][kPat[o.pat]] = o.filt; break;
         case K_SUB2: sh.subs[r][kPat[o.pat]] = o.filt; sh.subs[r][kPat[o.pat2]] = o.filt2; break;
         case K_UNSUB: sh.subs[r].erase(kPat[o.pat]); break;
         case K_UNSUB_ALL: sh.subs[r].clear(); break;
         default: break;
      }
   }

   int Apply(World & W, int opi, std::string & msg, std::string & key) const
   {
      if (!W.initError.empty()) { msg = "start state is not clean: " + W.initError; key = "start-state:" + W.initKey; return (W.initKey == "infra") ? -1 : SEQX_VIOLATION; }
      const Op & o = ops[opi];
      if (!Enabled(W.sh, o)) return SEQX_DISABLED;
      AdvanceShadow(W.sh, o);
      W.hist.a = verif::Mix64(W.hist.a + (uint64_t)opi + 1); W.hist.b = verif::Mix64((W.hist.b ^ ((uint64_t)opi + 0x51ed27ULL)) * 0x100000001b3ULL);
      if (g_cleanPrefixes.count(W.hist)) { W.pending.push_back(opi); return SEQX_OK; }
      int st = Flush(W, msg, key);
      if (st != SEQX_OK) return st;
      st = Exec(W, opi, true, msg, key);
      if (st == SEQX_OK) { if (g_cleanPrefixes.size() > 2000000) g_cleanPrefixes.clear(); g_cleanPrefixes.insert(W.hist); }
      return st;
   }

   // executes one operation on the real server, the reference and the mirrors; compare=false: state-carrying part only
   int Exec(World & W, int opi, bool compare, std::string & msg, std::string & key) const
   {
      const Op & o = ops[opi];
      const int r = o.role;
      std::string opKind; int changedRole = -1, changedSub = -1;
      switch (o.kind) {
         case K_SET:
            W.w.Inject(r, l1::SetData(o.path, MakePayload(o.payload))); W.ref.SetData(r, o.path, o.payload);
            opKind = (o.path.find('/') != std::string::npos) ? "setdata-nested" : "setdata"; break;
         case K_SET2: {
            MessageRef m = l1::SetData("x", MakePayload(PV1)); l1::AddData(m, "x", MakePayload(PV2));
            W.w.Inject(r, m); W.ref.SetData(r, "x", PV1); W.ref.SetData(r, "x", PV2); opKind = "setdata-two-values"; break; }
         case K_RM:
            W.w.Inject(r, l1::RemoveData(l1::Keys(o.path))); W.ref.RemoveData(r, o.path);
            opKind = (o.path.find('*') != std::string::npos) ? "removedata-wildcard" : "removedata"; break;
         case K_BATCH_SET_RM:
            W.w.Inject(r, l1::Batch(l1::SetData("x", MakePayload(PV1)), l1::RemoveData(l1::Keys("x")))); W.ref.SetData(r, "x", PV1); W.ref.RemoveData(r, "x"); opKind = "batch-set-remove"; break;
         case K_BATCH_SET_SET:
            W.w.Inject(r, l1::Batch(l1::SetData("x", MakePayload(PV1)), l1::SetData("x", MakePayload(PV2)))); W.ref.SetData(r, "x", PV1); W.ref.SetData(r, "x", PV2); opKind = "batch-set-set"; break;
         case K_SUB: {
            const std::string name = kPat[o.pat];
            const int existing = W.ref.S[r].FindSub(name);
            const bool sameFilter = (existing >= 0) && (W.ref.S[r].subs[existing].f == RefFilter(o.filt));
            W.w.Inject(r, l1::Subscribe(name, MakeFilter(o.filt), o.quiet));
            if (o.quiet && existing < 0) {   // new quiet subscription: the client fetches the current values itself
               std::vector<MessageRef> fl; fl.push_back(MakeFilter(o.filt));
               W.w.Inject(r, l1::GetData(l1::Keys(name), o.filt == FNONE ? NULL : &fl));
            }
            W.ref.Subscribe(r, name, RefFilter(o.filt));
            if (existing >= 0 && !sameFilter) { opKind = o.quiet ? "filter-change-quiet" : "filter-change"; changedRole = r; changedSub = existing; }
            else if (existing >= 0) opKind = "resubscribe-same-filter";
            else opKind = o.quiet ? "subscribe-quiet" : "subscribe";
            break; }
         case K_SUB2: {
            MessageRef m = l1::SetParameters(); l1::AddSubscribe(m, kPat[o.pat], MakeFilter(o.filt)); l1::AddSubscribe(m, kPat[o.pat2], MakeFilter(o.filt2));
            W.w.Inject(r, m);
            W.ref.Subscribe(r, kPat[o.pat], RefFilter(o.filt)); W.ref.Subscribe(r, kPat[o.pat2], RefFilter(o.filt2));
            opKind = "subscribe-two-in-one-message"; break; }
         case K_UNSUB: {
            const std::string name = kPat[o.pat];
            W.w.Inject(r, l1::Unsubscribe(name));
            opKind = W.ref.Unsubscribe(r, name) ? "unsubscribe" : "unsubscribe-not-subscribed";
            W.ref.PruneMirror(r, W.mirror[r]);
            break; }
         case K_UNSUB_ALL:
            W.w.Inject(r, l1::UnsubscribeAll()); W.ref.UnsubscribeAll(r); W.ref.PruneMirror(r, W.mirror[r]); opKind = "unsubscribe-all"; break;
         case K_MAXITEMS:
            if (o.on) { MessageRef m = l1::SetParameters(); l1::AddMaxUpdateItems(m, 1); W.w.Inject(r, m); }
            else W.w.Inject(r, l1::RemoveParameters(l1::Keys(l1::EscapeParamName(PR_NAME_MAX_UPDATE_MESSAGE_ITEMS))));
            opKind = "max-update-items"; break;
         case K_SELF:
            if (o.on) { MessageRef m = l1::SetParameters(); l1::AddFlagParam(m, PR_NAME_REFLECT_TO_SELF); W.w.Inject(r, m); }
            else W.w.Inject(r, l1::RemoveParameters(l1::Keys(l1::EscapeParamName(PR_NAME_REFLECT_TO_SELF))));
            opKind = "reflect-to-self"; break;
         case K_ARRIVE:
            if (!W.w.Attach(r, kHost[r], kId[r])) { msg = "attach failed"; key = "infra"; return -1; }
            W.ref.Arrive(r, kHost[r], l1::U32(kId[r])); W.mirror[r].clear(); opKind = "session-arrives"; break;
         case K_LEAVE:
            (void) W.w.Depart(r); W.ref.Depart(r); W.mirror[r].clear(); opKind = "session-leaves"; break;
      }
      const int st = Carry(W, opKind, msg, key);
      if (st != SEQX_OK || !compare) return st;
      return Compare(W, opKind, changedRole, changedSub, msg, key);
   }

   void Canon(const World & Wc, std::string & out) const
   {
      World & W = const_cast<World &>(Wc);   // executes what was queued under the memo
      std::string msg, key;
      if (Flush(W, msg, key) != SEQX_OK) { out = "FLUSH-FAILED " + msg; return; }
      out = W.w.Dump();
      for (int r = 0; r < NCLIENT; r++) {
         out += std::string("MIRROR ") + kRoleCh[r] + ":";
         for (std::map<std::string, int>::const_iterator it = W.mirror[r].begin(); it != W.mirror[r].end(); ++it) out += " " + it->first + "=" + PayText(it->second);
         out += "\n";
      }
   }
   // distinct observable outcomes: what each client was sent by the last command (raw bytes)
   void Outcome(const World & Wc, std::string & out) const
   {
      World & W = const_cast<World &>(Wc); std::string msg, key; (void) Flush(W, msg, key);
      out.clear(); for (size_t i = 0; i < W.received.size(); i++) { out += kRoleCh[W.received[i].first]; out += l1::Flat(W.received[i].second); }
   }
};

static std::string Rule(const MirrorModel & m, int depth, const char * what)
{
   return verif::Fmt("every sequence of <=%d commands from a %d-command alphabet, %s (%d start state(s)), each replayed on a fresh real ReflectServer with StorageReflectSessions A,B (host hA), C (host hC, arrives/leaves) and an observer; "
                     "alphabet: A and C: SETDATA x=v1|v2, x/y=v1, y=v1, x=[v1,v2] in one field, REMOVEDATA x | x/* | *, BATCH[set x, remove x], BATCH[set x=v1, set x=v2]; "
                     "B: SUBSCRIBE:p for p in {/*/*/x, /*/*/*, x, /hA/*/x/y, */y, /*/*/(x|y)} x filter {none, v==1, v!=1} (re-issue = filter change), the first two patterns also quietly, REMOVEPARAMETERS per pattern and SUBSCRIBE:*, max-update-items 1/unset; "
                     "C: SUBSCRIBE: /*/*/* and x x 3 filters, /*/*/* also quietly, unsubscribe, reflect-to-self on/off, session arrives/leaves; "
                     "after every command: server quiescent, all queues drained and applied (removals first, then sets), mirror == reference expectation for every client, in-process tree walk == observer GETDATA == reference tree, SUBSCRIBE: parameters == reference; "
                     "states deduplicated on the canonical server dump (tree with payloads and per-node subscriber tables session->count, per-session subscriptions with filter archives, parameters, routing flags, max-items) + mirrors; a state is non-trivial when its canonical form is new",
                     depth, m.NumOps(), what, m.NumStarts());
}

int main(int argc, char ** argv)
{
   // Every replay builds and tears down a whole server, so the run is allocation-bound; with ASan's default 256 MB quarantine
   // freed blocks are not reused for a long time and each replay works on cold memory.  A 4 MB quarantine (still dozens of
   // replays deep, so a use-after-free inside a replay is caught) makes a replay ~30% cheaper.  Options given in the
   // environment override pin.cpp's defaults flag by flag, hence one re-exec.
   if (getenv("VERIF_C04_CHILD") == NULL) {
      const char * old = getenv("ASAN_OPTIONS");
      std::string ao = std::string(old ? old : "") + (old && old[0] ? ":" : "") + "quarantine_size_mb=4";
      setenv("ASAN_OPTIONS", ao.c_str(), 1); setenv("VERIF_C04_CHILD", "1", 1);
      char self[4096]; const ssize_t n = readlink("/proc/self/exe", self, sizeof(self) - 1);
      if (n > 0) { self[n] = 0; execv(self, argv); }   // on failure: just carry on with the defaults
   }
   verif::Args args; args.Parse(argc, argv);
   verif::Result res; res.harness = "C04_mirror";
   MirrorModel empty(args.Thorough()); empty.EmptyStartOnly();
   MirrorModel prefixed(args.Thorough()); prefixed.PrefixStarts(); prefixed.partId = 1;
   if (!args.replay.empty()) {
      verif::ReplayDoc d; if (!d.Load(args.replay)) { fprintf(stderr, "cannot read %s\n", args.replay.c_str()); return 3; }
      if (d.Str("part") == "from-prefixes") { seqx::Explorer<MirrorModel> ex(prefixed, args, res, "from-prefixes"); return ex.ReplayFile(d); }
      seqx::Explorer<MirrorModel> ex(empty, args, res, "from-empty"); return ex.ReplayFile(d);
   }
   int depth = args.Thorough() ? 6 : 4, pdepth = args.Thorough() ? 4 : 3;
   uint64_t cap = 3000000;
   if (args.kv.count("depth")) depth = atoi(args.kv["depth"].c_str());
   if (args.kv.count("pdepth")) pdepth = atoi(args.kv["pdepth"].c_str());
   if (args.kv.count("cap")) cap = (uint64_t)atoll(args.kv["cap"].c_str());
   const double budget = args.deadline * 0.9;
   if (args.WantPart("from-empty") && depth > 0) {
      seqx::Explorer<MirrorModel> ex(empty, args, res, "from-empty");
      ex.SetDeadline(args.t0 + budget * 0.6); ex.SetMaxStates(cap);
      seqx::Stats S = ex.Run(depth);
      res.parts.back().rule = Rule(empty, depth, "from the empty start state");
      fprintf(stderr, "C04 from-empty: states=%llu transitions=%llu depth=%d exhaustive=%d outcomes=%llu violating=%llu wall=%.1fs\n", (unsigned long long)S.states, (unsigned long long)S.transitions, S.depthCompleted, (int)S.exhaustive, (unsigned long long)S.distinctOutcomes, (unsigned long long)S.violations, verif::NowS() - args.t0);
   }
   if (args.WantPart("from-prefixes") && pdepth > 0) {
      seqx::Explorer<MirrorModel> ex(prefixed, args, res, "from-prefixes");
      ex.SetDeadline(args.t0 + budget); ex.SetMaxStates(cap);
      seqx::Stats S = ex.Run(pdepth);
      res.parts.back().rule = Rule(prefixed, pdepth, "from each of the populated start states (built with the same commands and checked by the same oracle)");
      std::string sn = "["; for (int i = 0; i < prefixed.NumStarts(); i++) { if (i) sn += ", "; sn += verif::JStr(prefixed.StartName(i)); } sn += "]";
      res.parts.back().extra["start_state_names"] = sn;
      fprintf(stderr, "C04 from-prefixes: states=%llu transitions=%llu depth=%d exhaustive=%d outcomes=%llu violating=%llu wall=%.1fs\n", (unsigned long long)S.states, (unsigned long long)S.transitions, S.depthCompleted, (int)S.exhaustive, (unsigned long long)S.distinctOutcomes, (unsigned long long)S.violations, verif::NowS() - args.t0);
   }
   res.observations.push_back("domain: SETDATA with the QUIET flag, REMOVEDATA with PR_NAME_REMOVE_QUIETLY and PR_NAME_DISABLE_SUBSCRIPTIONS are never issued (the publisher/subscriber asks not to be notified; convergence is then not promised)");
   res.observations.push_back("entries under a client's own session directory are ignored in its mirror and in the expectation (with reflect-to-self, or on a filter change, the server may send them)");
   return res.Write(args);
}
