// C07 -- the command alphabet of the attacker X, shared by the L1 (in-process) and L2 (socket-stepped) parts of
// harness/C07_robustness.cpp.  Include AFTER harness/reflector_l1.h (uses its Message builders; adds nothing to namespace l1).
//
// A command is an index into a fixed table (a pure function of the index):
//    generic commands   what-code x SHAPE, SHAPE = (PR_NAME_KEYS shape, PR_NAME_FILTERS shape, extra-field shape)
//    special commands   hand-written, command-specific (SETPARAMETERS / SETDATA / INSERTORDEREDDATA / REORDERDATA / BATCH nests ...)
// Filters come in ACCEPT / REJECT pairs with respect to the payloads the harness stores in every node (Rich(v), v >= 1):
// class 'A' filters match every such payload, class 'R' filters match none (verified against the real QueryFilter code at
// start-up by SelfCheckFilters()).  The edit-the-queue handlers (JETTISON*) only do work for accepted items.  (Payloads that a
// command of the alphabet itself stores -- empty Messages, filter archives used as payload -- can of course be accepted by an 'R'
// filter; violation keys are therefore classified dynamically, see ClassOfMessage() in C07_robustness.cpp.)
#ifndef VERIF_C07_ALPHABET_H
#define VERIF_C07_ALPHABET_H

#include "support/Point.h"
#include "support/Rect.h"
#include "util/ByteBuffer.h"

namespace c07 {

using l1::MessageRef;
using muscle::Message;
using muscle::String;
using muscle::ConstQueryFilterRef;

enum { RICH_WHAT = l1::PAYLOAD_WHAT };

// The payload of every node in the C07 world: one field of every type a leaf QueryFilter can test.
static inline MessageRef MakeRich(int32_t v)
{
   MessageRef m = l1::NewMsg(RICH_WHAT); Message & M = *m();
   (void) M.AddInt32("v", v); (void) M.AddString("s", "ab"); (void) M.AddBool("b", true); (void) M.AddDouble("d", 1.5); (void) M.AddFloat("f", 2.5f);
   (void) M.AddInt64("i64", ((int64_t)1) << 40); (void) M.AddInt16("i16", 7); (void) M.AddInt8("i8", 3);
   (void) M.AddPoint("pt", muscle::Point(1.0f, 2.0f)); (void) M.AddRect("r", muscle::Rect(1.0f, 2.0f, 3.0f, 4.0f));
   MessageRef sub = l1::NewMsg(5); (void) sub()->AddInt32("f", 1); (void) M.AddMessage("m", sub);
   const uint8_t raw[2] = { 1, 2 }; (void) M.AddData("raw", B_RAW_TYPE, raw, 2);
   return m;
}
// Payload objects are built once per process and shared by reference (the server stores and forwards payloads by reference and
// never edits them; RichIntact() re-checks that at the end of every history).
struct RichCache { std::map<int32_t, MessageRef> msg; std::map<int32_t, std::string> flat; };
static inline RichCache & TheRichCache() { static RichCache c; return c; }
static inline MessageRef Rich(int32_t v)
{
   RichCache & c = TheRichCache(); MessageRef & r = c.msg[v];
   if (r() == NULL) { r = MakeRich(v); c.flat[v] = l1::Flat(r); }
   return r;
}
// >= 0 when m IS one of the shared payload objects (identity, not content)
static inline int32_t RichIdOf(const Message * m)
{
   RichCache & c = TheRichCache();
   for (std::map<int32_t, MessageRef>::iterator it = c.msg.begin(); it != c.msg.end(); ++it) if (it->second() == m) return it->first;
   return -1;
}
static inline const std::string & RichFlat(int32_t v) { (void) Rich(v); return TheRichCache().flat[v]; }
static inline bool RichIntact()
{
   RichCache & c = TheRichCache();
   for (std::map<int32_t, MessageRef>::iterator it = c.msg.begin(); it != c.msg.end(); ++it) if (l1::Flat(it->second) != c.flat[it->first]) return false;
   return true;
}

// ------------------------------------------------------------------------------------------------ what codes
struct WhatCode { uint32_t what; bool bounceOnly; };   // bounceOnly: by the dispatcher's default branch / SETDATATREES: the fields are never looked at
static inline const std::vector<WhatCode> & Whats()
{
   static std::vector<WhatCode> v;
   if (v.empty()) {
      for (uint32_t w = muscle::PR_COMMAND_SETPARAMETERS; w <= muscle::PR_COMMAND_JETTISONDATATREES; w++) { WhatCode c; c.what = w; c.bounceOnly = (w == muscle::PR_COMMAND_SETDATATREES); v.push_back(c); }
      { WhatCode c; c.what = 1234; c.bounceOnly = false; v.push_back(c); }                                     // a client-to-client code
      { WhatCode c; c.what = muscle::PR_RESULT_DATAITEMS; c.bounceOnly = false; v.push_back(c); }              // a RESULT code sent by a client: outside the command range, i.e. client-to-client
      { WhatCode c; c.what = muscle::BEGIN_PR_COMMANDS; c.bounceOnly = true; v.push_back(c); }                 // one below the first command (inside muscleInRange: default branch)
      for (uint32_t w = muscle::PR_COMMAND_RESERVED21; w <= muscle::PR_COMMAND_RESERVED32; w++) { WhatCode c; c.what = w; c.bounceOnly = true; v.push_back(c); }
      { WhatCode c; c.what = muscle::END_PR_COMMANDS; c.bounceOnly = true; v.push_back(c); }                   // the guard value (still inside muscleInRange)
      { WhatCode c; c.what = muscle::BEGIN_PR_COMMANDS - 1; c.bounceOnly = false; v.push_back(c); }            // one below the reserved range: client-to-client
      { WhatCode c; c.what = muscle::END_PR_COMMANDS + 1; c.bounceOnly = false; v.push_back(c); }              // one above the reserved range: client-to-client
   }
   return v;
}
static inline std::string WhatName(uint32_t w)
{
   if (w == muscle::BEGIN_PR_COMMANDS) return "BEGIN_PR_COMMANDS";
   if (w == muscle::END_PR_COMMANDS) return "END_PR_COMMANDS";
   if (w == muscle::BEGIN_PR_COMMANDS - 1) return "BELOW_RANGE";
   if (w == muscle::END_PR_COMMANDS + 1) return "ABOVE_RANGE";
   if (w >= muscle::PR_COMMAND_RESERVED21 && w <= muscle::PR_COMMAND_RESERVED32) return "RESERVED" + l1::U32(21 + w - muscle::PR_COMMAND_RESERVED21);
   if (w == 1234) return "CLIENT2CLIENT";
   if (w == muscle::PR_RESULT_DATAITEMS) return "CLIENT2CLIENT_R_DATAITEMS";
   return l1::WhatText(w);
}

// ------------------------------------------------------------------------------------------------ PR_NAME_KEYS shapes
enum KeyShape { K_ABSENT = 0, K_STAR, K_ABS3, K_LIT, K_TWO, K_DEEP, K_LONG, K_PAREN, K_BRACKET, K_BACKSLASH, K_TILDE, K_RANGE, K_EMPTY, K_SLASH, K_SESSION, K_BACKTICK, K_TILDE_BACKTICK, K_INT32, K_MSG, NUM_KEYSHAPES };
static inline std::string LongClause() { return "v" + std::string(299, '*'); }   // 300 characters, matches every name that starts with v
static inline const char * KeyName(int k)
{
   static const char * n[NUM_KEYSHAPES] = { "", "keys=*", "keys=/*/*/*", "keys=x", "keys=[x,vx]", "keys=/*/*/*/*", "keys=v***(300 chars)", "keys=(", "keys=[", "keys=\\", "keys=~", "keys=<->", "keys=''", "keys=/", "keys=/*/*",
                                           "keys=`", "keys=~`", "keys:int32", "keys:Message" };
   return n[k];
}
static inline int AddKeyShape(Message & m, int k)   // returns the number of string keys added
{
   switch (k) {
      case K_ABSENT: return 0;
      case K_STAR: (void) m.AddString(PR_NAME_KEYS, "*"); return 1;
      case K_ABS3: (void) m.AddString(PR_NAME_KEYS, "/*/*/*"); return 1;
      case K_LIT: (void) m.AddString(PR_NAME_KEYS, "x"); return 1;
      case K_TWO: (void) m.AddString(PR_NAME_KEYS, "x"); (void) m.AddString(PR_NAME_KEYS, "vx"); return 2;   // two patterns of equal depth
      case K_DEEP: (void) m.AddString(PR_NAME_KEYS, "/*/*/*/*"); return 1;
      case K_LONG: (void) m.AddString(PR_NAME_KEYS, LongClause().c_str()); return 1;
      case K_PAREN: (void) m.AddString(PR_NAME_KEYS, "("); return 1;
      case K_BRACKET: (void) m.AddString(PR_NAME_KEYS, "["); return 1;
      case K_BACKSLASH: (void) m.AddString(PR_NAME_KEYS, "\\"); return 1;
      case K_TILDE: (void) m.AddString(PR_NAME_KEYS, "~"); return 1;
      case K_RANGE: (void) m.AddString(PR_NAME_KEYS, "<->"); return 1;
      case K_EMPTY: (void) m.AddString(PR_NAME_KEYS, ""); return 1;
      case K_SLASH: (void) m.AddString(PR_NAME_KEYS, "/"); return 1;
      case K_SESSION: (void) m.AddString(PR_NAME_KEYS, "/*/*"); return 1;                                    // the session nodes themselves
      case K_BACKTICK: (void) m.AddString(PR_NAME_KEYS, "`"); return 1;                                       // the raw-regex prefix followed by an EMPTY regular expression
      case K_TILDE_BACKTICK: (void) m.AddString(PR_NAME_KEYS, "~`"); return 1;                                // ... negated
      case K_INT32: (void) m.AddInt32(PR_NAME_KEYS, 7); return 0;                                             // wrong type
      case K_MSG: (void) m.AddMessage(PR_NAME_KEYS, l1::Noop()); return 0;                                    // wrong type (right type for BATCH: one NOOP)
      default: break;
   }
   return 0;
}

// ------------------------------------------------------------------------------------------------ PR_NAME_FILTERS shapes
enum FiltShape {
   F_ABSENT = 0, F_WHAT_A, F_WHAT_R,
   F_EXISTS_A, F_EXISTS_R, F_BOOL_A, F_BOOL_R, F_DOUBLE_A, F_DOUBLE_R, F_FLOAT_A, F_FLOAT_R, F_INT64_A, F_INT64_R, F_INT32_A, F_INT32_R, F_INT16_A, F_INT16_R, F_INT8_A, F_INT8_R,
   F_POINT_A, F_POINT_R, F_RECT_A, F_RECT_R, F_STRING_A, F_STRING_R, F_STRWILD_A, F_STRWILD_R, F_MESSAGE_A, F_MESSAGE_R, F_RAW_A, F_RAW_R,
   F_TREE_A, F_TREE_R, F_XOR_A, F_NAND_R, F_MINMATCH_A, F_MAXMATCH_R, F_DEEP101_A, F_DEEP101_R, F_TWO_AR, F_TWO_RA,
   F_CHILDCOUNT, F_NODENAME, F_BADREGEX,
   F_H_WHAT0, F_H_NOFIELDS, F_H_BADKIDS, F_H_KIDWHAT0, F_H_OP200, F_H_INDEXMAX, F_H_EMPTYMSG,
   F_T_STRING, F_T_INT32,
   NUM_FILTSHAPES
};
// class: '-' absent, 'A' accepts every Rich payload, 'R' rejects every Rich payload, 'N' result depends on a node context / unspecified,
//        'H' hostile archive (wrong what, missing fields, ...), 'T' PR_NAME_FILTERS field of the wrong type, 'M' two filters of different class
static inline char FiltClass(int f)
{
   if (f == F_ABSENT) return '-';
   if (f == F_TWO_AR || f == F_TWO_RA) return 'M';
   if (f >= F_WHAT_A && f <= F_DEEP101_R) {
      switch (f) {
         case F_WHAT_A: case F_EXISTS_A: case F_BOOL_A: case F_DOUBLE_A: case F_FLOAT_A: case F_INT64_A: case F_INT32_A: case F_INT16_A: case F_INT8_A: case F_POINT_A: case F_RECT_A: case F_STRING_A:
         case F_STRWILD_A: case F_MESSAGE_A: case F_RAW_A: case F_TREE_A: case F_XOR_A: case F_MINMATCH_A: case F_DEEP101_A: return 'A';
         default: return 'R';
      }
   }
   if (f == F_CHILDCOUNT || f == F_NODENAME || f == F_BADREGEX) return 'N';
   if (f >= F_H_WHAT0 && f <= F_H_EMPTYMSG) return 'H';
   return 'T';
}
static inline const char * FiltName(int f)
{
   static const char * n[NUM_FILTSHAPES] = { "", "filter=what-in-range(A)", "filter=what-out-of-range(R)",
      "filter=exists:v(A)", "filter=exists:nope(R)", "filter=bool:b==true(A)", "filter=bool:b==false(R)", "filter=double:d==1.5(A)", "filter=double:d>100(R)", "filter=float:f<3(A)", "filter=float:f==9(R)",
      "filter=int64:i64==2^40(A)", "filter=int64:i64!=2^40(R)", "filter=int32:v>=1(A)", "filter=int32:v==-77(R)", "filter=int16:i16==7(A)", "filter=int16:i16<0(R)", "filter=int8:i8==3(A)", "filter=int8:i8==4(R)",
      "filter=point:pt==(1,2)(A)", "filter=point:pt!=(1,2)(R)", "filter=rect:r==(1,2,3,4)(A)", "filter=rect:r!=(1,2,3,4)(R)", "filter=string:s==ab(A)", "filter=string:s==zz(R)", "filter=string:s~a*(A)", "filter=string:s~z*(R)",
      "filter=message:m[what==5](A)", "filter=message:m[what==6](R)", "filter=raw:raw==0102(A)", "filter=raw:raw==09(R)",
      "filter=and(int32,or(string-R,what-A))(A)", "filter=and(int32,or(string-R,what-R))(R)", "filter=xor(A,R)(A)", "filter=nand(A,A)(R)", "filter=minmatch1(A,A,R)(A)", "filter=maxmatch1(A,A,R)(R)",
      "filter=and-nested-101-deep(A)", "filter=and-nested-101-deep(R)", "filters=[A,R]", "filters=[R,A]",
      "filter=childcount>=0", "filter=nodename~*", "filter=string-regex-'('",
      "filter=archive-what-0", "filter=int32-archive-without-fields", "filter=and-archive-kids-are-strings", "filter=and-archive-kid-what-0", "filter=int32-archive-op-200", "filter=int32-archive-index-max", "filter=empty-Message",
      "filters:string", "filters:int32" };
   return n[f];
}

static inline MessageRef Arch(const muscle::QueryFilter & f) { return l1::FilterArchive(f); }
template <class QF> static inline ConstQueryFilterRef Q(QF * f) { return ConstQueryFilterRef(f); }
static inline ConstQueryFilterRef QWhatA() { return Q(new muscle::WhatCodeQueryFilter(RICH_WHAT, RICH_WHAT)); }
static inline ConstQueryFilterRef QWhatR() { return Q(new muscle::WhatCodeQueryFilter(0, 100)); }
static inline ConstQueryFilterRef QInt32A() { return Q(new muscle::Int32QueryFilter("v", muscle::Int32QueryFilter::OP_GREATER_THAN_OR_EQUAL_TO, 1)); }
static inline ConstQueryFilterRef QStringR() { return Q(new muscle::StringQueryFilter("s", muscle::StringQueryFilter::OP_EQUAL_TO, "zz")); }

// the archive Message(s) of one filter shape; empty vector for absent / wrong-typed shapes
static inline std::vector<MessageRef> FilterArchives(int f)
{
   using namespace muscle;
   std::vector<MessageRef> out;
   typedef Int32QueryFilter NQ;   // operator enum is shared by all numeric filters
   switch (f) {
      case F_WHAT_A: out.push_back(Arch(*QWhatA()())); break;
      case F_WHAT_R: out.push_back(Arch(*QWhatR()())); break;
      case F_EXISTS_A: out.push_back(Arch(ValueExistsQueryFilter("v"))); break;
      case F_EXISTS_R: out.push_back(Arch(ValueExistsQueryFilter("nope"))); break;
      case F_BOOL_A: out.push_back(Arch(BoolQueryFilter("b", NQ::OP_EQUAL_TO, true))); break;
      case F_BOOL_R: out.push_back(Arch(BoolQueryFilter("b", NQ::OP_EQUAL_TO, false))); break;
      case F_DOUBLE_A: out.push_back(Arch(DoubleQueryFilter("d", NQ::OP_EQUAL_TO, 1.5))); break;
      case F_DOUBLE_R: out.push_back(Arch(DoubleQueryFilter("d", NQ::OP_GREATER_THAN, 100.0))); break;
      case F_FLOAT_A: out.push_back(Arch(FloatQueryFilter("f", NQ::OP_LESS_THAN, 3.0f))); break;
      case F_FLOAT_R: out.push_back(Arch(FloatQueryFilter("f", NQ::OP_EQUAL_TO, 9.0f))); break;
      case F_INT64_A: out.push_back(Arch(Int64QueryFilter("i64", NQ::OP_EQUAL_TO, ((int64)1) << 40))); break;
      case F_INT64_R: out.push_back(Arch(Int64QueryFilter("i64", NQ::OP_NOT_EQUAL_TO, ((int64)1) << 40))); break;
      case F_INT32_A: out.push_back(Arch(*QInt32A()())); break;
      case F_INT32_R: out.push_back(Arch(Int32QueryFilter("v", NQ::OP_EQUAL_TO, -77))); break;
      case F_INT16_A: out.push_back(Arch(Int16QueryFilter("i16", NQ::OP_EQUAL_TO, 7))); break;
      case F_INT16_R: out.push_back(Arch(Int16QueryFilter("i16", NQ::OP_LESS_THAN, 0))); break;
      case F_INT8_A: out.push_back(Arch(Int8QueryFilter("i8", NQ::OP_EQUAL_TO, 3))); break;
      case F_INT8_R: out.push_back(Arch(Int8QueryFilter("i8", NQ::OP_EQUAL_TO, 4))); break;
      case F_POINT_A: out.push_back(Arch(PointQueryFilter("pt", NQ::OP_EQUAL_TO, Point(1.0f, 2.0f)))); break;
      case F_POINT_R: out.push_back(Arch(PointQueryFilter("pt", NQ::OP_NOT_EQUAL_TO, Point(1.0f, 2.0f)))); break;
      case F_RECT_A: out.push_back(Arch(RectQueryFilter("r", NQ::OP_EQUAL_TO, Rect(1.0f, 2.0f, 3.0f, 4.0f)))); break;
      case F_RECT_R: out.push_back(Arch(RectQueryFilter("r", NQ::OP_NOT_EQUAL_TO, Rect(1.0f, 2.0f, 3.0f, 4.0f)))); break;
      case F_STRING_A: out.push_back(Arch(StringQueryFilter("s", StringQueryFilter::OP_EQUAL_TO, "ab"))); break;
      case F_STRING_R: out.push_back(Arch(*QStringR()())); break;
      case F_STRWILD_A: out.push_back(Arch(StringQueryFilter("s", StringQueryFilter::OP_SIMPLE_WILDCARD_MATCH, "a*"))); break;
      case F_STRWILD_R: out.push_back(Arch(StringQueryFilter("s", StringQueryFilter::OP_SIMPLE_WILDCARD_MATCH, "z*"))); break;
      case F_MESSAGE_A: out.push_back(Arch(MessageQueryFilter(Q(new WhatCodeQueryFilter(5)), ConstMessageRef(), "m"))); break;
      case F_MESSAGE_R: out.push_back(Arch(MessageQueryFilter(Q(new WhatCodeQueryFilter(6)), ConstMessageRef(), "m"))); break;
      case F_RAW_A: { const uint8 b[2] = { 1, 2 }; out.push_back(Arch(RawDataQueryFilter("raw", RawDataQueryFilter::OP_EQUAL_TO, GetByteBufferFromPool(2, b), B_RAW_TYPE))); break; }
      case F_RAW_R: { const uint8 b[1] = { 9 }; out.push_back(Arch(RawDataQueryFilter("raw", RawDataQueryFilter::OP_EQUAL_TO, GetByteBufferFromPool(1, b), B_RAW_TYPE))); break; }
      case F_TREE_A: out.push_back(Arch(AndQueryFilter(QInt32A(), Q(new OrQueryFilter(QStringR(), QWhatA()))))); break;
      case F_TREE_R: out.push_back(Arch(AndQueryFilter(QInt32A(), Q(new OrQueryFilter(QStringR(), QWhatR()))))); break;
      case F_XOR_A: out.push_back(Arch(XorQueryFilter(QWhatA(), QWhatR()))); break;
      case F_NAND_R: out.push_back(Arch(NandQueryFilter(QWhatA(), QInt32A()))); break;
      case F_MINMATCH_A: out.push_back(Arch(MinimumThresholdQueryFilter(1, { QWhatA(), QInt32A(), QWhatR() }))); break;
      case F_MAXMATCH_R: out.push_back(Arch(MaximumThresholdQueryFilter(1, { QWhatA(), QInt32A(), QWhatR() }))); break;
      case F_DEEP101_A: case F_DEEP101_R: {
         ConstQueryFilterRef q = (f == F_DEEP101_A) ? QWhatA() : QWhatR();
         for (int i = 0; i < 100; i++) q = Q(new AndQueryFilter(q));
         out.push_back(Arch(*q())); break; }
      case F_TWO_AR: out.push_back(Arch(*QWhatA()())); out.push_back(Arch(*QWhatR()())); break;
      case F_TWO_RA: out.push_back(Arch(*QWhatR()())); out.push_back(Arch(*QWhatA()())); break;
      case F_CHILDCOUNT: out.push_back(Arch(ChildCountQueryFilter(NQ::OP_GREATER_THAN_OR_EQUAL_TO, 0))); break;
      case F_NODENAME: out.push_back(Arch(NodeNameQueryFilter(StringQueryFilter::OP_SIMPLE_WILDCARD_MATCH, "*"))); break;
      case F_BADREGEX: out.push_back(Arch(StringQueryFilter("s", StringQueryFilter::OP_REGULAR_EXPRESSION_MATCH, "("))); break;
      case F_H_WHAT0: { MessageRef a = Arch(*QInt32A()()); a()->what = 0; out.push_back(a); break; }
      case F_H_NOFIELDS: out.push_back(l1::NewMsg(QUERY_FILTER_TYPE_INT32)); break;
      case F_H_BADKIDS: { MessageRef a = l1::NewMsg(QUERY_FILTER_TYPE_MINMATCH); (void) a()->AddString("kid", "x"); (void) a()->AddString("kid", "y"); out.push_back(a); break; }
      case F_H_KIDWHAT0: { MessageRef a = Arch(AndQueryFilter(QWhatA())); MessageRef kid; if (a()->FindMessage("kid", kid).IsOK() && kid()) kid()->what = 0; out.push_back(a); break; }
      case F_H_OP200: { MessageRef a = Arch(*QInt32A()()); (void) a()->ReplaceInt8(true, "op", (int8)200); out.push_back(a); break; }
      case F_H_INDEXMAX: { MessageRef a = Arch(*QInt32A()()); (void) a()->ReplaceInt32(true, "idx", (int32)0xFFFFFFFF); out.push_back(a); break; }
      case F_H_EMPTYMSG: out.push_back(l1::NewMsg(0)); break;
      default: break;
   }
   return out;
}
static inline void AddFiltShape(Message & m, int f, const char * fieldName = PR_NAME_FILTERS)
{
   if (f == F_T_STRING) { (void) m.AddString(fieldName, "not-a-filter"); return; }
   if (f == F_T_INT32) { (void) m.AddInt32(fieldName, 7); return; }
   std::vector<MessageRef> a = FilterArchives(f);
   for (size_t i = 0; i < a.size(); i++) (void) m.AddMessage(fieldName, a[i]);
}

// start-up check of the A/R labels against the real filter code: returns "" or a description of the first mislabelled shape
static inline std::string SelfCheckFilters()
{
   for (int f = 0; f < NUM_FILTSHAPES; f++) {
      const char c = FiltClass(f);
      if (c != 'A' && c != 'R') continue;
      std::vector<MessageRef> a = FilterArchives(f);
      if (a.size() != 1) return std::string("filter shape ") + FiltName(f) + " has no single archive";
      muscle::QueryFilterRef q = muscle::GetGlobalQueryFilterFactory()()->CreateQueryFilter(*a[0]());
      if (q() == NULL) return std::string("filter shape ") + FiltName(f) + " cannot be re-created from its own archive";
      for (int v = 1; v <= 9; v++) {
         muscle::ConstMessageRef p = Rich(v);
         const bool got = q()->Matches(p, NULL);
         if (got != (c == 'A')) return std::string("filter shape ") + FiltName(f) + " is labelled " + c + " but " + (got ? "matches" : "does not match") + " payload Rich(" + l1::U32((uint32_t)v) + ")";
      }
   }
   return "";
}

// ------------------------------------------------------------------------------------------------ extra-field shapes
enum ExtraShape { E_NONE = 0, E_TRID_OK, E_TRID_BAD, E_MAXDEPTH_OK, E_MAXDEPTH_NEG, E_MAXDEPTH_BAD, E_REMOVED_OK, E_REMOVED_BAD, E_SUB_BOOL, E_SUB_FILT_A, E_SUB_HOSTILE, E_SUB_STR, E_ORD_MSG, E_ORD_STR, E_ORD_I32, NUM_EXTRASHAPES };
#define C07_SUBNAME "SUBSCRIBE:/*/*/*"
static inline const char * ExtraName(int e)
{
   static const char * n[NUM_EXTRASHAPES] = { "", "treeid=t1", "treeid:int32", "maxdepth=0", "maxdepth=-5", "maxdepth:string", "removed-items=/hV/2/vx", "removed-items:Message",
      C07_SUBNAME "=true", C07_SUBNAME "=filter(A)", C07_SUBNAME "=archive-what-0", C07_SUBNAME ":string", "ord=Rich(9)", "ord:string", "ord:int32" };
   return n[e];
}
static inline void AddExtraShape(Message & m, int e)
{
   switch (e) {
      case E_TRID_OK: (void) m.AddString(PR_NAME_TREE_REQUEST_ID, "t1"); break;
      case E_TRID_BAD: (void) m.AddInt32(PR_NAME_TREE_REQUEST_ID, 7); break;
      case E_MAXDEPTH_OK: (void) m.AddInt32(PR_NAME_MAXDEPTH, 0); break;
      case E_MAXDEPTH_NEG: (void) m.AddInt32(PR_NAME_MAXDEPTH, -5); break;
      case E_MAXDEPTH_BAD: (void) m.AddString(PR_NAME_MAXDEPTH, "x"); break;
      case E_REMOVED_OK: (void) m.AddString(PR_NAME_REMOVED_DATAITEMS, "/hV/2/vx"); break;
      case E_REMOVED_BAD: (void) m.AddMessage(PR_NAME_REMOVED_DATAITEMS, Rich(9)); break;
      case E_SUB_BOOL: (void) m.AddBool(C07_SUBNAME, true); break;
      case E_SUB_FILT_A: AddFiltShape(m, F_WHAT_A, C07_SUBNAME); break;
      case E_SUB_HOSTILE: AddFiltShape(m, F_H_WHAT0, C07_SUBNAME); break;
      case E_SUB_STR: (void) m.AddString(C07_SUBNAME, "x"); break;
      case E_ORD_MSG: (void) m.AddMessage("ord", Rich(9)); break;
      case E_ORD_STR: (void) m.AddString("ord", "xi"); break;
      case E_ORD_I32: (void) m.AddInt32("ord", 7); break;
      default: break;
   }
}

// ------------------------------------------------------------------------------------------------ shapes = (keys, filters, extra)
struct Shape { int key, filt, extra; };
static inline void BuildShapes(std::vector<Shape> & full, std::vector<Shape> & reduced)
{
   full.clear(); reduced.clear();
   // every key shape x {no filter, the accepting and the rejecting what-code filter}
   for (int k = 0; k < NUM_KEYSHAPES; k++) for (int f = F_ABSENT; f <= F_WHAT_R; f++) { Shape s = { k, f, E_NONE }; full.push_back(s); if (f == F_ABSENT) reduced.push_back(s); }
   // every other filter shape with the keys that select the queued items
   for (int f = F_WHAT_R + 1; f < NUM_FILTSHAPES; f++) { Shape s = { K_STAR, f, E_NONE }; full.push_back(s); }
   // every extra-field shape x {no keys, keys=*} x {no filter, accepting filter}
   for (int e = 1; e < NUM_EXTRASHAPES; e++) for (int k = 0; k < 2; k++) for (int f = 0; f < 2; f++) {
      Shape s = { k ? K_STAR : K_ABSENT, f ? F_WHAT_A : F_ABSENT, e }; full.push_back(s);
      if (k == 0 && f == 0 && (e == E_TRID_OK || e == E_REMOVED_OK || e == E_SUB_BOOL || e == E_ORD_MSG)) reduced.push_back(s);
   }
}

// ------------------------------------------------------------------------------------------------ special commands
static inline MessageRef Nest(const MessageRef & inner, int depth)   // inner wrapped in `depth` PR_COMMAND_BATCH Messages
{
   MessageRef m = inner;
   for (int i = 0; i < depth; i++) { MessageRef b = l1::NewMsg(muscle::PR_COMMAND_BATCH); (void) b()->AddMessage(PR_NAME_KEYS, m); m = b; }
   return m;
}
static inline MessageRef DeepMessage(uint32_t what, int depth)      // a Message nested `depth` levels deep (F7 is about ~20000; never more than 101 here)
{
   MessageRef m = l1::NewMsg(what);
   for (int i = 1; i < depth; i++) { MessageRef o = l1::NewMsg(what); (void) o()->AddMessage("n", m); m = o; }
   return m;
}
static inline MessageRef KeyedF(uint32_t what, const char * key, int filt)
{
   MessageRef m = l1::NewMsg(what); (void) m()->AddString(PR_NAME_KEYS, key); AddFiltShape(*m(), filt); return m;
}
static inline MessageRef Params1(const char * name, int32_t v) { MessageRef m = l1::SetParameters(); (void) m()->AddInt32(name, v); return m; }
static inline MessageRef SubscribeTo(const std::string & path, int filt = F_ABSENT, bool quiet = false)
{
   MessageRef m = l1::SetParameters();
   if (filt == F_ABSENT) (void) m()->AddBool(l1::SubscribeName(path).c_str(), true); else AddFiltShape(*m(), filt, l1::SubscribeName(path).c_str());
   if (quiet) l1::AddSubscribeQuietly(m);
   return m;
}
static inline MessageRef SelfOneItem(const char * subPath)   // reflect-to-self + one item per update Message + a subscription
{
   MessageRef m = l1::SetParameters(); l1::AddFlagParam(m, PR_NAME_REFLECT_TO_SELF); l1::AddMaxUpdateItems(m, 1); l1::AddSubscribe(m, subPath); return m;
}
static inline std::string Path101() { std::string p = "p"; for (int i = 1; i < 101; i++) p += "/p"; return p; }

struct Special { const char * name; int flags; };   // flags: 1 = state builder (first command of the quick depth-2 space), 2 = member of the reduced alphabet (depth 3)
enum { SB = 1, RED = 2 };
// Builds special command s (fresh Message each call); *name receives its text.  Returns a NULL ref for s >= NUM_SPECIALS.
static inline MessageRef BuildSpecial(int s, std::string * name, int * flags)
{
   using namespace muscle;
   int n = 0; MessageRef m; const char * nm = ""; int fl = 0;
#define SPECIAL(NAME, FLAGS, EXPR) if (s == n++) { nm = NAME; fl = FLAGS; m = (EXPR); }
   // ---- SETPARAMETERS
   SPECIAL("SETPARAMETERS SUBSCRIBE:/*/*/*", SB | RED, SubscribeTo("/*/*/*"))
   SPECIAL("SETPARAMETERS SUBSCRIBE:/*/*/* filter(A)", SB | RED, SubscribeTo("/*/*/*", F_WHAT_A))
   SPECIAL("SETPARAMETERS SUBSCRIBE:/*/*/* filter(R)", SB, SubscribeTo("/*/*/*", F_WHAT_R))
   SPECIAL("SETPARAMETERS SUBSCRIBE:/*/*/* quietly", SB, SubscribeTo("/*/*/*", F_ABSENT, true))
   SPECIAL("SETPARAMETERS SUBSCRIBE:/*/*/*/*", SB, SubscribeTo("/*/*/*/*"))
   SPECIAL("SETPARAMETERS SUBSCRIBE:/hV/*/* filter int32(A)", SB, SubscribeTo("/hV/*/*", F_INT32_A))
   SPECIAL("SETPARAMETERS SUBSCRIBE:x", SB, SubscribeTo("x"))
   SPECIAL("SETPARAMETERS SUBSCRIBE:(", 0, SubscribeTo("("))
   SPECIAL("SETPARAMETERS SUBSCRIBE:[", 0, SubscribeTo("["))
   SPECIAL("SETPARAMETERS SUBSCRIBE:\\", 0, SubscribeTo("\\"))
   SPECIAL("SETPARAMETERS SUBSCRIBE:~", 0, SubscribeTo("~"))
   SPECIAL("SETPARAMETERS SUBSCRIBE:<->", 0, SubscribeTo("<->"))
   SPECIAL("SETPARAMETERS SUBSCRIBE:v***(300 chars)", SB, SubscribeTo(LongClause()))
   SPECIAL("SETPARAMETERS SUBSCRIBE: (empty path)", 0, SubscribeTo(""))
   SPECIAL("SETPARAMETERS SUBSCRIBE:/", 0, SubscribeTo("/"))
   SPECIAL("SETPARAMETERS SUBSCRIBE:a//b", 0, SubscribeTo("a//b"))
   SPECIAL("SETPARAMETERS SUBSCRIBE:/*/*/* filter nested 101 deep(A)", 0, SubscribeTo("/*/*/*", F_DEEP101_A))
   SPECIAL("SETPARAMETERS SUBSCRIBE:/*/*/* filter archive-what-0", 0, SubscribeTo("/*/*/*", F_H_WHAT0))
   SPECIAL("SETPARAMETERS SUBSCRIBE:/*/*/* filter regex '('", 0, SubscribeTo("/*/*/*", F_BADREGEX))
   SPECIAL("SETPARAMETERS SUBSCRIBE:/*/*/* filter childcount", 0, SubscribeTo("/*/*/*", F_CHILDCOUNT))
   SPECIAL("SETPARAMETERS reflect-to-self", SB, ({ MessageRef p = l1::SetParameters(); l1::AddFlagParam(p, PR_NAME_REFLECT_TO_SELF); p; }))
   SPECIAL("SETPARAMETERS reflect-to-self + max-update-items=1 + SUBSCRIBE:/*/*/*", SB | RED, SelfOneItem("/*/*/*"))
   SPECIAL("SETPARAMETERS reflect-to-self + max-update-items=1 + SUBSCRIBE:/*/*/*/*", SB, SelfOneItem("/*/*/*/*"))
   SPECIAL("SETPARAMETERS max-update-items=1", SB | RED, Params1(PR_NAME_MAX_UPDATE_MESSAGE_ITEMS, 1))
   SPECIAL("SETPARAMETERS max-update-items=0", SB, Params1(PR_NAME_MAX_UPDATE_MESSAGE_ITEMS, 0))
   SPECIAL("SETPARAMETERS max-update-items=-1", 0, Params1(PR_NAME_MAX_UPDATE_MESSAGE_ITEMS, -1))
   SPECIAL("SETPARAMETERS max-update-items:string", 0, ({ MessageRef p = l1::SetParameters(); (void) p()->AddString(PR_NAME_MAX_UPDATE_MESSAGE_ITEMS, "1"); p; }))
   SPECIAL("SETPARAMETERS disable-subscriptions", SB, ({ MessageRef p = l1::SetParameters(); l1::AddFlagParam(p, PR_NAME_DISABLE_SUBSCRIPTIONS); p; }))
   SPECIAL("SETPARAMETERS disable-subscriptions + SUBSCRIBE:/*/*/*", SB, ({ MessageRef p = SubscribeTo("/*/*/*"); l1::AddFlagParam(p, PR_NAME_DISABLE_SUBSCRIPTIONS); p; }))
   SPECIAL("SETPARAMETERS keepalive=1", 0, Params1(PR_NAME_KEEPALIVE_INTERVAL_SECONDS, 1))
   SPECIAL("SETPARAMETERS keepalive=0", 0, Params1(PR_NAME_KEEPALIVE_INTERVAL_SECONDS, 0))
   SPECIAL("SETPARAMETERS keepalive=-1", 0, Params1(PR_NAME_KEEPALIVE_INTERVAL_SECONDS, -1))
   SPECIAL("SETPARAMETERS reply-encoding=zlib6", SB, Params1(PR_NAME_REPLY_ENCODING, MUSCLE_MESSAGE_ENCODING_ZLIB_6))
   SPECIAL("SETPARAMETERS reply-encoding=-1", 0, Params1(PR_NAME_REPLY_ENCODING, -1))
   SPECIAL("SETPARAMETERS reply-encoding=2147483647", 0, Params1(PR_NAME_REPLY_ENCODING, 2147483647))
   SPECIAL("SETPARAMETERS privilege-bits=-1", 0, Params1(PR_NAME_PRIVILEGE_BITS, -1))
   SPECIAL("SETPARAMETERS route-gateway-to-neighbors + route-neighbors-to-gateway", 0, ({ MessageRef p = l1::SetParameters(); l1::AddFlagParam(p, PR_NAME_ROUTE_GATEWAY_TO_NEIGHBORS); l1::AddFlagParam(p, PR_NAME_ROUTE_NEIGHBORS_TO_GATEWAY); p; }))
   SPECIAL("SETPARAMETERS session-root + server-version strings", 0, ({ MessageRef p = l1::SetParameters(); (void) p()->AddString(PR_NAME_SESSION_ROOT, "/hV/2"); (void) p()->AddString(PR_NAME_SERVER_VERSION, "x"); (void) p()->AddString(PR_NAME_SESSION, "2"); p; }))
   SPECIAL("SETPARAMETERS max-nodes-per-session=0 + max-children-per-node=0", 0, ({ MessageRef p = l1::SetParameters(); (void) p()->AddInt32(PR_NAME_MAX_NODES_PER_SESSION, 0); (void) p()->AddInt32(PR_NAME_MAX_CHILDREN_PER_NODE, 0); p; }))
   SPECIAL("SETPARAMETERS 40 subscriptions SUBSCRIBE:/*/*/s<i>", SB, ({ MessageRef p = l1::SetParameters(); for (int i = 0; i < 40; i++) l1::AddSubscribe(p, "/*/*/s" + l1::U32((uint32_t)i)); p; }))
   // ---- REMOVEPARAMETERS
   SPECIAL("REMOVEPARAMETERS SUBSCRIBE:*", SB | RED, l1::UnsubscribeAll())
   SPECIAL("REMOVEPARAMETERS SUBSCRIBE:/*/*/* (escaped)", SB, l1::Unsubscribe("/*/*/*"))
   SPECIAL("REMOVEPARAMETERS !Self", SB, l1::RemoveParameters(l1::Keys(l1::EscapeParamName(PR_NAME_REFLECT_TO_SELF))))
   SPECIAL("REMOVEPARAMETERS !MxUp", SB, l1::RemoveParameters(l1::Keys(l1::EscapeParamName(PR_NAME_MAX_UPDATE_MESSAGE_ITEMS))))
   SPECIAL("REMOVEPARAMETERS [*,*]", 0, l1::RemoveParameters(l1::Keys("*", "*")))
   SPECIAL("REMOVEPARAMETERS SUBSCRIBE:(", 0, l1::RemoveParameters(l1::Keys("SUBSCRIBE:(")))
   // ---- SETDATA
   SPECIAL("SETDATA x=Rich(7)", SB | RED, l1::SetData("x", Rich(7)))
   SPECIAL("SETDATA new=Rich(7)", SB | RED, l1::SetData("new", Rich(7)))
   SPECIAL("SETDATA x/y/z/deep=Rich(7)", SB, l1::SetData("x/y/z/deep", Rich(7)))
   SPECIAL("SETDATA x=[Rich(7),Rich(8)] (two values in one field)", SB, ({ MessageRef p = l1::SetData("x", Rich(7)); l1::AddData(p, "x", Rich(8)); p; }))
   SPECIAL("SETDATA x=Rich(7) + new=Rich(8)", SB, ({ MessageRef p = l1::SetData("x", Rich(7)); l1::AddData(p, "new", Rich(8)); p; }))
   SPECIAL("SETDATA ''=Rich(7) (empty name)", 0, l1::SetData("", Rich(7)))
   SPECIAL("SETDATA /abs=Rich(7)", 0, l1::SetData("/abs", Rich(7)))
   SPECIAL("SETDATA /hV/2/vx=Rich(7)", 0, l1::SetData("/hV/2/vx", Rich(7)))
   SPECIAL("SETDATA ../../hV/2/vx=Rich(7)", 0, l1::SetData("../../hV/2/vx", Rich(7)))
   SPECIAL("SETDATA a//b=Rich(7)", 0, l1::SetData("a//b", Rich(7)))
   SPECIAL("SETDATA a/=Rich(7)", 0, l1::SetData("a/", Rich(7)))
   SPECIAL("SETDATA *=Rich(7) (wildcard as a name)", 0, l1::SetData("*", Rich(7)))
   SPECIAL("SETDATA <300-char name>=Rich(7)", 0, l1::SetData(std::string(300, 'n'), Rich(7)))
   SPECIAL("SETDATA p/p/...(101 levels)=Rich(7)", 0, l1::SetData(Path101(), Rich(7)))
   SPECIAL("SETDATA x=<empty Message>", SB, l1::SetData("x", l1::EmptyPayload(0)))
   SPECIAL("SETDATA x=<Message nested 101 deep>", SB, l1::SetData("x", DeepMessage(RICH_WHAT, 101)))
   SPECIAL("SETDATA x=<4 KB raw field>", 0, ({ MessageRef p = l1::NewMsg(RICH_WHAT); std::string big(4096, 'b'); (void) p()->AddData("raw", B_RAW_TYPE, big.data(), (uint32)big.size()); l1::SetData("x", p); }))
   SPECIAL("SETDATA x=Rich(7) flags=quiet", SB, l1::SetData("x", Rich(7), l1::Flags(SETDATANODE_FLAG_QUIET)))
   SPECIAL("SETDATA xi/new=Rich(7) flags=add-to-index", SB, l1::SetData("xi/new", Rich(7), l1::Flags(SETDATANODE_FLAG_ADDTOINDEX)))
   // names of the form I<n> are what the server itself generates for ordered children: a client may create them by hand, before or after the server does
   SPECIAL("SETDATA xi/I0=Rich(7) (a name the server would generate next)", SB | RED, l1::SetData("xi/I0", Rich(7)))
   SPECIAL("SETDATA xi/I1=Rich(7) (a generated-style name, one ahead)", SB, l1::SetData("xi/I1", Rich(7)))
   SPECIAL("SETDATA xi/I0=Rich(7) flags=add-to-index", SB, l1::SetData("xi/I0", Rich(7), l1::Flags(SETDATANODE_FLAG_ADDTOINDEX)))
   SPECIAL("SETDATA x/I0=Rich(7) (generated-style name under a node without index)", SB, l1::SetData("x/I0", Rich(7)))
   SPECIAL("SETDATA I0=Rich(7) + I1=Rich(8) (generated-style names at session level)", SB, ({ MessageRef p = l1::SetData("I0", Rich(7)); l1::AddData(p, "I1", Rich(8)); p; }))
   SPECIAL("SETDATA nonesuch=Rich(7) flags=dont-create-node", 0, l1::SetData("nonesuch", Rich(7), l1::Flags(SETDATANODE_FLAG_DONTCREATENODE)))
   SPECIAL("SETDATA x=Rich(7) flags=dont-overwrite", 0, l1::SetData("x", Rich(7), l1::Flags(SETDATANODE_FLAG_DONTOVERWRITEDATA)))
   SPECIAL("SETDATA x=Rich(7) flags=enable-supercede", SB, l1::SetData("x", Rich(7), l1::Flags(SETDATANODE_FLAG_ENABLESUPERCEDE)))
   SPECIAL("SETDATA x=Rich(7) flags=all bits", 0, ({ SetDataNodeFlags f = SetDataNodeFlags::WithAllBitsSet(); l1::SetData("x", Rich(7), f); }))
   SPECIAL("SETDATA x=Rich(7) flags:int32=-1", 0, ({ MessageRef p = l1::SetData("x", Rich(7)); (void) p()->AddInt32(PR_NAME_FLAGS, -1); p; }))
   SPECIAL("SETDATA x=Rich(7) flags:string", 0, ({ MessageRef p = l1::SetData("x", Rich(7)); (void) p()->AddString(PR_NAME_FLAGS, "quiet"); p; }))
   SPECIAL("SETDATA x=Rich(7) flags:1-byte flat", 0, ({ MessageRef p = l1::SetData("x", Rich(7)); const uint8 b = 0xFF; (void) p()->AddData(PR_NAME_FLAGS, SetDataNodeFlags().TypeCode(), &b, 1); p; }))
   // ---- INSERTORDEREDDATA
   SPECIAL("INSERTORDEREDDATA keys=xi append Rich(7)", SB | RED, ({ MessageRef p = l1::InsertOrderedData(l1::Keys("xi")); l1::AddData(p, "append", Rich(7)); p; }))
   SPECIAL("INSERTORDEREDDATA keys=xi append Rich(7),Rich(8)", SB, ({ MessageRef p = l1::InsertOrderedData(l1::Keys("xi")); l1::AddData(p, "append", Rich(7)); l1::AddData(p, "append", Rich(8)); p; }))
   SPECIAL("INSERTORDEREDDATA keys=x (no index yet) append Rich(7)", SB, ({ MessageRef p = l1::InsertOrderedData(l1::Keys("x")); l1::AddData(p, "append", Rich(7)); p; }))
   SPECIAL("INSERTORDEREDDATA keys=* append Rich(7)", SB, ({ MessageRef p = l1::InsertOrderedData(l1::Keys("*")); l1::AddData(p, "append", Rich(7)); p; }))
   SPECIAL("INSERTORDEREDDATA keys=/*/*/* append Rich(7) (absolute)", 0, ({ MessageRef p = l1::InsertOrderedData(l1::Keys("/*/*/*")); l1::AddData(p, "append", Rich(7)); p; }))
   SPECIAL("INSERTORDEREDDATA keys=xi filter(A) before=I0 Rich(7)", 0, ({ MessageRef p = KeyedF(PR_COMMAND_INSERTORDEREDDATA, "xi", F_WHAT_A); l1::AddData(p, "I0", Rich(7)); p; }))
   SPECIAL("INSERTORDEREDDATA keys=xi filter(R) append Rich(7)", 0, ({ MessageRef p = KeyedF(PR_COMMAND_INSERTORDEREDDATA, "xi", F_WHAT_R); l1::AddData(p, "append", Rich(7)); p; }))
   SPECIAL("INSERTORDEREDDATA no keys, append Rich(7)", 0, ({ MessageRef p = l1::NewMsg(PR_COMMAND_INSERTORDEREDDATA); l1::AddData(p, "append", Rich(7)); p; }))
   SPECIAL("INSERTORDEREDDATA keys=xi, <300-char insert-before name> Rich(7)", 0, ({ MessageRef p = l1::InsertOrderedData(l1::Keys("xi")); l1::AddData(p, std::string(300, 'q'), Rich(7)); p; }))
   SPECIAL("INSERTORDEREDDATA keys=xi append <empty Message> x 20", SB, ({ MessageRef p = l1::InsertOrderedData(l1::Keys("xi")); for (int i = 0; i < 20; i++) l1::AddData(p, "append", l1::EmptyPayload(0)); p; }))
   // ---- REORDERDATA
   SPECIAL("REORDERDATA xi/* -> to end", SB | RED, l1::ReorderData("xi/*", "nonesuch"))
   SPECIAL("REORDERDATA xi/* -> before itself (*)", 0, l1::ReorderData("xi/*", "*"))
   SPECIAL("REORDERDATA xi/* -> remove from index", SB, l1::ReorderData("xi/*", PR_NAME_REMOVE_FROM_INDEX))
   SPECIAL("REORDERDATA * -> to end (nodes that are not indexed)", 0, l1::ReorderData("*", "nonesuch"))
   SPECIAL("REORDERDATA /hV/2/vi/* -> to end (absolute path)", 0, l1::ReorderData("/hV/2/vi/*", "nonesuch"))
   SPECIAL("REORDERDATA ( -> x", 0, l1::ReorderData("(", "x"))
   SPECIAL("REORDERDATA xi/*:int32", 0, ({ MessageRef p = l1::NewMsg(PR_COMMAND_REORDERDATA); (void) p()->AddInt32("xi/*", 1); p; }))
   SPECIAL("REORDERDATA xi/* -> '' (empty)", 0, l1::ReorderData("xi/*", ""))
   // ---- REMOVEDATA
   SPECIAL("REMOVEDATA x", SB | RED, l1::RemoveData(l1::Keys("x")))
   SPECIAL("REMOVEDATA xi/*", SB | RED, l1::RemoveData(l1::Keys("xi/*")))
   SPECIAL("REMOVEDATA * quietly", SB, l1::RemoveData(l1::Keys("*"), true))
   SPECIAL("REMOVEDATA [x,xi] (two patterns of equal depth)", SB, l1::RemoveData(l1::Keys("x", "xi")))
   SPECIAL("REMOVEDATA ../../hV/2/vx", 0, l1::RemoveData(l1::Keys("../../hV/2/vx")))
   // ---- GETDATA / GETDATATREES / JETTISON*
   SPECIAL("GETDATA /hV/*/*", SB | RED, l1::GetData(l1::Keys("/hV/*/*")))
   SPECIAL("GETDATA /hV/*/vx", SB, l1::GetData(l1::Keys("/hV/*/vx")))
   SPECIAL("GETDATA [/hV/*/vx,/hV/*/vi] (two patterns)", SB, l1::GetData(l1::Keys("/hV/*/vx", "/hV/*/vi")))
   SPECIAL("GETDATATREES /hV/*/* treeid=t1", SB | RED, l1::GetDataTrees(l1::Keys("/hV/*/*"), "t1"))
   SPECIAL("GETDATATREES /hV/*/* treeid=t2 maxdepth=0", SB, l1::GetDataTrees(l1::Keys("/hV/*/*"), "t2", 0))
   SPECIAL("GETDATATREES /* (whole tree) maxdepth=2147483647", SB, l1::GetDataTrees(l1::Keys("/*"), NULL, 2147483647))
   SPECIAL("GETDATATREES x <300-char treeid>", 0, l1::GetDataTrees(l1::Keys("x"), std::string(300, 't').c_str()))
   SPECIAL("JETTISONDATATREES treeid=t*", SB | RED, l1::JettisonDataTrees("t*"))
   SPECIAL("JETTISONDATATREES treeid=t2", SB, l1::JettisonDataTrees("t2"))
   SPECIAL("JETTISONDATATREES treeid=(", 0, l1::JettisonDataTrees("("))
   SPECIAL("JETTISONDATATREES treeid=[t1,t2,*]", 0, ({ MessageRef p = l1::JettisonDataTrees("t1"); (void) p()->AddString(PR_NAME_TREE_REQUEST_ID, "t2"); (void) p()->AddString(PR_NAME_TREE_REQUEST_ID, "*"); p; }))
   SPECIAL("JETTISONRESULTS keys=/hV/*/vx filter(A)", SB | RED, KeyedF(PR_COMMAND_JETTISONRESULTS, "/hV/*/vx", F_WHAT_A))
   SPECIAL("JETTISONRESULTS keys=/hV/*/vx filter(R)", SB | RED, KeyedF(PR_COMMAND_JETTISONRESULTS, "/hV/*/vx", F_WHAT_R))
   SPECIAL("JETTISONRESULTS keys=/hV/*/vx", SB | RED, KeyedF(PR_COMMAND_JETTISONRESULTS, "/hV/*/vx", F_ABSENT))
   // ---- BATCH nests: depth 1, 2, 101 (the server limits the recursion at 100)
   SPECIAL("BATCH[] (empty)", 0, l1::NewMsg(PR_COMMAND_BATCH))
   SPECIAL("BATCH x1 [NOOP]", 0, Nest(l1::Noop(), 1))
   SPECIAL("BATCH x2 [NOOP]", 0, Nest(l1::Noop(), 2))
   SPECIAL("BATCH x101 [NOOP]", 0, Nest(l1::Noop(), 101))
   SPECIAL("BATCH x1 [PING]", SB, Nest(l1::Ping(77), 1))
   SPECIAL("BATCH x101 [PING]", 0, Nest(l1::Ping(77), 101))
   SPECIAL("BATCH x1 [GETDATA /hV/*/*, GETDATA /hV/*/*]", SB | RED, l1::Batch(l1::GetData(l1::Keys("/hV/*/*")), l1::GetData(l1::Keys("/hV/*/*"))))
   SPECIAL("BATCH x2 [GETDATA /hV/*/*]", SB, Nest(l1::GetData(l1::Keys("/hV/*/*")), 2))
   SPECIAL("BATCH x100 [GETDATA /hV/*/*]", 0, Nest(l1::GetData(l1::Keys("/hV/*/*")), 100))
   SPECIAL("BATCH x101 [GETDATA /hV/*/*]", 0, Nest(l1::GetData(l1::Keys("/hV/*/*")), 101))
   SPECIAL("BATCH x1 [SETDATA x=Rich(7), REMOVEDATA x]", SB, l1::Batch(l1::SetData("x", Rich(7)), l1::RemoveData(l1::Keys("x"))))
   SPECIAL("BATCH x2 [SETDATA x=Rich(7)]", 0, Nest(l1::SetData("x", Rich(7)), 2))
   SPECIAL("BATCH x101 [SETDATA x=Rich(7)]", 0, Nest(l1::SetData("x", Rich(7)), 101))
   SPECIAL("BATCH x1 [SETPARAMETERS SUBSCRIBE:/*/*/*, REMOVEPARAMETERS SUBSCRIBE:*]", SB, l1::Batch(SubscribeTo("/*/*/*"), l1::UnsubscribeAll()))
   SPECIAL("BATCH x1 [JETTISONRESULTS keys=* filter(A)]", SB, Nest(KeyedF(PR_COMMAND_JETTISONRESULTS, "*", F_WHAT_A), 1))
   SPECIAL("BATCH x2 [JETTISONRESULTS keys=* filter(R)]", 0, Nest(KeyedF(PR_COMMAND_JETTISONRESULTS, "*", F_WHAT_R), 2))
   SPECIAL("BATCH x1 [GETDATA /hV/*/*, JETTISONRESULTS keys=* filter(R), GETDATATREES /hV/*/*, JETTISONDATATREES]", SB, ({ std::vector<MessageRef> v; v.push_back(l1::GetData(l1::Keys("/hV/*/*"))); v.push_back(KeyedF(PR_COMMAND_JETTISONRESULTS, "*", F_WHAT_R)); v.push_back(l1::GetDataTrees(l1::Keys("/hV/*/*"), "t3")); v.push_back(l1::JettisonDataTrees()); l1::Batch(v); }))
   SPECIAL("BATCH x1 [50 x PING]", 0, ({ std::vector<MessageRef> v; for (int i = 0; i < 50; i++) v.push_back(l1::Ping(i)); l1::Batch(v); }))
   // ---- PING / client-to-client with unusual content
   SPECIAL("PING carrying a Message nested 101 deep", 0, ({ MessageRef p = l1::Ping(1); (void) p()->AddMessage("deep", DeepMessage(1, 101)); p; }))
   SPECIAL("CLIENT2CLIENT keys=/*/* session=<spoofed '2'>", SB, ({ MessageRef p = l1::Keyed(1234, l1::Keys("/*/*")); (void) p()->AddString(PR_NAME_SESSION, "2"); p; }))
   SPECIAL("CLIENT2CLIENT no keys, session:int32", 0, ({ MessageRef p = l1::NewMsg(1234); (void) p()->AddInt32(PR_NAME_SESSION, 2); p; }))
#undef SPECIAL
   if (name) *name = nm; if (flags) *flags = fl;
   if (s >= n) return MessageRef();
   return m;
}
static inline int CountSpecials() { int n = 0; while (BuildSpecial(n, NULL, NULL)()) n++; return n; }

// ------------------------------------------------------------------------------------------------ the table
struct Alphabet {
   std::vector<Shape> full, reduced;
   std::vector<uint32_t> genWhat; std::vector<Shape> genShape;   // generic commands
   int numSpecials;
   std::vector<int> builders, reducedCmds;                       // state builders (first commands of the quick depth-2 space); reduced alphabet (depth 3)

   Alphabet()
   {
      BuildShapes(full, reduced);
      const std::vector<WhatCode> & w = Whats();
      for (size_t i = 0; i < w.size(); i++) {
         const std::vector<Shape> & sh = w[i].bounceOnly ? reduced : full;
         for (size_t k = 0; k < sh.size(); k++) { genWhat.push_back(w[i].what); genShape.push_back(sh[k]); }
      }
      numSpecials = CountSpecials();
      for (int c = 0; c < Size(); c++) { const int f = Flags(c); if (f & SB) builders.push_back(c); if (f & RED) reducedCmds.push_back(c); }
   }
   int Size() const { return (int)genWhat.size() + numSpecials; }
   int FindByName(const std::string & name) const { for (int c = 0; c < Size(); c++) if (Name(c) == name) return c; return -1; }
   bool IsGeneric(int c) const { return c < (int)genWhat.size(); }

   int Flags(int c) const
   {
      if (!IsGeneric(c)) { int fl = 0; (void) BuildSpecial(c - (int)genWhat.size(), NULL, &fl); return fl; }
      // generic state builders: commands that leave a result in X's queue or edit it, in a few shapes
      const uint32_t w = genWhat[c]; const Shape & s = genShape[c]; int fl = 0;
      const bool plain = (s.extra == E_NONE);
      if (plain && (s.key == K_STAR || s.key == K_ABS3) && (s.filt == F_ABSENT || s.filt == F_WHAT_A || s.filt == F_WHAT_R)
          && (w == muscle::PR_COMMAND_GETDATA || w == muscle::PR_COMMAND_GETDATATREES || w == muscle::PR_COMMAND_JETTISONRESULTS || w == muscle::PR_COMMAND_REMOVEDATA)) { fl |= SB; if (s.key == K_STAR) fl |= RED; }
      if (plain && s.key == K_ABSENT && s.filt == F_ABSENT
          && (w == muscle::PR_COMMAND_GETPARAMETERS || w == muscle::PR_COMMAND_PING || w == muscle::PR_COMMAND_JETTISONRESULTS || w == muscle::PR_COMMAND_JETTISONDATATREES || w == muscle::PR_COMMAND_KICK
              || w == muscle::PR_COMMAND_SETDATATREES || w == 1234)) fl |= SB | RED;
      if (plain && s.key == K_STAR && s.filt == F_ABSENT && (w == 1234 || w == muscle::PR_COMMAND_SETPARAMETERS)) fl |= SB;
      if (s.key == K_STAR && s.filt == F_ABSENT && (s.extra == E_TRID_OK || s.extra == E_MAXDEPTH_OK) && w == muscle::PR_COMMAND_GETDATATREES) fl |= SB;
      if (s.key == K_ABSENT && s.filt == F_ABSENT && (s.extra == E_SUB_BOOL || s.extra == E_SUB_FILT_A || s.extra == E_ORD_MSG) && (w == muscle::PR_COMMAND_SETPARAMETERS || w == muscle::PR_COMMAND_SETDATA)) fl |= SB;
      return fl;
   }

   MessageRef Build(int c) const
   {
      if (!IsGeneric(c)) return BuildSpecial(c - (int)genWhat.size(), NULL, NULL);
      MessageRef m = l1::NewMsg(genWhat[c]); const Shape & s = genShape[c];
      (void) AddKeyShape(*m(), s.key); AddFiltShape(*m(), s.filt); AddExtraShape(*m(), s.extra);
      return m;
   }
   std::string Name(int c) const
   {
      if (!IsGeneric(c)) { std::string n; (void) BuildSpecial(c - (int)genWhat.size(), &n, NULL); return n; }
      const Shape & s = genShape[c]; std::string n = WhatName(genWhat[c]);
      if (s.key) n += std::string(" ") + KeyName(s.key); if (s.filt) n += std::string(" ") + FiltName(s.filt); if (s.extra) n += std::string(" ") + ExtraName(s.extra);
      return n;
   }
};

}  // namespace c07

#endif
