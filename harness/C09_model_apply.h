// C09 model: one operation applied to the real objects and to the reference in lock-step.  (Inside class HtModel.)

   int Apply(World & w, int opi, std::string & msg, std::string & key) const
   {
      const Op & o = ops[opi];
      TableT & t = *w.t; TableT & u = *w.u; RList & m = w.m[T]; RList & mu = w.m[U];
      const size_t n = m.size();
      const HKey ka(o.a), kb(o.b);   // const lvalues: the two key parameters of PutBefore/PutBehind must deduce to one type
      const int v = o.v;
      std::string res;
#define FAILIF(cond, text) do { if (cond) { msg = o.name + ": " + (text) + Dump(w); key = std::string("result:") + kKindNames[o.k]; return seqx::SEQX_VIOLATION; } } while (0)
#define NEEDLIVE(s) do { if (!w.ri[s].live) return seqx::SEQX_DISABLED; } while (0)
      switch (o.k) {
      // ---------------------------------------------------------------- Put family
      case PUT: { status_t r = t.Put(ka, v); RPut(&w, T, m, o.a, v); FAILIF(r.IsError(), "failed"); break; }
      case PUT_PREV: {
         int prev = -5; bool repl = false; status_t r = t.Put(ka, v, prev, &repl); int rp = -5; const bool e = RPut(&w, T, m, o.a, v, &rp);
         FAILIF(r.IsError(), "failed"); FAILIF(repl != e, "replaced flag wrong"); FAILIF(prev != rp, verif::Fmt("previous value %d, expected %d (-5 = untouched)", prev, rp)); res = e ? "repl" : "new"; break; }
      case PUT_FRONT: { status_t r = t.PutAtFront(ka, v); RPut(&w, T, m, o.a, v); RToFront(&w, T, m, o.a); FAILIF(r.IsError(), "failed"); break; }
      case PUT_BACK: { status_t r = t.PutAtBack(ka, v); RPut(&w, T, m, o.a, v); RToBack(&w, T, m, o.a); FAILIF(r.IsError(), "failed"); break; }
      case PUT_BEFORE: { status_t r = t.PutBefore(ka, kb, v); RPut(&w, T, m, o.a, v); if (o.a != o.b) RToBefore(&w, T, m, o.a, o.b); FAILIF(r.IsError(), "failed"); break; }
      case PUT_BEHIND: { status_t r = t.PutBehind(ka, kb, v); RPut(&w, T, m, o.a, v); if (o.a != o.b) RToBehind(&w, T, m, o.a, o.b); FAILIF(r.IsError(), "failed"); break; }
      case PUT_AT: { const size_t n2 = n + (RFind(m, o.a) < 0 ? 1 : 0); const uint32 pos = SelPos(o.b, n2); status_t r = t.PutAtPosition(ka, pos, v); RPut(&w, T, m, o.a, v); RToPos(&w, T, m, o.a, pos); FAILIF(r.IsError(), "failed"); break; }
      case PUT_IFNOT: { const bool has = RFind(m, o.a) >= 0; int * p = t.PutIfNotAlreadyPresent(ka, v); if (!has) RPut(&w, T, m, o.a, v); FAILIF((p == NULL) != has, "return pointer wrong"); FAILIF(p && *p != v, "returned value wrong"); res = has ? "present" : "put"; break; }
      case GETORPUT: { const int j = RFind(m, o.a); const int ev = (j >= 0) ? m[j].v : v; int * p = t.GetOrPut(ka, v); if (j < 0) RPut(&w, T, m, o.a, v); FAILIF(p == NULL, "returned NULL"); FAILIF(*p != ev, verif::Fmt("returned value %d expected %d", *p, ev)); res = (j >= 0) ? "got" : "put"; break; }
      case PUTANDGET: { int * p = t.PutAndGet(ka, v); RPut(&w, T, m, o.a, v); FAILIF(p == NULL || *p != v, "returned value wrong"); const HKey * pk = t.PutAndGetKey(ka, v); FAILIF(pk == NULL || pk->id != o.a, "PutAndGetKey returned wrong key"); break; }
      case PUT_DEFAULT: { status_t r = t.PutWithDefault(ka); RPut(&w, T, m, o.a, 0); FAILIF(r.IsError(), "failed"); break; }
      case PUTORREMOVE: { status_t r = t.PutOrRemove(ka, v); if (v == 0) RRemove(&w, T, m, o.a); else RPut(&w, T, m, o.a, v); FAILIF(r.IsError(), "failed (removing an absent key is documented as success)"); break; }
      case PUT_SELFVAL: { if (n == 0) return seqx::SEQX_DISABLED; const int * fv = t.GetFirstValue(); FAILIF(fv == NULL, "GetFirstValue NULL"); const int val = m[0].v; status_t r = t.Put(ka, *fv); RPut(&w, T, m, o.a, val); FAILIF(r.IsError(), "failed"); break; }
      case PUT_TABLE: { status_t r = t.Put(u); RCopyFrom(&w, T, m, mu, false); FAILIF(r.IsError(), "failed"); FAILIF(t.GetNumAllocatedItemSlots() < m.size(), "fewer slots than items"); break; }
      case GET_MTF: { const int j = RFind(m, o.a); const int ev = (j >= 0) ? m[j].v : 0; int * p = t.GetAndMoveToFront(ka); RToFront(&w, T, m, o.a); FAILIF((p != NULL) != (j >= 0), "return pointer wrong"); FAILIF(p && *p != ev, "returned value wrong");
         int rv = -5; status_t r = t.GetAndMoveToFront(ka, rv); FAILIF(r.IsOK() != (j >= 0) || (j >= 0 && rv != ev) || (j < 0 && r != B_DATA_NOT_FOUND), "status form wrong"); break; }
      case GET_MTB: { const int j = RFind(m, o.a); const int ev = (j >= 0) ? m[j].v : 0; int * p = t.GetAndMoveToBack(ka); RToBack(&w, T, m, o.a); FAILIF((p != NULL) != (j >= 0), "return pointer wrong"); FAILIF(p && *p != ev, "returned value wrong");
         int rv = -5; status_t r = t.GetAndMoveToBack(ka, rv); FAILIF(r.IsOK() != (j >= 0) || (j >= 0 && rv != ev) || (j < 0 && r != B_DATA_NOT_FOUND), "status form wrong"); break; }
      // ---------------------------------------------------------------- Remove family
      case REMOVE: { status_t r = t.Remove(ka); const bool e = RRemove(&w, T, m, o.a); FAILIF(r.IsOK() != e, "status wrong"); FAILIF(!e && r != B_DATA_NOT_FOUND, "error code not B_DATA_NOT_FOUND"); res = e ? "ok" : "nf"; break; }
      case REMOVE_RET: { int rv = -5; status_t r = t.Remove(ka, rv); int ev = -5; const bool e = RRemove(&w, T, m, o.a, &ev); FAILIF(r.IsOK() != e, "status wrong"); FAILIF(rv != ev, verif::Fmt("removed value %d expected %d (-5 = untouched)", rv, ev)); FAILIF(!e && r != B_DATA_NOT_FOUND, "error code not B_DATA_NOT_FOUND"); break; }
      case REMOVE_DEF: { int ev = 0; RRemove(&w, T, m, o.a, &ev); const int rv = t.RemoveWithDefault(ka); FAILIF(rv != ev, verif::Fmt("returned %d expected %d", rv, ev)); const int rv2 = t.RemoveWithDefault(ka, 77); FAILIF(rv2 != 77, "second removal did not return the given default"); break; }
      case REMOVE_FIRST: { status_t r = t.RemoveFirst(); if (n) RRemove(&w, T, m, m[0].k); FAILIF(r.IsOK() != (n > 0), "status wrong"); FAILIF(n == 0 && r != B_DATA_NOT_FOUND, std::string("on an empty table the error code is ") + r() + ", documented: B_DATA_NOT_FOUND"); break; }
      case REMOVE_LAST: { status_t r = t.RemoveLast(); if (n) RRemove(&w, T, m, m[n - 1].k); FAILIF(r.IsOK() != (n > 0), "status wrong"); FAILIF(n == 0 && r != B_DATA_NOT_FOUND, std::string("on an empty table the error code is ") + r() + ", documented: B_DATA_NOT_FOUND"); break; }
      case REMOVE_FIRST_KV: { HKey rk(-7); int rv = -5; status_t r = t.RemoveFirst(rk, rv); FAILIF(r.IsOK() != (n > 0), "status wrong"); if (n) { FAILIF(rk.id != m[0].k || rv != m[0].v, "returned key/value wrong"); RRemove(&w, T, m, m[0].k); } else FAILIF(rk.id != -7 || rv != -5 || r != B_DATA_NOT_FOUND, "empty table: arguments written or wrong error code"); break; }
      case REMOVE_LAST_K: { HKey rk(-7); status_t r = t.RemoveLast(rk); FAILIF(r.IsOK() != (n > 0), "status wrong"); if (n) { FAILIF(rk.id != m[n - 1].k, "returned key wrong"); RRemove(&w, T, m, m[n - 1].k); } else FAILIF(rk.id != -7 || r != B_DATA_NOT_FOUND, "empty table: argument written or wrong error code"); break; }
      case REMOVE_TABLE: { const uint32 c = t.Remove(u); uint32 e = 0; for (size_t i = 0; i < mu.size(); i++) if (RRemove(&w, T, m, mu[i].k)) e++; FAILIF(c != e, verif::Fmt("returned %u expected %u", c, e)); break; }
      case REMOVE_SELF: { const uint32 c = t.Remove(t); RClear(&w, T, m); FAILIF(c != n, verif::Fmt("returned %u expected %u", c, (unsigned)n)); break; }
      case INTERSECT: { const uint32 c = t.Intersect(u); const uint32 e = RIntersect(&w, T, m, mu); FAILIF(c != e, verif::Fmt("returned %u expected %u", c, e)); FAILIF(t.Intersect(t) != 0, "Intersect(self) removed something"); break; }
      // ---------------------------------------------------------------- Move family
      case MTF: { status_t r = t.MoveToFront(ka); const bool e = RFind(m, o.a) >= 0; RToFront(&w, T, m, o.a); FAILIF(r.IsOK() != e, "status wrong"); FAILIF(!e && r != B_DATA_NOT_FOUND, "error code not B_DATA_NOT_FOUND"); break; }
      case MTB: { status_t r = t.MoveToBack(ka); const bool e = RFind(m, o.a) >= 0; RToBack(&w, T, m, o.a); FAILIF(r.IsOK() != e, "status wrong"); FAILIF(!e && r != B_DATA_NOT_FOUND, "error code not B_DATA_NOT_FOUND"); break; }
      case MBEFORE: case MBEHIND: {
         status_t r = (o.k == MBEFORE) ? t.MoveToBefore(ka, kb) : t.MoveToBehind(ka, kb);
         const bool ha = RFind(m, o.a) >= 0, hb = RFind(m, o.b) >= 0; const bool ok = ha && hb && o.a != o.b;
         if (ok) { if (o.k == MBEFORE) RToBefore(&w, T, m, o.a, o.b); else RToBehind(&w, T, m, o.a, o.b); }
         FAILIF(r.IsOK() != ok, "status wrong");
         if (!ha && o.a != o.b) FAILIF(r != B_DATA_NOT_FOUND, "moved key absent: error code not B_DATA_NOT_FOUND");   // the two documented error cases; others only need to be errors
         if (ha && o.a == o.b) FAILIF(r != B_BAD_ARGUMENT, "key == target: error code not B_BAD_ARGUMENT");
         break; }
      case MPOS: { const uint32 pos = SelPos(o.b, n); status_t r = t.MoveToPosition(ka, pos); const bool e = RFind(m, o.a) >= 0; RToPos(&w, T, m, o.a, pos); FAILIF(r.IsOK() != e, "status wrong"); FAILIF(!e && r != B_DATA_NOT_FOUND, "error code not B_DATA_NOT_FOUND"); break; }
      case SORTKEY: { t.SortByKey(); RSortKey(m); break; }
      case SORTVAL: { t.SortByValue(); RSortVal(m); break; }
      case SORT: { t.Sort(); RSortOwn(m); break; }
      case REPOSITION: { status_t r = AutoSortOf<TableT, KIND>::Reposition(t, ka); const bool e = RFind(m, o.a) >= 0; FAILIF(r.IsOK() != e, "status wrong"); break; }
      // ---------------------------------------------------------------- capacity
      case ENSURE_DOUBLE: { const uint32 want = std::max(2 * t.GetNumAllocatedItemSlots(), (uint32)8); if (want > 200000) return seqx::SEQX_DISABLED; status_t r = t.EnsureSize(want); FAILIF(r.IsError(), "failed"); FAILIF(t.GetNumAllocatedItemSlots() < want, "fewer slots than requested"); break; }
      case ENSURE_CANPUT: { status_t r = t.EnsureCanPut(2); FAILIF(r.IsError(), "failed"); FAILIF(t.GetNumAllocatedItemSlots() < n + 2, "fewer slots than items+2"); break; }
      case SHRINK: { status_t r = t.ShrinkToFit(); if (n == 0) RDetach(&w, T); FAILIF(r.IsError(), "failed"); FAILIF(n > 0 && t.GetNumAllocatedItemSlots() != n, verif::Fmt("%u slots for %u items", t.GetNumAllocatedItemSlots(), (unsigned)n)); break; }
      case SHRINK1: { status_t r = t.ShrinkToFit(1); FAILIF(r.IsError(), "failed"); FAILIF(t.GetNumAllocatedItemSlots() != n + 1, verif::Fmt("%u slots for %u items + 1", t.GetNumAllocatedItemSlots(), (unsigned)n)); break; }
      case ENSURE_SHRINK: { status_t r = t.EnsureSize((uint32)n + 2, true); FAILIF(r.IsError(), "failed"); FAILIF(t.GetNumAllocatedItemSlots() != n + 2, verif::Fmt("%u slots, expected %u", t.GetNumAllocatedItemSlots(), (unsigned)n + 2)); break; }
      case CLEAR: { t.Clear(); RClear(&w, T, m); break; }
      case CLEAR_REL: { t.Clear(true); RClear(&w, T, m); FAILIF(t._table != NULL, "Clear(true) kept the array"); break; }
      // ---------------------------------------------------------------- second table
      case ASSIGN_T_U: { t = u; RCopyFrom(&w, T, m, mu, true); break; }
      case ASSIGN_U_T: { u = t; RCopyFrom(&w, U, mu, m, true); break; }
      case SWAP: { t.SwapContents(u); RSwap(w); break; }
      case MOVE_T_U: { t = std::move(u); RSwap(w); break; }
      case COPYCTOR: {
         TableT c(t); RList f; ReadImpl(c, f, false); FAILIF(!SameList(f, m), "copy differs: " + ShowList(f)); FAILIF(!(c == t) || (c != t) || !c.IsEqualTo(t, true) || !t.IsEqualTo(c, true), "copy not equal to the original");
         FAILIF(c.HashCode() != t.HashCode(), "copy has another HashCode()");
         TableT d; { const HKey k6(6); (void) d.Put(k6, 1); } status_t r = d.CopyFrom(t); ReadImpl(d, f, false); FAILIF(r.IsError() || !SameList(f, m), "CopyFrom differs: " + ShowList(f));
         break; }
      case MOVECTOR: {   // T c(std::move(t)): c takes content AND iterators; c dies at the end of the scope (iterators cut loose); t is left moved-from and must remain a usable table
         { TableT c(std::move(t)); RList f; ReadImpl(c, f, false); FAILIF(!SameList(f, m), "move-constructed table differs: " + ShowList(f)); }
         RClear(&w, T, m); FAILIF(t.GetNumItems() != 0, "moved-from table is not empty");
         {
            // (a Put that fails for lack of memory makes the library print a warning and a stack trace on stdout: keep the exploration workers' output clean)
            const bool hush = !checkEveryStep; int save = -1;
            if (hush) { fflush(stdout); save = dup(1); int dn = open("/dev/null", O_WRONLY); if (dn >= 0) { dup2(dn, 1); close(dn); } }
            const HKey k6(6); status_t r = t.Put(k6, 1);
            if (hush && save >= 0) { fflush(stdout); dup2(save, 1); close(save); }
            FAILIF(r.IsError(), std::string("Put into the moved-from table fails with ") + r()); FAILIF(t.Remove(k6).IsError(), "Remove from the moved-from table failed");
         }
         break; }
      case MOVETOTABLE: { const int j = RFind(m, o.a); status_t r = t.MoveToTable(ka, u); if (j >= 0) { const int val = m[j].v; RPut(&w, U, mu, o.a, val); RRemove(&w, T, m, o.a); } FAILIF(r.IsOK() != (j >= 0), "status wrong"); FAILIF(j < 0 && r != B_DATA_NOT_FOUND, "error code not B_DATA_NOT_FOUND"); FAILIF(t.MoveToTable(ka, t).IsOK() != (RFind(m, o.a) >= 0), "MoveToTable(self) status wrong"); break; }
      case MOVEFROMTABLE: { const int j = RFind(mu, o.a); status_t r = u.MoveToTable(ka, t); if (j >= 0) { const int val = mu[j].v; RPut(&w, T, m, o.a, val); RRemove(&w, U, mu, o.a); } FAILIF(r.IsOK() != (j >= 0), "status wrong"); FAILIF(j < 0 && r != B_DATA_NOT_FOUND, "error code not B_DATA_NOT_FOUND"); break; }
      case COPYTOTABLE: { const int j = RFind(m, o.a); status_t r = t.CopyToTable(ka, u); if (j >= 0) RPut(&w, U, mu, o.a, m[j].v); FAILIF(r.IsOK() != (j >= 0), "status wrong"); FAILIF(j < 0 && r != B_DATA_NOT_FOUND, "error code not B_DATA_NOT_FOUND"); break; }
      case SWAPWITHTABLE: {
         const int j = RFind(m, o.a), ju = RFind(mu, o.a); status_t r = t.SwapWithTable(ka, u);
         if (j >= 0 && ju >= 0) { const int a = m[j].v, b = mu[ju].v; RPut(&w, T, m, o.a, b); RPut(&w, U, mu, o.a, a); }   // ideal: each table now maps the key to the other's value (and, for auto-sorting tables, stays sorted)
         else if (j >= 0) { const int val = m[j].v; RPut(&w, U, mu, o.a, val); RRemove(&w, T, m, o.a); }
         else if (ju >= 0) { const int val = mu[ju].v; RPut(&w, T, m, o.a, val); RRemove(&w, U, mu, o.a); }
         FAILIF(r.IsOK() != (j >= 0 || ju >= 0), "status wrong"); FAILIF(j < 0 && ju < 0 && r != B_DATA_NOT_FOUND, "error code not B_DATA_NOT_FOUND"); break; }
      // ---------------------------------------------------------------- relations between the two tables (queries)
      case EQ: {
         const bool es = SameSet(m, mu), el = SameList(m, mu);
         FAILIF((t == u) != es || (t != u) == es || (u == t) != es, "==/!= wrong"); FAILIF(t.IsEqualTo(u, false) != es || t.IsEqualTo(u, true) != el || u.IsEqualTo(t, true) != el, "IsEqualTo wrong"); FAILIF(!t.IsEqualTo(t, true), "not equal to itself");
         if (es) FAILIF(t.HashCode() != u.HashCode(), "equal tables with different HashCode()");
         res = es ? (el ? "eq-ordered" : "eq") : "ne"; break; }
      case KEYSETS: {
         bool sub = true, subv = true, common = false; for (size_t i = 0; i < n; i++) { const int j = RFind(mu, m[i].k); if (j < 0) { sub = false; subv = false; } else { common = true; if (mu[j].v != m[i].v) subv = false; } }
         bool sup = true; for (size_t i = 0; i < mu.size(); i++) if (RFind(m, mu[i].k) < 0) sup = false;
         const bool eqk = sub && sup; bool eqko = eqk; for (size_t i = 0; eqko && i < n; i++) if (m[i].k != mu[i].k) eqko = false;
         FAILIF(t.AreKeySetsEqual(u) != eqk || t.AreKeySetsEqual(u, true) != eqko, "AreKeySetsEqual wrong");
         FAILIF(t.AreKeysASubsetOf(u) != sub || t.AreKeysASupersetOf(u) != sup, "AreKeysASubsetOf/SupersetOf wrong");
         FAILIF(t.AreKeysASubsetOf(u, true) != (sub && IsSubseqKeys(m, mu, false)), "AreKeysASubsetOf(ordered) wrong");
         FAILIF(t.AreKeysAndValuesASubsetOf(u) != subv, "AreKeysAndValuesASubsetOf wrong");
         FAILIF(t.AreKeysAndValuesASubsetOf(u, true) != (subv && IsSubseqKeys(m, mu, true)), "AreKeysAndValuesASubsetOf(ordered) wrong");
         FAILIF(t.HasKeysInCommonWith(u) != common || u.HasKeysInCommonWith(t) != common, "HasKeysInCommonWith wrong");
         res = verif::Fmt("%d%d%d%d", (int)sub, (int)sup, (int)subv, (int)common); break; }
      case WOULDPUT: case WOULDREMOVE: {
         RList after = m; if (o.k == WOULDPUT) RPut(NULL, -1, after, o.a, v); else RRemove(NULL, -1, after, o.a);
         const bool es = SameSet(after, mu), el = SameList(after, mu);
         const bool r0 = (o.k == WOULDPUT) ? t.WouldBeEqualToAfterPut(u, ka, v, false) : t.WouldBeEqualToAfterRemove(u, ka, false);
         const bool r1 = (o.k == WOULDPUT) ? t.WouldBeEqualToAfterPut(u, ka, v, true) : t.WouldBeEqualToAfterRemove(u, ka, true);
         FAILIF(r0 != es, verif::Fmt("returned %d but the table after the operation would be %s the other table; after=", (int)r0, es ? "equal to" : "different from") + ShowList(after));
         if (r1 != el) { msg = o.name + verif::Fmt(": (considerOrdering=true) returned %d but the table after the operation would be %s the other table; after=", (int)r1, el ? "identical to" : "different from") + ShowList(after) + Dump(w); key = std::string("result:") + kKindNames[o.k] + "(considerOrdering)"; return seqx::SEQX_VIOLATION; }
         FAILIF(false, verif::Fmt("(considerOrdering) returned %d but the table after the operation would be %s the other table; after=", (int)r1, el ? "identical to" : "different from") + ShowList(after));
         res = verif::Fmt("%d%d", (int)r0, (int)r1); break; }
      case U_REMOVE: { status_t r = u.Remove(ka); const bool e = RRemove(&w, U, mu, o.a); FAILIF(r.IsOK() != e, "status wrong"); break; }
      case U_PUT: { status_t r = u.Put(ka, v); RPut(&w, U, mu, o.a, v); FAILIF(r.IsError(), "failed"); break; }
      case U_CLEAR: { u.Clear(); RClear(&w, U, mu); break; }
      // ---------------------------------------------------------------- iterators
      case IT_NEW: {
         const int s = o.a; if (w.ri[s].live) return seqx::SEQX_DISABLED;
         const uint32 flags = o.b ? (uint32)HTIT_FLAG_BACKWARDS : 0u;
         RefIter & r = w.ri[s]; r = RefIter(); r.live = true; r.back = (o.b != 0);
         if (v == -2) { const RList & mu = w.m[U]; w.it[s] = new IterT(*w.u, flags); r.cursor = mu.size() ? (r.back ? mu[mu.size() - 1].k : mu[0].k) : -1; r.owner = (r.cursor != -1) ? U : -1; break; }   // an iterator on the OTHER table
         if (v < 0) { w.it[s] = new IterT(t, flags); r.cursor = n ? (r.back ? m[n - 1].k : m[0].k) : -1; }
         else { const HKey kat(v); w.it[s] = new IterT(t, kat, flags); r.cursor = (RFind(m, v) >= 0) ? v : -1; }
         r.owner = (r.cursor != -1) ? T : -1; break; }
      case IT_ADV: case IT_RET: {
         const int s = o.a; NEEDLIVE(s); RefIter & r = w.ri[s];
         if (o.k == IT_ADV) (*w.it[s])++; else (*w.it[s])--;
         if (r.saved) r.saved = false;
         else if (r.cursor != -1) { const RList & l = w.m[r.owner]; const int i = RFind(l, r.cursor); const bool back = (o.k == IT_ADV) ? r.back : !r.back; r.cursor = back ? (i > 0 ? l[i - 1].k : -1) : (i + 1 < (int)l.size() ? l[i + 1].k : -1); }
         break; }
      case IT_DEL: { const int s = o.a; NEEDLIVE(s); delete w.it[s]; w.it[s] = NULL; w.ri[s] = RefIter(); break; }
      case IT_COPY: { NEEDLIVE(0); if (w.it[1]) *w.it[1] = *w.it[0]; else w.it[1] = new IterT(*w.it[0]); w.ri[1] = w.ri[0]; if (w.ri[1].cursor == -1) w.ri[1].owner = -1; break; }
      case IT_SWAP: { NEEDLIVE(0); NEEDLIVE(1); w.it[0]->SwapContents(*w.it[1]); std::swap(w.ri[0], w.ri[1]); break; }
      case IT_FLIP: { const int s = o.a; NEEDLIVE(s); w.it[s]->SetBackwards(!w.it[s]->IsBackwards()); w.ri[s].back = !w.ri[s].back; break; }
      case DESTROY_T: { RClear(&w, T, m); delete w.t; w.t = new TableT; break; }
      // ---------------------------------------------------------------- arguments that live inside the table
      case AL_PUTBEFORE: { if (n == 0) return seqx::SEQX_DISABLED; const int fk = m[0].k; status_t r = t.PutBefore(ka, *t.GetFirstKey(), v); RPut(&w, T, m, o.a, v); if (o.a != fk) RToBefore(&w, T, m, o.a, fk); FAILIF(r.IsError(), "failed"); break; }
      case AL_PUTBEHIND: { if (n == 0) return seqx::SEQX_DISABLED; const int lk = m[n - 1].k; status_t r = t.PutBehind(ka, *t.GetLastKey(), v); RPut(&w, T, m, o.a, v); if (o.a != lk) RToBehind(&w, T, m, o.a, lk); FAILIF(r.IsError(), "failed"); break; }
      case AL_PUTFRONT_EXISTING: { if (n == 0) return seqx::SEQX_DISABLED; const int lk = m[n - 1].k; status_t r = t.PutAtFront(*t.GetLastKey(), 4); RPut(&w, T, m, lk, 4); RToFront(&w, T, m, lk); FAILIF(r.IsError(), "failed"); break; }
      case AL_MOVEBEFORE: { if (n < 2) return seqx::SEQX_DISABLED; const int lk = m[n - 1].k, fk = m[0].k; status_t r = t.MoveToBefore(*t.GetLastKey(), *t.GetFirstKey()); RToBefore(&w, T, m, lk, fk); FAILIF(r.IsError(), "failed"); break; }
      case AL_REMOVE_FIRSTKEY: { if (n == 0) return seqx::SEQX_DISABLED; const int fk = m[0].k; status_t r = t.Remove(*t.GetFirstKey()); RRemove(&w, T, m, fk); FAILIF(r.IsError(), "failed"); break; }
      case AL_MOVETOTABLE_FIRSTKEY: { if (n == 0) return seqx::SEQX_DISABLED; const int fk = m[0].k, fv = m[0].v; status_t r = t.MoveToTable(*t.GetFirstKey(), u); RPut(&w, U, mu, fk, fv); RRemove(&w, T, m, fk); FAILIF(r.IsError(), "failed"); break; }
      case AL_PUT_LASTKEY_FIRSTVAL: { if (n == 0) return seqx::SEQX_DISABLED; const int lk = m[n - 1].k, fv = m[0].v; status_t r = t.Put(*t.GetLastKey(), *t.GetFirstValue()); RPut(&w, T, m, lk, fv); FAILIF(r.IsError(), "failed"); break; }
      default: return seqx::SEQX_DISABLED;
      }
#undef FAILIF
#undef NEEDLIVE
      w.lastResult = res; w.step++; LastSteps() = w.step;
      if (!checkEveryStep && LevelLen() > 0 && w.step < LevelLen()) return seqx::SEQX_OK;   // a proper prefix: verified when it was a history of its own
      const bool touchesU = (o.k == PUT_TABLE || o.k == REMOVE_TABLE || o.k == INTERSECT || (o.k >= ASSIGN_T_U && o.k <= SWAPWITHTABLE) || o.k == U_REMOVE || o.k == U_PUT || o.k == U_CLEAR || o.k == AL_MOVETOTABLE_FIRSTKEY);
      if (!CheckAll(w, touchesU, msg, key)) { msg = o.name + ": " + msg + Dump(w); key = key + ":" + kKindNames[o.k]; return seqx::SEQX_VIOLATION; }
      return seqx::SEQX_OK;
   }

   std::string Rule(int depth) const
   {
      std::string tk = (KIND == 0) ? "Hashtable<HKey,int>" : (KIND == 1) ? "OrderedKeysHashtable<HKey,int>" : "OrderedValuesHashtable<HKey,int>";
      return verif::Fmt("every sequence of <=%d operations from a %d-operation alphabet applied to a real %s t (plus a second table u and up to two registered iterators A/B whose creation, ++, --, copy, swap and destruction are operations) "
                        "from each of %d start states (%s); keys carry harness-chosen hash codes (k0,k1 -> 0; k2 -> 1; k3,k4 -> cap; k5 -> 2*cap) so that bucket collisions and displaced bucket heads are forced; "
                        "after every operation: return value/status, forward and backward iteration, every lookup/positional/value query of both tables against a vector-of-pairs reference, free-list and iterator-registration bookkeeping, and for each live iterator "
                        "HasData/current item and the complete remaining traversal (walked on a copy) against the reference iterator (saved-copy flag, cursor key, owner table); states deduplicated on (ordered (key,value,slot) list, table size, array allocated, free-list head, "
                        "registered-iterator list order, per iterator direction/saved flag/cursor/owner) of both tables [layout level %d]; a state is non-trivial when its canonical form is new",
                        depth, NumOps(), tk.c_str(), NumStarts(), StartSetText(), layout);
   }
   const char * StartSetText() const
   {
      switch (startSet) {
      case SS_BOUND: case SS_BOUNDW: case SS_BOUNDD: return "table brought by EnsureSize to c slots, c in {253,254,255,256[,127,128]}, holding c-1 or c entries, so that one or two more Puts regrow it across the 8-bit/16-bit slot-index boundary (table size 255), and a 300-slot table holding 254/255 entries that ShrinkToFit brings back below it; iterators A (forward) and B (backward) parked at head/middle/tail";
      case SS_HUGED: return "table brought by EnsureSize to 65534 / 65535 slots and filled completely (the next new key regrows it; 65534 -> 131068 crosses from 16-bit to 32-bit slot indices), iterators A/B parked in the middle";
      case SS_HUGE: return "table brought by EnsureSize to c slots, c in {65533..65536}, holding c-1 or c entries (regrow across the 16-bit/32-bit slot-index boundary at table size 65535) and a 70000-slot table holding 65534/65535 entries shrunk back; iterators A/B parked in the middle";
      case SS_ALIAS: return "populations 6 and 7 of the default 7-slot table";
      default: return "empty table of default capacity 7; populations 6, 7 (full: next new key regrows) and 8 (after the first regrow), the full one also with iterators A (forward) and B (backward) parked at head/middle/tail";
      }
   }
