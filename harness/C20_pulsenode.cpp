// C20 -- Pulse callbacks fire for every due node and never before their time.
// SEQX exploration: a real tree of muscle::PulseNode objects driven by a harness PulseNodeManager with an explicit simulated clock,
// against the reference model ref/refpulse.h advanced in lock-step (also from inside the callbacks).
#include "engines/seqx/seqx.h"
#include "util/PulseNode.h"
#include "ref/refpulse.h"
#include <pthread.h>

using namespace muscle;

static const int N = 5;           // node 0 = root (driven by the manager), nodes 1..4 attachable
static const int MAXDEPTH = 3;    // edges below the top-most ancestor
static const uint64 T0 = 1000;    // simulated clock origin (only differences to `now` are meaningful)

// ---------------------------------------------------------------- counters shared with the forked workers (observations only, never verdicts)
struct Shared {
   volatile long deferredTransitions;  // explored transitions whose pulse sweep left >=1 due node for the next cycle (path disturbed since the sweep)
   volatile long deferredNodes;
   volatile long deferredByTopLevel;   // ... where no callback action ran in that pulse sweep (disturbed by operations between sweep and pulse)
   volatile long oodTransitions;       // transitions in which a callback detached its own node's ancestor (executed, not compared, not extended)
   volatile long pulseSweeps, callbacksRun, callbackActionsRun, sweeps, asks;
   volatile int lock; int exLen; char ex[700];
};
static Shared * g_sh = NULL;
static bool g_trace = false;            // --replay prints every callback and verdict detail to stdout
static bool g_behaviourOnly = false;   // diagnostic option --behaviour-only 1: skip the structural invariants (used to show that the behavioural oracle alone catches a seeded fault)
static void SharedInit() { void * p = mmap(NULL, sizeof(Shared), PROT_READ | PROT_WRITE, MAP_SHARED | MAP_ANONYMOUS, -1, 0); if (p == MAP_FAILED) { perror("mmap"); exit(3); } g_sh = (Shared *)p; memset(g_sh, 0, sizeof(Shared)); g_sh->exLen = 1 << 30; }
static void SharedAdd(volatile long * c, long v) { if (g_sh && v) __sync_fetch_and_add(c, v); }

// ---------------------------------------------------------------- hang watchdog (CPU time only): a transition that makes no progress for 2-3 s of this
// process's own CPU time (a normal one takes microseconds) ends the process with exit code 86; the engine attributes the death to the history.
static volatile unsigned long g_progress = 0; static unsigned long g_wdLast = 0; static int g_wdStalls = 0; static bool g_wdArmed = false;
static void WdTick(int) { if (g_progress == g_wdLast) { if (++g_wdStalls >= 2) _exit(86); } else { g_wdStalls = 0; g_wdLast = g_progress; } }
static void WdChild() { g_wdArmed = false; }   // interval timers are not inherited across fork()
static void WdArm() { signal(SIGVTALRM, WdTick); struct itimerval it; it.it_interval.tv_sec = 1; it.it_interval.tv_usec = 0; it.it_value = it.it_interval; setitimer(ITIMER_VIRTUAL, &it, NULL); g_wdArmed = true; g_wdStalls = 0; g_wdLast = g_progress; }

enum ActKind { A_NONE = 0, A_SET_NEVER, A_SET_PLUS1, A_INVALIDATE, A_DETACH, A_ATTACH, A_DESTROY, NUM_ACTS };
static const char * ActName(int k) { static const char * n[] = {"none", "set-own-time(never)", "set-own-time(now+1)", "invalidate", "detach", "attach-under-self", "destroy"}; return n[k]; }
struct Action { int kind, target; Action() : kind(A_NONE), target(-1) {} };

struct World;
class TNode : public PulseNode {
public:
   World * w; int idx;
   TNode(World * ww, int i) : w(ww), idx(i) {}
   virtual uint64 GetPulseTime(const PulseArgs & a);
   virtual void Pulse(const PulseArgs & a);
};

class Mgr : public PulseNodeManager {   // what ReflectServer does: sweep in PrepareToWaitForEvents(), SetCycleStartTime + PulseAux in HandleEvents()
public:
   void Sweep(PulseNode & root, uint64 now, uint64 & min) const { CallGetPulseTimeAux(root, now, min); }
   void Pulse(PulseNode & root, uint64 now) const { CallSetCycleStartTime(root, now); CallPulseAux(root, now); }
};

struct World {
   refpulse::Model m;
   TNode * node[N];
   Mgr mgr;
   uint64 now;
   int phase;                 // 0 = before the sweep of a cycle, 1 = swept (waiting), pulse pending
   Action act[N];             // one-shot action performed by the node's next Pulse() callback
   int mode;                  // 0 idle, 1 inside a sweep, 2 inside a pulse sweep
   bool ran[N];
   int askedLog[4 * N], nAsked, pulsedLog[4 * N], nPulsed;
   std::string err, errKey;   // first disagreement noticed inside a callback
   std::string initErr, initKey;   // the start-state script itself disagreed
   bool ood;                  // a callback left the compared domain (detached an ancestor of the running node)
   unsigned cbKinds;          // callback action kinds performed during the current operation
   unsigned activeMask;       // after an out-of-domain detach: nodes whose PulseAux() is still running
   int lastDeferred; uint64 lastWake; int lastKind;
   int hist[64], nHist, startIdx; bool skipStructure;   // skipStructure: inside a start-state script (its last op is checked)
   World() : m(N), now(T0), phase(0), mode(0), nAsked(0), nPulsed(0), ood(false), cbKinds(0), activeMask(0), lastDeferred(0), lastWake(0), lastKind(-1), nHist(0), startIdx(0), skipStructure(false) { for (int i = 0; i < N; i++) { node[i] = new TNode(this, i); ran[i] = false; } }
   ~World() { for (int i = N - 1; i >= 0; i--) delete node[i]; }
   void Fail(const char * key, const std::string & msg) { if (err.empty()) { err = msg; errKey = key; } }
private:
   World(const World &); World & operator=(const World &);
};

static std::string Rel(uint64 t, uint64 now) { if (t == MUSCLE_TIME_NEVER) return "never"; int64 d = (int64)(t - now); return d ? verif::Fmt("now%+lld", (long long)d) : std::string("now"); }

static std::string Dump(const World & w)
{
   std::string s = verif::Fmt("[phase %d;", w.phase);
   for (int i = 0; i < N; i++) {
      const refpulse::Node & r = w.m.n[i]; const PulseNode * p = w.node[i];
      s += verif::Fmt(" n%d{ref: parent=%d requested=%s returned=%s valid=%d disturbed=%d | impl: parent=", i, r.parent, Rel(r.requested, w.now).c_str(), Rel(r.returned, w.now).c_str(), (int)r.valid, (int)r.disturbed);
      int ip = -1; for (int j = 0; j < N; j++) if (p->_parent == w.node[j]) ip = j;
      s += verif::Fmt("%d scheduled=%s valid=%d aggregate=%s list=%d", p->_parent ? ip : -1, Rel(p->_myScheduledTime, w.now).c_str(), (int)p->_myScheduledTimeValid, Rel(p->_aggregatePulseTime, w.now).c_str(), p->_curList);
      if (w.act[i].kind) s += verif::Fmt(" armed=%s(%d)", ActName(w.act[i].kind), w.act[i].target);
      s += "}";
   }
   return s + "]";
}

// ---------------------------------------------------------------- callbacks (implementation -> harness), reference advanced at the moment of the call
static void RunAction(World & w, int k)
{
   const Action a = w.act[k]; w.act[k] = Action();
   if (a.kind == A_NONE) return;
   w.cbKinds |= 1u << a.kind;
   const int t = a.target;
   switch (a.kind) {
   case A_SET_NEVER: w.m.n[k].requested = MUSCLE_TIME_NEVER; break;   // what a Pulse() override normally does: decide its next time; it is asked right after
   case A_SET_PLUS1: w.m.n[k].requested = w.now + 1; break;
   case A_INVALIDATE: w.node[t]->InvalidatePulseTime(); w.m.Invalidate(t, true); break;
   case A_DETACH: {
      const int p = w.m.n[t].parent; if (p < 0) break;
      if (w.m.InSubtree(k, t)) {   // detaching the running node or one of its ancestors from inside the callback: nothing is documented about the rest of this pulse sweep
         w.ood = true; for (int x = k; x >= 0; x = w.m.n[x].parent) w.activeMask |= 1u << x;   // their PulseAux() stays on the stack although the tree no longer shows them as ancestors
      }
      w.node[p]->RemovePulseChild(w.node[t]); w.m.Detach(t); break; }
   case A_ATTACH: {
      if (w.m.InSubtree(k, t) || w.m.Depth(k) + 1 + w.m.Height(t) > MAXDEPTH) break;   // would create a cycle (contract violation) or leave the bounded space: not performed
      w.node[k]->PutPulseChild(w.node[t]); w.m.Attach(t, k); break; }
   case A_DESTROY: {
      if (w.m.InSubtree(k, t) || (w.activeMask & (1u << t))) break;   // destroying the running node or an ancestor while its PulseAux() is on the stack is outside the class contract: not performed
      delete w.node[t]; w.node[t] = new TNode(&w, t); w.m.Destroy(t); w.act[t] = Action(); break; }
   default: break;
   }
}

uint64 TNode::GetPulseTime(const PulseArgs & a)
{
   World & W = *w; const int k = idx; refpulse::Node & r = W.m.n[k];
   if (W.nAsked < 4 * N) W.askedLog[W.nAsked++] = k;
   if (g_trace) printf("      GetPulseTime(node %d, callback time %s, previous %s) -> %s\n", k, Rel(a.GetCallbackTime(), W.now).c_str(), Rel(a.GetScheduledTime(), W.now).c_str(), Rel(r.requested, W.now).c_str());
   if (W.mode != 1) W.Fail("ask:outside-sweep", verif::Fmt("GetPulseTime() of node %d called outside a GetPulseTimeAux sweep", k));
   else {
      if (!W.m.Attached(k)) W.Fail("ask:detached-node", verif::Fmt("node %d is not attached below the root but was asked for its pulse time", k));
      else if (r.valid) W.Fail("ask:unexpected", verif::Fmt("node %d was asked for its pulse time although it was not invalidated, (re)attached or pulsed since it was last asked (or it was asked twice in one sweep)", k));
      if (a.GetCallbackTime() != W.now) W.Fail("ask:calltime-arg", verif::Fmt("GetPulseTime(node %d): args.GetCallbackTime() is %s", k, Rel(a.GetCallbackTime(), W.now).c_str()));
      if (a.GetScheduledTime() != r.returned) W.Fail("ask:scheduled-arg", verif::Fmt("GetPulseTime(node %d): args.GetScheduledTime() is %s, the previously returned value is %s", k, Rel(a.GetScheduledTime(), W.now).c_str(), Rel(r.returned, W.now).c_str()));
   }
   return W.m.Asked(k);
}

void TNode::Pulse(const PulseArgs & a)
{
   World & W = *w; const int k = idx; refpulse::Node & r = W.m.n[k];
   if (W.nPulsed < 4 * N) W.pulsedLog[W.nPulsed++] = k;
   if (g_trace) printf("      Pulse(node %d, callback time %s, scheduled %s)%s%s\n", k, Rel(a.GetCallbackTime(), W.now).c_str(), Rel(a.GetScheduledTime(), W.now).c_str(), W.act[k].kind ? " then callback action " : "", W.act[k].kind ? ActName(W.act[k].kind) : "");
   if (W.mode != 2) { W.Fail("pulse:outside-pulse-sweep", verif::Fmt("Pulse() of node %d called outside a PulseAux sweep", k)); return; }
   if (!W.ood) {
      if (!W.m.Attached(k)) W.Fail("pulse:detached-node", verif::Fmt("Pulse() ran on node %d which is not attached below the root", k));
      else if (W.ran[k]) W.Fail("pulse:twice", verif::Fmt("Pulse() ran twice on node %d in one pulse sweep", k));
      else if (!r.valid) W.Fail("pulse:not-scheduled", verif::Fmt("Pulse() ran on node %d whose pulse time was invalidated and not asked again (last returned %s)", k, Rel(r.returned, W.now).c_str()));
      else if (r.returned > W.now) W.Fail("pulse:early", verif::Fmt("Pulse() ran on node %d at now although it asked for %s", k, Rel(r.returned, W.now).c_str()));
      if (a.GetScheduledTime() != r.returned) W.Fail("pulse:scheduled-arg", verif::Fmt("Pulse(node %d): args.GetScheduledTime() is %s, the node asked for %s", k, Rel(a.GetScheduledTime(), W.now).c_str(), Rel(r.returned, W.now).c_str()));
      if (a.GetCallbackTime() != W.now) W.Fail("pulse:calltime-arg", verif::Fmt("Pulse(node %d): args.GetCallbackTime() is %s", k, Rel(a.GetCallbackTime(), W.now).c_str()));
      if (GetCycleStartTime() != W.now) W.Fail("pulse:cycle-start-time", verif::Fmt("Pulse(node %d): GetCycleStartTime() is %s, the manager set now", k, Rel(GetCycleStartTime(), W.now).c_str()));
   }
   W.ran[k] = true; W.m.Pulsed(k);
   RunAction(W, k);
}

// ---------------------------------------------------------------- alphabet
enum OpKind { K_CYCLE, K_SWEEP, K_PULSE, K_ADVANCE, K_SETINV, K_SETNOINV, K_INVKEEP, K_ATTACH, K_DETACH, K_DESTROY, K_CLEARROOT, K_ARM, NUM_KINDS };
static const char * KindName(int k) { static const char * n[] = {"Cycle", "Sweep", "Pulse", "Advance", "Set+Invalidate", "SetWithoutInvalidate", "Invalidate(keepPrev)", "Attach", "Detach", "Destroy", "ClearPulseChildren", "Arm"}; return n[k]; }
struct Op { OpKind k; int a, b, c; };
static const char * TSelName(int s) { static const char * n[] = {"never", "now-1", "now", "now+1", "now+5"}; return n[s]; }
static uint64 TSel(int s, uint64 now) { switch (s) { case 0: return MUSCLE_TIME_NEVER; case 1: return now - 1; case 2: return now; case 3: return now + 1; default: return now + 5; } }

// Three explored spaces share the operations and the oracle and differ in the alphabet (a larger alphabet buys breadth, a smaller one depth):
enum Profile {
   P_FULL = 0,   // every operation
   P_LEAN,       // scheduling core: tree edits, requested times, clock, whole manager cycles; no callback actions, no separate sweep/pulse
   P_CALLBACK,   // callback actions on populated trees: arm (<=2 pending), clock +1, sweep / pulse / cycle, re-request now+1
   NUM_PROFILES
};
static const char * ProfileName(int p) { static const char * n[] = {"full-alphabet", "scheduling-core", "callback-actions"}; return n[p]; }

class PulseModel {
public:
   std::vector<Op> master; std::vector<std::string> masterNames;   // every operation; start-state scripts are written against this table
   std::vector<int> sel;                                            // this profile's alphabet (indices into master), simplest first
   std::vector<std::vector<int> > starts; std::vector<std::string> startNames;
   int perms[24][N], nperms;
   int profile; bool thorough; int maxArmed;
   typedef ::World World;

   PulseModel(int prof, bool th, int onlyStart = -1) : nperms(0), profile(prof), thorough(th), maxArmed(prof == P_CALLBACK ? 2 : N)
   {
      A(K_CYCLE); A(K_SWEEP); A(K_PULSE); A(K_ADVANCE, 1); A(K_ADVANCE, 5);
      for (int n = 0; n < N; n++) for (int s = 0; s < 5; s++) A(K_SETINV, n, s);
      for (int n = 0; n < N; n++) { A(K_SETNOINV, n, 0); A(K_SETNOINV, n, 1); }
      for (int n = 0; n < N; n++) A(K_INVKEEP, n);
      for (int i = 1; i < N; i++) for (int j = 0; j < N; j++) if (i != j) A(K_ATTACH, i, j);
      for (int i = 1; i < N; i++) A(K_DETACH, i);
      for (int i = 1; i < N; i++) A(K_DESTROY, i);
      A(K_CLEARROOT);
      for (int n = 0; n < N; n++) { A(K_ARM, n, A_SET_NEVER, -1); A(K_ARM, n, A_SET_PLUS1, -1); }
      for (int n = 0; n < N; n++) for (int t = 0; t < N; t++) if (t != n) A(K_ARM, n, A_INVALIDATE, t);
      for (int n = 0; n < N; n++) for (int t = 1; t < N; t++) if (t != n) A(K_ARM, n, A_DETACH, t);
      for (int n = 0; n < N; n++) for (int t = 1; t < N; t++) if (t != n) A(K_ARM, n, A_ATTACH, t);
      for (int n = 0; n < N; n++) for (int t = 1; t < N; t++) if (t != n) A(K_ARM, n, A_DESTROY, t);   // thorough tier only; last, so that quick indices are a prefix
      for (size_t i = 0; i < master.size(); i++) if (InProfile(master[i])) sel.push_back((int)i);
      // label permutations of the attachable nodes (the root stays 0): neither the implementation nor the harness looks at labels
      int p[N]; for (int i = 0; i < N; i++) p[i] = i;
      do { memcpy(perms[nperms++], p, sizeof(p)); } while (std::next_permutation(p + 1, p + N));
      BuildStarts();
      if (onlyStart >= 0 && onlyStart < (int)starts.size()) {   // a run restricted to one start state (keeps the explorer's memory bounded in the thorough tier)
         std::vector<int> st = starts[onlyStart]; std::string nm = startNames[onlyStart];
         starts.assign(1, st); startNames.assign(1, nm);
      }
   }
   bool InProfile(const Op & o) const
   {
      if (o.k == K_ARM && o.b == A_DESTROY && !thorough) return false;
      switch (profile) {
      case P_LEAN: return o.k == K_CYCLE || o.k == K_ADVANCE || o.k == K_SETINV || o.k == K_SETNOINV || o.k == K_ATTACH || o.k == K_DETACH || o.k == K_DESTROY || o.k == K_CLEARROOT;
      case P_CALLBACK: return o.k == K_CYCLE || o.k == K_SWEEP || o.k == K_PULSE || (o.k == K_ADVANCE && o.a == 1) || (o.k == K_SETINV && o.b == 3) || o.k == K_ARM;
      default: return true;
      }
   }
   void A(OpKind k, int a = 0, int b = 0, int c = 0)
   {
      Op o; o.k = k; o.a = a; o.b = b; o.c = c; master.push_back(o);
      std::string n = KindName(k);
      switch (k) {
      case K_ADVANCE: n += verif::Fmt("(%d)", a); break;
      case K_SETINV: case K_SETNOINV: n += verif::Fmt("(%d,%s)", a, TSelName(b)); break;
      case K_INVKEEP: n = verif::Fmt("Invalidate(%d,keepPrev)", a); break;
      case K_ATTACH: n += verif::Fmt("(%d under %d)", a, b); break;
      case K_DETACH: case K_DESTROY: n += verif::Fmt("(%d)", a); break;
      case K_CLEARROOT: n += "(root)"; break;
      case K_ARM: n += (c >= 0) ? verif::Fmt("(%d: %s %d)", a, ActName(b), c) : verif::Fmt("(%d: %s)", a, ActName(b)); break;
      default: break;
      }
      masterNames.push_back(n);
   }
   int Find(const std::string & n) const { for (size_t i = 0; i < masterNames.size(); i++) if (masterNames[i] == n) return (int)i; fprintf(stderr, "C20: no such op %s\n", n.c_str()); exit(3); }
   void Start(const char * name, const char * const * script) { std::vector<int> v; for (; *script; script++) v.push_back(Find(*script)); starts.push_back(v); startNames.push_back(name); }
   void BuildStarts()
   {
      if (profile != P_CALLBACK) { static const char * s[] = { NULL }; Start("all nodes detached and never asked", s); }
      { static const char * s[] = { "Set+Invalidate(0,now+5)", "Set+Invalidate(1,now+1)", "Set+Invalidate(2,now+1)", "Set+Invalidate(3,now+5)", "Attach(1 under 0)", "Attach(2 under 0)", "Attach(3 under 0)", "Attach(4 under 0)", "Cycle", NULL };
        Start("star 0-(1,2,3,4), times root now+5, now+1, now+1, now+5, never, one cycle done", s); }
      { static const char * s[] = { "Set+Invalidate(3,now+1)", "Set+Invalidate(2,now+5)", "Set+Invalidate(4,now+1)", "Attach(1 under 0)", "Attach(2 under 1)", "Attach(3 under 2)", "Cycle", NULL };
        Start("chain 0-1-2-3, times never, never, now+5, now+1; node 4 detached wanting now+1; one cycle done", s); }
      { static const char * s[] = { "Set+Invalidate(0,now+1)", "Set+Invalidate(1,now+5)", "Set+Invalidate(2,now+1)", "Set+Invalidate(3,now+1)", "Set+Invalidate(4,now+1)", "Attach(1 under 0)", "Attach(2 under 0)", "Attach(3 under 1)", "Attach(4 under 1)", "Cycle", NULL };
        Start("two levels 0-(1-(3,4),2), times now+1, now+5, now+1, now+1, now+1, one cycle done", s); }
      { static const char * s[] = { "Set+Invalidate(1,now-1)", "Set+Invalidate(2,now)", "Set+Invalidate(3,now+1)", "Set+Invalidate(4,now+1)", "Attach(2 under 1)", "Attach(3 under 1)", "Attach(4 under 0)", "Cycle", NULL };
        Start("subtree 1-(2,3) built detached (times now-1, now, now+1), 4 under root wanting now+1, one cycle done", s); }
      if (profile != P_LEAN) { static const char * s[] = { "Set+Invalidate(0,now+1)", "Set+Invalidate(1,now+5)", "Set+Invalidate(2,now+1)", "Set+Invalidate(3,now+1)", "Set+Invalidate(4,now+1)", "Attach(1 under 0)", "Attach(2 under 0)", "Attach(3 under 1)", "Attach(4 under 1)", "Sweep", "Advance(1)", NULL };
        Start("two levels 0-(1-(3,4),2) swept, clock advanced so that root,2,3,4 are due, pulse pending", s); }
   }
   int NumStarts() const { return (int)starts.size(); }
   std::string StartName(int s) const { return startNames[s]; }
   int NumOps() const { return (int)sel.size(); }
   std::string OpName(int i) const { return masterNames[sel[i]]; }

   void Init(World & w, int s) const
   {
      // a start state is built by real operations under the same oracle; if that already fails, every history from it reports the failure
      for (size_t i = 0; i < starts[s].size() && w.initErr.empty(); i++) {
         std::string msg, key; w.skipStructure = (i + 1 < starts[s].size());
         const int st = ApplyOp(w, master[starts[s][i]], masterNames[starts[s][i]], msg, key);
         if (st != seqx::SEQX_OK) { w.initErr = verif::Fmt("while building start state %d (step %d of its script): ", s, (int)i + 1) + msg; w.initKey = (st == seqx::SEQX_VIOLATION) ? ("start-state:" + key) : std::string("start-state:disabled-op"); }
      }
      w.nHist = 0; w.startIdx = s; w.skipStructure = false;
   }

   // ---- structural invariants of the intrusive child lists and lock-step agreement of the per-node state
   bool CheckStructure(const World & w, bool afterSweep, std::string & msg, std::string & key) const
   {
      if (g_behaviourOnly) return true;
#define BAD(k, ...) do { msg = verif::Fmt(__VA_ARGS__); key = k; return false; } while (0)
      for (int x = 0; x < N; x++) {
         const PulseNode * X = w.node[x]; const refpulse::Node & r = w.m.n[x];
         const PulseNode * ep = (r.parent >= 0) ? w.node[r.parent] : NULL;
         if (X->GetPulseParent() != ep) BAD("state:parent", "node %d: GetPulseParent() differs from the reference parent %d", x, r.parent);
         for (int j = 0; j < N; j++) if (w.node[j]->ContainsPulseChild(w.node[x]) != (r.parent == j)) BAD("state:contains-child", "node %d: ContainsPulseChild(%d) wrong", j, x);
         if (X->GetScheduledPulseTime() != r.returned) BAD("state:scheduled-time", "node %d: GetScheduledPulseTime() is %s, the node last returned %s", x, Rel(X->GetScheduledPulseTime(), w.now).c_str(), Rel(r.returned, w.now).c_str());
         if (X->_myScheduledTimeValid != r.valid) BAD("state:valid-flag", "node %d: scheduled-time-valid flag is %d, reference says %d", x, (int)X->_myScheduledTimeValid, (int)r.valid);
         if (!X->_parent) { if (X->_curList != -1 || X->_prevSibling || X->_nextSibling) BAD("structure:orphan-linked", "node %d has no parent but is still linked into a sibling list (list %d)", x, X->_curList); }
         else if (X->_curList < 0 || X->_curList >= PulseNode::NUM_LINKED_LISTS) BAD("structure:child-in-no-list", "node %d has a parent but is in no child list", x);
         int seen = 0; bool needy = !X->_myScheduledTimeValid;
         for (int L = 0; L < PulseNode::NUM_LINKED_LISTS; L++) {
            const PulseNode * prev = NULL; int steps = 0;
            for (const PulseNode * c = X->_firstChild[L]; c; prev = c, c = c->_nextSibling) {
               if (++steps > N) BAD("structure:list-cycle", "node %d: child list %d does not terminate", x, L);
               if (c->_parent != X) BAD("structure:foreign-child", "node %d: child list %d holds a node whose parent is somebody else", x, L);
               if (c->_curList != L) BAD("structure:list-tag", "node %d: a node in child list %d is tagged as being in list %d", x, L, c->_curList);
               if (c->_prevSibling != prev) BAD("structure:prev-link", "node %d: child list %d has an inconsistent prev link", x, L);
               if (L == PulseNode::LINKED_LIST_SCHEDULED) {
                  if (prev && prev->_aggregatePulseTime > c->_aggregatePulseTime) BAD("structure:scheduled-unsorted", "node %d: scheduled child list is not sorted (%s before %s)", x, Rel(prev->_aggregatePulseTime, w.now).c_str(), Rel(c->_aggregatePulseTime, w.now).c_str());
                  if (c->_aggregatePulseTime == MUSCLE_TIME_NEVER) BAD("structure:scheduled-never", "node %d: scheduled child list holds a node whose aggregate time is never", x);
               }
               if (L == PulseNode::LINKED_LIST_UNSCHEDULED && c->_aggregatePulseTime != MUSCLE_TIME_NEVER) BAD("structure:unscheduled-with-time", "node %d: unscheduled child list holds a node with aggregate time %s", x, Rel(c->_aggregatePulseTime, w.now).c_str());
               if (L == PulseNode::LINKED_LIST_NEEDSRECALC) needy = true;
               seen++;
            }
            if (X->_lastChild[L] != prev) BAD("structure:last-link", "node %d: child list %d: last-child pointer does not point at the end of the list", x, L);
         }
         if (seen != w.m.NumChildren(x)) BAD("structure:child-count", "node %d: %d nodes found in its three child lists, it has %d children", x, seen, w.m.NumChildren(x));   // with the parent/list-tag checks: every child is in exactly one list
         if (needy && X->_parent && X->_curList != PulseNode::LINKED_LIST_NEEDSRECALC) BAD("structure:needy-not-queued", "node %d needs recalculation (own time invalid or a child queued) but is in list %d of its parent: the next sweep would not reach it", x, X->_curList);
         if (afterSweep && w.m.Attached(x)) {
            if (X->_firstChild[PulseNode::LINKED_LIST_NEEDSRECALC]) BAD("structure:needy-after-sweep", "node %d still has children queued for recalculation after the sweep", x);
            if (X->_aggregatePulseTime != muscleMin(X->_myScheduledTime, X->GetFirstScheduledChildTime())) BAD("structure:aggregate", "node %d: aggregate time %s is not min(own %s, first scheduled child %s)", x, Rel(X->_aggregatePulseTime, w.now).c_str(), Rel(X->_myScheduledTime, w.now).c_str(), Rel(X->GetFirstScheduledChildTime(), w.now).c_str());
            if (X->_aggregatePulseTime != w.m.SubtreeMin(x)) BAD("structure:aggregate-vs-reference", "node %d: aggregate time %s, minimum of the times returned in its subtree is %s", x, Rel(X->_aggregatePulseTime, w.now).c_str(), Rel(w.m.SubtreeMin(x), w.now).c_str());
            if (X->_parent && X->_curList != ((X->_aggregatePulseTime == MUSCLE_TIME_NEVER) ? PulseNode::LINKED_LIST_UNSCHEDULED : PulseNode::LINKED_LIST_SCHEDULED)) BAD("structure:list-after-sweep", "node %d is in list %d after the sweep with aggregate time %s", x, X->_curList, Rel(X->_aggregatePulseTime, w.now).c_str());
         }
      }
#undef BAD
      return true;
   }

   void DoSweep(World & w) const
   {
      w.mode = 1; w.nAsked = 0;
      uint64 wake = MUSCLE_TIME_NEVER;
      w.mgr.Sweep(*w.node[0], w.now, wake);
      w.mode = 0;
      for (int x = 0; x < N; x++) if (w.m.ShouldBeAsked(x)) w.Fail("sweep:not-asked", verif::Fmt("node %d is attached and its pulse time is not valid (invalidated, (re)attached or just pulsed), but the sweep did not call its GetPulseTime()", x));
      w.m.SweepDone();
      { std::string smsg, skey; if (w.err.empty() && !w.skipStructure && !CheckStructure(w, true, smsg, skey)) w.Fail(skey.c_str(), smsg); }
      const uint64 e = w.m.WakeUp();
      if (wake != e) w.Fail("sweep:wake-up", verif::Fmt("the sweep reports wake-up time %s, the minimum of the times most recently returned by the attached nodes is %s", Rel(wake, w.now).c_str(), Rel(e, w.now).c_str()));
      w.phase = 1; w.lastWake = wake;
   }

   void DoPulse(World & w) const
   {
      w.mode = 2; w.nPulsed = 0; for (int i = 0; i < N; i++) w.ran[i] = false;
      w.mgr.Pulse(*w.node[0], w.now);
      w.mode = 0;
      if (!w.ood) for (int x = 0; x < N; x++) if (w.m.Due(x, w.now)) {   // due and not run (a run clears valid)
         if (g_trace && w.m.PathDisturbed(x)) printf("      node %d (due %s) deferred: its path to the root was disturbed since the sweep\n", x, Rel(w.m.n[x].returned, w.now).c_str());
         if (w.m.PathDisturbed(x)) w.lastDeferred++;
         else w.Fail("pulse:missed", verif::Fmt("node %d is attached, asked for %s (<= now), nothing on its path to the root was invalidated, attached or detached since the sweep, but its Pulse() did not run", x, Rel(w.m.n[x].returned, w.now).c_str()));
      }
      w.phase = 0;
   }

   int Apply(World & w, int opi, std::string & msg, std::string & key) const
   {
      if (!w.initErr.empty()) { msg = w.initErr; key = w.initKey; return seqx::SEQX_VIOLATION; }
      if (w.nHist < 64) w.hist[w.nHist++] = opi;
      if (g_trace) printf("   %s\n%s\n", Dump(w).c_str(), masterNames[sel[opi]].c_str());
      return ApplyOp(w, master[sel[opi]], masterNames[sel[opi]], msg, key);
   }

   int ApplyOp(World & w, const Op & o, const std::string & opName, std::string & msg, std::string & key) const
   {
      g_progress++; if (!g_wdArmed) WdArm();
      w.lastDeferred = 0; w.lastKind = o.k; w.cbKinds = 0; w.ood = false; w.activeMask = 0; w.nAsked = w.nPulsed = 0; if (!w.err.empty()) { w.err.clear(); w.errKey.clear(); }
      refpulse::Model & m = w.m;
      switch (o.k) {
      case K_CYCLE: if (w.phase != 0) return seqx::SEQX_DISABLED; DoSweep(w); if (w.err.empty()) DoPulse(w); break;
      case K_SWEEP: if (w.phase != 0) return seqx::SEQX_DISABLED; DoSweep(w); break;
      case K_PULSE: if (w.phase != 1) return seqx::SEQX_DISABLED; DoPulse(w); break;
      case K_ADVANCE: w.now += (uint64)o.a; break;
      case K_SETINV: m.n[o.a].requested = TSel(o.b, w.now); w.node[o.a]->InvalidatePulseTime(); m.Invalidate(o.a, true); break;
      case K_SETNOINV: { const uint64 t = TSel(o.b, w.now); if (m.n[o.a].requested == t) return seqx::SEQX_DISABLED; m.n[o.a].requested = t; break; }   // must have no effect until the node is asked again
      case K_INVKEEP: w.node[o.a]->InvalidatePulseTime(false); m.Invalidate(o.a, false); break;
      case K_ATTACH: {
         const int i = o.a, j = o.b;
         if (m.InSubtree(j, i) || m.Depth(j) + 1 + m.Height(i) > MAXDEPTH) return seqx::SEQX_DISABLED;
         w.node[j]->PutPulseChild(w.node[i]); m.Attach(i, j); break; }
      case K_DETACH: {
         const int i = o.a, p = m.n[i].parent; if (p < 0) return seqx::SEQX_DISABLED;
         for (int j = 0; j < N; j++) if (j != p) w.node[j]->RemovePulseChild(w.node[i]);   // documented no-op: not a child of that node
         w.node[p]->RemovePulseChild(w.node[i]); m.Detach(i); break; }
      case K_DESTROY: {
         const int i = o.a; const refpulse::Node & r = m.n[i];
         if (r.parent < 0 && m.NumChildren(i) == 0 && r.requested == MUSCLE_TIME_NEVER && r.returned == MUSCLE_TIME_NEVER && w.act[i].kind == A_NONE) return seqx::SEQX_DISABLED;   // indistinguishable from a brand-new node
         delete w.node[i]; w.node[i] = new TNode(&w, i); m.Destroy(i); w.act[i] = Action(); break; }
      case K_CLEARROOT: if (m.NumChildren(0) == 0) return seqx::SEQX_DISABLED; w.node[0]->ClearPulseChildren(); m.ClearChildren(0); break;
      case K_ARM: {
         if (w.act[o.a].kind == o.b && w.act[o.a].target == o.c) return seqx::SEQX_DISABLED;
         int armed = 0; for (int i = 0; i < N; i++) if (i != o.a && w.act[i].kind != A_NONE) armed++;
         if (armed + 1 > maxArmed) return seqx::SEQX_DISABLED;
         w.act[o.a].kind = o.b; w.act[o.a].target = o.c; break; }
      default: break;
      }
      if (w.ood) { SharedAdd(&g_sh->oodTransitions, 1); return seqx::SEQX_DISABLED; }   // executed for crash-freedom only; not compared, not extended
      std::string smsg, skey;
      const bool bad = !w.err.empty() || (!w.skipStructure && !CheckStructure(w, false, smsg, skey));
      if (bad) {
         // the key names the failing check, the kind of operation and, for pulses, the kinds of callback action that ran in it
         std::string suffix = std::string(":") + KindName(o.k);
         if (w.cbKinds) { suffix += "+callback"; for (int k = 1; k < NUM_ACTS; k++) if (w.cbKinds & (1u << k)) suffix += std::string(":") + ActName(k); }
         if (!w.err.empty()) { msg = opName + ": " + w.err + " " + Dump(w); key = w.errKey + suffix; }
         else { msg = opName + ": " + smsg + " " + Dump(w); key = skey + suffix; }
         return seqx::SEQX_VIOLATION;
      }
      return seqx::SEQX_OK;
   }

   // Canonical form.  Futures depend on: tree shape, per node (requested, returned, valid) and the implementation's aggregate time -- all
   // relative to `now`, the code only compares times --, which child list each node is in and its position there (pulse order, sorted
   // insertion), the armed callback actions, the cycle phase, and the reference's `disturbed` marks (they decide the verdict on a
   // deferred pulse).  _myScheduledTime/_myScheduledTimeValid/_parent equal the reference fields (checked on every step).
   // _cycleStartedAt is only read inside Pulse(), after the manager has just set it.  The four attachable nodes are interchangeable:
   // the lexicographically smallest serialisation over their 24 relabellings is used (root stays 0).
   enum { REC = 2 + 24 + 4 };
   void Canon(const World & w, std::string & out) const
   {
      unsigned char rest[N][REC]; int parent[N], target[N];
      for (int i = 0; i < N; i++) {
         const refpulse::Node & r = w.m.n[i]; const PulseNode * X = w.node[i];
         int rank = 0; for (const PulseNode * c = X->_prevSibling; c && rank < N; c = c->_prevSibling) rank++;
         const uint64 t[3] = { r.requested, r.returned, X->_aggregatePulseTime };
         for (int k = 0; k < 3; k++) { const uint64 v = (t[k] == MUSCLE_TIME_NEVER) ? (uint64)0x7fffffffffffffffULL : (uint64)(t[k] - w.now) + ((uint64)1 << 62); for (int b = 0; b < 8; b++) rest[i][2 + k * 8 + b] = (unsigned char)(v >> (56 - 8 * b)); }
         rest[i][26] = (unsigned char)((r.valid ? 1 : 0) + (r.disturbed ? 2 : 0)); rest[i][27] = (unsigned char)w.act[i].kind; rest[i][28] = (unsigned char)(1 + X->_curList); rest[i][29] = (unsigned char)rank;
         parent[i] = r.parent; target[i] = (w.act[i].kind >= A_INVALIDATE) ? w.act[i].target : -1;
      }
      // only relabellings that list the attachable nodes in non-decreasing order of their label-free payload can be minimal: the
      // set of such relabellings is itself invariant under relabelling, so the minimum over it is still a canonical form
      int cmp[N][N]; for (int i = 1; i < N; i++) for (int j = 1; j < N; j++) cmp[i][j] = (i == j) ? 0 : memcmp(rest[i] + 2, rest[j] + 2, REC - 2);
      unsigned char best[N * REC], cur[N * REC]; bool have = false;
      for (int p = 0; p < nperms; p++) {
         const int * pi = perms[p]; int inv[N]; for (int i = 0; i < N; i++) inv[pi[i]] = i;
         if (cmp[inv[1]][inv[2]] > 0 || cmp[inv[2]][inv[3]] > 0 || cmp[inv[3]][inv[4]] > 0) continue;
         for (int s = 0; s < N; s++) {
            const int i = inv[s]; unsigned char * d = cur + s * REC;
            memcpy(d + 2, rest[i] + 2, REC - 2);
            d[0] = (unsigned char)(parent[i] < 0 ? 0 : 1 + pi[parent[i]]); d[1] = (unsigned char)(target[i] < 0 ? 0 : 1 + pi[target[i]]);
         }
         if (!have || memcmp(cur, best, sizeof(best)) < 0) { memcpy(best, cur, sizeof(best)); have = true; }
      }
      out += (char)('0' + w.phase); out.append((const char *)best, sizeof(best));
   }
   void Outcome(const World & w, std::string & out) const
   {
      // observable outcome of the last operation: who was asked, the reported wake-up, who was pulsed in which order, how many were deferred
      char buf[128]; int n = 0; buf[n++] = (char)('A' + w.lastKind);
      for (int i = 0; i < w.nAsked; i++) buf[n++] = (char)('0' + w.askedLog[i]);
      buf[n++] = 'P'; for (int i = 0; i < w.nPulsed; i++) buf[n++] = (char)('0' + w.pulsedLog[i]);
      buf[n++] = (char)('a' + w.lastDeferred);
      out.assign(buf, (size_t)n);
      if (w.lastKind == K_CYCLE || w.lastKind == K_SWEEP) out += Rel(w.lastWake, w.now);
      // observation counters: this is called exactly once per explored transition, on the world of the completed history
      if (g_sh) {
         const int k = w.lastKind;
         if (k == K_CYCLE || k == K_SWEEP) { SharedAdd(&g_sh->sweeps, 1); SharedAdd(&g_sh->asks, w.nAsked); }
         if (k == K_CYCLE || k == K_PULSE) { SharedAdd(&g_sh->pulseSweeps, 1); SharedAdd(&g_sh->callbacksRun, w.nPulsed); SharedAdd(&g_sh->callbackActionsRun, w.cbKinds ? 1 : 0); }
         if (w.lastDeferred) {
            SharedAdd(&g_sh->deferredTransitions, 1); SharedAdd(&g_sh->deferredNodes, w.lastDeferred); if (!w.cbKinds) SharedAdd(&g_sh->deferredByTopLevel, 1);
            std::string ex = "start '" + startNames[w.startIdx] + "':";
            for (int i = 0; i < w.nHist; i++) { ex += i ? " ; " : " "; ex += OpName(w.hist[i]); }
            if (ex.size() < sizeof(g_sh->ex)) {
               while (__sync_lock_test_and_set(&g_sh->lock, 1)) {}
               const int len = w.nHist * 1000 + (int)ex.size();
               if (len < g_sh->exLen || (len == g_sh->exLen && strcmp(ex.c_str(), g_sh->ex) < 0)) { g_sh->exLen = len; strcpy(g_sh->ex, ex.c_str()); }
               __sync_lock_release(&g_sh->lock);
            }
         }
      }
   }
};

int main(int argc, char ** argv)
{
   verif::Args args; args.Parse(argc, argv);
   verif::Result res; res.harness = "C20_pulsenode";
   SharedInit();
   pthread_atfork(NULL, NULL, WdChild);
   g_behaviourOnly = args.kv.count("behaviour-only") && atoi(args.kv["behaviour-only"].c_str()) != 0;
   if (args.kv.count("list-ops")) {   // diagnostic: op indices of each part's (thorough) alphabet and the start states, for hand-written replay files
      for (int p = 0; p < NUM_PROFILES; p++) { PulseModel m(p, true); printf("part %s\n", ProfileName(p)); for (int s = 0; s < m.NumStarts(); s++) printf("  start %d: %s\n", s, m.StartName(s).c_str()); for (int i = 0; i < m.NumOps(); i++) printf("  op %d: %s\n", i, m.OpName(i).c_str()); }
      return 0;
   }
   if (!args.replay.empty()) {
      g_trace = true;
      verif::ReplayDoc d; if (!d.Load(args.replay)) { fprintf(stderr, "cannot read %s\n", args.replay.c_str()); return 3; }
      std::string part = d.Str("part"); int only = -1; const size_t at = part.find('@'); if (at != std::string::npos) { only = atoi(part.c_str() + at + 1); part = part.substr(0, at); }
      int prof = -1; for (int p = 0; p < NUM_PROFILES; p++) if (part == ProfileName(p)) prof = p;
      if (prof < 0) { fprintf(stderr, "unknown part %s\n", d.Str("part").c_str()); return 3; }
      PulseModel model(prof, true, only);   // the thorough alphabet extends the quick one at the end: indices agree
      seqx::Explorer<PulseModel> ex(model, args, res, d.Str("part"));
      return ex.ReplayFile(d);
   }
   // depth per explored space {quick, thorough}; share of the time budget
   static const int depths[NUM_PROFILES][2] = { {3, 3}, {4, 5}, {4, 5} };   // thorough full alphabet: 3 from every start state, 4 from three of them (below)
   static const double share[NUM_PROFILES] = { 0.60, 0.20, 0.20 };
   double used = 0.0;
   for (int prof = 0; prof < NUM_PROFILES; prof++) {
      const double from = used; used += share[prof];
      if (!args.WantPart(ProfileName(prof))) continue;
      memset((void *)g_sh, 0, sizeof(Shared)); g_sh->exLen = 1 << 30;
      int depth = depths[prof][args.Thorough() ? 1 : 0];
      bool overridden = false;
      if (args.kv.count("depth")) { depth = atoi(args.kv["depth"].c_str()); overridden = true; }
      if (args.kv.count(std::string("depth-") + ProfileName(prof))) { depth = atoi(args.kv[std::string("depth-") + ProfileName(prof)].c_str()); overridden = true; }
      const PulseModel all(prof, args.Thorough());
      // Thorough tier: one exploration per start state (run "<part>@<start>"), so that the explorer's per-level tables stay small (a single
      // run over all start states of the full alphabet at depth 4 needs 16 GB); the runs are merged into one part below.
      const bool split = args.Thorough() && !(args.kv.count("split") && atoi(args.kv["split"].c_str()) == 0);
      const int runs = split ? all.NumStarts() : 1;
      const double t0 = verif::NowS();
      verif::Part M; M.name = ProfileName(prof); M.bound_completed = depth; M.exhaustive = true;
      std::vector<unsigned long long> perDepth; unsigned long long disabled = 0, replayChecks = 0, violating = 0; std::string deeperRuns;
      for (int r = 0; r < runs; r++) {
         const PulseModel model(prof, args.Thorough(), split ? r : -1);
         // thorough full alphabet: one operation deeper from the empty start state, the two-level tree and the pending-pulse state than from
         // the star, the chain and the offline-built subtree (depth 4 from all six: 2.1e8 transitions, 15 min, 16 GB unsplit; run once, clean: `--depth-full-alphabet 4`)
         const bool deeper = split && !overridden && prof == P_FULL && (r == 0 || r == 3 || r == 5);
         const int runDepth = deeper ? depth + 1 : depth;
         const std::string runName = split ? verif::Fmt("%s@%d", ProfileName(prof), r) : std::string(ProfileName(prof));
         seqx::Explorer<PulseModel> ex(model, args, res, runName);
         ex.SetDeadline(args.t0 + args.deadline * 0.9 * (from + share[prof] * (double)(r + 1) / (double)runs));
         const seqx::Stats S = ex.Run(runDepth);
         verif::Part P = res.parts.back(); res.parts.pop_back();
         if (P.exhaustive && P.bound_completed < runDepth) P.bound_completed = runDepth;   // frontier ran empty before the bound
         if (deeper && P.exhaustive) deeperRuns += (deeperRuns.empty() ? "" : ",") + verif::Fmt("%d", r);   // reported in the rule; bound_completed stays the bound common to all start states
         M.states += P.states; M.transitions += P.transitions; M.evaluations += P.evaluations; if (P.distinct_outcomes > M.distinct_outcomes) M.distinct_outcomes = P.distinct_outcomes;
         if (P.bound_completed < M.bound_completed) M.bound_completed = P.bound_completed;
         if (!P.exhaustive) { M.exhaustive = false; M.cap += (M.cap.empty() ? "" : "; ") + (split ? runName + ": " : std::string()) + P.cap; }
         if (!P.samples.empty() && M.samples.size() < 3) M.samples.push_back(P.samples[(size_t)r % P.samples.size()]);
         if (!split) M.samples = P.samples;
         for (size_t i = 0; i < S.statesPerDepth.size(); i++) { if (perDepth.size() <= i) perDepth.push_back(0); perDepth[i] += S.statesPerDepth[i]; }
         disabled += S.disabled; replayChecks += S.replayChecks; violating += S.violations;
         if (split) fprintf(stderr, "C20 %s: ops=%d states=%llu transitions=%llu depth=%d exhaustive=%d outcomes=%llu violations=%llu wall=%.1fs\n", runName.c_str(), model.NumOps(), (unsigned long long)S.states, (unsigned long long)S.transitions, S.depthCompleted, (int)S.exhaustive, (unsigned long long)S.distinctOutcomes, (unsigned long long)S.violations, P.wall_s);
      }
      M.wall_s = verif::NowS() - t0;
      const PulseModel & model = all;
      verif::Part & P = M;
      const char * what = (prof == P_FULL) ? "manager Sweep (GetPulseTimeAux on the root) / Pulse (SetCycleStartTime + PulseAux at now) / Cycle (both), clock +1/+5, per node: set requested time in {never,now-1,now,now+1,now+5}+InvalidatePulseTime, change requested time to {never,now-1} WITHOUT invalidating, InvalidatePulseTime(false); PutPulseChild i under j incl. re-parenting and subtrees built detached, RemovePulseChild (plus the documented no-op on non-parents), delete node, ClearPulseChildren(root); arming a one-shot action run from INSIDE a node's next Pulse(): set own next time {never,now+1}, invalidate / detach another node, attach another node under itself (thorough: also destroy another node)"
                        : (prof == P_LEAN) ? "whole manager Cycle (GetPulseTimeAux sweep then SetCycleStartTime + PulseAux at now), clock +1/+5, per node: set requested time in {never,now-1,now,now+1,now+5}+InvalidatePulseTime, change requested time to {never,now-1} WITHOUT invalidating; PutPulseChild i under j incl. re-parenting and subtrees built detached, RemovePulseChild, delete node, ClearPulseChildren(root)"
                        : "arming (at most 2 pending) a one-shot action run from INSIDE a node's next Pulse(): set own next time {never,now+1}, invalidate / detach another node, attach another node under itself (thorough: also destroy another node); manager Sweep / Pulse / Cycle, clock +1, per node set requested time now+1 + InvalidatePulseTime";
      P.rule = verif::Fmt("every sequence of <=%d operations from a %d-operation alphabet applied to a real tree of 5 PulseNodes (root + 4 attachable, depth <=3) driven through a PulseNodeManager subclass with a simulated clock, from each of %d start states (", depth, model.NumOps(), model.NumStarts());
      for (int s = 0; s < model.NumStarts(); s++) P.rule += (s ? "; " : "") + model.StartName(s);
      P.rule += std::string("). Alphabet: ") + what + ". States deduplicated on (tree shape, per node requested/returned/aggregate time relative to now, valid flag, child-list membership and position, armed actions, cycle phase, disturbed marks), minimised over the 24 relabellings of the interchangeable nodes 1..4; a state is non-trivial when its canonical form is new";
      if (!deeperRuns.empty()) P.rule += verif::Fmt("; ADDITIONALLY every sequence of <=%d operations from start states {%s} (0-based, in the order listed) -- included in the counters", depth + 1, deeperRuns.c_str());
      if (split) P.rule += "; explored separately from each start state, `states` is the sum over the start states (a state reachable from two start states counts twice), `distinct_outcomes` the maximum";
      std::string spd = "["; for (size_t i = 0; i < perDepth.size(); i++) { if (i) spd += ","; spd += verif::Fmt("%llu", perDepth[i]); } spd += "]";
      P.extra["new_states_per_depth"] = spd;
      P.extra["disabled_transitions"] = verif::Fmt("%llu", disabled);
      P.extra["replay_determinism_checks"] = verif::Fmt("%llu", replayChecks);
      P.extra["violating_transitions"] = verif::Fmt("%llu", violating);
      P.extra["alphabet_size"] = verif::Fmt("%d", model.NumOps());
      P.extra["start_states"] = verif::Fmt("%d", model.NumStarts());
      P.extra["manager_sweeps_checked"] = verif::Fmt("%ld", g_sh->sweeps);
      P.extra["GetPulseTime_calls_checked"] = verif::Fmt("%ld", g_sh->asks);
      P.extra["pulse_sweeps_checked"] = verif::Fmt("%ld", g_sh->pulseSweeps);
      P.extra["Pulse_callbacks_checked"] = verif::Fmt("%ld", g_sh->callbacksRun);
      P.extra["pulse_sweeps_with_a_callback_action"] = verif::Fmt("%ld", g_sh->callbackActionsRun);
      P.extra["pulse_sweeps_with_deferred_nodes"] = verif::Fmt("%ld", g_sh->deferredTransitions);
      P.extra["out_of_domain_transitions"] = verif::Fmt("%ld", g_sh->oodTransitions);
      if (g_sh->deferredTransitions)
         res.observations.push_back(verif::Fmt("%s: deferred pulses (unspecified, not a violation): in %ld explored pulse sweeps (%ld nodes; %ld of these sweeps ran no callback action, i.e. the cause was an operation between the sweep and the pulse) a node whose time was valid and due did NOT run in that pulse sweep because it or an ancestor had been queued for recalculation since the GetPulseTime sweep "
            "(a node at or below that ancestor was invalidated, attached or detached): PulseAux only walks the scheduled child list. The node stays pending: every later sweep was checked to report a wake-up time <= its time, and the next undisturbed pulse sweep to run it. Shortest example: %s", ProfileName(prof), g_sh->deferredTransitions, g_sh->deferredNodes, g_sh->deferredByTopLevel, g_sh->ex));
      if (g_sh->oodTransitions)
         res.observations.push_back(verif::Fmt("%s: outside the compared domain: %ld transitions in which a Pulse() callback detached an ancestor of the running node; the implementation goes on pulsing the due nodes of the now-detached subtree in the same sweep. Executed under ASan/UBSan (no report), results not compared, histories not extended", ProfileName(prof), g_sh->oodTransitions));
      fprintf(stderr, "C20 %s: ops=%d states=%llu transitions=%llu depth=%d exhaustive=%d outcomes=%llu violations=%llu deferred=%ld ood=%ld wall=%.1fs\n", ProfileName(prof), model.NumOps(), (unsigned long long)P.states, (unsigned long long)P.transitions, P.bound_completed, (int)P.exhaustive, (unsigned long long)P.distinct_outcomes, violating, g_sh->deferredTransitions, g_sh->oodTransitions, P.wall_s);
      res.parts.push_back(M);
   }
   res.observations.push_back("the order in which several due nodes are pulsed (ties in the sorted child list are broken by insertion history) is implementation-defined; the reference follows the implementation's order and checks each callback at the moment it runs");
   return res.Write(args);
}
