// C03 (additional part) -- queueing INTERLEAVED with partial output.
// The parts of C03_gateways.cpp queue every Message first and then explore how the bytes are segmented.  This part explores the other
// axis: every sequence of {queue Message shape i, let the sender write at most k bytes, let the receiver read what is on the wire} up to a
// depth, for senders = micro-C gateway (with a SMALL output buffer, so that its buffer-compaction path is reached), mini-C gateway,
// MessageIOGateway (default and zlib encoding) and TemplatingMessageIOGateway, each towards the matching C++ receiver.
// Oracle (after every operation, on a scratch copy of the history that is then drained to quiescence): the receiver is handed exactly the
// Messages the sender ACCEPTED (AddOutgoingMessage returned OK), bit-identical and in order; before draining the delivered list is a prefix of
// the accepted list; a sender with nothing left to write accepts a Message that fits.
// Engine: SEQX (state = history; no merging: the canonical form is the history itself, so every history is a distinct state).
// VBUILD: libs=c
#include "engines/seqx/seqx.h"
#include "harness/C03_pipe.h"
#include "harness/C03_cgw.h"
#include "iogateway/MessageIOGateway.h"
#include "iogateway/TemplatingMessageIOGateway.h"
#include "message/Message.h"
#include "system/SetupSystem.h"

using namespace muscle;
using namespace c03;

enum SenderKind { S_MICRO_SMALL, S_MINI, S_CPP, S_CPP_ZLIB, S_TEMPLATING, NUM_SENDERS };
static const char * kSenderName[NUM_SENDERS] = { "C UMessageGateway (256-byte output buffer) -> MessageIOGateway", "C MMessageGateway -> MessageIOGateway", "MessageIOGateway[default] -> MessageIOGateway",
                                                 "MessageIOGateway[zlib-6] -> MessageIOGateway", "TemplatingMessageIOGateway -> TemplatingMessageIOGateway" };
enum { MICRO_OUT = 256 };

static std::string FlatOf(const Message & m) { const uint32 fs = m.FlattenedSize(); std::string s(fs, '\0'); if (fs) m.FlattenToBytes((uint8 *)&s[0], fs); return s; }

// four Message shapes of 12 .. ~100 flattened bytes (only field types every sender kind can express)
static MessageRef Shape(int i, int serial)
{
   MessageRef m = GetMessageFromPool((uint32)(100 + i));
   switch (i) {
   case 0: break;
   case 1: (void) m()->AddInt32("n", serial); break;
   case 2: (void) m()->AddString("s", String(verif::Fmt("twenty characters..%d", serial % 10).c_str())); break;
   default: { uint8 raw[60]; for (int k = 0; k < 60; k++) raw[k] = (uint8)(k * 3 + serial); (void) m()->AddData("r", B_RAW_TYPE, raw, sizeof(raw)); } break;
   }
   return m;
}

class Collect : public AbstractGatewayMessageReceiver {
public:
   std::vector<std::string> flats;
   virtual void MessageReceivedFromGateway(const MessageRef & m, void *) { if (m()) flats.push_back(FlatOf(*m())); }
};

struct Link {
   AbstractMessageIOGatewayRef snd, rcv; ScriptIO * sio; ScriptIO * rio; Collect rx;
   std::vector<std::string> accepted; int serial; std::string lastOutcome;
   Link() : sio(NULL), rio(NULL), serial(0) {}
   void Build(int kind)
   {
      switch (kind) {
      case S_MICRO_SMALL: snd.SetRef(new MicroCGateway(MICRO_OUT)); rcv.SetRef(new MessageIOGateway()); break;
      case S_MINI:        snd.SetRef(new MiniCGateway());           rcv.SetRef(new MessageIOGateway()); break;
      case S_CPP:         snd.SetRef(new MessageIOGateway());       rcv.SetRef(new MessageIOGateway()); break;
      case S_CPP_ZLIB:    snd.SetRef(new MessageIOGateway(MUSCLE_MESSAGE_ENCODING_ZLIB_6)); rcv.SetRef(new MessageIOGateway()); break;
      default:            snd.SetRef(new TemplatingMessageIOGateway()); rcv.SetRef(new TemplatingMessageIOGateway()); break;
      }
      sio = new ScriptIO; rio = new ScriptIO; snd()->SetDataIO(DataIORef(sio)); rcv()->SetDataIO(DataIORef(rio));
   }
   // the three kinds of step; return false on a gateway error
   bool Queue(int shape, bool & acceptedNow)
   {
      MessageRef m = Shape(shape, ++serial); const std::string f = FlatOf(*m());
      const bool idle = !snd()->HasBytesToOutput();
      const status_t r = snd()->AddOutgoingMessage(m);
      acceptedNow = r.IsOK(); if (acceptedNow) accepted.push_back(f);
      lastOutcome = acceptedNow ? "accepted" : (std::string("refused:") + r());
      return acceptedNow || !idle;   // an idle sender must accept (every shape fits an empty buffer)
   }
   bool Write(uint32 maxBytes) { const io_status_t r = snd()->DoOutput(maxBytes); lastOutcome = verif::Fmt("wrote %d", r.IsError() ? -1 : r.GetByteCount()); return !r.IsError(); }
   bool Read()
   {
      rio->in.erase(0, rio->inPos); rio->inPos = 0; rio->in += sio->out; sio->out.clear();
      size_t before = rx.flats.size();
      for (int guard = 0; guard < 10000; guard++) { const io_status_t r = rcv()->DoInput(rx); if (r.IsError()) { lastOutcome = "receiver error"; return false; } if (r.GetByteCount() <= 0) break; }
      lastOutcome = verif::Fmt("delivered %u", (unsigned)(rx.flats.size() - before)); return true;
   }
   bool Drain() { for (int round = 0; round < 1000; round++) { if (!Write(MUSCLE_NO_LIMIT)) return false; const size_t d = rx.flats.size(); const bool had = !sio->out.empty(); if (!Read()) return false; if (!had && rx.flats.size() == d && !snd()->HasBytesToOutput()) return true; } return false; }
};

enum { OP_Q0, OP_Q1, OP_Q2, OP_Q3, OP_W1, OP_W7, OP_W40, OP_WALL, OP_R, NUM_OPS };
static const char * kOpName[NUM_OPS] = { "queue empty Message", "queue Message{int32}", "queue Message{string[20]}", "queue Message{raw[60]}", "sender writes <=1 byte", "sender writes <=7 bytes", "sender writes <=40 bytes", "sender writes all it can", "receiver reads everything on the wire" };

struct World { Link L; int kind; std::vector<int> hist; World() : kind(0) {} };

struct Model {
   typedef ::World World;
   int NumStarts() const { return NUM_SENDERS; }
   int NumOps() const { return NUM_OPS; }
   std::string OpName(int op) const { return kOpName[op]; }
   std::string StartName(int s) const { return kSenderName[s]; }
   void Init(World & w, int start) const { w.kind = start; w.L.Build(start); }

   // applies one op to a link; "" = fine, else a violation text (key in `key`)
   static std::string Step(Link & L, int op, std::string & key)
   {
      bool acc = false;
      switch (op) {
      case OP_Q0: case OP_Q1: case OP_Q2: case OP_Q3: if (!L.Queue(op - OP_Q0, acc)) { key = "idle-sender-refuses-message"; return "a sender with nothing left to write refused a Message that fits its buffer (" + L.lastOutcome + ")"; } break;
      case OP_W1: if (!L.Write(1)) { key = "output-error"; return "DoOutput failed"; } break;
      case OP_W7: if (!L.Write(7)) { key = "output-error"; return "DoOutput failed"; } break;
      case OP_W40: if (!L.Write(40)) { key = "output-error"; return "DoOutput failed"; } break;
      case OP_WALL: if (!L.Write(MUSCLE_NO_LIMIT)) { key = "output-error"; return "DoOutput failed"; } break;
      default: if (!L.Read()) { key = "receiver-error"; return "the receiver reported an error on a stream produced by the sender"; } break;
      }
      // delivered so far must be a prefix of accepted
      if (L.rx.flats.size() > L.accepted.size()) { key = "delivered-more-than-sent"; return verif::Fmt("%u Messages delivered, %u accepted by the sender", (unsigned)L.rx.flats.size(), (unsigned)L.accepted.size()); }
      for (size_t i = 0; i < L.rx.flats.size(); i++) if (L.rx.flats[i] != L.accepted[i]) { key = "delivered-differs"; return verif::Fmt("delivered Message #%u differs from the %u-th accepted one", (unsigned)i, (unsigned)i); }
      return "";
   }

   int Apply(World & w, int op, std::string & msg, std::string & key) const
   {
      w.hist.push_back(op);
      std::string k; std::string e = Step(w.L, op, k);
      if (!e.empty()) { msg = e; key = std::string(kSenderName[w.kind]).substr(0, std::string(kSenderName[w.kind]).find(' ')) + ":" + k; return seqx::SEQX_VIOLATION; }
      // scratch copy of the history, drained to quiescence: everything accepted must arrive
      Link S; S.Build(w.kind);
      for (size_t i = 0; i < w.hist.size(); i++) { std::string k2; if (!Step(S, w.hist[i], k2).empty()) { msg = "replay of the history on a scratch link behaves differently"; key = "harness:replay-differs"; return seqx::SEQX_VIOLATION; } }
      const std::string tag = std::string(kSenderName[w.kind]).substr(0, std::string(kSenderName[w.kind]).find(' '));
      if (!S.Drain()) { msg = "draining the link (sender writes everything, receiver reads everything, repeated) does not come to rest without error: " + S.lastOutcome; key = tag + ":drain-fails"; return seqx::SEQX_VIOLATION; }
      if (S.rx.flats.size() != S.accepted.size()) { msg = verif::Fmt("after draining the link the receiver was handed %u Messages, the sender had accepted %u", (unsigned)S.rx.flats.size(), (unsigned)S.accepted.size()); key = tag + ":accepted-message-never-delivered"; return seqx::SEQX_VIOLATION; }
      for (size_t i = 0; i < S.accepted.size(); i++) if (S.rx.flats[i] != S.accepted[i]) { msg = verif::Fmt("after draining, delivered Message #%u differs from the accepted one", (unsigned)i); key = tag + ":delivered-differs"; return seqx::SEQX_VIOLATION; }
      return seqx::SEQX_OK;
   }
   void Canon(const World & w, std::string & out) const { out = verif::Fmt("%d:", w.kind); for (size_t i = 0; i < w.hist.size(); i++) out.push_back((char)('a' + w.hist[i])); }
   void Outcome(const World & w, std::string & out) const { out = w.L.lastOutcome + verif::Fmt("|acc=%u|del=%u|wire=%u|pending=%d", (unsigned)w.L.accepted.size(), (unsigned)w.L.rx.flats.size(), (unsigned)w.L.sio->out.size(), w.L.snd()->HasBytesToOutput() ? 1 : 0); }
};

int main(int argc, char ** argv)
{
   verif::Args args; args.Parse(argc, argv);
   verif::Result res; res.harness = "C03_interleave";
   CompleteSetupSystem css;
   Model model;
   seqx::Explorer<Model> ex(model, args, res, "interleaved-queue-and-output");
   if (!args.replay.empty()) { verif::ReplayDoc d; if (!d.Load(args.replay)) { fprintf(stderr, "cannot read %s\n", args.replay.c_str()); return 3; } return ex.ReplayFile(d); }
   int depth = args.Thorough() ? 6 : 5; if (args.kv.count("depth")) depth = atoi(args.kv["depth"].c_str());
   ex.SetDeadline(args.t0 + args.deadline * 0.9);
   seqx::Stats S = ex.Run(depth);
   res.parts.back().rule = verif::Fmt("every sequence of <=%d operations from {queue one of 4 Message shapes (12..~100 flattened bytes); the sender writes at most 1 / 7 / 40 / all bytes; the receiver reads everything on the wire} for each of %d sender -> receiver pairs "
                                      "(micro-C gateway with a %d-byte output buffer, mini-C gateway, MessageIOGateway default and zlib-6, TemplatingMessageIOGateway); after EVERY operation: delivered is a bit-identical prefix of the Messages the sender accepted, an idle sender accepts, "
                                      "and a scratch replay of the history drained to quiescence delivers exactly the accepted Messages in order; no state merging (canonical form = the history)", depth, (int)NUM_SENDERS, (int)MICRO_OUT);
   fprintf(stderr, "C03 interleave: states=%llu transitions=%llu depth=%d exhaustive=%d violations=%llu wall=%.1fs\n", (unsigned long long)S.states, (unsigned long long)S.transitions, S.depthCompleted, (int)S.exhaustive, (unsigned long long)S.violations, verif::NowS() - args.t0);
   return res.Write(args);
}
