// C15 -- StringMatcher simple-syntax semantics: every pattern up to a length bound over an alphabet containing every
// metacharacter, against every subject up to a length bound, compared with ref/refmatch.h inside the reference's domain;
// uniqueness / unique-value-list flags; the escape round trip for every string; SegmentedStringMatcher clause-wise.
// Engine: MUTX (one case per pattern / per escaped string; forked workers so sanitizer reports, aborts and hangs are attributed).
//
//   --maxlen N   pattern length bound (default 4 quick / 5 thorough)
//   --slice K    run only every K-th pattern / string (systematic slice, for the sanitizer flavour when the full product
//                runs in the `fast` flavour); the part names then carry a _sK suffix and exhaustive is reported false
#include "engines/mutx/mutx.h"
#include "ref/refmatch.h"
#include "regex/StringMatcher.h"
#include "regex/SegmentedStringMatcher.h"

using namespace muscle;

static const char SIGMA_P[] = "ab12*?[](|),~<>-\\`";   // 18 pattern symbols: every metacharacter of the simple syntax + 4 ordinary
static const char SIGMA_S[] = "ab12*\\,~<`";           // 10 subject symbols
static const int NP = 18, NS = 10;

// length-ordered enumeration: index 0 = "", then all strings of length 1, 2, ... (index -> string is independent of the bound)
static std::string StrOfIndex(uint64_t i, const char * sigma, int n)
{
   uint64_t cnt = 1; int len = 0;
   while (i >= cnt) { i -= cnt; cnt *= (uint64_t)n; len++; }
   std::string s((size_t)len, ' ');
   for (int k = len - 1; k >= 0; k--) { s[(size_t)k] = sigma[i % (uint64_t)n]; i /= (uint64_t)n; }
   return s;
}
static uint64_t CountUpTo(int maxlen, int n) { uint64_t t = 0, c = 1; for (int l = 0; l <= maxlen; l++) { t += c; c *= (uint64_t)n; } return t; }

static std::vector<std::string> g_subjects;
static int g_slice = 1;

// cross-process counters (the MUTX workers are forked)
struct Counters { volatile uint64_t patternsRun, inDomain, compared, matchCalls, setPatternFailed, uniquePatterns, uvPatterns, escapeRun, escapeOthers, segRun, segCompared, rangeRun, rangeCompared; };
static Counters * g_cnt = NULL;
#define ADD(field, n) __sync_fetch_and_add(&g_cnt->field, (uint64_t)(n))

// stable classification of a pattern for violation keys: its dominant syntactic feature
static std::string Shape(const std::string & p)
{
   size_t b = (!p.empty() && p[0] == '~') ? 1 : 0;
   if (b + 1 < p.size() && p[b] == '\\' && p[b + 1] == '`') return "escaped-leading-backtick";
   if (b < p.size() && p[b] == '`') return "backtick-regex-prefix";
   if (b < p.size() && p[b] == '<') return b ? "negated-range-list" : "range-list";
   std::string f;
   if (b) f += "negated+";
   bool esc = false, star = false, q = false, cls = false, grp = false, comma = false;
   for (size_t i = b; i < p.size(); i++) {
      if (p[i] == '\\') { esc = true; i++; continue; }
      if (p[i] == '*') star = true; else if (p[i] == '?') q = true; else if (p[i] == '[') cls = true; else if (p[i] == '(') grp = true; else if (p[i] == ',') comma = true;
   }
   if (esc) f += "escape+"; if (star) f += "star+"; if (q) f += "qmark+"; if (cls) f += "class+"; if (grp) f += "group+"; if (comma) f += "comma+";
   if (f.empty()) return "literal";
   f.erase(f.size() - 1); return f;
}

static const char * DIRTY[4] = { "<1-2>", "~a*", "`a", "[ab]?,b" };

// ------------------------------------------------------------------------------------------------ part 1: patterns x subjects
static void PatternCase(size_t i, mutx::Case & c)
{
   if (g_slice > 1 && (i % (size_t)g_slice) != 0) { c.Outcome("-"); return; }
   const std::string pat = StrOfIndex(i, SIGMA_P, NP);
   const refmatch::Pattern ref = refmatch::Parse(pat);
   const std::string shape = Shape(pat);

   StringMatcher A; const status_t stA = A.SetPattern(pat.c_str(), true);
   // B: an object that held a different kind of pattern before (range list / negated / raw regex / list) and is re-set: must behave like A
   StringMatcher B(DIRTY[i % 4]); const status_t stB = B.SetPattern(pat.c_str(), true);
   if (stA.IsOK() != stB.IsOK()) c.Fail("reuse-differs:SetPattern:" + shape, "pattern " + verif::JStr(pat) + ": fresh object " + stA() + ", re-used object (previous pattern " + DIRTY[i % 4] + ") " + stB());
   if (ref.inDomain && stA.IsError()) c.Fail("setpattern-rejected:" + shape, "well-formed pattern " + verif::JStr(pat) + " rejected: " + stA());
   if (stA.IsError()) ADD(setPatternFailed, 1);

   // C: an object that is handed ITS OWN pattern again (the argument aliases the object's state), and is then assigned to itself: must behave like A
   StringMatcher C(pat.c_str(), true); const status_t stC = C.SetPattern(C.GetPattern(), true); { const StringMatcher & self = C; C = self; }
   if (stA.IsOK() != stC.IsOK() || std::string(C.GetPattern()()) != pat) c.Fail("reuse-differs:SetPattern(own-pattern):" + shape, "pattern " + verif::JStr(pat) + ": sm.SetPattern(sm.GetPattern()) returned " + stC() + " (fresh object: " + stA() + ") and GetPattern() is now " + verif::JStr(C.GetPattern()()));

   const bool uniq = A.IsPatternUnique(), uv = A.IsPatternListOfUniqueValues();
   if (!c.failed && (uniq != C.IsPatternUnique() || uv != C.IsPatternListOfUniqueValues())) c.Fail("reuse-differs:flags(own-pattern):" + shape, "pattern " + verif::JStr(pat) + ": IsPatternUnique/IsPatternListOfUniqueValues differ after sm.SetPattern(sm.GetPattern())");
   if (uniq != B.IsPatternUnique() || uv != B.IsPatternListOfUniqueValues()) c.Fail("reuse-differs:flags:" + shape, "pattern " + verif::JStr(pat) + ": IsPatternUnique/IsPatternListOfUniqueValues differ between a fresh and a re-used object");
   const std::string target = RemoveEscapeChars(pat.c_str()).Cstr();

   const size_t NSUB = g_subjects.size();
   std::string bits(NSUB, '0'); size_t nMatched = 0; uint64_t compared = 0; std::string firstTwo;
   for (size_t j = 0; j < NSUB; j++) {
      const std::string & s = g_subjects[j];
      const bool a = A.Match(s.c_str()), b = B.Match(s.c_str());
      if (a != b && !c.failed) c.Fail("reuse-differs:Match:" + shape, "pattern " + verif::JStr(pat) + " subject " + verif::JStr(s) + verif::Fmt(": fresh object %d, re-used object %d", (int)a, (int)b));
      if (!c.failed && stC.IsOK() && C.Match(s.c_str()) != a) c.Fail("reuse-differs:Match(own-pattern):" + shape, "pattern " + verif::JStr(pat) + " subject " + verif::JStr(s) + verif::Fmt(": fresh object %d, object re-set to its own pattern %d", (int)a, (int)!a));
      if (a) { bits[j] = '1'; if (nMatched < 2) firstTwo += (nMatched ? ", " : "") + verif::JStr(s); nMatched++; }
      if (ref.inDomain && refmatch::SubjectInDomain(ref, s)) {
         const bool r = refmatch::Match(ref, s); compared++;
         if (a != r && !c.failed) c.Fail("match-mismatch:" + shape, "pattern " + verif::JStr(pat) + " subject " + verif::JStr(s) + verif::Fmt(": documented meaning says %s, Match() returned %s", r ? "match" : "no match", a ? "true" : "false"));
         if (uniq && a != (s == target) && !c.failed) c.Fail("unique-wrong-matchset:" + shape, "pattern " + verif::JStr(pat) + " IsPatternUnique()=true but subject " + verif::JStr(s) + verif::Fmt(" Match()=%d while RemoveEscapeChars(pattern)=", (int)a) + verif::JStr(target));
         if (uv) {
            if (!ref.literalList) { if (!c.failed) c.Fail("uvlist-flag-on-wildcard-pattern:" + shape, "pattern " + verif::JStr(pat) + " IsPatternListOfUniqueValues()=true but the pattern is not a comma-separated list of literals"); }
            else { bool in = false; for (size_t k = 0; k < ref.literals.size(); k++) if (ref.literals[k] == s) in = true;
                   if (a != in && !c.failed) c.Fail("uvlist-wrong-matchset:" + shape, "pattern " + verif::JStr(pat) + " IsPatternListOfUniqueValues()=true, subject " + verif::JStr(s) + verif::Fmt(": Match()=%d, member of the comma-split list=%d", (int)a, (int)in)); }
         }
      }
   }
   // "can this pattern match more than one string" must answer yes whenever two different strings match -- for EVERY pattern
   if (uniq && nMatched > 1) c.Fail("unique-but-matches-many:" + shape, "pattern " + verif::JStr(pat) + verif::Fmt(" IsPatternUnique()=true but %llu distinct subjects match, e.g. ", (unsigned long long)nMatched) + firstTwo);

   ADD(patternsRun, 1); ADD(matchCalls, 3 * NSUB); ADD(compared, compared); if (ref.inDomain) ADD(inDomain, 1); if (uniq) ADD(uniquePatterns, 1); if (uv) ADD(uvPatterns, 1);
   const verif::Hash128 h = verif::HashStr(bits);
   c.Outcome(verif::Fmt("%d%d%d%d:%016llx%016llx", (int)stA.IsOK(), (int)uniq, (int)uv, (int)ref.inDomain, (unsigned long long)h.a, (unsigned long long)h.b));
}
static std::string PatternDesc(size_t i)
{
   const std::string pat = StrOfIndex(i, SIGMA_P, NP); const refmatch::Pattern r = refmatch::Parse(pat);
   return "{\"pattern\": " + verif::JStr(pat) + ", \"in_reference_domain\": " + (r.inDomain ? "true" : "false") + (r.inDomain ? "" : ", \"out_of_domain_because\": " + verif::JStr(r.why)) + verif::Fmt(", \"subjects\": %llu}", (unsigned long long)g_subjects.size());
}

// ------------------------------------------------------------------------------------------------ part 1b: numeric range lists
// The pattern-string enumeration above reaches range lists of at most (maxlen-2) characters between the brackets, i.e. one short clause.  This part
// enumerates the documented range-list GRAMMAR instead: [~] '<' clause (',' clause){0,2} '>' with every clause form (n, a-b, a-, -b, -) over a value set.
static const unsigned RV[] = { 0, 1, 2, 3, 5, 10, 12, 20 };
static const int NRV = 8;
static std::vector<std::string> g_rangeClauses, g_rangeSubjects;
static void BuildRangeTables()
{
   for (int a = 0; a < NRV; a++) g_rangeClauses.push_back(verif::Fmt("%u", RV[a]));
   for (int a = 0; a < NRV; a++) for (int b = a; b < NRV; b++) g_rangeClauses.push_back(verif::Fmt("%u-%u", RV[a], RV[b]));
   for (int a = 0; a < NRV; a++) g_rangeClauses.push_back(verif::Fmt("%u-", RV[a]));
   for (int a = 0; a < NRV; a++) g_rangeClauses.push_back(verif::Fmt("-%u", RV[a]));
   g_rangeClauses.push_back("-");
   for (unsigned v = 0; v <= 25; v++) g_rangeSubjects.push_back(verif::Fmt("%u", v));
   static const char * MORE[] = { "100", "4294967295", "05", "0012", "", "a", "a5", "-5", "<5>", "~5" };   // leading zeros; non-numbers are documented as "no match"
   for (size_t i = 0; i < sizeof(MORE) / sizeof(MORE[0]); i++) g_rangeSubjects.push_back(MORE[i]);
}
static size_t RangeCount() { const size_t n = g_rangeClauses.size(); return 2 * (n + n * n + n * n * n); }
static std::string RangePattern(size_t i)
{
   const size_t n = g_rangeClauses.size(); const bool neg = (i & 1) != 0; i >>= 1;
   std::vector<size_t> cl;
   if (i < n) cl.push_back(i);
   else if ((i -= n) < n * n) { cl.push_back(i / n); cl.push_back(i % n); }
   else { i -= n * n; cl.push_back(i / (n * n)); cl.push_back((i / n) % n); cl.push_back(i % n); }
   std::string p = neg ? "~<" : "<";
   for (size_t k = 0; k < cl.size(); k++) { if (k) p += ","; p += g_rangeClauses[cl[k]]; }
   return p + ">";
}
static void RangeCase(size_t i, mutx::Case & c)
{
   const std::string pat = RangePattern(i);
   const refmatch::Pattern ref = refmatch::Parse(pat);
   if (!ref.inDomain || !ref.isRange) { c.Fail("harness:range-pattern-outside-reference", "generated range list " + verif::JStr(pat) + " is not accepted by the reference: " + ref.why); return; }
   const std::string shape = Shape(pat);
   StringMatcher A; const status_t stA = A.SetPattern(pat.c_str(), true);
   StringMatcher B(DIRTY[(i >> 1) % 4]); const status_t stB = B.SetPattern(pat.c_str(), true);   // re-used object: held another range list / negation / regex / list before
   if (stA.IsError() || stB.IsError()) { c.Fail("setpattern-rejected:" + shape, "well-formed pattern " + verif::JStr(pat) + " rejected: " + stA() + " / " + stB()); return; }
   std::string bits(g_rangeSubjects.size(), '0'); uint64_t compared = 0;
   for (size_t j = 0; j < g_rangeSubjects.size(); j++) {
      const std::string & s = g_rangeSubjects[j];
      const bool a = A.Match(s.c_str()), b = B.Match(s.c_str());
      if (a) bits[j] = '1';
      if (a != b && !c.failed) c.Fail("reuse-differs:Match:" + shape, "pattern " + verif::JStr(pat) + " subject " + verif::JStr(s) + verif::Fmt(": fresh object %d, re-used object %d", (int)a, (int)b));
      if (refmatch::SubjectInDomain(ref, s)) {
         const bool r = refmatch::Match(ref, s); compared++;
         if (a != r && !c.failed) c.Fail("match-mismatch:" + shape + ((ref.ranges.size() > 1) ? ":multi-clause" : ""), "pattern " + verif::JStr(pat) + " subject " + verif::JStr(s) + verif::Fmt(": documented meaning says %s, Match() returned %s", r ? "match" : "no match", a ? "true" : "false"));
      }
   }
   ADD(rangeRun, 1); ADD(rangeCompared, compared);
   const verif::Hash128 h = verif::HashStr(bits);
   c.Outcome(verif::Fmt("%016llx%016llx", (unsigned long long)h.a, (unsigned long long)h.b));
}
static std::string RangeDesc(size_t i) { return "{\"pattern\": " + verif::JStr(RangePattern(i)) + verif::Fmt(", \"subjects\": %llu}", (unsigned long long)g_rangeSubjects.size()); }

// ------------------------------------------------------------------------------------------------ part 2: escape round trip
static std::string EscapeSubject(size_t k) { return (k < g_subjects.size()) ? g_subjects[k] : StrOfIndex(k - g_subjects.size(), SIGMA_P, NP); }
static std::string LeadClass(const std::string & s)
{
   if (s.empty()) return "empty";
   switch (s[0]) { case '`': return "leading-backtick"; case '~': return "leading-tilde"; case '<': return "leading-lt"; case '\\': return "leading-backslash"; default: return "other"; }
}
static void EscapeCase(size_t k, mutx::Case & c)
{
   if (g_slice > 1 && (k % (size_t)g_slice) != 0) { c.Outcome("-"); return; }
   const std::string s = EscapeSubject(k);
   if (s.empty()) { c.Outcome("empty"); return; }   // the empty pattern is outside the compared domain (see observations)
   const std::string cls = LeadClass(s);
   const String e = EscapeRegexTokens(s.c_str());
   const std::string back = RemoveEscapeChars(e).Cstr();
   if (back != s) c.Fail("escape-roundtrip:" + cls, "RemoveEscapeChars(EscapeRegexTokens(" + verif::JStr(s) + ")) = " + verif::JStr(back) + " (escaped form " + verif::JStr(e()) + ")");
   StringMatcher m; const status_t st = m.SetPattern(e, true);
   if (st.IsError()) c.Fail("escape-rejected:" + cls, "EscapeRegexTokens(" + verif::JStr(s) + ") = " + verif::JStr(e()) + " is rejected by SetPattern: " + st());
   if (!m.Match(s.c_str())) c.Fail("escape-no-self-match:" + cls, "StringMatcher(EscapeRegexTokens(" + verif::JStr(s) + ") = " + verif::JStr(e()) + ") does not match " + verif::JStr(s));
   uint64_t others = 0; std::string wrong;
   // every other string of the subject universe ...
   for (size_t j = 0; j < g_subjects.size() && wrong.empty(); j++) { const std::string & t = g_subjects[j]; if (t == s) continue; others++; if (m.Match(t.c_str())) wrong = t; }
   // ... and every single-edit neighbour of s (deletion, substitution, insertion of any pattern/subject symbol)
   static const char EDIT[] = "ab12*?[](|),~<>-\\`";
   for (size_t p = 0; p <= s.size() && wrong.empty(); p++) {
      if (p < s.size()) { std::string t = s; t.erase(p, 1); if (t != s) { others++; if (m.Match(t.c_str())) { wrong = t; break; } } }
      for (int x = 0; EDIT[x] && wrong.empty(); x++) {
         if (p < s.size() && s[p] != EDIT[x]) { std::string t = s; t[p] = EDIT[x]; others++; if (m.Match(t.c_str())) { wrong = t; break; } }
         std::string t = s; t.insert(p, 1, EDIT[x]); others++; if (m.Match(t.c_str())) { wrong = t; break; }
      }
   }
   if (!wrong.empty() || (s != "" && false)) c.Fail("escape-not-unique:" + cls, "StringMatcher(EscapeRegexTokens(" + verif::JStr(s) + ") = " + verif::JStr(e()) + ") also matches the different string " + verif::JStr(wrong));
   ADD(escapeRun, 1); ADD(escapeOthers, others);
   c.Outcome(verif::Fmt("%d%d%d", (int)(back == s), (int)st.IsOK(), (int)m.IsPatternUnique()) + cls);
}
static std::string EscapeDesc(size_t k) { return "{\"string\": " + verif::JStr(EscapeSubject(k)) + "}"; }

// ------------------------------------------------------------------------------------------------ part 3: SegmentedStringMatcher, clause-wise
static const char * SEGP[] = { "a", "b", "*", "a*", "?", "[ab]", "(a|b)b", "a,b", "~a", "<1-2>", "\\*", "ab" };
static const int NSEGP = 12;
static const char * SEGS[] = { "a", "b", "ab", "1", "*" };
static const int NSEGS = 5;
static std::vector<std::vector<std::string> > g_segSubjects;
static void SegDecode(size_t i, bool & neg, std::vector<std::string> & clauses)
{
   neg = (i & 1) != 0; uint64_t k = i >> 1; uint64_t cnt = NSEGP; int len = 1;
   while (k >= cnt) { k -= cnt; cnt *= NSEGP; len++; }
   clauses.assign((size_t)len, "");
   for (int x = len - 1; x >= 0; x--) { clauses[(size_t)x] = SEGP[k % NSEGP]; k /= NSEGP; }
}
static size_t SegCount() { return 2 * (size_t)(NSEGP + NSEGP * NSEGP + NSEGP * NSEGP * NSEGP); }
static std::string Join(const std::vector<std::string> & v) { std::string o; for (size_t i = 0; i < v.size(); i++) { if (i) o += "/"; o += v[i]; } return o; }
static void SegCase(size_t i, mutx::Case & c)
{
   bool neg; std::vector<std::string> cl; SegDecode(i, neg, cl);
   if (cl[0][0] == '~') { c.Outcome("skip"); return; }   // a leading ~ of the FIRST clause is the path-level negation (covered by neg=1); "~~a/.." is not documented
   const std::string pat = (neg ? "~" : "") + Join(cl);
   std::vector<refmatch::Pattern> rc; for (size_t k = 0; k < cl.size(); k++) rc.push_back(refmatch::Parse(cl[k]));
   SegmentedStringMatcher m; const status_t st = m.SetPattern(pat.c_str(), true);
   if (st.IsError()) { c.Fail("segmented-setpattern-rejected", "pattern " + verif::JStr(pat) + " rejected: " + st()); return; }
   std::string bits; uint64_t cmp = 0; size_t nExact = 0;
   for (size_t j = 0; j < g_segSubjects.size(); j++) for (int pre = 0; pre < 2; pre++) {
      const std::string subj = Join(g_segSubjects[j]);
      const bool a = m.Match(subj.c_str(), pre != 0);
      const bool r0 = refmatch::MatchPath(rc, g_segSubjects[j], pre != 0); const bool r = neg ? !r0 : r0; cmp++;
      bits += a ? '1' : '0'; if (a && !pre) nExact++;
      if (a != r && !c.failed) c.Fail(std::string("segmented-match-mismatch:") + (pre ? "prefix" : "exact"), "pattern " + verif::JStr(pat) + " subject " + verif::JStr(subj) + verif::Fmt(" prefixMatchOkay=%d: clause-wise meaning says %d, Match() returned %d", pre, (int)r, (int)a));
   }
   if (m.IsPatternUnique() && nExact > 1) c.Fail("segmented-unique-but-matches-many", "pattern " + verif::JStr(pat) + verif::Fmt(" IsPatternUnique()=true but %llu subjects match", (unsigned long long)nExact));
   ADD(segRun, 1); ADD(segCompared, cmp);
   const verif::Hash128 h = verif::HashStr(bits); c.Outcome(verif::Fmt("%d:%016llx", (int)m.IsPatternUnique(), (unsigned long long)h.a));
}
static std::string SegDesc(size_t i) { bool neg; std::vector<std::string> cl; SegDecode(i, neg, cl); return "{\"path_pattern\": " + verif::JStr((neg ? "~" : "") + Join(cl)) + "}"; }

int main(int argc, char ** argv)
{
   verif::Args args; args.Parse(argc, argv);
   verif::Result res; res.harness = "C15_stringmatcher";
   g_cnt = (Counters *)mmap(NULL, sizeof(Counters), PROT_READ | PROT_WRITE, MAP_SHARED | MAP_ANONYMOUS, -1, 0); memset(g_cnt, 0, sizeof(Counters));
   for (uint64_t i = 0, n = CountUpTo(3, NS); i < n; i++) g_subjects.push_back(StrOfIndex(i, SIGMA_S, NS));
   { std::vector<std::string> cur; g_segSubjects.push_back(cur);
     for (int a = 0; a < NSEGS; a++) { std::vector<std::string> v1(1, SEGS[a]); g_segSubjects.push_back(v1);
        for (int b = 0; b < NSEGS; b++) { std::vector<std::string> v2 = v1; v2.push_back(SEGS[b]); g_segSubjects.push_back(v2);
           for (int d = 0; d < NSEGS; d++) { std::vector<std::string> v3 = v2; v3.push_back(SEGS[d]); g_segSubjects.push_back(v3); } } } }

   BuildRangeTables();
   int maxlen = args.Thorough() ? 5 : 4; if (args.kv.count("maxlen")) maxlen = atoi(args.kv["maxlen"].c_str());
   if (args.kv.count("slice")) g_slice = atoi(args.kv["slice"].c_str()); if (g_slice < 1) g_slice = 1;
   const std::string suffix = (g_slice > 1) ? verif::Fmt("_s%d", g_slice) : "";
   const int escLen = (maxlen > 4) ? 5 : 4;
   const size_t nPat = (size_t)CountUpTo(maxlen, NP), nEsc = g_subjects.size() + (size_t)CountUpTo(escLen, NP);

   if (!args.replay.empty()) {
      verif::ReplayDoc d; if (!d.Load(args.replay)) { fprintf(stderr, "cannot read %s\n", args.replay.c_str()); return 3; }
      const std::string part = d.Str("part"); g_slice = 1;
      mutx::Runner R(args, res, part); R.SetCpuLimit(20);
      if (part.find("patterns") == 0) return R.ReplayIndex((size_t)d.Int("index"), PatternCase, PatternDesc);
      if (part.find("rangelists") == 0) return R.ReplayIndex((size_t)d.Int("index"), RangeCase, RangeDesc);
      if (part.find("escape") == 0) return R.ReplayIndex((size_t)d.Int("index"), EscapeCase, EscapeDesc);
      if (part.find("segmented") == 0) return R.ReplayIndex((size_t)d.Int("index"), SegCase, SegDesc);
      fprintf(stderr, "unknown part %s\n", part.c_str()); return 3;
   }

   const double T = args.deadline * 0.9;
   if (args.WantPart("patterns")) {
      mutx::Runner R(args, res, "patterns" + suffix); R.SetCpuLimit(20); R.SetDeadline(args.t0 + T * 0.75);
      verif::Part & p = R.Run(nPat, PatternCase, PatternDesc);
      p.rule = verif::Fmt("one case per simple-syntax pattern: ALL strings of length <=%d over the 18 symbols {a b 1 2 * ? [ ] ( | ) , ~ < > - \\ `} (length-ordered index)%s; each pattern is set on a fresh StringMatcher, on one that previously held a different kind of pattern and on one that is then handed its own pattern again (sm.SetPattern(sm.GetPattern()), then self-assignment), and matched against ALL %llu subjects of length <=3 over {a b 1 2 * \\ , ~ < `}; Match() is compared with ref/refmatch.h for patterns inside the reference's domain (well-formed documented syntax) and subjects inside it (range lists: non-numbers and pure digit strings); for every pattern: fresh==re-used, IsPatternUnique() => <=1 subject matches (and, in domain, exactly RemoveEscapeChars(pattern)), IsPatternListOfUniqueValues() => match set == comma-split literals; a case is distinct by its pattern, an outcome by (status, flags, match bit-vector)",
                         maxlen, g_slice > 1 ? verif::Fmt(", systematic slice: every %d-th index", g_slice).c_str() : "", (unsigned long long)g_subjects.size());
      p.bound_completed = p.exhaustive ? maxlen : -1;
      p.transitions = g_cnt->matchCalls; p.evaluations = g_cnt->compared; p.states = g_cnt->patternsRun;
      p.extra["patterns_run"] = verif::Fmt("%llu", (unsigned long long)g_cnt->patternsRun);
      p.extra["patterns_in_reference_domain"] = verif::Fmt("%llu", (unsigned long long)g_cnt->inDomain);
      p.extra["match_calls"] = verif::Fmt("%llu", (unsigned long long)g_cnt->matchCalls);
      p.extra["compared_with_reference"] = verif::Fmt("%llu", (unsigned long long)g_cnt->compared);
      p.extra["setpattern_errors_out_of_domain"] = verif::Fmt("%llu", (unsigned long long)g_cnt->setPatternFailed);
      p.extra["patterns_flagged_unique"] = verif::Fmt("%llu", (unsigned long long)g_cnt->uniquePatterns);
      p.extra["patterns_flagged_unique_value_list"] = verif::Fmt("%llu", (unsigned long long)g_cnt->uvPatterns);
      if (g_slice > 1) { p.exhaustive = false; if (p.cap.empty()) p.cap = verif::Fmt("systematic 1-in-%d slice of the pattern space (the full product runs in the other flavour)", g_slice); }
   }
   if (args.WantPart("rangelists") && g_slice == 1) {
      mutx::Runner R(args, res, "rangelists"); R.SetCpuLimit(20); R.SetDeadline(args.t0 + T * 0.85);
      verif::Part & p = R.Run(RangeCount(), RangeCase, RangeDesc);
      p.rule = verif::Fmt("one case per numeric range-list pattern of the documented grammar [~]<clause(,clause){0,2}>: every sequence of 1..3 clauses from ALL %llu clauses of the forms n, a-b (a<=b), a-, -b, - over the values {0 1 2 3 5 10 12 20}, with and without a leading ~; set on a fresh StringMatcher and on one that previously held a different kind of pattern; matched against %llu subjects (0..25, 100, 2^32-1, numbers with leading zeros, the empty string and non-numbers); Match() compared with ref/refmatch.h (integer inside one of the clauses; a missing bound means 0 / no limit; a non-number never matches; ~ inverts)",
                         (unsigned long long)g_rangeClauses.size(), (unsigned long long)g_rangeSubjects.size());
      p.bound_completed = p.exhaustive ? 3 : -1;
      p.states = g_cnt->rangeRun; p.transitions = g_cnt->rangeCompared; p.evaluations = g_cnt->rangeCompared;
   }
   if (args.WantPart("escape")) {
      mutx::Runner R(args, res, "escape" + suffix); R.SetCpuLimit(20); R.SetDeadline(args.t0 + T * 0.95);
      verif::Part & p = R.Run(nEsc, EscapeCase, EscapeDesc);
      p.rule = verif::Fmt("one case per string s: all %llu subjects (length <=3 over the subject alphabet) and ALL strings of length <=%d over the 18 pattern symbols%s, the empty string excepted; e=EscapeRegexTokens(s): RemoveEscapeChars(e)==s, SetPattern(e) succeeds, the matcher matches s, and matches no other string among all subjects and all single-edit neighbours of s (one deletion / substitution / insertion of any of the 18 symbols) -- including strings that start with a backtick",
                         (unsigned long long)g_subjects.size(), escLen, g_slice > 1 ? verif::Fmt(", systematic slice: every %d-th index", g_slice).c_str() : "");
      p.bound_completed = p.exhaustive ? escLen : -1;
      p.states = g_cnt->escapeRun; p.transitions = g_cnt->escapeRun + g_cnt->escapeOthers; p.evaluations = g_cnt->escapeRun + g_cnt->escapeOthers;
      p.extra["strings_escaped"] = verif::Fmt("%llu", (unsigned long long)g_cnt->escapeRun);
      p.extra["other_strings_tried"] = verif::Fmt("%llu", (unsigned long long)g_cnt->escapeOthers);
      if (g_slice > 1) { p.exhaustive = false; if (p.cap.empty()) p.cap = verif::Fmt("systematic 1-in-%d slice", g_slice); }
   }
   if (args.WantPart("segmented")) {
      mutx::Runner R(args, res, "segmented" + suffix); R.SetCpuLimit(20); R.SetDeadline(args.t0 + T);
      verif::Part & p = R.Run(SegCount(), SegCase, SegDesc);
      p.rule = verif::Fmt("one case per path pattern: every sequence of 1..3 clauses from %d well-formed clause patterns (literal, *, a*, ?, class, group, comma list, negated, range list, escaped star), with and without a leading path-level ~ (a negated clause is used in non-first positions only), set on a SegmentedStringMatcher and matched against all %llu paths of 0..3 segments over {a b ab 1 *} with prefixMatchOkay false and true; compared with clause-wise refmatch; IsPatternUnique() => <=1 path matches",
                         NSEGP, (unsigned long long)g_segSubjects.size());
      p.bound_completed = p.exhaustive ? 3 : -1;
      p.states = g_cnt->segRun; p.transitions = g_cnt->segCompared; p.evaluations = g_cnt->segCompared;
   }
   res.observations.push_back("the empty simple pattern \"\" matches the empty string (it is compiled as ^()$) although SetPattern's comment says an empty expression matches no strings; \"~\" alone matches every non-empty string; both are outside the compared domain");
   res.observations.push_back("out-of-domain patterns (backslash before an ordinary character, stray brackets, '|' outside a group, ',' inside a group, empty alternatives, leading '<' that is not a range list, backtick regex prefix) are executed for determinism, crash-freedom and the IsPatternUnique implication only; their match sets are recorded as outcomes, not compared");
   fprintf(stderr, "C15: patterns=%llu inDomain=%llu matchCalls=%llu compared=%llu escape=%llu seg=%llu violations=%llu wall=%.1fs\n", (unsigned long long)g_cnt->patternsRun, (unsigned long long)g_cnt->inDomain, (unsigned long long)g_cnt->matchCalls, (unsigned long long)g_cnt->compared, (unsigned long long)g_cnt->escapeRun, (unsigned long long)g_cnt->segRun, (unsigned long long)res.violations.size(), verif::NowS() - args.t0);
   return res.Write(args);
}
