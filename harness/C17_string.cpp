// C17 -- muscle::String behaves as an ideal byte string across its small-buffer boundary.
// SEQX exploration of operation histories on two real Strings (s, t).  Every applied operation is judged by three oracles:
//   (1) storage independence: the same operation on twins with identical bytes but other storage (forced onto the heap with Prealloc;
//       freshly built = inline when it fits) must give identical results and values;
//   (2) alias = copy: an operation whose operand aliases the receiver (s, s(), s()+k) must agree with the same operation given a detached copy;
//   (3) ref/refstring.h in lock-step for every answer the header documentation defines (value, Length, NUL at Cstr()[Length()], returns).
#include "engines/seqx/seqx.h"
#include "harness/C17_string_defs.h"
#include "harness/C17_string_exec.h"
#include "harness/C17_string_ref.h"

using namespace muscle;
using namespace c17;

struct World {
   String s, t;          // the real objects, with whatever storage their history gave them
   Str ms, mt;           // reference values
   Str lastResult;
};

// ---- building Strings with a prescribed storage class
static void MakeNatural(String & d, const Str & b) { d = b.c_str(); }
static void MakeHeapWith(String & d, const Str & b, uint32 allocBytes) { (void) d.Prealloc(std::max(allocBytes, CAP + 2) - 1); (void) d.SetCstr(b.c_str()); }
static void MakeHeapTwin(String & d, const Str & b) { MakeHeapWith(d, b, (b.size() <= CAP) ? CAP + 2 : (uint32)b.size() + 1 + CAP); }   // short: 17-byte heap block; long: heap block with slack

class StringModel {
public:
   std::vector<Op> ops;
   struct Start { Str s, t; bool heap; };
   std::vector<Start> starts;

   void A(int k, bool mut, const Str & name, int opnd = O_NONE, int ksel = K0, int p1 = 0, int p2 = 0) { Op o; o.k = k; o.opnd = opnd; o.ksel = ksel; o.p1 = p1; o.p2 = p2; o.name = name; o.mut = mut; ops.push_back(o); }

   StringModel()
   {
      // ---- construct / assign
      A(K_ASSIGN_STR, true, "s=t", O_T); A(K_ASSIGN_CSTR, true, "s=t()", O_T);
      A(K_APPEND_STR, true, "s+=t", O_T); A(K_APPEND_CSTR, true, "s+=t()", O_T);
      A(K_APPEND_CHAR, true, "s+='b'", O_NONE, K0, 'b'); A(K_APPEND_CHAR, true, "s++", O_NONE, K0, ' '); A(K_APPEND_CHAR, true, "s+='7'", O_NONE, K0, '7');
      A(K_DEC, true, "s--"); A(K_CLEAR, true, "Clear"); A(K_CLEARFLUSH, true, "ClearAndFlush");
      A(K_T_FIX, true, "t=\"a\"", O_NONE, K0, 1, 0); A(K_T_FIX, true, "t=Gen(cap-1)", O_NONE, K0, (int)CAP - 1, 0); A(K_T_FIX, true, "t=String(Gen'(cap+1))", O_NONE, K0, (int)CAP + 1, 1);
      A(K_T_FROM_S, true, "t=s"); A(K_SWAP, true, "SwapContents(t)"); A(K_MOVE, true, "s=move(t)");
      A(K_ASSIGN_STR, true, "s=s", O_SELF); A(K_ASSIGN_CSTR, true, "s=s()", O_SELF, K0); A(K_ASSIGN_CSTR, true, "s=s()+mid", O_SELF, KMID); A(K_ASSIGN_CSTR, true, "s=s()+len", O_SELF, KLEN);
      A(K_SETCSTR_N, true, "SetCstr(t(),cap+1)", O_T, K0, PCAP1); A(K_SETCSTR_N, true, "SetCstr(s(),cap)", O_SELF, K0, PCAP); A(K_SETCSTR_N, true, "SetCstr(s()+1,cap-1)", O_SELF, K1, PCAPM1);
      A(K_SETFROM, true, "SetFromString(t,1,cap+1)", O_T, K0, P1, PCAP1); A(K_SETFROM, true, "SetFromString(s,1)", O_SELF, K0, P1, PNL); A(K_SETFROM, true, "SetFromString(s,0,cap)", O_SELF, K0, P0, PCAP); A(K_SETFROM, true, "SetFromString(s,len)", O_SELF, K0, PLEN, PNL);
      A(K_ASSIGN_SUBSTR, true, "s=s.Substring(1,cap+1)", O_NONE, K0, P1, PCAP1);
      // ---- append / prepend / insert with aliasing operands
      A(K_APPEND_STR, true, "s+=s", O_SELF); A(K_APPEND_CSTR, true, "s+=s()", O_SELF, K0); A(K_APPEND_CSTR, true, "s+=s()+mid", O_SELF, KMID);
      A(K_APPENDCHARS_N, true, "AppendChars(s(),3)", O_SELF, K0, 3);
      A(K_PREPEND_CSTR, true, "PrependChars(t())", O_T); A(K_PREPEND_CSTR, true, "PrependChars(s())", O_SELF, K0); A(K_PREPEND_CSTR, true, "PrependChars(s()+mid)", O_SELF, KMID);
      A(K_WITHPREPEND_STR, true, "s=s.WithPrepend(s)", O_SELF);
      A(K_INSERT_CSTR, true, "InsertChars(mid,t())", O_T, K0, PMID); A(K_INSERT_CSTR, true, "InsertChars(mid,s())", O_SELF, K0, PMID); A(K_INSERT_CSTR, true, "InsertChars(1,s()+mid)", O_SELF, KMID, P1);
      A(K_WITHINSERT_STR, true, "s=s.WithInsert(1,s)", O_SELF, K0, P1);
      // ---- remove
      A(K_MINUS_STR, true, "s-=t", O_T); A(K_MINUS_STR, true, "s-=s", O_SELF); A(K_MINUS_CSTR, true, "s-=s()+mid", O_SELF, KMID); A(K_MINUS_CHAR, true, "s-='a'", O_NONE, K0, 'a');
      // ---- replace
      A(K_REPLACE_CHAR, true, "Replace('a','A')", O_NONE, K0, 'a', 'A');
      A(K_REPLACE_STR, true, "Replace(t,\"x\")", O_T, K0, L_A, LIT_x); A(K_REPLACE_STR, true, "Replace(t,\"\")", O_T, K0, L_A, LIT_empty); A(K_REPLACE_STR, true, "Replace(\"a\",t)", O_T, K0, LIT_a, L_A); A(K_REPLACE_STR, true, "Replace(\"a\",\"bb\")", O_NONE, K0, LIT_a, LIT_bb);
      A(K_REPLACE_STR, true, "Replace(s,t)", O_SELF, K0, L_A, L_T); A(K_REPLACE_STR, true, "Replace(\"a\",s)", O_SELF, K0, LIT_a, L_A);
      // ---- trim / pad / case / reverse / truncate
      A(K_TRIM, true, "s=s.Trimmed()"); A(K_PAD, true, "s=s.PaddedBy(cap,left)", O_NONE, K0, PCAP, 0); A(K_PAD, true, "s=s.PaddedBy(cap+1,right,'*')", O_NONE, K0, PCAP1, 1);
      A(K_UPPER, true, "s=s.ToUpperCase()"); A(K_REVERSE, true, "Reverse"); A(K_TRUNC_TO, true, "TruncateToLength(cap)", O_NONE, K0, PCAP); A(K_TRUNC_TO, true, "TruncateToLength(cap-1)", O_NONE, K0, PCAPM1);
      // ---- Arg substitution
      A(K_ARG_INT, true, "s=s.Arg(-1234567)", O_NONE, K0, -1234567); A(K_ARG_STR, true, "s=s.Arg(t)", O_T); A(K_ARG_STR, true, "s=s.Arg(s)", O_SELF); A(K_ARG_CSTR, true, "s=s.Arg(s()+mid)", O_SELF, KMID);
      // ---- storage
      A(K_PREALLOC, true, "Prealloc(cap+1)", O_NONE, K0, (int)CAP + 1); A(K_PREALLOC, true, "Prealloc(2cap+2)", O_NONE, K0, 2 * (int)CAP + 2); A(K_SHRINK, true, "ShrinkToFit()", O_NONE, K0, 0); A(K_SHRINK, true, "ShrinkToFit(2)", O_NONE, K0, 2);
      A(K_UNFLATTEN_INTO, true, "s.Unflatten(Flatten(t))", O_T); A(K_UNFLATTEN_INTO, true, "s.Unflatten(own buffer+mid)", O_SELF, KMID);
      // ---- read-only bundles
      A(K_CONSTRUCT, false, "constructors/operator+-(t)", O_T); A(K_CONSTRUCT, false, "constructors/operator+-(s,s()+mid)", O_SELF, KMID);
      A(K_WITH_FORMS, false, "With{Append,Prepend,Insert,*Word}/<<(t)", O_T); A(K_WITH_FORMS, false, "With{Append,Prepend,Insert,*Word}/<<(s,s()+mid)", O_SELF, KMID);
      A(K_SUBSTR_FORMS, false, "Substring forms(t)", O_T); A(K_SUBSTR_FORMS, false, "Substring forms(s,s()+mid)", O_SELF, KMID);
      A(K_REPL_FORMS, false, "WithReplacements/Replace forms(t)", O_T); A(K_REPL_FORMS, false, "WithReplacements/Replace forms(s,s()+mid)", O_SELF, KMID);
      A(K_CASE_FORMS, false, "case/trim/pad/reverse/truncate forms");
      A(K_SEARCH, false, "search family(t)", O_T); A(K_SEARCH, false, "search family(s,s())", O_SELF, K0); A(K_SEARCH, false, "search family(s,s()+mid)", O_SELF, KMID);
      A(K_SEARCH_CHAR, false, "search family(char)");
      A(K_COMPARE, false, "compare family(t)", O_T); A(K_COMPARE, false, "compare family(s,s())", O_SELF, K0); A(K_COMPARE, false, "compare family(s,s()+mid)", O_SELF, KMID);
      A(K_ARG_FORMS, false, "Arg forms(t)", O_T); A(K_ARG_FORMS, false, "Arg forms(s,s()+mid)", O_SELF, KMID);
      A(K_NUMERIC, false, "numeric suffix/prefix helpers");
      A(K_PREFIXSUFFIX, false, "With/Without Prefix/Suffix(t)", O_T); A(K_PREFIXSUFFIX, false, "With/Without Prefix/Suffix(s)", O_SELF, K0);
      A(K_FLATTEN_RT, false, "Flatten/Unflatten round trip"); A(K_UNFLATTEN_BAD, false, "Unflatten(bytes of s without NUL)");
   }

   // start states: s of every length around the inline capacity (inline where it fits, and forced onto the heap), crossed with operand values for t
   // all=false: the 42 quick starts; all=true: 70 starts of which the quick ones are a PREFIX
   void BuildStarts(bool all)
   {
      const uint32 lens[] = { 0, 1, CAP - 2, CAP - 1, CAP, CAP + 1, 2 * CAP };
      std::vector<Start> ss;
      for (size_t i = 0; i < 7; i++) { Start a = { Gen(lens[i], 0), "", false }; ss.push_back(a); }                 // natural storage: inline up to cap, exact heap block beyond
      for (size_t i = 0; i < 5; i++) { Start a = { Gen(lens[i], 0), "", true }; ss.push_back(a); }                  // lengths <= cap forced into a 17-byte heap block
      { Start a = { Gen(CAP - 1, 1), "", false }; ss.push_back(a); } { Start a = { Gen(CAP + 1, 1), "", false }; ss.push_back(a); }   // second byte pattern: leading/trailing blanks, upper case
      std::vector<Str> ts; ts.push_back("a"); ts.push_back(Gen(CAP - 2, 0)); ts.push_back(""); ts.push_back("%1"); ts.push_back(Gen(CAP + 1, 0));
      for (size_t i = 0; i < ss.size(); i++) for (size_t j = 0; j < 3; j++) { Start a = ss[i]; a.t = ts[j]; starts.push_back(a); }
      if (all) for (size_t i = 0; i < ss.size(); i++) for (size_t j = 3; j < ts.size(); j++) { Start a = ss[i]; a.t = ts[j]; starts.push_back(a); }
   }
   int NumStarts() const { return (int)starts.size(); }
   std::string StartName(int i) const { return "s=" + Esc(starts[i].s) + (starts[i].heap ? " heap" : " natural") + " t=" + Esc(starts[i].t); }
   int NumOps() const { return (int)ops.size(); }
   std::string OpName(int i) const { return ops[i].name; }
   typedef ::World World;

   void Init(World & w, int i) const
   {
      const Start & st = starts[i];
      if (st.heap) MakeHeapWith(w.s, st.s, CAP + 2); else MakeNatural(w.s, st.s);
      MakeNatural(w.t, st.t);
      w.ms = st.s; w.mt = st.t;
   }

   // runs op on (xs, xt) with the operand bound to t or aliased to xs itself
   static void RunBound(const Op & o, String & xs, String & xt, Out & out)
   {
      if (o.opnd == O_SELF) Exec(o, xs, xt, xs, xs() + KOff(o.ksel, xs.Length()), out);
      else Exec(o, xs, xt, xt, xt(), out);
   }

   // ShrinkToFit of a heap String whose length is exactly the inline capacity is executed in a forked child first: on the pinned tree it dies in
   // UBSan (String.h ShortStringData::SetBuffer writes _smallBuffer[15] of a char[15]); in-process that would take the whole exploration worker down.
   // The outcome depends on (operation, length) only, so it is observed once per (operation, length) in every exploration worker process (a fork of a
   // worker that carries the whole visited set is expensive) and in every --replay process.
   static bool DiesInChild(const Op & o, const Str & s0, const Str & t0, Str & what)
   {
      static std::map<std::pair<int, size_t>, Str> memo;
      const std::pair<int, size_t> mk(o.p1, s0.size());
      std::map<std::pair<int, size_t>, Str>::const_iterator it = memo.find(mk);
      if (it != memo.end()) { what = it->second; return !what.empty(); }
      const bool r = DiesInChildAux(o, s0, t0, what); memo[mk] = r ? what : Str(); return r;
   }
   static bool DiesInChildAux(const Op & o, const Str & s0, const Str & t0, Str & what)
   {
      fflush(stdout); fflush(stderr);
      pid_t pid = fork();
      if (pid < 0) return false;
      if (pid == 0) { int dn = open("/dev/null", O_WRONLY); if (dn >= 0) dup2(dn, 2); { String hs, ht; MakeHeapTwin(hs, s0); MakeHeapTwin(ht, t0); Out x; RunBound(o, hs, ht, x); } _exit(0); }
      int st = 0; waitpid(pid, &st, 0);
      if (WIFEXITED(st) && WEXITSTATUS(st) == 0) return false;
      what = WIFSIGNALED(st) ? verif::Fmt("sig%d", WTERMSIG(st)) : verif::Fmt("exit%d", WEXITSTATUS(st));
      return true;
   }

   int Apply(World & w, int opi, std::string & msg, std::string & key) const
   {
      const Op & o = ops[opi];
      const Str s0 = w.ms, t0 = w.mt;
      const uint32 n = (uint32)s0.size();
      if (s0.size() > LIMIT || t0.size() > LIMIT) return seqx::SEQX_DISABLED;                 // long states are leaves
      if (o.opnd == O_SELF && o.ksel == KMID && n < 2) return seqx::SEQX_DISABLED;            // s()+mid would be s()+0: same as the K0 form
      const uint32 K = (o.opnd == O_SELF) ? KOff(o.ksel, n) : 0;
      const bool sHeap = IsHeap(w.s), tHeap = IsHeap(w.t); const uint32 sAlloc = w.s.GetNumAllocatedBytes(), tAlloc = w.t.GetNumAllocatedBytes();
#define C17_PRE (" [before: s=" + Esc(s0) + verif::Fmt(" %s/%u", sHeap ? "heap" : "inline", sAlloc) + ", t=" + Esc(t0) + verif::Fmt(" %s/%u", tHeap ? "heap" : "inline", tAlloc) + "]")
#define C17_FAIL(k, text) do { msg = o.name + ": " + (text) + C17_PRE; key = (k); return seqx::SEQX_VIOLATION; } while (0)

      if (o.k == K_SHRINK && n == CAP) { Str what; if (DiesInChild(o, s0, t0, what)) C17_FAIL("fatal:" + what + ":" + o.name + "(heap,len=" + std::to_string(n) + ")", "process death (" + what + "; 88=UBSan, 87=ASan) observed in a forked child when applied to a heap-allocated String of this length"); }

      // ---- primary execution on the objects with their history-given storage
      Out po; RunBound(o, w.s, w.t, po);
      { Str why; if (!po.inv.empty()) C17_FAIL("invariant:" + o.name, po.inv); if (!Inv(w.s, why)) C17_FAIL("invariant:" + o.name, "s after the operation: " + why); if (!Inv(w.t, why)) C17_FAIL("invariant:" + o.name, "t after the operation: " + why); }
      const Str s1 = Bytes(w.s), t1 = Bytes(w.t);
      if (!o.mut && (s1 != s0 || t1 != t0)) C17_FAIL("const-op-changed-value:" + o.name, "a const operation changed s or t: s=" + Esc(s1) + " t=" + Esc(t1));

      // ---- oracle (3): reference in lock-step
      {
         Out ro; Str rs = s0, rt = t0;
         const Str a = (o.opnd == O_SELF) ? s0 : t0, c = (o.opnd == O_SELF) ? s0.substr(K) : t0;
         const bool defined = RefExec(o, rs, rt, a, c, ro);
         const int d = Diff(po, ro, true);
         if (d == -2) C17_FAIL("harness-bug:item-shape:" + o.name, "implementation and reference executors recorded different item lists");
         if (d >= 0) {
            Str k = "ref:" + Str(po.lab[d]);
            if (!strcmp(po.lab[d], "Unflatten(unterminated)")) k = "unflatten-unterminated-accepted"; else if (!strcmp(po.lab[d], "Unflatten(empty buffer)")) k = "unflatten-empty-accepted";
            C17_FAIL(k, Str(po.lab[d]) + (po.ctx[d][0] ? Str(" [from=") + po.ctx[d] + "]" : Str()) + ": implementation " + Esc(po.val[d]) + ", ideal byte string " + Esc(ro.val[d]));
         }
         if (defined) {
            if (s1 != rs) C17_FAIL("ref:value:" + o.name, "value of s: implementation " + Esc(s1) + ", ideal byte string " + Esc(rs));
            if (t1 != rt) C17_FAIL("ref:value-t:" + o.name, "value of t: implementation " + Esc(t1) + ", ideal byte string " + Esc(rt));
         }
         w.ms = s1; w.mt = t1;   // (equal to rs/rt when defined; adopted when the documentation leaves the value open)
      }

      // ---- oracle (1): storage independence.  Twin A: both Strings forced onto the heap; twin B: freshly built (inline when it fits, exact heap block otherwise)
      for (int v = 0; v < 2; v++) {
         String xs, xt;
         if (v == 0) { MakeHeapTwin(xs, s0); MakeHeapTwin(xt, t0); if (!IsHeap(xs) || !IsHeap(xt)) { msg = "cannot force a String onto the heap"; return -1; } }
         else { MakeNatural(xs, s0); MakeNatural(xt, t0); }
         Out xo; RunBound(o, xs, xt, xo);
         const char * tw = v ? "freshly built twin" : "heap twin";
         Str why; if (!xo.inv.empty()) C17_FAIL("invariant:" + o.name, Str(tw) + ": " + xo.inv); if (!Inv(xs, why) || !Inv(xt, why)) C17_FAIL("invariant:" + o.name, Str(tw) + " after the operation: " + why);
         const int d = Diff(po, xo, false);
         if (d == -2) C17_FAIL("storage:item-shape:" + o.name, Str(tw) + " recorded a different number of results");
         if (d >= 0) C17_FAIL("storage:" + Str(po.lab[d]), Str(po.lab[d]) + (po.ctx[d][0] ? Str(" [from=") + po.ctx[d] + "]" : Str()) + ": this String " + Esc(po.val[d]) + ", " + tw + " with the same bytes " + Esc(xo.val[d]));
         if (Bytes(xs) != s1 || Bytes(xt) != t1) C17_FAIL("storage:value:" + o.name, "resulting value: this String s=" + Esc(s1) + " t=" + Esc(t1) + ", " + tw + " s=" + Esc(Bytes(xs)) + " t=" + Esc(Bytes(xt)));
      }

      // ---- oracle (2): alias = copy.  Same storage class as the primary, operand = a detached copy of the receiver's bytes
      if (o.opnd == O_SELF) {
         String cs, ct, d;
         if (sHeap) MakeHeapWith(cs, s0, sAlloc); else MakeNatural(cs, s0);
         if (tHeap) MakeHeapWith(ct, t0, tAlloc); else MakeNatural(ct, t0);
         MakeNatural(d, s0);
         Out ao; Exec(o, cs, ct, d, d() + K, ao);
         Str why; if (!ao.inv.empty()) C17_FAIL("invariant:" + o.name, "detached-operand run: " + ao.inv); if (!Inv(cs, why)) C17_FAIL("invariant:" + o.name, "detached-operand run: " + why);
         const int df = Diff(po, ao, false);
         if (df == -2) C17_FAIL("alias:item-shape:" + o.name, "detached-operand run recorded a different number of results");
         if (df >= 0) C17_FAIL("alias:" + Str(po.lab[df]), Str(po.lab[df]) + (po.ctx[df][0] ? Str(" [from=") + po.ctx[df] + "]" : Str()) + ": operand aliasing the receiver " + Esc(po.val[df]) + ", detached copy of the same bytes " + Esc(ao.val[df]));
         if (Bytes(cs) != s1 || Bytes(ct) != t1) C17_FAIL("alias:value:" + o.name, "resulting value with the operand aliasing the receiver s=" + Esc(s1) + ", with a detached copy s=" + Esc(Bytes(cs)));
         if (Bytes(d) != s0) C17_FAIL("alias:operand-changed:" + o.name, "the detached operand was modified");
      }
#undef C17_FAIL
#undef C17_PRE
      w.lastResult = po.Join();
      return seqx::SEQX_OK;
   }

   // Canonical form: bytes + storage class (inline/heap) + allocated size of both Strings.  The layout part decides whether the next growing
   // operation reallocates, stays in place or switches storage; the spare bytes behind the NUL are never exposed (every path that extends a
   // String writes the bytes it exposes, which the strlen()==Length() invariant checks on every result), so nothing else influences futures.
   void Canon(const World & w, std::string & out) const
   {
      const String * x[2] = { &w.s, &w.t };
      for (int i = 0; i < 2; i++) { out += IsHeap(*x[i]) ? 'h' : 'i'; out += std::to_string(x[i]->GetNumAllocatedBytes()); out += ':'; out += std::to_string(x[i]->Length()); out += ':'; out.append(x[i]->Cstr(), x[i]->Length()); out += '|'; }
   }
   void Outcome(const World & w, std::string & out) const { out = w.lastResult + "/" + w.ms + "/" + w.mt; }
};

// observed-but-unspecified behaviour, probed once in a child process
static void Observe(verif::Result & res)
{
   std::vector<verif::ParRecord> recs;
   verif::ParMap(1, 1, [](size_t, std::string & rec) {
      String s("abcabc");
      rec += (s.LastIndexOf(String("abc"), 1) == 0 && s.LastIndexOfIgnoreCase(String("abc"), 1) == 3) ? '1' : '0';
      rec += (String("ab").IndexOf("") == 0 && String("ab").IndexOfIgnoreCase("") == -1) ? '1' : '0';
   }, recs);
   if (recs.size() == 1 && recs[0].data.size() == 2) {
      if (recs[0].data[0] == '1') res.observations.push_back("String::LastIndexOf(str, fromIndex) is documented as 'last index ... starting at or after (fromIndex)' but returns the last index at or BEFORE fromIndex (\"abcabc\".LastIndexOf(\"abc\",1)==0, while LastIndexOfIgnoreCase(\"abc\",1)==3 and LastIndexOf(char,from) follow the documentation); the one-argument LastIndexOf relies on the backward reading, so the two-argument form is compared by the differential oracles only");
      if (recs[0].data[1] == '1') res.observations.push_back("empty needle: IndexOf(\"\")==0 on a non-empty String but IndexOfIgnoreCase(\"\")==-1; LastIndexOf(\"\")==Length()-1; empty needles/markers are outside the compared domain");
   }
}

static std::string Rule(const StringModel & m, int depth, const char * what)
{
   return verif::Fmt("every sequence of <=%d operations from a %d-operation alphabet (%s) applied to two real muscle::String variables s,t from each of %d start states (s of length {0,1,%u,%u,%u,%u,%u} over bytes {a,b,B,space,0xC3 0xA9,'%%1'}, inline where it fits and forced onto the heap, crossed with operand values for t); "
                     "operations are enabled while Length(s),Length(t) <= %u; each applied operation is executed on the history-built objects, on a heap-forced twin, on a freshly built twin and (aliasing operands) with a detached operand copy, and compared item by item with the reference byte string; "
                     "states deduplicated on (bytes, inline/heap, allocated size) of s and t; a state is non-trivial when that canonical form is new",
                     depth, m.NumOps(), what, m.NumStarts(), CAP - 2, CAP - 1, CAP, CAP + 1, 2 * CAP, LIMIT);
}

int main(int argc, char ** argv)
{
   verif::Args args; args.Parse(argc, argv);
   verif::Result res; res.harness = "C17_string";
   if (CAP != String::GetMaxShortStringLength() || CAP < 8) { fprintf(stderr, "unexpected inline capacity\n"); return 3; }
   static const char * what = "assign/SetCstr/SetFromString incl. from itself and from pointers into its own buffer, +=/Prepend/Insert with String, C string, char and SELF, -=, Replace incl. self as needle/replacement, Trimmed, PaddedBy, ToUpperCase, Reverse, Truncate, Arg(int/String/self), "
                             "Prealloc/ShrinkToFit/SwapContents/move/Clear/ClearAndFlush, Unflatten incl. from its own buffer; 24 read-only bundle operations covering constructors, operator+/-, With*/Substring/WithReplacements forms, the whole search and compare families with from-indices {0,1,mid,last,len,len+1}, Arg forms, numeric suffix helpers, prefix/suffix helpers, Flatten/Unflatten)";
   const bool thorough = args.Thorough();
   int depth = thorough ? 4 : 3;
   if (args.kv.count("depth")) depth = atoi(args.kv["depth"].c_str());
   // replays always use the full start list: the quick starts are a prefix of it, so a start index means the same in both tiers
   StringModel model; model.BuildStarts(thorough || args.kv.count("allstarts") || !args.replay.empty());
   seqx::Explorer<StringModel> ex(model, args, res, "string-vs-bytestring");
   if (!args.replay.empty()) { verif::ReplayDoc d; if (!d.Load(args.replay)) { fprintf(stderr, "cannot read %s\n", args.replay.c_str()); return 3; } return ex.ReplayFile(d); }
   if (args.kv.count("profile")) {   // development aid: cost of each operation as the last step, single process
      const int st = atoi(args.kv["profile"].c_str());
      for (int op = 0; op < model.NumOps(); op++) {
         const double t0 = verif::NowS(); int r = 0;
         for (int i = 0; i < 200; i++) { World w; model.Init(w, st); std::string m, k; r = model.Apply(w, op, m, k); }
         printf("%8.1f us  %d  %s\n", (verif::NowS() - t0) * 1e6 / 200, r, model.OpName(op).c_str());
      }
      return 0;
   }
   Observe(res);
   ex.SetDeadline(args.t0 + args.deadline * 0.9);
   seqx::Stats S = ex.Run(depth);
   res.parts.back().rule = Rule(model, depth, what);
   fprintf(stderr, "C17: starts=%d ops=%d states=%llu transitions=%llu depth=%d exhaustive=%d outcomes=%llu violations=%llu wall=%.1fs\n", model.NumStarts(), model.NumOps(), (unsigned long long)S.states, (unsigned long long)S.transitions, S.depthCompleted, (int)S.exhaustive, (unsigned long long)S.distinctOutcomes, (unsigned long long)S.violations, verif::NowS() - args.t0);
   return res.Write(args);
}
