// C09 model class (part of C09_model.h).
template <class TableT, int KIND /* 0 plain, 1 ordered by key, 2 ordered by value */> class HtModel {
public:
   typedef typename TableT::IteratorType IterT;
   typedef typename TableT::ConstIteratorType CIterT;

   struct World {
      TableT * t; TableT * u;   // heap objects so that a table can be destroyed while iterators live
      RList m[2];               // reference content of t, u in iteration order
      IterT * it[2];            // real iterators A, B
      RefIter ri[2];
      std::string lastResult;
      int step;                 // operations applied so far
      World() : step(0), t(new TableT), u(new TableT) { it[0] = it[1] = NULL; }
      ~World() { delete it[0]; delete it[1]; delete t; delete u; }
      TableT & Tab(int i) const { return i ? *u : *t; }
   private:
      World(const World &); World & operator=(const World &);
   };

   std::vector<Op> ops; unsigned mask; int startSet; bool thorough; int layout;
   bool checkEveryStep;

   // ------------------------------------------------------------ alphabet
   void A(unsigned m, OpKind k, int a = 0, int b = 0, int v = 0)
   {
      if (!(m & mask)) return;
      if (KIND != 0 && !(m & M_ORD)) return;
      Op o; o.k = k; o.a = a; o.b = b; o.v = v; o.mask = m; std::string n = kKindNames[k];
      switch (k) {
      case PUT: case PUT_PREV: case PUT_FRONT: case PUT_BACK: case PUT_IFNOT: case GETORPUT: case PUTANDGET: case PUTORREMOVE: case U_PUT: case WOULDPUT: n += verif::Fmt("(k%d,%d)", a, v); break;
      case PUT_BEFORE: case PUT_BEHIND: n += verif::Fmt("(k%d,k%d,%d)", a, b, v); break;
      case PUT_AT: n += verif::Fmt("(k%d,%s,%d)", a, SelName(b), v); break;
      case MPOS: n += verif::Fmt("(k%d,%s)", a, SelName(b)); break;
      case MBEFORE: case MBEHIND: n += verif::Fmt("(k%d,k%d)", a, b); break;
      case PUT_DEFAULT: case PUT_SELFVAL: case GET_MTF: case GET_MTB: case REMOVE: case REMOVE_RET: case REMOVE_DEF: case MTF: case MTB: case REPOSITION: case MOVETOTABLE: case MOVEFROMTABLE: case COPYTOTABLE: case SWAPWITHTABLE:
      case WOULDREMOVE: case U_REMOVE: case AL_PUTBEFORE: case AL_PUTBEHIND: n += verif::Fmt("[k%d]", a); break;
      case IT_NEW: n = std::string(a ? "B" : "A") + (v == -2 ? "=u.GetIterator(" : v < 0 ? "=GetIterator(" : verif::Fmt("=GetIteratorAt(k%d,", v)) + (b ? "BACKWARDS)" : "0)"); break;
      case IT_ADV: n = a ? "B++" : "A++"; break;
      case IT_RET: n = a ? "B--" : "A--"; break;
      case IT_DEL: n = a ? "~B" : "~A"; break;
      case IT_FLIP: n = std::string(a ? "B" : "A") + ".SetBackwards(flip)"; break;
      default: break;
      }
      o.name = n; ops.push_back(o);
   }

   HtModel(unsigned partMask, int ss, bool th, int lay, bool ces) : mask(partMask), startSet(ss), thorough(th), layout(lay), checkEveryStep(ces)
   {
      const unsigned S = M_SMALL | M_FULL, C = M_CORE | M_SMALL | M_FULL, B = M_BOUND, W = M_BWIDE, H = M_HUGE, D = M_HUGED, O = M_ORD, F = M_FULL, L = M_ALIAS;
      // keys: k0 (head), k3 (second), k1 (middle), k2 (tail) are present in the populated start states; k4, k5 are absent; k6 is never present
      A(C | W | H | O | L | D, PUT, 0, 0, 5);          // existing key (head), new value
      A(C | W | H | O | L | D, PUT, 5, 0, 3);          // new key (forces a regrow when the table is full)
      A(S | O, PUT, 4, 0, 2);
      A(F | O, PUT, 3, 0, 1);
      A(S | W | O, PUT_PREV, 1, 0, 4);
      A(C | W | H, PUT_FRONT, 2, 0, 2);            // existing tail -> front
      A(S | W, PUT_FRONT, 4, 0, 1);                // new key at front
      A(S | W, PUT_BACK, 0, 0, 3);
      A(C | W | H | D, PUT_BEFORE, 4, 1, 2);           // new key before the middle
      A(S | W, PUT_BEFORE, 1, 0, 2);               // existing key moved
      A(F, PUT_BEFORE, 3, 3, 1);                   // before itself: documented to act like Put
      A(S | W, PUT_BEHIND, 4, 0, 1);
      A(C | W, PUT_BEHIND, 0, 2, 3);
      A(F, PUT_BEHIND, 3, 6, 1);                   // absent target: documented to act like Put
      A(S | W, PUT_AT, 3, P1, 2);              // already at position 1: unconditional unlink/relink
      A(C | W | H, PUT_AT, 0, PMID, 1);
      A(F | W | B, PUT_AT, 1, PMID, 1);
      A(F, PUT_AT, 2, PSIZE1, 1);
      A(S, PUT_AT, 5, P0, 1);
      A(S | W | O, PUT_IFNOT, 4, 0, 5);
      A(F | O, PUT_IFNOT, 0, 0, 5);
      A(S | W | O, GETORPUT, 5, 0, 4);
      A(F | O, GETORPUT, 1, 0, 4);
      A(F | O, PUT_DEFAULT, 2);
      A(F | O, PUTANDGET, 3, 0, 2);
      A(S | W | O, PUTORREMOVE, 1, 0, 0);          // value == default -> removes
      A(F | O, PUTORREMOVE, 4, 0, 3);
      A(S | W | H | O | L | B | D, PUT_SELFVAL, 4);        // value argument aliases the table's own storage (guarded in PutAux)
      A(C | W | O, PUT_TABLE);
      A(S | W, GET_MTF, 1);
      A(S | W, GET_MTB, 0);
      A(C | W | H | O | L, REMOVE, 0);
      A(C | W | H | O | D, REMOVE, 1);
      A(C | W | H | O, REMOVE, 2);
      A(F, REMOVE, 3);
      A(F | O, REMOVE_RET, 1);
      A(F | O, REMOVE_DEF, 4);
      A(C | W | O, REMOVE_FIRST);
      A(C | W | H | O | D, REMOVE_LAST);
      A(F | O, REMOVE_FIRST_KV);
      A(F | O, REMOVE_LAST_K);
      A(S | W | O, REMOVE_TABLE);
      A(S | W | O, REMOVE_SELF);
      A(C | W | H | O | D, INTERSECT);
      A(C | W | H | D, MTF, 1);
      A(S | W, MTF, 2);
      A(C | W | H, MTB, 0);
      A(S | W, MTB, 1);
      A(C | W, MBEFORE, 2, 0);
      A(S | W, MBEFORE, 0, 1);
      A(F, MBEFORE, 1, 1);
      A(F, MBEFORE, 0, 6);
      A(C | W, MBEHIND, 0, 2);
      A(S | W, MBEHIND, 1, 0);
      A(C | W, MPOS, 0, P1);
      A(C | W | H, MPOS, 1, PMID);
      A(F, MPOS, 2, PSIZE);
      A(S | W, MPOS, 2, P0);
      A(C | W, SORTKEY);
      A(C | W | H, SORTVAL);
      A(F | O, SORT);
      A(O, REPOSITION, 1);
      A(C | W | O, ENSURE_DOUBLE);
      A(F | W | O, ENSURE_CANPUT);
      A(C | W | H | O | D, SHRINK);
      A(F | W | O | B, SHRINK1);
      A(F | W | B, ENSURE_SHRINK);
      A(C | W | H | O | D, CLEAR);
      A(C | W | H | O, CLEAR_REL);
      A(C | W | H | O, ASSIGN_T_U);
      A(S | W | O, ASSIGN_U_T);
      A(C | W | H | O | D, SWAP);
      A(F | W | O, MOVE_T_U);
      A(F | W | O, COPYCTOR);
      A(F | O, MOVECTOR);
      A(C | W | H | O | L | D, MOVETOTABLE, 0);
      A(C | W | O, MOVEFROMTABLE, 4);
      A(F | W | O, COPYTOTABLE, 1);
      A(S | W | O, SWAPWITHTABLE, 1);
      A(F | O, SWAPWITHTABLE, 4);
      A(F | W | O, EQ);
      A(F | O, KEYSETS);
      A(F | O, WOULDPUT, 4, 0, 2);
      A(F | O, WOULDPUT, 4, 0, 9);
      A(F | O, WOULDREMOVE, 0);
      A(C | W | O, U_REMOVE, 1);
      A(F | W | O, U_PUT, 0, 0, 7);
      A(F | W | O, U_CLEAR);
      A(C | W | H | O, IT_NEW, 0, 0, -1);
      A(C | W | O, IT_NEW, 1, 1, -1);
      A(C | W | O, IT_NEW, 0, 0, -2);   // iterator A on table u (it changes hands when the tables are swapped / moved)
      A(F | W | O, IT_NEW, 0, 0, 1);
      A(F | W | O, IT_NEW, 1, 1, 1);
      A(C | W | H | O | D, IT_ADV, 0);
      A(C | W | H | O | D, IT_ADV, 1);
      A(C | W | O, IT_RET, 0);
      A(F, IT_RET, 1);
      A(C | W | O, IT_COPY);
      A(F | W | O, IT_SWAP);
      A(F | W, IT_FLIP, 0);
      A(C | W | H | O | D, IT_DEL, 0);
      A(C | W | O, IT_DEL, 1);
      A(C | W | H | O | D, DESTROY_T);
      // arguments that are references into the table's own storage
      A(L, AL_PUTBEFORE, 4, 0, 2);
      A(L, AL_PUTBEHIND, 4, 0, 2);
      A(L, AL_PUTFRONT_EXISTING);
      A(L, AL_MOVEBEFORE);
      A(L, AL_REMOVE_FIRSTKEY);
      A(L, AL_MOVETOTABLE_FIRSTKEY);
      A(L, AL_PUT_LASTKEY_FIRSTVAL);
      BuildStarts();
   }

   // ------------------------------------------------------------ start states
   struct Start { int hcap; int ensure; int fill; int park; };  // hcap: parameter of the special keys' hash codes; ensure: EnsureSize() before filling (0 = none); park: -1 no iterators, 0 head, 1 middle, 2 tail
   std::vector<Start> starts;
   void S(int hcap, int ensure, int fill, int park) { Start s = {hcap, ensure, fill, park}; starts.push_back(s); }
   void BuildStarts()
   {
      switch (startSet) {
      case SS_SMALL: case SS_ORD:
         S(7, 0, 0, -1);
         S(7, 0, 6, -1); S(7, 0, 8, -1);
         S(7, 0, 7, -1); S(7, 0, 7, 0); S(7, 0, 7, 1); S(7, 0, 7, 2);
         break;
      case SS_SMALLQ:
         S(7, 0, 0, -1); S(7, 0, 7, 1);
         break;
      case SS_ALIAS:
         S(7, 0, 6, -1); S(7, 0, 7, 1);
         break;
      case SS_BOUND: {   // narrow alphabet, depth 3
         const int caps[] = {254, 255, 253, 256, 127, 128};
         for (int ci = 0; ci < (thorough ? 6 : 2); ci++) for (int d = 1; d >= 0; d--) for (int park = 0; park <= 2; park++) S(caps[ci], caps[ci], caps[ci] - d, park);
         // reverse crossing: a 16-bit-index table (300 slots) holding 254 / 255 entries; ShrinkToFit (after a Remove for 255) brings it back to 8-bit indices
         for (int f = 254; f <= 255; f++) for (int park = 0; park <= 2; park++) if (thorough || park == 1) S(254, 300, f, park);
         break; }
      case SS_BOUNDW: {  // wide alphabet, depth 2
         const int caps[] = {254, 255, 253, 256};
         for (int ci = 0; ci < (thorough ? 4 : 2); ci++) for (int d = 1; d >= 0; d--) for (int park = 0; park <= 2; park++) if (thorough || park == 1) S(caps[ci], caps[ci], caps[ci] - d, park);
         for (int f = 254; f <= 255; f++) for (int park = 0; park <= 2; park++) if (thorough ? true : (park == 1 && f == 254)) S(254, 300, f, park);
         break; }
      case SS_BOUNDD: {  // 26-operation alphabet, one more level
         for (int c = 254; c <= 255; c++) for (int d = 1; d >= 0; d--) S(c, c, c - d, 1);
         S(254, 300, 254, 1); S(254, 300, 255, 1);
         break; }
      case SS_HUGED: S(65534, 65534, 65534, 1); S(65535, 65535, 65535, 1); break;
      case SS_HUGE: {
         if (!thorough) { S(65534, 65534, 65534, 1); S(65535, 65535, 65535, 1); break; }
         const int caps[] = {65534, 65535, 65533, 65536};
         for (int ci = 0; ci < 4; ci++) for (int d = 1; d >= 0; d--) S(caps[ci], caps[ci], caps[ci] - d, 1);
         S(65534, 70000, 65534, 1); S(65534, 70000, 65535, 1);
         break; }
      }
   }
   int NumStarts() const { return (int)starts.size(); }
   std::string StartName(int s) const { const Start & st = starts[s]; return verif::Fmt("hashcap=%d ensure=%d fill=%d park=%s", st.hcap, st.ensure, st.fill, st.park < 0 ? "none" : st.park == 0 ? "head" : st.park == 1 ? "middle" : "tail"); }
   int NumOps() const { return (int)ops.size(); }
   std::string OpName(int i) const { return ops[i].name; }

   // key sequence of a populated start state: k0 at the head, k3 second, k1 in the middle, k2 at the tail, fillers (ids >= 10) elsewhere
   static int FillKey(int i, int n) { if (i == 0) return 0; if (i == n - 1 && n >= 2) return 2; if (i == n / 2 && n >= 3) return 1; if (i == 1 && n >= 5) return 3; return 10 + i; }
   static int FillVal(int i) { return (i * 7) % 5 + 1; }

   void Init(World & w, int s) const
   {
      const Start & st = starts[s];
      if (LastSteps() > LevelLen()) LevelLen() = LastSteps();
      if (mask == M_ALIAS && !checkEveryStep) { static bool done = false; if (!done) { done = true; int dn = open("/dev/null", O_WRONLY); if (dn >= 0) { dup2(dn, 2); close(dn); } } }   // exploration workers of the alias part: the sanitizer report of an expected crash is shown by --replay, not here
      LastSteps() = 0;
      SetConsoleLogLevel(MUSCLE_LOG_NONE);   // the out-of-memory warning of a failing Put (see MoveCtor) would otherwise be printed, with a stack trace, for every such transition
      const uint32 c = (uint32)st.hcap;
      g_hash[0] = 0; g_hash[1] = 0; g_hash[2] = 1; g_hash[3] = c; g_hash[4] = c; g_hash[5] = 2 * c; g_hash[6] = 3; g_hash[7] = 0;
      if (st.ensure) (void) w.t->EnsureSize((uint32)st.ensure);
      w.m[T].reserve((size_t)st.fill + 8);
      for (int i = 0; i < st.fill; i++) { const HKey k(FillKey(i, st.fill)); const int v = FillVal(i); (void) w.t->Put(k, v); if (KIND == 0) { KV e = {k.id, v}; w.m[T].push_back(e); } else RPut(&w, T, w.m[T], k.id, v); }   // keys of a start state are distinct
      { const HKey k4(4), k1(1); (void) w.u->Put(k4, 2); RPut(&w, U, w.m[U], 4, 2); (void) w.u->Put(k1, 3); RPut(&w, U, w.m[U], 1, 3); }
      if (st.park >= 0 && st.fill > 0) {
         const int pk = (st.park == 0) ? 0 : (st.park == 1) ? 1 : 2; const HKey k(pk);
         for (int z = 0; z < 2; z++) {
            w.it[z] = new IterT(*w.t, k, (uint32)(z ? HTIT_FLAG_BACKWARDS : 0));
            RefIter & r = w.ri[z]; r.live = true; r.back = (z == 1); r.saved = false; r.cursor = (RFind(w.m[T], pk) >= 0) ? pk : -1; r.owner = (r.cursor >= 0) ? T : -1;
         }
      }
      if (checkEveryStep) { std::string cm, ck; if (!CheckAll(w, true, cm, ck)) fprintf(stderr, "start state %s violates the oracle: %s %s\n", StartName(s).c_str(), ck.c_str(), cm.c_str()); }
   }

   // Oracle scheduling.  SEQX replays the whole history for every transition; all histories of one BFS level have the same length and every proper
   // prefix of a history was itself the history of a transition of an earlier level, where the full oracle ran after its last operation (replays are
   // deterministic, which the engine asserts).  So within one worker process the full oracle is evaluated after every operation of the first replay
   // (which reveals the level's history length) and from then on after the LAST operation of each replay only; return values/statuses are compared at
   // every step in any case.  --check-every-step 1 (and every --replay) evaluates the full oracle after every operation.
   static int & LevelLen() { static int v = 0; return v; }
   static int & LastSteps() { static int v = 0; return v; }

   // ------------------------------------------------------------ reference operations
   static int RFind(const RList & l, int k) { for (size_t i = 0; i < l.size(); i++) if (l[i].k == k) return (int)i; return -1; }
   static bool Less(const KV & a, const KV & b) { return (KIND == 2) ? (a.v < b.v) : (a.k < b.k); }   // sort field of the ordered variants
   static void RSortKey(RList & l) { std::stable_sort(l.begin(), l.end(), [](const KV & a, const KV & b) { return a.k < b.k; }); }
   static void RSortVal(RList & l) { std::stable_sort(l.begin(), l.end(), [](const KV & a, const KV & b) { return a.v < b.v; }); }
   static void RSortOwn(RList & l) { if (KIND == 1) RSortKey(l); else if (KIND == 2) RSortVal(l); }

   // An entry is about to be unlinked from list `tab` (removed, or moved by a Move*/positional Put): every iterator standing on it keeps a
   // saved copy as its current item and its cursor moves on to the next entry in ITS direction at this moment.
   static void RUnlink(World * w, int tab, const RList & l, int k)
   {
      if (!w || tab < 0) return;
      for (int s = 0; s < 2; s++) {
         RefIter & r = w->ri[s];
         if (r.live && r.owner == tab && r.cursor == k) {
            r.saved = true;
            const int i = RFind(l, k);
            r.cursor = r.back ? (i > 0 ? l[i - 1].k : -1) : (i + 1 < (int)l.size() ? l[i + 1].k : -1);
         }
      }
   }
   // Clear() / destruction: iterators are cut loose; one that stood on an entry keeps a copy of it as a last item
   static void RDetach(World * w, int tab)
   {
      if (!w) return;
      for (int s = 0; s < 2; s++) { RefIter & r = w->ri[s]; if (r.live && r.owner == tab) { if (r.cursor != -1) { r.saved = true; r.cursor = -1; } r.owner = -1; } }
   }
   static void RClear(World * w, int tab, RList & l) { RDetach(w, tab); l.clear(); }
   static bool RRemove(World * w, int tab, RList & l, int k, int * oldv = NULL)
   {
      const int i = RFind(l, k); if (i < 0) return false;
      if (oldv) *oldv = l[i].v;
      RUnlink(w, tab, l, k); l.erase(l.begin() + i); return true;
   }
   // unconditional unlink + relink so that k ends up at index newIdx of the resulting list
   static void RPlace(World * w, int tab, RList & l, int k, size_t newIdx)
   {
      const int i = RFind(l, k); if (i < 0) return;
      RUnlink(w, tab, l, k); const KV e = l[i]; l.erase(l.begin() + i); if (newIdx > l.size()) newIdx = l.size(); l.insert(l.begin() + newIdx, e);
   }
   static void RToFront(World * w, int tab, RList & l, int k) { const int i = RFind(l, k); if (i > 0) RPlace(w, tab, l, k, 0); }
   static void RToBack(World * w, int tab, RList & l, int k) { const int i = RFind(l, k); if (i >= 0 && i + 1 < (int)l.size()) RPlace(w, tab, l, k, l.size() - 1); }
   static void RToBefore(World * w, int tab, RList & l, int k, int b)
   {
      const int i = RFind(l, k), j = RFind(l, b); if (i < 0 || j < 0 || i == j || i + 1 == j) return;
      RUnlink(w, tab, l, k); const KV e = l[i]; l.erase(l.begin() + i); l.insert(l.begin() + RFind(l, b), e);
   }
   static void RToBehind(World * w, int tab, RList & l, int k, int d)
   {
      const int i = RFind(l, k), j = RFind(l, d); if (i < 0 || j < 0 || i == j || i == j + 1) return;
      RUnlink(w, tab, l, k); const KV e = l[i]; l.erase(l.begin() + i); l.insert(l.begin() + RFind(l, d) + 1, e);
   }
   static void RToPos(World * w, int tab, RList & l, int k, uint32 idx)
   {
      if (idx == 0) RToFront(w, tab, l, k); else if (idx >= l.size()) RToBack(w, tab, l, k); else RPlace(w, tab, l, k, idx);
   }
   // Put: plain table = replace in place or append; ordered variants = sorted position (new key behind equal ones; an updated value is moved
   // only if it is out of order against a neighbour).  Returns true if an existing value was replaced.
   static bool RPut(World * w, int tab, RList & l, int k, int v, int * prev = NULL)
   {
      const int i = RFind(l, k); const int n = (int)l.size();
      if (i >= 0) {
         if (prev) *prev = l[i].v;
         l[i].v = v;
         if (KIND == 2) {
            const bool down = (i > 0 && v < l[i - 1].v), up = (!down && i + 1 < n && v > l[i + 1].v);
            if (down || up) {
               RUnlink(w, tab, l, k); const KV e = l[i]; l.erase(l.begin() + i);
               size_t pos;
               if (down) { pos = 0; for (int j = i - 1; j >= 0; j--) if (!(v < l[j].v)) { pos = (size_t)j + 1; break; } }
               else { pos = l.size(); for (int j = i; j < (int)l.size(); j++) if (!(v > l[j].v)) { pos = (size_t)j; break; } }
               l.insert(l.begin() + pos, e);
            }
         }
         return true;
      }
      KV e = {k, v};
      if (KIND == 0) l.push_back(e);
      else { size_t pos = 0; for (int j = n - 1; j >= 0; j--) if (!Less(e, l[j])) { pos = (size_t)j + 1; break; } l.insert(l.begin() + pos, e); }
      return false;
   }
   // CopyFrom(src, clearFirst): values of existing keys are replaced in place, new keys appended in src order, then the table's own sort (stable)
   static void RCopyFrom(World * w, int tab, RList & l, const RList & src, bool clearFirst)
   {
      if (clearFirst) RClear(w, tab, l);
      const size_t orig = l.size();   // keys of src are distinct, so only the original entries can be hit
      for (size_t i = 0; i < src.size(); i++) { int j = -1; for (size_t q = 0; q < orig; q++) if (l[q].k == src[i].k) { j = (int)q; break; } if (j >= 0) l[j].v = src[i].v; else l.push_back(src[i]); }
      RSortOwn(l);
   }
   // Intersect(other): entries whose key is not in `other` are removed front to back; an iterator standing on a removed entry keeps a copy and ends up on the
   // nearest surviving entry in its direction (one pass; equivalent to removing one by one)
   static uint32 RIntersect(World * w, int tab, RList & l, const RList & other)
   {
      const size_t n = l.size(); std::vector<char> keep(n); uint32 removed = 0;
      for (size_t i = 0; i < n; i++) { keep[i] = (RFind(other, l[i].k) >= 0); if (!keep[i]) removed++; }
      if (w) for (int s = 0; s < 2; s++) {
         RefIter & r = w->ri[s]; if (!r.live || r.owner != tab || r.cursor == -1) continue;
         const int i = RFind(l, r.cursor); if (i < 0 || keep[i]) continue;
         r.saved = true; long j = i;
         if (r.back) { while (j >= 0 && !keep[j]) j--; } else { while (j < (long)n && !keep[j]) j++; if (j >= (long)n) j = -1; }
         r.cursor = (j >= 0) ? l[j].k : -1;
      }
      size_t o = 0; for (size_t i = 0; i < n; i++) if (keep[i]) l[o++] = l[i]; l.resize(o);
      return removed;
   }
   static void RSwap(World & w) { w.m[T].swap(w.m[U]); for (int s = 0; s < 2; s++) { RefIter & r = w.ri[s]; if (r.live && r.owner >= 0) r.owner = 1 - r.owner; } }

#include "harness/C09_model_check.h"
#include "harness/C09_model_apply.h"
};
