// C16 -- Queue behaves as an ideal double-ended sequence under every operation sequence.
// SEQX exploration: two real muscle::Queue<Tracked> objects (q, r) against std::deque reference models, lock-step.
#include "engines/seqx/seqx.h"
#include "util/Queue.h"
#include <deque>

using namespace muscle;

// ---------------------------------------------------------------- instrumented item type
static long g_liveTagged = 0;   // live Tracked instances carrying a non-zero tag
static long g_poisonReads = 0;  // reads of a destroyed instance observed through the Queue API
struct Tracked {
   int key; int tag; unsigned magic;
   Tracked() : key(0), tag(0), magic(0xA11CE) {}
   Tracked(int k, int t) : key(k), tag(t), magic(0xA11CE) { if (tag) g_liveTagged++; }
   Tracked(const Tracked & o) : key(o.key), tag(o.tag), magic(0xA11CE) { o.Check(); if (tag) g_liveTagged++; }
   Tracked & operator=(const Tracked & o) { o.Check(); Check(); if (this != &o) { if (tag) g_liveTagged--; key = o.key; tag = o.tag; if (tag) g_liveTagged++; } return *this; }
   ~Tracked() { if (magic == 0xA11CE && tag) g_liveTagged--; magic = 0xDEAD; key = -77; tag = -77; }
   void Check() const { if (magic != 0xA11CE) g_poisonReads++; }
   bool operator==(const Tracked & o) const { Check(); o.Check(); return key == o.key; }   // equality and order look at the key only,
   bool operator!=(const Tracked & o) const { return !(*this == o); }
   bool operator<(const Tracked & o) const { Check(); o.Check(); return key < o.key; }      // the tag tells instances apart (stability, staleness)
   bool operator>(const Tracked & o) const { Check(); o.Check(); return key > o.key; }
   uint32 HashCode() const { return (uint32)key; }
};


// ---------------------------------------------------------------- trivially copyable item type (takes Queue's POD fast paths: no per-item clearing,
// index arithmetic in RemoveHeadMulti/RemoveTailMulti, raw FastClear).  It has no constructors, so std::is_trivial<Pod> holds.
struct Pod {
   int key; int tag;
   void Check() const {}
   bool operator==(const Pod & o) const { return key == o.key; }
   bool operator!=(const Pod & o) const { return key != o.key; }
   bool operator<(const Pod & o) const { return key < o.key; }
   bool operator>(const Pod & o) const { return key > o.key; }
   uint32 HashCode() const { return (uint32)key; }
};
static_assert(std::is_trivial<Pod>::value, "Pod must be a trivial type");
template <class T> struct Traits;
template <> struct Traits<Tracked> { enum { kTracked = 1 }; static Tracked Make(int k, int t) { return Tracked(k, t); } static const char * Name() { return "Queue<Tracked> (owning class type)"; } };
template <> struct Traits<Pod>     { enum { kTracked = 0 }; static Pod Make(int k, int t) { Pod p; p.key = k; p.tag = t; return p; } static const char * Name() { return "Queue<Pod> (trivially copyable type)"; } };

struct Item { int key, tag; };
typedef std::deque<Item> Ref;

enum OpKind {
   ADDTAIL, ADDHEAD, ADDTAIL_ARR, ADDHEAD_ARR, ADDTAIL_Q, ADDHEAD_Q, ADDTAIL_Q_SUB, ADDHEAD_Q_SUB, ADDTAIL_SELF, ADDHEAD_SELF, ADDTAIL_SELF_SUB, ADDTAIL_SELFITEM, ADDHEAD_SELFITEM,
   ADDTAIL_SELFARR, ADDHEAD_SELFARR,
   REMHEAD, REMTAIL, REMHEAD_RET, REMTAIL_RET, REMHEAD_DEF, REMTAIL_DEF, REMHEADMULTI, REMTAILMULTI,
   INSERT_AT, INSERTS_AT_Q, INSERTS_AT_ARR, INSERTS_AT_SELF, REMOVE_AT, REMOVE_AT_RET, REPLACE_AT,
   SWAP, REVERSE, REVERSE_SUB, SORT, SORT_SUB, ROTATE,
   ENSURE, ENSURE_SET, ENSURE_EXTRA, ENSURE_SHRINK, SHRINK, SHRINK_EXTRA, NORMALIZE,
   COPYCTOR, ASSIGN_Q_FROM_R, ASSIGN_R_FROM_Q, MOVE_Q_FROM_R, SWAPCONTENTS, SELFASSIGN, CLEAR, CLEAR_REL,
   INDEXOF, LASTINDEXOF, EQUALS, REMOVEALL, REMOVEFIRST, REMOVELAST, ADDTAIL_IFNOT, GETWITHDEFAULT, INSERT_SORTED, REMOVE_SORTED_DUPS, STARTSENDS,
   INSERT_AT_SELFITEM   // InsertItemAt(idx, q[src]): the argument aliases an item of the queue itself
};
struct Op { OpKind k; int a; int b; const char * name; };

// index selectors (resolved against the current size n): 0 => 0, 1 => n/2, 2 => n-1, 3 => n, 4 => n+1
static uint32 SelIdx(int sel, size_t n) { switch (sel) { case 0: return 0; case 1: return (uint32)(n / 2); case 2: return (uint32)(n ? n - 1 : 0); case 3: return (uint32)n; default: return (uint32)(n + 1); } }
static const char * SelName(int sel) { static const char * n[] = {"0", "mid", "last", "size", "size+1"}; return n[sel]; }

template <class T> struct WorldT {
   Queue<T> q, r;
   Ref mq, mr;
   int nextTag;
   long liveBase;
   std::string lastResult;  // observable outcome of the last op
   WorldT() : nextTag(1), liveBase(0) {}
};

template <class T> class QueueModel {
public:
   typedef Traits<T> TR;
   std::vector<Op> ops; std::vector<std::string> names;
   int tier;
   QueueModel(bool thorough) : tier(thorough ? 1 : 0)
   {
      A(ADDTAIL, 1); A(ADDTAIL, 2); A(ADDHEAD, 1); A(ADDHEAD, 2);
      A(ADDTAIL_ARR); A(ADDHEAD_ARR); A(ADDTAIL_Q); A(ADDHEAD_Q); A(ADDTAIL_Q_SUB); A(ADDHEAD_Q_SUB); A(ADDTAIL_SELF); A(ADDHEAD_SELF); A(ADDTAIL_SELF_SUB);
      A(ADDTAIL_SELFITEM); A(ADDHEAD_SELFITEM); A(ADDTAIL_SELFARR); A(ADDHEAD_SELFARR);
      A(REMHEAD); A(REMTAIL); A(REMHEAD_RET); A(REMTAIL_RET); A(REMHEAD_DEF); A(REMTAIL_DEF);
      A(REMHEADMULTI, 0); A(REMHEADMULTI, 2); A(REMHEADMULTI, 99); A(REMTAILMULTI, 2); A(REMTAILMULTI, 99);
      for (int s = 0; s <= 4; s++) A(INSERT_AT, s);
      for (int i = 0; i < 2; i++) for (int sr = 0; sr < 2; sr++) A(INSERT_AT_SELFITEM, i, sr);
      A(INSERTS_AT_Q, 1); A(INSERTS_AT_Q, 4); A(INSERTS_AT_ARR, 1); A(INSERTS_AT_ARR, 0); A(INSERTS_AT_SELF, 1);
      for (int s = 0; s <= 3; s++) A(REMOVE_AT, s);
      A(REMOVE_AT_RET, 1);
      A(REPLACE_AT, 0); A(REPLACE_AT, 2); A(REPLACE_AT, 3);
      A(SWAP); A(REVERSE); A(REVERSE_SUB); A(SORT); A(SORT_SUB); A(ROTATE);
      A(ENSURE, 2); A(ENSURE, 5); A(ENSURE, 9); A(ENSURE_SET, 0); A(ENSURE_SET, 2); A(ENSURE_SET, 5); A(ENSURE_EXTRA); A(ENSURE_SHRINK); A(SHRINK); A(SHRINK_EXTRA); A(NORMALIZE);
      A(COPYCTOR); A(ASSIGN_Q_FROM_R); A(ASSIGN_R_FROM_Q); A(MOVE_Q_FROM_R); A(SWAPCONTENTS); A(SELFASSIGN); A(CLEAR); A(CLEAR_REL);
      A(INDEXOF, 1); A(LASTINDEXOF, 1); A(EQUALS); A(REMOVEALL, 1); A(REMOVEFIRST, 1); A(REMOVELAST, 1); A(ADDTAIL_IFNOT, 2); A(GETWITHDEFAULT); A(INSERT_SORTED, 2); A(REMOVE_SORTED_DUPS); A(STARTSENDS);
   }
   void A(OpKind k, int a = 0, int b = 0)
   {
      static const char * kn[] = {"AddTail", "AddHead", "AddTailMulti(arr{3,1})", "AddHeadMulti(arr{3,1})", "AddTailMulti(r)", "AddHeadMulti(r)", "AddTailMulti(r,1,1)", "AddHeadMulti(r,1,1)", "AddTailMulti(self)", "AddHeadMulti(self)", "AddTailMulti(self,1,1)", "AddTail(q[mid])", "AddHead(q[mid])",
         "AddTailMulti(&q[0],size)", "AddHeadMulti(&q[0],contiguous)",
         "RemoveHead", "RemoveTail", "RemoveHead(ret)", "RemoveTail(ret)", "RemoveHeadWithDefault", "RemoveTailWithDefault", "RemoveHeadMulti", "RemoveTailMulti",
         "InsertItemAt", "InsertItemsAt(r)", "InsertItemsAt(arr{3,1})", "InsertItemsAt(self)", "RemoveItemAt", "RemoveItemAt(ret)", "ReplaceItemAt",
         "Swap(0,last)", "Reverse", "Reverse(1,size-1)", "Sort", "Sort(1,size)", "Rotate",
         "EnsureSize", "EnsureSize(set)", "EnsureSize(size+2,extra=3)", "EnsureSize(size,allowShrink)", "ShrinkToFit", "ShrinkToFit(2)", "Normalize",
         "CopyCtor", "q=r", "r=q", "q=move(r)", "SwapContents(r)", "q=q", "Clear", "Clear(release)",
         "IndexOf", "LastIndexOf", "q==r", "RemoveAllInstancesOf", "RemoveFirstInstanceOf", "RemoveLastInstanceOf", "AddTailIfNotAlreadyPresent", "GetWithDefault", "InsertItemAtSortedPosition", "RemoveSortedDuplicateItems", "StartsWith/EndsWith", "InsertItemAt(q[src])"};
      Op o; o.k = k; o.a = a; o.b = b; o.name = kn[k]; ops.push_back(o);
      std::string n = kn[k];
      if (k == INSERT_AT || k == REMOVE_AT || k == REPLACE_AT || k == REMOVE_AT_RET || k == INSERTS_AT_Q || k == INSERTS_AT_ARR || k == INSERTS_AT_SELF) n += std::string("@") + SelName(a);
      else if (k == INSERT_AT_SELFITEM) n += std::string(a ? "@mid-1" : "@mid") + (b ? "<-last" : "<-first");
      else if (k == ADDTAIL || k == ADDHEAD || k == REMHEADMULTI || k == REMTAILMULTI || k == ENSURE || k == ENSURE_SET || k == INDEXOF || k == LASTINDEXOF || k == REMOVEALL || k == REMOVEFIRST || k == REMOVELAST || k == ADDTAIL_IFNOT || k == INSERT_SORTED) n += verif::Fmt("(%d)", a);
      names.push_back(n);
   }

   // ---- start states: (size, head offset, capacity class) reached by real operations
   struct Start { int fill; int rot; int ensure; int rfill; };
   std::vector<Start> starts;
   void BuildStarts()
   {
      // empty; sizes around the inline capacity (3) and a heap capacity (8), with the ring head at every offset
      Start e = {0, 0, 0, 0}; starts.push_back(e);
      int fills[] = {2, 3, 4, 7, 8, 9};
      for (size_t i = 0; i < sizeof(fills) / sizeof(fills[0]); i++)
         for (int rot = 0; rot <= fills[i] && rot <= 8; rot++) { Start s = {fills[i], rot, (fills[i] >= 7) ? 8 : 0, 2}; starts.push_back(s); }
   }
   int NumStarts() const { return (int)starts.size(); }
   std::string StartName(int s) const { return verif::Fmt("fill=%d rot=%d ensure=%d rfill=%d", starts[s].fill, starts[s].rot, starts[s].ensure, starts[s].rfill); }
   int NumOps() const { return (int)ops.size(); }
   std::string OpName(int i) const { return names[i]; }
   typedef WorldT<T> World;

   static T Mk(World & w, int key, Item & it) { it.key = key; it.tag = w.nextTag++; return TR::Make(it.key, it.tag); }

   void Init(World & w, int s) const
   {
      // warm-up: creates the per-type static default item so that live-instance accounting has a stable baseline
      { Queue<T> tmp; (void) tmp.AddTail(TR::Make(9, 0)); (void) tmp.RemoveHeadWithDefault(); (void) tmp.GetDefaultItem(); }
      w.liveBase = g_liveTagged;
      const Start & st = starts[s];
      if (st.ensure) (void) w.q.EnsureSize((uint32)st.ensure);
      for (int i = 0; i < st.fill; i++) { Item it; T t = Mk(w, 1 + (i % 3), it); (void) w.q.AddTail(t); w.mq.push_back(it); }
      // move the ring head: head-to-tail rotation with the content present (add/remove on an empty queue would reset the head index)
      for (int i = 0; i < st.rot; i++) { T t = TR::Make(0, 0); (void) w.q.RemoveHead(t); (void) w.q.AddTail(t); w.mq.push_back(w.mq.front()); w.mq.pop_front(); }
      for (int i = 0; i < st.rfill; i++) { Item it; T t = Mk(w, 2 + i, it); (void) w.r.AddTail(t); w.mr.push_back(it); }
   }

   static std::string Show(const Ref & m) { std::string s = "["; for (size_t i = 0; i < m.size(); i++) { if (i) s += ","; s += verif::Fmt("%d#%d", m[i].key, m[i].tag); } return s + "]"; }
   static std::string ShowQ(const Queue<T> & q) { std::string s = "["; for (uint32 i = 0; i < q.GetNumItems(); i++) { if (i) s += ","; s += verif::Fmt("%d#%d", q[i].key, q[i].tag); } return s + "]"; }

   static bool Same(const Queue<T> & q, const Ref & m)
   {
      if (q.GetNumItems() != m.size()) return false;
      for (uint32 i = 0; i < q.GetNumItems(); i++) { const T & t = q[i]; t.Check(); if (t.key != m[i].key || t.tag != m[i].tag) return false; }
      return true;
   }

   bool CheckAll(World & w, std::string & msg, std::string & key) const
   {
      if (!Same(w.q, w.mq)) { msg = "content of q differs: impl " + ShowQ(w.q) + " reference " + Show(w.mq); key = "content"; return false; }
      if (!Same(w.r, w.mr)) { msg = "content of r differs: impl " + ShowQ(w.r) + " reference " + Show(w.mr); key = "content-r"; return false; }
      const Queue<T> * qs[2] = { &w.q, &w.r }; const Ref * ms[2] = { &w.mq, &w.mr };
      for (int z = 0; z < 2; z++) {
         const Queue<T> & q = *qs[z]; const Ref & m = *ms[z];
         if (q._itemCount > q._queueSize) { msg = "itemCount > queueSize"; key = "layout"; return false; }
         if (q.IsEmpty() != m.empty() || q.HasItems() == m.empty()) { msg = "IsEmpty/HasItems wrong"; key = "query"; return false; }
         if (q.GetLastValidIndex() != (int32)m.size() - 1) { msg = "GetLastValidIndex wrong"; key = "query"; return false; }
         // public element access paths: GetItemAt (both forms), iterators, array pointers, Head/Tail with default
         for (uint32 i = 0; i <= (uint32)m.size(); i++) {
            T t = TR::Make(0, 0); status_t r = q.GetItemAt(i, t);
            if ((i < m.size()) != r.IsOK()) { msg = verif::Fmt("GetItemAt(%u) status wrong", i); key = "query"; return false; }
            if (i < m.size() && (t.key != m[i].key || t.tag != m[i].tag)) { msg = verif::Fmt("GetItemAt(%u) value wrong", i); key = "query"; return false; }
            const T * p = q.GetItemAt(i);
            if ((p != NULL) != (i < m.size())) { msg = verif::Fmt("GetItemAt(%u) pointer wrong", i); key = "query"; return false; }
         }
         { uint32 i = 0; for (ConstQueueIterator<T> it = q.GetIterator(); it.HasData(); it++, i++) { if (i >= m.size() || it.GetValue().tag != m[i].tag) { msg = "forward iterator sequence wrong"; key = "iterator"; return false; } } if (i != m.size()) { msg = "forward iterator length wrong"; key = "iterator"; return false; } }
         { int32 i = (int32)m.size() - 1; for (ConstQueueIterator<T> it = q.GetBackwardIterator(); it.HasData(); it++, i--) { if (i < 0 || it.GetValue().tag != m[i].tag) { msg = "backward iterator sequence wrong"; key = "iterator"; return false; } } if (i != -1) { msg = "backward iterator length wrong"; key = "iterator"; return false; } }
         {
            uint32 l0 = 0, l1 = 0; const T * a0 = q.GetArrayPointer(0, l0); const T * a1 = q.GetArrayPointer(1, l1);
            if (a0 == NULL) l0 = 0; if (a1 == NULL) l1 = 0;
            if (l0 + l1 != m.size()) { msg = verif::Fmt("GetArrayPointer lengths %u+%u != size %u", l0, l1, (unsigned)m.size()); key = "arrayptr"; return false; }
            for (uint32 i = 0; i < l0; i++) { a0[i].Check(); if (a0[i].tag != m[i].tag) { msg = "GetArrayPointer(0) content wrong"; key = "arrayptr"; return false; } }
            for (uint32 i = 0; i < l1; i++) { a1[i].Check(); if (a1[i].tag != m[l0 + i].tag) { msg = "GetArrayPointer(1) content wrong"; key = "arrayptr"; return false; } }
            if (q.IsNormalized() != (l1 == 0)) { msg = "IsNormalized inconsistent with GetArrayPointer"; key = "arrayptr"; return false; }
         }
         if (!m.empty()) {
            if (q.Head().tag != m.front().tag || q.Tail().tag != m.back().tag) { msg = "Head/Tail wrong"; key = "query"; return false; }
         } else {
            if (q.HeadWithDefault().tag != 0 || q.TailWithDefault().tag != 0) { msg = "Head/TailWithDefault on empty queue is not the default item"; key = "query"; return false; }
            if (q.HeadPointer() != NULL || q.TailPointer() != NULL) { msg = "Head/TailPointer non-NULL on empty"; key = "query"; return false; }
         }
      }
      if (TR::kTracked) {
      // Every live tagged instance must physically sit in the storage of one of the two queues (no leaked array, no item destroyed early).
      // Stale copies in *unused* slots / in an inactive inline buffer are tolerated here: whether they are ever *exposed* is decided by the
      // content comparison after the EnsureSize(set) operations of the alphabet, which re-expose unused slots as "default" items.
      long physical = 0;
      for (int z = 0; z < 2; z++) {
         const Queue<T> & q = *qs[z];
         for (uint32 s = 0; s < q._queueSize; s++) { q._queue[s].Check(); if (q._queue[s].tag) physical++; }
         if (q._queue != q._smallQueue) for (uint32 s = 0; s < (uint32)Queue<T>::ACTUAL_SMALL_QUEUE_SIZE; s++) { q._smallQueue[s].Check(); if (q._smallQueue[s].tag) physical++; }
      }
      if (g_poisonReads) { msg = "a destroyed item was read"; key = "poison"; return false; }
      long live = g_liveTagged - w.liveBase;
      if (live != physical) { msg = verif::Fmt("live tagged instances %ld != instances held in the queues' storage %ld (leaked array or early destruction)", live, physical); key = "live-count"; return false; }
      }
      return true;
   }

   int Apply(World & w, int opi, std::string & msg, std::string & key) const
   {
      const Op & o = ops[opi];
      Queue<T> & q = w.q; Ref & m = w.mq; const size_t n = m.size();
      std::string res;
#define FAILIF(cond, text) do { if (cond) { msg = OpName(opi) + ": " + (text) + "; impl " + ShowQ(q) + " reference(after) " + Show(m); key = "result:" + std::string(o.name); return seqx::SEQX_VIOLATION; } } while (0)
      switch (o.k) {
      case ADDTAIL: { Item it; T t = Mk(w, o.a, it); status_t r = q.AddTail(t); m.push_back(it); FAILIF(r.IsError(), "failed"); break; }
      case ADDHEAD: { Item it; T t = Mk(w, o.a, it); status_t r = q.AddHead(t); m.push_front(it); FAILIF(r.IsError(), "failed"); break; }
      case ADDTAIL_ARR: { Item a, b; T arr[2] = { Mk(w, 3, a), Mk(w, 1, b) }; status_t r = q.AddTailMulti(arr, 2); m.push_back(a); m.push_back(b); FAILIF(r.IsError(), "failed"); break; }
      case ADDHEAD_ARR: { Item a, b; T arr[2] = { Mk(w, 3, a), Mk(w, 1, b) }; status_t r = q.AddHeadMulti(arr, 2); m.push_front(b); m.push_front(a); FAILIF(r.IsError(), "failed"); break; }
      case ADDTAIL_Q: { status_t r = q.AddTailMulti(w.r); m.insert(m.end(), w.mr.begin(), w.mr.end()); FAILIF(r.IsError(), "failed"); break; }
      case ADDHEAD_Q: { status_t r = q.AddHeadMulti(w.r); m.insert(m.begin(), w.mr.begin(), w.mr.end()); FAILIF(r.IsError(), "failed"); break; }
      case ADDTAIL_Q_SUB: { status_t r = q.AddTailMulti(w.r, 1, 1); if (w.mr.size() > 1) m.push_back(w.mr[1]); FAILIF(r.IsError(), "failed"); break; }
      case ADDHEAD_Q_SUB: { status_t r = q.AddHeadMulti(w.r, 1, 1); if (w.mr.size() > 1) m.push_front(w.mr[1]); FAILIF(r.IsError(), "failed"); break; }
      case ADDTAIL_SELF: { if (n == 0) return seqx::SEQX_DISABLED; status_t r = q.AddTailMulti(q); Ref c = m; m.insert(m.end(), c.begin(), c.end()); FAILIF(r.IsError(), "failed"); break; }
      case ADDHEAD_SELF: { if (n == 0) return seqx::SEQX_DISABLED; status_t r = q.AddHeadMulti(q); Ref c = m; m.insert(m.begin(), c.begin(), c.end()); FAILIF(r.IsError(), "failed"); break; }
      case ADDTAIL_SELF_SUB: { if (n < 2) return seqx::SEQX_DISABLED; status_t r = q.AddTailMulti(q, 1, 1); m.push_back(Item(m[1])); FAILIF(r.IsError(), "failed"); break; }
      case ADDTAIL_SELFITEM: { if (n == 0) return seqx::SEQX_DISABLED; Item it = m[n / 2]; status_t r = q.AddTail(q[(uint32)(n / 2)]); m.push_back(it); FAILIF(r.IsError(), "failed"); break; }
      case INSERT_AT_SELFITEM: {
         if (n == 0) return seqx::SEQX_DISABLED;
         const uint32 idx = (uint32)((o.a == 0) ? (n / 2) : ((n / 2) ? (n / 2 - 1) : 0)), src = (uint32)(o.b ? (n - 1) : 0);
         Item it = m[src]; status_t r = q.InsertItemAt(idx, q[src]); m.insert(m.begin() + idx, it); FAILIF(r.IsError(), "failed"); break; }
      case ADDHEAD_SELFITEM: { if (n == 0) return seqx::SEQX_DISABLED; Item it = m[n / 2]; status_t r = q.AddHead(q[(uint32)(n / 2)]); m.push_front(it); FAILIF(r.IsError(), "failed"); break; }
      case ADDTAIL_SELFARR: {  // pointer into the queue's own storage (first contiguous run)
         if (n == 0) return seqx::SEQX_DISABLED; uint32 len = 0; const T * p = q.GetArrayPointer(0, len); if (!p || len == 0) return seqx::SEQX_DISABLED;
         Ref c(m.begin(), m.begin() + len); status_t r = q.AddTailMulti(p, len); m.insert(m.end(), c.begin(), c.end()); FAILIF(r.IsError(), "failed"); break; }
      case ADDHEAD_SELFARR: {
         if (n == 0) return seqx::SEQX_DISABLED; uint32 len = 0; const T * p = q.GetArrayPointer(0, len); if (!p || len == 0) return seqx::SEQX_DISABLED;
         if (len <= q.GetNumUnusedItemSlots()) return seqx::SEQX_DISABLED;  // without reallocation the documented re-entrancy guard does not apply: behaviour with an aliasing raw pointer is unspecified
         Ref c(m.begin(), m.begin() + len); status_t r = q.AddHeadMulti(p, len); m.insert(m.begin(), c.begin(), c.end()); FAILIF(r.IsError(), "failed"); break; }
      case REMHEAD: { status_t r = q.RemoveHead(); if (n) m.pop_front(); FAILIF(r.IsOK() != (n > 0), "status wrong"); FAILIF(n == 0 && r != B_DATA_NOT_FOUND, "error code not B_DATA_NOT_FOUND"); break; }
      case REMTAIL: { status_t r = q.RemoveTail(); if (n) m.pop_back(); FAILIF(r.IsOK() != (n > 0), "status wrong"); break; }
      case REMHEAD_RET: { T t = TR::Make(7, 0); status_t r = q.RemoveHead(t); FAILIF(r.IsOK() != (n > 0), "status wrong"); if (n) { FAILIF(t.tag != m.front().tag, "returned item wrong"); m.pop_front(); } else FAILIF(t.key != 7, "return item modified on failure"); break; }
      case REMTAIL_RET: { T t = TR::Make(7, 0); status_t r = q.RemoveTail(t); FAILIF(r.IsOK() != (n > 0), "status wrong"); if (n) { FAILIF(t.tag != m.back().tag, "returned item wrong"); m.pop_back(); } else FAILIF(t.key != 7, "return item modified on failure"); break; }
      case REMHEAD_DEF: { T t = q.RemoveHeadWithDefault(); if (n) { FAILIF(t.tag != m.front().tag, "returned item wrong"); m.pop_front(); } else FAILIF(t.tag != 0 || t.key != 0, "default item expected"); break; }
      case REMTAIL_DEF: { T t = q.RemoveTailWithDefault(); if (n) { FAILIF(t.tag != m.back().tag, "returned item wrong"); m.pop_back(); } else FAILIF(t.tag != 0 || t.key != 0, "default item expected"); break; }
      case REMHEADMULTI: { uint32 c = q.RemoveHeadMulti((uint32)o.a); size_t e = std::min((size_t)o.a, n); for (size_t i = 0; i < e; i++) m.pop_front(); FAILIF(c != e, verif::Fmt("returned %u expected %u", c, (unsigned)e)); break; }
      case REMTAILMULTI: { uint32 c = q.RemoveTailMulti((uint32)o.a); size_t e = std::min((size_t)o.a, n); for (size_t i = 0; i < e; i++) m.pop_back(); FAILIF(c != e, verif::Fmt("returned %u expected %u", c, (unsigned)e)); break; }
      case INSERT_AT: { uint32 idx = SelIdx(o.a, n); Item it; T t = Mk(w, 3, it); status_t r = q.InsertItemAt(idx, t); m.insert(m.begin() + std::min((size_t)idx, n), it); FAILIF(r.IsError(), "failed (index>=size is documented as AddTail)"); break; }
      case INSERTS_AT_Q: { uint32 idx = SelIdx(o.a, n); status_t r = q.InsertItemsAt(idx, w.r); m.insert(m.begin() + std::min((size_t)idx, n), w.mr.begin(), w.mr.end()); FAILIF(r.IsError(), "failed"); break; }
      case INSERTS_AT_ARR: { uint32 idx = SelIdx(o.a, n); Item a, b; T arr[2] = { Mk(w, 3, a), Mk(w, 1, b) }; status_t r = q.InsertItemsAt(idx, arr, 2); size_t at = std::min((size_t)idx, n); m.insert(m.begin() + at, b); m.insert(m.begin() + at, a); FAILIF(r.IsError(), "failed"); break; }
      case INSERTS_AT_SELF: { if (n == 0) return seqx::SEQX_DISABLED; uint32 idx = SelIdx(o.a, n); Ref c = m; status_t r = q.InsertItemsAt(idx, q); m.insert(m.begin() + std::min((size_t)idx, n), c.begin(), c.end()); FAILIF(r.IsError(), "failed"); break; }
      case REMOVE_AT: { uint32 idx = SelIdx(o.a, n); status_t r = q.RemoveItemAt(idx); bool ok = idx < n; if (ok) m.erase(m.begin() + idx); FAILIF(r.IsOK() != ok, "status wrong"); FAILIF(!ok && r != B_BAD_ARGUMENT, "error code not B_BAD_ARGUMENT"); break; }
      case REMOVE_AT_RET: { uint32 idx = SelIdx(o.a, n); T t = TR::Make(7, 0); status_t r = q.RemoveItemAt(idx, t); bool ok = idx < n; FAILIF(r.IsOK() != ok, "status wrong"); if (ok) { FAILIF(t.tag != m[idx].tag, "returned item wrong"); m.erase(m.begin() + idx); } else FAILIF(t.key != 7, "return item modified on failure"); break; }
      case REPLACE_AT: { uint32 idx = SelIdx(o.a, n); Item it; T t = Mk(w, 3, it); status_t r = q.ReplaceItemAt(idx, t); bool ok = idx < n; if (ok) m[idx] = it; FAILIF(r.IsOK() != ok, "status wrong"); FAILIF(!ok && r != B_BAD_ARGUMENT, "error code not B_BAD_ARGUMENT"); break; }
      case SWAP: { if (n < 2) return seqx::SEQX_DISABLED; q.Swap(0, (uint32)n - 1); std::swap(m[0], m[n - 1]); break; }
      case REVERSE: { q.ReverseItemOrdering(); std::reverse(m.begin(), m.end()); break; }
      case REVERSE_SUB: { if (n < 3) return seqx::SEQX_DISABLED; q.ReverseItemOrdering(1, (uint32)n - 1); std::reverse(m.begin() + 1, m.begin() + (n - 1)); break; }
      case SORT: { q.Sort(); std::stable_sort(m.begin(), m.end(), [](const Item & a, const Item & b) { return a.key < b.key; }); break; }
      case SORT_SUB: { if (n < 2) return seqx::SEQX_DISABLED; q.Sort((uint32)1, (uint32)n); std::stable_sort(m.begin() + 1, m.end(), [](const Item & a, const Item & b) { return a.key < b.key; }); break; }
      case ROTATE: { if (n == 0) return seqx::SEQX_DISABLED; T t = TR::Make(0, 0); status_t r = q.RemoveHead(t); FAILIF(r.IsError(), "RemoveHead failed"); r = q.AddTail(t); FAILIF(r.IsError(), "AddTail failed"); m.push_back(m.front()); m.pop_front(); break; }
      case ENSURE: { status_t r = q.EnsureSize((uint32)o.a); FAILIF(r.IsError(), "failed"); FAILIF(q.GetNumAllocatedItemSlots() < (uint32)o.a, "fewer slots than requested"); break; }
      case ENSURE_SET: {
         status_t r = q.EnsureSize((uint32)o.a, true); FAILIF(r.IsError(), "failed"); Item d = {0, 0}; while (m.size() > (size_t)o.a) m.pop_back();
         FAILIF(q.GetNumItems() != (uint32)o.a, "size not set");
         // owning types: the added items must be default items (a stale item re-exposed here is a violation).  Trivially copyable types: added items are
         // default-initialised in the C++ sense, i.e. indeterminate (documented for AddTailAndGet()), so the harness overwrites them with a defined value before comparing.
         while (m.size() < (size_t)o.a) { if (!TR::kTracked) q[(uint32)m.size()] = TR::Make(0, 0);   // give the indeterminate new item a defined value (keeps replays deterministic)
            m.push_back(d); }
         break; }
      case ENSURE_EXTRA: { status_t r = q.EnsureSize((uint32)n + 2, false, 3); FAILIF(r.IsError(), "failed"); FAILIF(q.GetNumAllocatedItemSlots() < n + 2, "fewer slots than requested"); break; }
      case ENSURE_SHRINK: { status_t r = q.EnsureSize((uint32)n, false, 0, true); FAILIF(r.IsError(), "failed"); FAILIF(q.GetNumAllocatedItemSlots() < n, "fewer slots than items"); break; }
      case SHRINK: { status_t r = q.ShrinkToFit(); FAILIF(r.IsError(), "failed"); FAILIF(q.GetNumAllocatedItemSlots() < n, "fewer slots than items"); break; }
      case SHRINK_EXTRA: { status_t r = q.ShrinkToFit(2); FAILIF(r.IsError(), "failed"); FAILIF(q.GetNumAllocatedItemSlots() < n + 2, "fewer slots than items+2"); break; }
      case NORMALIZE: { q.Normalize(); FAILIF(!q.IsNormalized(), "not normalized after Normalize()"); break; }
      case COPYCTOR: { Queue<T> c(q); FAILIF(!Same(c, m), "copy differs: " + ShowQ(c)); FAILIF(!(c == q) || (c != q), "copy not == original"); Queue<T> d; status_t r = d.CopyFrom(q); FAILIF(r.IsError() || !Same(d, m), "CopyFrom differs"); break; }
      case ASSIGN_Q_FROM_R: { q = w.r; m = w.mr; break; }
      case ASSIGN_R_FROM_Q: { w.r = q; w.mr = m; break; }
      case MOVE_Q_FROM_R: { q = std::move(w.r); std::swap(m, w.mr);
         // a moved-from Queue is in a valid but unspecified state: read what it holds now and continue from there (it must still be a sane Queue)
         w.mr.clear(); for (uint32 i = 0; i < w.r.GetNumItems(); i++) { Item it = { w.r[i].key, w.r[i].tag }; w.mr.push_back(it); }
         break; }
      case SWAPCONTENTS: { q.SwapContents(w.r); std::swap(m, w.mr); break; }
      case SELFASSIGN: { Queue<T> & alias = q; q = alias; break; }
      case CLEAR: { q.Clear(); m.clear(); FAILIF(!q.IsNormalized(), "not normalized after Clear"); break; }
      case CLEAR_REL: { q.Clear(true); m.clear(); FAILIF(q._queue != NULL && q._queue != q._smallQueue, "Clear(true) kept a heap buffer"); break; }
      case INDEXOF: { T t = TR::Make(o.a, 0); int32 r = q.IndexOf(t); int32 e = -1; for (size_t i = 0; i < n; i++) if (m[i].key == o.a) { e = (int32)i; break; } FAILIF(r != e, verif::Fmt("returned %d expected %d", r, e)); FAILIF(q.Contains(t) != (e >= 0), "Contains wrong");
         if (n >= 2) { int32 r2 = q.IndexOf(t, 1, (uint32)n - 1); int32 e2 = -1; for (size_t i = 1; i + 1 < n; i++) if (m[i].key == o.a) { e2 = (int32)i; break; } FAILIF(r2 != e2, verif::Fmt("ranged IndexOf returned %d expected %d", r2, e2)); }
         res = verif::Fmt("%d", r); break; }
      case LASTINDEXOF: { T t = TR::Make(o.a, 0); int32 r = q.LastIndexOf(t); int32 e = -1; for (size_t i = n; i > 0; i--) if (m[i - 1].key == o.a) { e = (int32)i - 1; break; } FAILIF(r != e, verif::Fmt("returned %d expected %d", r, e)); res = verif::Fmt("%d", r); break; }
      case EQUALS: { bool e = (m.size() == w.mr.size()); for (size_t i = 0; e && i < n; i++) if (m[i].key != w.mr[i].key) e = false; bool r = (q == w.r); FAILIF(r != e, "== wrong"); FAILIF((q != w.r) == e, "!= wrong"); res = r ? "eq" : "ne"; break; }
      case REMOVEALL: { T t = TR::Make(o.a, 0); uint32 c = q.RemoveAllInstancesOf(t); uint32 e = 0; for (size_t i = m.size(); i > 0; i--) if (m[i - 1].key == o.a) { m.erase(m.begin() + (i - 1)); e++; } FAILIF(c != e, verif::Fmt("returned %u expected %u", c, e)); break; }
      case REMOVEFIRST: { T t = TR::Make(o.a, 0); status_t r = q.RemoveFirstInstanceOf(t); bool f = false; for (size_t i = 0; i < m.size(); i++) if (m[i].key == o.a) { m.erase(m.begin() + i); f = true; break; } FAILIF(r.IsOK() != f, "status wrong"); break; }
      case REMOVELAST: { T t = TR::Make(o.a, 0); status_t r = q.RemoveLastInstanceOf(t); bool f = false; for (size_t i = m.size(); i > 0; i--) if (m[i - 1].key == o.a) { m.erase(m.begin() + (i - 1)); f = true; break; } FAILIF(r.IsOK() != f, "status wrong"); break; }
      case ADDTAIL_IFNOT: { bool present = false; for (size_t i = 0; i < n; i++) if (m[i].key == o.a) present = true; Item it; T t = Mk(w, o.a, it); status_t r = q.AddTailIfNotAlreadyPresent(t); if (!present) m.push_back(it); FAILIF(r.IsError(), "failed"); break; }
      case GETWITHDEFAULT: { for (uint32 i = 0; i <= n + 1; i++) { const T & t = q.GetWithDefault(i); int et = (i < n) ? m[i].tag : 0; FAILIF(t.tag != et, verif::Fmt("GetWithDefault(%u) wrong", i)); T d = TR::Make(5, 0); T u = q.GetWithDefault(i, d); FAILIF((i < n) ? (u.tag != m[i].tag) : (u.key != 5), verif::Fmt("GetWithDefault(%u, def) wrong", i)); } break; }
      case INSERT_SORTED: {  // precondition: queue sorted
         for (size_t i = 1; i < n; i++) if (m[i - 1].key > m[i].key) return seqx::SEQX_DISABLED;
         Item it; T t = Mk(w, o.a, it); int32 r = q.InsertItemAtSortedPosition(t); FAILIF(r < 0 || (size_t)r > n, "bad return index");
         m.insert(m.begin() + r, it); for (size_t i = 1; i < m.size(); i++) FAILIF(m[i - 1].key > m[i].key, "queue no longer sorted after InsertItemAtSortedPosition");
         break; }
      case REMOVE_SORTED_DUPS: {
         for (size_t i = 1; i < n; i++) if (m[i - 1].key > m[i].key) return seqx::SEQX_DISABLED;
         uint32 c = q.RemoveSortedDuplicateItems(); uint32 e = 0; Ref nm; for (size_t i = 0; i < n; i++) { if (!nm.empty() && nm.back().key == m[i].key) e++; else nm.push_back(m[i]); }
         FAILIF(c != e, verif::Fmt("returned %u expected %u", c, e));
         // which of several equal items survives is not documented: compare keys, then adopt the implementation's choice of instance
         FAILIF(q.GetNumItems() != nm.size(), "size wrong"); for (size_t i = 0; i < nm.size(); i++) { FAILIF(q[(uint32)i].key != nm[i].key, "keys wrong"); bool known = false; for (size_t j = 0; j < n; j++) if (m[j].tag == q[(uint32)i].tag && m[j].key == q[(uint32)i].key) known = true; FAILIF(!known, "surviving item is not one of the original items"); nm[i].tag = q[(uint32)i].tag; }
         m = nm; break; }
      case STARTSENDS: {
         T one = TR::Make(1, 0); FAILIF(q.StartsWith(one) != (n && m.front().key == 1), "StartsWith(item) wrong"); FAILIF(q.EndsWith(one) != (n && m.back().key == 1), "EndsWith(item) wrong");
         bool sw = w.mr.size() <= n, ew = sw; for (size_t i = 0; sw && i < w.mr.size(); i++) if (m[i].key != w.mr[i].key) sw = false; for (size_t i = 0; ew && i < w.mr.size(); i++) if (m[n - w.mr.size() + i].key != w.mr[i].key) ew = false;
         FAILIF(q.StartsWith(w.r) != sw, "StartsWith(queue) wrong"); FAILIF(q.EndsWith(w.r) != ew, "EndsWith(queue) wrong"); break; }
      }
#undef FAILIF
      w.lastResult = res;
      if (!CheckAll(w, msg, key)) { msg = OpName(opi) + ": " + msg; key = key + ":" + o.name; return seqx::SEQX_VIOLATION; }
      return seqx::SEQX_OK;
   }

   // Canonical form: layout state (head index, capacity, inline or heap) of both queues + contents with tags replaced by rank of first
   // appearance.  Futures depend on (content, layout) only; the tag counter influences futures only through tags, which are ranked away.
   void Canon(const World & w, std::string & out) const
   {
      std::map<int, int> rank; const Queue<T> * qs[2] = { &w.q, &w.r };
      for (int z = 0; z < 2; z++) {
         const Queue<T> & q = *qs[z];
         out += verif::Fmt("|h%u c%u %c:", q._itemCount ? q._headIndex : 0u, q._queueSize, (q._queue == q._smallQueue) ? 'i' : 'h');
         for (uint32 i = 0; i < q.GetNumItems(); i++) { int t = q[i].tag; int rk = 0; if (t) { std::map<int, int>::iterator it = rank.find(t); if (it == rank.end()) { rk = (int)rank.size() + 1; rank[t] = rk; } else rk = it->second; } out += verif::Fmt("%d.%d,", q[i].key, rk); }
         // Owning item types: what sits in the UNUSED slots is part of the state -- EnsureSize(n,true), AddTailAndGet() and AddHeadAndGet() expose those slots
         // without resetting them, so two queues that differ only there have different futures and must not be merged.  (Trivially copyable types: the
         // content of unused slots is indeterminate by contract and the harness overwrites newly exposed items, so it is left out.)
         if (TR::kTracked) {
            std::vector<bool> live(q._queueSize, false);
            if (q._queue) for (uint32 i = 0; i < q._itemCount; i++) live[(q._headIndex + i) % q._queueSize] = true;
            if (q._queue) for (uint32 p = 0; p < q._queueSize; p++) if (!live[p] && (q._queue[p].key != 0 || q._queue[p].tag != 0)) out += verif::Fmt("~%u:%d.%d,", p, q._queue[p].key, q._queue[p].tag ? 1 : 0);
            if (q._queue != q._smallQueue) for (uint32 p = 0; p < ARRAYITEMS(q._smallQueue); p++) if (q._smallQueue[p].key != 0 || q._smallQueue[p].tag != 0) out += verif::Fmt("~s%u:%d.%d,", p, q._smallQueue[p].key, q._smallQueue[p].tag ? 1 : 0);
         }
      }
   }
   void Outcome(const World & w, std::string & out) const { out = w.lastResult + "/" + Show(w.mq).substr(0, 0) + verif::Fmt("%u/%u", (unsigned)w.mq.size(), (unsigned)w.mr.size()); for (size_t i = 0; i < w.mq.size(); i++) out += verif::Fmt("%d,", w.mq[i].key); }
};

template <class T> static int RunModel(verif::Args & args, verif::Result & res, const char * partName, int depth, double deadlineFrac0, double deadlineFrac1, verif::ReplayDoc * replay)
{
   QueueModel<T> model(args.Thorough()); model.BuildStarts();
   seqx::Explorer<QueueModel<T> > ex(model, args, res, partName);
   if (replay) return ex.ReplayFile(*replay);
   (void) deadlineFrac0; ex.SetDeadline(args.t0 + args.deadline * deadlineFrac1);
   seqx::Stats S = ex.Run(depth);
   res.parts.back().rule = verif::Fmt("%s: every sequence of <=%d operations from a %d-operation alphabet (single/multi add and remove at both ends incl. self-aliasing sources, insert/remove/replace at index {0,mid,last,size,size+1}, swap, reverse, sort, rotate, EnsureSize variants, ShrinkToFit, Normalize, copy/assign/move/SwapContents with a second queue, both Clears, searches, ==) applied to a real Queue from each of %d start states (empty; sizes 2,3,4 around the inline capacity and 7,8,9 around a heap capacity with the ring head at every offset); states deduplicated on (contents with instance tags ranked, head index, capacity, inline/heap) of both queues; a state is non-trivial when its canonical form is new",
                                      Traits<T>::Name(), depth, model.NumOps(), model.NumStarts());
   fprintf(stderr, "C16 %s: states=%llu transitions=%llu depth=%d exhaustive=%d outcomes=%llu violations=%llu wall=%.1fs\n", partName, (unsigned long long)S.states, (unsigned long long)S.transitions, S.depthCompleted, (int)S.exhaustive, (unsigned long long)S.distinctOutcomes, (unsigned long long)S.violations, verif::NowS() - args.t0);
   return 0;
}

int main(int argc, char ** argv)
{
   verif::Args args; args.Parse(argc, argv);
   verif::Result res; res.harness = "C16_queue";
   if (!args.replay.empty()) { verif::ReplayDoc d; if (!d.Load(args.replay)) { fprintf(stderr, "cannot read %s\n", args.replay.c_str()); return 3; } return (d.Str("part") == "podqueue-vs-deque") ? RunModel<Pod>(args, res, "podqueue-vs-deque", 0, 0, 0, &d) : RunModel<Tracked>(args, res, "queue-vs-deque", 0, 0, 0, &d); }
   int depth = args.Thorough() ? 4 : 3;
   if (args.kv.count("depth")) depth = atoi(args.kv["depth"].c_str());
   if (args.WantPart("queue-vs-deque")) RunModel<Tracked>(args, res, "queue-vs-deque", depth, 0.0, 0.5, NULL);
   if (args.WantPart("podqueue-vs-deque")) RunModel<Pod>(args, res, "podqueue-vs-deque", depth, 0.5, 0.95, NULL);
   return res.Write(args);
}
