// C06 part 3 -- connection cut after every byte prefix of a session's outgoing stream (driver L2, socket-stepped).
// Included from harness/C06_isolation.cpp only.
//
// A (/hA/1) and B (/hB/3) are attached in-process (driver L1) and hold data and subscriptions that watch everything X does.
// X (/hA/2; for the second stream /hX/2, alone on its host) is attached through a real AF_UNIX socket pair: ReflectServer::AddNewSession(session, serverEnd) gives it the normal
// TCPSocketDataIO + MessageIOGateway, and the harness is the peer.  X's outgoing stream is a sequence of commands framed by a real
// MessageIOGateway into a buffer.  For EVERY prefix length k = 0..len and every delivery variant the harness writes k bytes,
// closes its end, and advances the server with ServerProcessLoop(0) (one non-blocking cycle per call) until X is detached
// (bounded).  Variants:
//    burst            k bytes in one write(), close at once (server sees data and EOF together; its replies hit a closed peer)
//    read-then-cut    k bytes, server stepped to idle, the harness reads everything the server sent, close
//    never-reads      k bytes, server stepped to idle, close with the server's replies unread (the server's next read fails with ECONNRESET)
//    byte-at-a-time   one byte per write() with a server cycle after each, then close without reading
// Oracle: X is gone within the step bound; the canonical server dump equals (a) the dump of the in-process reference run "attach X,
// inject the commands wholly contained in the prefix, X leaves" (part 2's situation) and (b) the dump of a server X never connected
// to; no node carries a subscriber entry of X; A's and B's mirrors hold no node of X and equal the reference mirrors; what A and B
// were sent equals, as text, what they are sent in the reference run for SOME number m' <= m of processed commands (m = commands
// wholly contained; m' < m is possible when the server notices the closed peer while writing before it has read everything, and is
// recorded as an observation, not a violation: the property fixes the final state, not how much of a cut stream is consumed).
#ifndef VERIF_C06_CUT_H
#define VERIF_C06_CUT_H

#include "dataio/ByteBufferDataIO.h"
#include "dataio/TCPSocketDataIO.h"
#include "util/NetworkUtilityFunctions.h"
#include <sys/socket.h>

namespace cut {

using l1::MessageRef;
using l1::Keys;

enum { RA = 0, RX = 1, RB = 2 };
enum { V_BURST = 0, V_READ = 1, V_NEVER = 2, V_BYTE = 3, NVARIANT = 4 };
static const char * kVariant[NVARIANT] = { "burst", "read-then-cut", "never-reads", "byte-at-a-time" };
// X's host: shared with A for streams 0 and 2, a host of its own for stream 1 (the host node must vanish with the session)
static const char * XHost(int stream) { return stream == 1 ? "hX" : "hA"; }
static std::string XRoot(int stream) { return std::string("/") + XHost(stream) + "/2"; }
enum { NSTREAM = 3, MAX_STEPS_TO_DETACH = 8, IDLE_STEPS = 3 };
static const char * kStream[NSTREAM] = {
   "[SETDATA n=v1, SETPARAMETERS SUBSCRIBE:/*/*/*, INSERTORDEREDDATA n <- v2]",
   "[SETPARAMETERS SUBSCRIBE:/*/*/x [v==1] + SUBSCRIBE:/*/*, BATCH[SETDATA x=v1, SETDATA x/y=v2], Message 1234 to /*/*/x, REMOVEDATA x]",
   "zlib-6 framing of [SETDATA n=<400-byte payload>, SETPARAMETERS SUBSCRIBE:/*/*/n/* + !Self, INSERTORDEREDDATA n <- <400-byte payload> twice]" };

static MessageRef BigPayload(int v) { MessageRef m = l1::Payload(v); (void) m()->AddString("pad", std::string(400, 'a' + (v % 26)).c_str()); return m; }
static std::vector<MessageRef> Commands(int stream)
{
   std::vector<MessageRef> c;
   if (stream == 0) {
      c.push_back(l1::SetData("n", l1::Payload(1)));
      c.push_back(l1::Subscribe("/*/*/*"));
      MessageRef ins = l1::InsertOrderedData(Keys("n")); l1::AddData(ins, "append", l1::Payload(2)); c.push_back(ins);
   } else if (stream == 1) {
      MessageRef p = l1::SetParameters(); l1::AddSubscribe(p, "/*/*/x", l1::Int32Filter("v", muscle::Int32QueryFilter::OP_EQUAL_TO, 1)); l1::AddSubscribe(p, "/*/*"); c.push_back(p);
      c.push_back(l1::Batch(l1::SetData("x", l1::Payload(1)), l1::SetData("x/y", l1::Payload(2))));
      MessageRef m = l1::Keyed(1234, Keys("/*/*/x")); (void) m()->AddString(PR_NAME_SESSION, "2"); c.push_back(m);
      c.push_back(l1::RemoveData(Keys("x")));
   } else {
      c.push_back(l1::SetData("n", BigPayload(1)));
      MessageRef p = l1::SetParameters(); l1::AddSubscribe(p, "/*/*/n/*"); l1::AddFlagParam(p, PR_NAME_REFLECT_TO_SELF); c.push_back(p);
      MessageRef ins = l1::InsertOrderedData(Keys("n")); l1::AddData(ins, "append", BigPayload(2)); l1::AddData(ins, "append", BigPayload(3)); c.push_back(ins);
   }
   return c;
}

// frames the commands exactly as a client's MessageIOGateway does; ends[i] = stream offset just after command i
static std::string Frame(int stream, std::vector<size_t> & ends)
{
   l1::EnsureSetup();
   muscle::MessageIOGateway gw(stream == 2 ? muscle::MUSCLE_MESSAGE_ENCODING_ZLIB_6 : muscle::MUSCLE_MESSAGE_ENCODING_DEFAULT);
   muscle::ByteBufferRef buf = muscle::GetByteBufferFromPool(0);
   gw.SetDataIO(muscle::DataIORef(new muscle::ByteBufferDataIO(buf)));
   std::vector<MessageRef> c = Commands(stream);
   ends.clear();
   for (size_t i = 0; i < c.size(); i++) {
      (void) gw.AddOutgoingMessage(c[i]);
      int guard = 0; while (gw.HasBytesToOutput() && guard++ < 1000) { if (gw.DoOutput().IsError()) break; }
      ends.push_back(buf()->GetNumBytes());
   }
   return std::string((const char *)buf()->GetBuffer(), buf()->GetNumBytes());
}

static bool SetupOthers(l1::L1World & w)
{
   if (!w.Attach(RA, "hA", 1) || !w.Attach(RB, "hB", 3)) return false;
   w.Inject(RA, l1::SetData("x", l1::Payload(1)));
   w.Inject(RA, l1::SetData("n", l1::EmptyPayload(7)));
   { MessageRef p = l1::SetParameters(); l1::AddSubscribe(p, "/*/*/n"); l1::AddSubscribe(p, "/*/*"); w.Inject(RA, p); }
   w.Inject(RB, l1::SetData("x", l1::Payload(2)));
   { MessageRef p = l1::SetParameters(); l1::AddSubscribe(p, "/*/*/*"); l1::AddSubscribe(p, "/*/*/n/*"); l1::AddSubscribe(p, "/*/*/x/*"); w.Inject(RB, p); }
   return true;
}

struct Observed {
   std::string dump, inbox[2], mirror[2];   // [0] = A, [1] = B
   std::string error;
};

static void Collect(l1::L1World & w, c06::Mirror mir[2], std::vector<MessageRef> all[2])
{
   const int who[2] = { RA, RB };
   for (int i = 0; i < 2; i++) { std::vector<MessageRef> g = w.Drain(who[i]); c06::ApplyToMirror(mir[i], g); all[i].insert(all[i].end(), g.begin(), g.end()); }
}
static void Finish(l1::L1World & w, c06::Mirror mir[2], std::vector<MessageRef> all[2], Observed & o)
{
   o.dump = w.Dump();
   for (int i = 0; i < 2; i++) { o.inbox[i] = c06::InboxText(all[i], "", ""); o.mirror[i] = c06::CanonMirror(mir[i], ""); }
}

// reference: in-process, m commands then leave (m < 0: X never connects)
static Observed Reference(int stream, int m)
{
   Observed o; l1::L1World w; c06::Mirror mir[2]; std::vector<MessageRef> all[2];
   if (!SetupOthers(w)) { o.error = "setup failed"; return o; }
   Collect(w, mir, all); all[0].clear(); all[1].clear();   // the inbox is recorded from X's arrival on
   if (m >= 0) {
      if (!w.Attach(RX, XHost(stream), 2)) { o.error = "attach failed"; return o; }
      std::vector<MessageRef> c = Commands(stream);
      for (int i = 0; i < m && i < (int)c.size(); i++) { w.Inject(RX, c[i]); Collect(w, mir, all); }
      (void) w.Depart(RX);
      Collect(w, mir, all);
   }
   Finish(w, mir, all, o);
   return o;
}

static std::string PositionClass(size_t k, const std::vector<size_t> & ends)
{
   if (k == 0) return "before-first-byte";
   size_t start = 0;
   for (size_t i = 0; i < ends.size(); i++) {
      if (k == ends[i]) return "boundary-after-command-" + l1::U32((uint32_t)i + 1);
      if (k < ends[i]) return std::string((k - start) < 8 ? "inside-header-of-command-" : "inside-body-of-command-") + l1::U32((uint32_t)i + 1);
      start = ends[i];
   }
   return "past-end";
}

static bool WriteAll(int fd, const char * p, size_t n) { while (n > 0) { ssize_t r = send(fd, p, n, MSG_NOSIGNAL); if (r <= 0) return false; p += r; n -= (size_t)r; } return true; }
static size_t ReadAvailable(int fd) { size_t tot = 0; char buf[4096]; for (;;) { ssize_t r = recv(fd, buf, sizeof(buf), MSG_DONTWAIT); if (r <= 0) break; tot += (size_t)r; } return tot; }

struct CaseResult { int status; std::string key, msg, outcome; bool partialConsumption; };   // status: 0 ok, 2 violation, -1 infra

// one case: stream, variant, prefix length
static CaseResult RunCase(int stream, int variant, size_t k)
{
   CaseResult R; R.status = 0; R.partialConsumption = false;
   std::vector<size_t> ends; const std::string bytes = Frame(stream, ends);
   if (k > bytes.size()) { R.status = -1; R.msg = "prefix longer than the stream"; return R; }
   int m = 0; for (size_t i = 0; i < ends.size(); i++) if (ends[i] <= k) m++;
   const std::string where = std::string(kVariant[variant]) + ":" + PositionClass(k, ends);
   Observed got;
   {
      l1::L1World w; c06::Mirror mir[2]; std::vector<MessageRef> all[2];
      if (!SetupOthers(w)) { R.status = -1; R.msg = "setup failed"; return R; }
      Collect(w, mir, all); all[0].clear(); all[1].clear();
      muscle::ConstSocketRef srv, cli;
      if (muscle::CreateConnectedSocketPair(srv, cli, false).IsError()) { R.status = -1; R.msg = "socketpair failed"; return R; }
      muscle::_sessionIDCounter = 2;
      l1::SessionRef x(new l1::Session(XHost(stream)));
      if (w.server.AddNewSession(x, srv).IsError()) { R.status = -1; R.msg = "AddNewSession(socket) failed"; return R; }
      srv.Reset();
      if (dynamic_cast<muscle::TCPSocketDataIO *>(x()->GetGateway()()->GetDataIO()()) == NULL) { R.status = -1; R.msg = "X did not get a TCPSocketDataIO"; return R; }
      (void) w.Step(); Collect(w, mir, all);
      const int fd = cli.GetFileDescriptor();
      bool wrote = true;
      switch (variant) {
         case V_BURST: wrote = WriteAll(fd, bytes.data(), k); break;
         case V_READ:  wrote = WriteAll(fd, bytes.data(), k); for (int i = 0; i < IDLE_STEPS; i++) { (void) w.Step(); (void) ReadAvailable(fd); } Collect(w, mir, all); break;
         case V_NEVER: wrote = WriteAll(fd, bytes.data(), k); for (int i = 0; i < IDLE_STEPS; i++) (void) w.Step(); Collect(w, mir, all); break;
         case V_BYTE:  for (size_t i = 0; i < k && wrote; i++) { wrote = WriteAll(fd, bytes.data() + i, 1); (void) w.Step(); } Collect(w, mir, all); break;
      }
      if (!wrote) { R.status = -1; R.msg = "could not write the prefix into the socket"; return R; }
      if (!x()->IsAttachedToServer()) { R.status = 2; R.key = "cut:session-dropped-before-the-cut:" + where; R.msg = "the server detached X although its connection was still open"; return R; }
      cli.Reset();   // the cut
      int steps = 0;
      while (x()->IsAttachedToServer() && steps < MAX_STEPS_TO_DETACH) { (void) w.Step(); steps++; }
      if (x()->IsAttachedToServer()) { R.status = 2; R.key = "cut:session-not-detached:" + where; R.msg = verif::Fmt("X is still attached %d event-loop cycles after its connection was closed", steps); return R; }
      (void) w.Step();
      Collect(w, mir, all);
      std::string q = w.CheckQuiescent();
      if (!q.empty()) { R.status = 2; R.key = "cut:not-quiescent:" + where; R.msg = q; return R; }
      q = w.CheckTreeInvariants();
      if (!q.empty()) { R.status = 2; R.key = "cut:tree-invariant:" + where; R.msg = q; return R; }
      muscle::DataNode * root = w.RootNode();
      const std::string mark = root ? c06::FindSubscriberMark(*root, 2) : std::string();
      if (!mark.empty()) { R.status = 2; R.key = "cut:subscriber-mark-of-departed-session:" + where; R.msg = "node " + mark + " still carries a subscriber entry of session 2"; return R; }
      for (int i = 0; i < 2; i++) if (c06::MirrorMentions(mir[i], XRoot(stream))) { R.status = 2; R.key = "cut:subscriber-not-told-of-removal:" + where; R.msg = std::string("the mirror of ") + (i ? "B" : "A") + " still holds nodes of the departed session:\n" + c06::CanonMirror(mir[i], ""); return R; }
      Finish(w, mir, all, got);
   }
   static std::map<int, Observed> refs;   // per process: (stream * 16 + m + 1) -> reference
   for (int mm = -1; mm <= m; mm++) if (!refs.count(stream * 16 + mm + 1)) { refs[stream * 16 + mm + 1] = Reference(stream, mm); if (!refs[stream * 16 + mm + 1].error.empty()) { R.status = -1; R.msg = "reference: " + refs[stream * 16 + mm + 1].error; return R; } }
   const Observed & ref = refs[stream * 16 + m + 1], & none = refs[stream * 16 + 0];
   if (got.dump != ref.dump) { R.status = 2; R.key = "cut:state-differs-from-in-process-departure:" + where; R.msg = verif::Fmt("after a cut at byte %zu (%d command(s) wholly sent) the server state differs from 'those commands, then X leaves' run in-process: ", k, m) + c06::FirstDiff(got.dump, ref.dump); return R; }
   if (got.dump != none.dump) { R.status = 2; R.key = "cut:departure-leaves-trace:" + where; R.msg = verif::Fmt("after a cut at byte %zu the server state differs from a server X never connected to: ", k) + c06::FirstDiff(got.dump, none.dump); return R; }
   for (int i = 0; i < 2; i++) if (got.mirror[i] != ref.mirror[i]) { R.status = 2; R.key = "cut:mirror-differs:" + where; R.msg = std::string("mirror of ") + (i ? "B" : "A") + " differs from the in-process reference; socket run:\n" + got.mirror[i] + "reference:\n" + ref.mirror[i]; return R; }
   int matched = -1;
   for (int mm = m; mm >= 0 && matched < 0; mm--) { const Observed & r = refs[stream * 16 + mm + 1]; if (got.inbox[0] == r.inbox[0] && got.inbox[1] == r.inbox[1]) matched = mm; }
   if (matched < 0) { R.status = 2; R.key = "cut:notifications-differ:" + where; R.msg = verif::Fmt("what A and B were sent matches no in-process run of 0..%d commands followed by X's departure; A: [", m) + got.inbox[0] + "] B: [" + got.inbox[1] + "] reference for " + l1::U32((uint32_t)m) + " commands: A: [" + ref.inbox[0] + "] B: [" + ref.inbox[1] + "]"; return R; }
   R.partialConsumption = (matched < m);
   R.outcome = got.inbox[0] + "#" + got.inbox[1] + "#" + l1::U32((uint32_t)matched);
   return R;
}

struct CaseId { int stream, variant; size_t k; };
static std::vector<CaseId> AllCases(std::vector<size_t> & lens)
{
   std::vector<CaseId> v; lens.clear();
   for (int s = 0; s < NSTREAM; s++) {
      std::vector<size_t> ends; const size_t len = Frame(s, ends).size(); lens.push_back(len);
      for (int var = 0; var < NVARIANT; var++) for (size_t k = 0; k <= len; k++) { CaseId c; c.stream = s; c.variant = var; c.k = k; v.push_back(c); }
   }
   return v;
}
static std::string CaseJson(const CaseId & c) { return verif::Fmt("{\"harness\": \"C06_isolation\", \"part\": \"cut-at-every-byte\", \"stream\": %d, \"variant\": %d, \"k\": %zu, \"variant_name\": ", c.stream, c.variant, c.k) + verif::JStr(kVariant[c.variant]) + ", \"stream_name\": " + verif::JStr(kStream[c.stream]); }

static void Run(const verif::Args & args, verif::Result & res, double absDeadline)
{
   const double t0 = verif::NowS();
   // the case list is computed in a child so that the parent stays free of live muscle state
   std::vector<CaseId> cases; std::vector<size_t> lens;
   {
      std::vector<verif::ParRecord> recs;
      verif::ParMap(1, 1, [&](size_t, std::string & rec) { std::vector<size_t> l; (void) AllCases(l); rec.assign((const char *)&l[0], l.size() * sizeof(size_t)); }, recs);
      if (recs.size() != 1 || recs[0].data.size() != NSTREAM * sizeof(size_t)) { res.infra_errors.push_back("cut-at-every-byte: could not frame the streams"); return; }
      lens.resize(NSTREAM); memcpy(&lens[0], recs[0].data.data(), NSTREAM * sizeof(size_t));
      for (int s = 0; s < NSTREAM; s++) for (int var = 0; var < NVARIANT; var++) for (size_t k = 0; k <= lens[s]; k++) { CaseId c; c.stream = s; c.variant = var; c.k = k; cases.push_back(c); }
   }
   std::vector<verif::ParRecord> recs; std::vector<size_t> lost;
   const bool ok = verif::ParMap(cases.size(), args.workers, [&](size_t i, std::string & rec) {
      CaseResult r = RunCase(cases[i].stream, cases[i].variant, cases[i].k);
      int32_t hdr[2] = { r.status, r.partialConsumption ? 1 : 0 }; rec.append((const char *)hdr, 8);
      verif::Hash128 h = verif::HashStr(r.outcome); rec.append((const char *)&h, sizeof(h));
      rec.append(r.key); rec.push_back('\0'); rec.append(r.msg); rec.push_back('\0');
   }, recs, &lost, [absDeadline]() { return verif::NowS() > absDeadline; });
   verif::Part p; p.name = "cut-at-every-byte";
   std::set<verif::Hash128> outcomes; std::map<std::string, int> perKey; uint64_t partial = 0, viol = 0; int recorded = 0;
   for (size_t r = 0; r < recs.size(); r++) {
      const std::string & d = recs[r].data; int32_t hdr[2]; memcpy(hdr, d.data(), 8); verif::Hash128 h; memcpy(&h, d.data() + 8, sizeof(h));
      const std::string key = d.c_str() + 8 + sizeof(h); const std::string msg = d.c_str() + 8 + sizeof(h) + key.size() + 1;
      const CaseId & c = cases[recs[r].idx];
      if (hdr[0] == 0) { outcomes.insert(h); if (hdr[1]) partial++; continue; }
      if (hdr[0] < 0) { res.infra_errors.push_back("cut-at-every-byte: " + msg + " " + CaseJson(c) + "}"); continue; }
      viol++;
      if (perKey[key]++ < 2 && recorded++ < 16) res.AddViolation(key, "cut-at-every-byte: " + msg, res.WriteReplay(args, "cut", CaseJson(c) + ", \"observed\": " + verif::JStr(msg) + "}"));   // (all are counted in violating_cases)
   }
   for (size_t i = 0; i < lost.size() && i < 16; i++) {
      // a worker died on this case (sanitizer report, abort): attribute it
      const CaseId & c = cases[lost[i]];
      pid_t pid = fork();
      if (pid == 0) { int dn = open("/dev/null", O_WRONLY); if (dn >= 0) dup2(dn, 2); (void) RunCase(c.stream, c.variant, c.k); _exit(0); }
      int st = 0; waitpid(pid, &st, 0);
      if (!(WIFEXITED(st) && WEXITSTATUS(st) == 0)) {
         std::vector<size_t> ends;   // position class needs the frame: recompute in a child is overkill; name the variant and offset
         const std::string what = WIFSIGNALED(st) ? verif::Fmt("sig%d", WTERMSIG(st)) : verif::Fmt("exit%d", WEXITSTATUS(st));
         const std::string key = "cut:fatal:" + what + ":" + kVariant[c.variant];
         viol++;
         if (perKey[key]++ < 3) res.AddViolation(key, "cut-at-every-byte: process death (" + what + "; 87=ASan, 88=UBSan) " + CaseJson(c) + "}", res.WriteReplay(args, "cut", CaseJson(c) + ", \"observed\": \"process death\"}"));
      }
   }
   p.states = recs.size(); p.transitions = recs.size(); p.evaluations = recs.size(); p.distinct_outcomes = outcomes.size();
   p.bound_completed = (ok && recs.size() == cases.size()) ? (int)(lens[0] > lens[1] ? (lens[0] > lens[2] ? lens[0] : lens[2]) : (lens[1] > lens[2] ? lens[1] : lens[2])) : -1;
   p.exhaustive = ok && recs.size() == cases.size();
   if (!p.exhaustive) p.cap = lost.empty() ? "deadline" : "worker death";
   p.wall_s = verif::NowS() - t0;
   p.rule = verif::Fmt("every (stream, delivery variant, prefix length k) with k = 0..len for %d framed command streams (%zu, %zu and %zu bytes) x %d variants (burst / read-then-cut / never-reads / byte-at-a-time): X attached over a real AF_UNIX socket pair with TCPSocketDataIO + MessageIOGateway, k bytes written, the harness end closed, ServerProcessLoop(0) stepped until X is detached (<=%d cycles); "
                       "final canonical dump == in-process 'the commands wholly contained in the prefix, then X leaves' == a server X never connected to; no subscriber entry of X; mirrors of A and B hold no node of X and equal the reference; notifications to A and B equal the in-process run for some m' <= m commands",
                       NSTREAM, lens[0], lens[1], lens[2], NVARIANT, (int)MAX_STEPS_TO_DETACH);
   for (int s = 0; s < 3 && !cases.empty(); s++) p.samples.push_back(CaseJson(cases[(size_t)(((uint64_t)args.seed * 7919u + (uint64_t)s * 104729u + 97u) % cases.size())]) + "}");
   p.extra["stream_lengths"] = verif::Fmt("[%zu,%zu,%zu]", lens[0], lens[1], lens[2]);
   p.extra["violating_cases"] = verif::Fmt("%llu", (unsigned long long)viol);
   p.extra["cases_where_the_server_consumed_fewer_commands_than_were_wholly_sent"] = verif::Fmt("%llu", (unsigned long long)partial);
   res.parts.push_back(p);
   if (partial) res.observations.push_back(verif::Fmt("part 3: in %llu of %zu cuts the server processed fewer commands than had been wholly written before the close (it noticed the closed peer while writing); final state and notifications were consistent with that smaller number", (unsigned long long)partial, recs.size()));
}

static int ReplayFile(const verif::ReplayDoc & d)
{
   const int stream = (int)d.Int("stream"), variant = (int)d.Int("variant"); const size_t k = (size_t)d.Int("k");
   if (stream < 0 || stream >= NSTREAM || variant < 0 || variant >= NVARIANT) { fprintf(stderr, "bad replay file\n"); return 3; }
   CaseResult r = RunCase(stream, variant, k);
   printf("replay part=cut-at-every-byte stream=%d %s variant=%s k=%zu\nresult: %s %s %s\n", stream, kStream[stream], kVariant[variant], k, r.status == 0 ? "OK" : r.status == 2 ? "VIOLATION" : "INFRA", r.key.c_str(), r.msg.c_str());
   return r.status == 0 ? 0 : 1;
}

}  // namespace cut

#endif
