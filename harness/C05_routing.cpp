// C05 -- A routed Message reaches exactly the sessions its patterns select, once each; traversal == brute force.
//
// MUTX over the in-process reflector (harness/reflector_l1.h): every case builds a FRESH real ReflectServer with 2-4 real
// StorageReflectSessions on 2 hosts (roles A=(hA,1) B=(hA,2) C=(hB,3) D=(hB,4)) and one of 8 fixed forests (SETDATA only).
//
// Part "routing".  One case = (forest, pattern set, filter mode, reflect-to-self flag, addressing mode).  Addressing modes:
//   keys           the Message carries the pattern set in PR_NAME_KEYS (+ one PR_NAME_FILTERS archive per key, or none at all)
//   default-route  every session first sets the pattern set as its PR_NAME_KEYS/PR_NAME_FILTERS PARAMETER, the Message has no keys
//   route-removed  as before, then REMOVEPARAMETERS of both -> broadcast again
//   no-keys        no keys, no parameter -> broadcast
// In every case EVERY session sends a run of 3 Messages (seq 0,1,2), interleaved round-robin (A0 B0 C0 A1 B1 C1 ...); Message 0
// has no PR_NAME_SESSION field, Message 1 carries a FORGED one naming another session, Message 2 a forged one naming nobody.
// Then every client's queue is drained.  Oracle, for every ordered pair (sender s, receiver r):
//   the copies r got from s are exactly seq 0,1,2 in this order  iff  (r != s or reflect-to-self) and
//       [keys / default-route]  r owns >= 1 node (its session directory /host/id counts as its node, host nodes belong to nobody)
//                               whose FULL path matches >= 1 pattern clause-wise (ref/refmatch.h) with the same number of clauses,
//                               and whose PAYLOAD passes that pattern's filter
//       [no-keys / route-removed]  always (broadcast);
//   nothing otherwise; PR_NAME_SESSION of every delivered copy, when present, is the true sender's id, and it is present whenever
//   the sender supplied (forged) it; no client is sent anything else.
//
// Part "traversal".  One case = (forest, pattern set, filter mode).  A Session SUBCLASS (TravSession, installed through
// L1World::makeSession) runs the protected NodePathMatcher::DoTraversal exactly like the server's own handlers do
// (PutPathsFromMessage + DoTraversal with a DECLARE_MUSCLE_TRAVERSAL_CALLBACK callback that records the visited node and returns
// node.GetDepth() = "continue as usual"): from the global root with the implicit "*/*" prefix rule (GETDATA / routing), with
// filters used and (filter modes > 0) with filters ignored, and from every session's directory with relative patterns and no
// prefix (REMOVEDATA); single patterns additionally through FindMatchingNodes.  Three-way comparison per traversal:
//   V = visited set (no node twice)  ==  M = {nodes below the root whose path passes the same matcher's PathMatcher::MatchesPath}
//                                    ==  R = {nodes the reference accepts}.     V != M: traversal defect;  M != R: matcher defect.
//
// DOMAIN of the comparison (everything else is executed for crash-freedom / sanitizers only): every key is non-empty and every
// clause of it is a non-empty, well-formed pattern of the documented simple syntax (refmatch::Parse says so: no backslash before
// an ordinary character, no raw-regex characters, no backtick prefix, ...); two keys of one Message that denote the same
// absolute path ("a" and "/*/*/a") carry the same filter.  Filters are given per key or not at all (no reliance on "bleed-down").
#include "harness/reflector_l1.h"
#include "ref/refmatch.h"
#include "engines/mutx/mutx.h"
#include <sys/resource.h>

using l1::MessageRef;
using muscle::DataNode;
using muscle::StorageReflectSession;

// ------------------------------------------------------------------------------------------------ fixed data
enum { NROLE = 4 };
static const char * kHost[NROLE] = { "hA", "hA", "hB", "hB" };
static const char kRoleCh[NROLE] = { 'A', 'B', 'C', 'D' };
static uint32_t IdOf(int role) { return (uint32_t)role + 1; }

enum { PE = 0, PW = 1, PV1 = 2, PV2 = 3, PWV = 4, NPAY = 5 };   // payloads: {what 0}, {what 42}, {pyld v=1}, {pyld v=2}, {what 42, v=1}
static const char * kPayName[NPAY] = { "{}", "{what42}", "{v=1}", "{v=2}", "{what42,v=1}" };
static MessageRef MakePayload(int p)
{
   switch (p) {
      case PW: return l1::EmptyPayload(42);
      case PV1: return l1::Payload(1);
      case PV2: return l1::Payload(2);
      case PWV: { MessageRef m = l1::NewMsg(42); (void) m()->AddInt32("v", 1); return m; }
      default: return l1::EmptyPayload(0);
   }
}
enum { FK_NONE = 0, FK_W42 = 1, FK_V1 = 2 };
static const char * kFkName[3] = { "-", "what==42", "v==1" };
static bool RefFilterAccepts(int fk, int pay) { return fk == FK_NONE ? true : fk == FK_W42 ? (pay == PW || pay == PWV) : (pay == PV1 || pay == PWV); }
static MessageRef MakeFilter(int fk) { return fk == FK_W42 ? l1::WhatCodeFilter(42, 42) : fk == FK_V1 ? l1::Int32Filter("v", (uint8_t)muscle::Int32QueryFilter::OP_EQUAL_TO, 1) : MessageRef(); }

// filter modes: 0 no PR_NAME_FILTERS field at all; 1 what==42 on every key; 2 v==1 on every key;
//               3 (>= 2 keys) what==42 on key 0, explicit "no filter" (empty archive, the server's own idiom) on the others; 4 (>= 2 keys) no filter on key 0, v==1 on the others
enum { NFMODE_SINGLE = 3, NFMODE_MULTI = 5 };
static int FilterKindForKey(int fmode, size_t j) { switch (fmode) { case 1: return FK_W42; case 2: return FK_V1; case 3: return j == 0 ? FK_W42 : FK_NONE; case 4: return j == 0 ? FK_NONE : FK_V1; default: return FK_NONE; } }
static std::string FilterModeText(int fmode) { static const char * t[5] = { "none", "what==42 on every key", "v==1 on every key", "what==42 on key 0 only", "v==1 on every key but key 0" }; return t[fmode]; }

struct NodeDef { int role; const char * path; int pay; };
struct ForestDef { const char * name; int nSess; NodeDef nodes[12]; };   // nodes terminated by role -1; parents before children
static const ForestDef kForest[] = {
   { "two-sessions",         2, { {0,"a",PV1}, {0,"b",PV2}, {1,"a",PW}, {-1,0,0} } },
   { "nested-4",             4, { {0,"a",PV1}, {0,"b",PW}, {0,"ab",PV2}, {0,"a/c",PV1}, {1,"a/c",PW}, {1,"1",PV1}, {2,"12",PV1}, {2,"1",PW}, {3,"b",PV2}, {-1,0,0} } },
   { "literal-star",         3, { {0,"a*",PV1}, {0,"a",PV2}, {0,"ab",PW}, {1,"ab",PV1}, {2,"a*/c",PV1}, {-1,0,0} } },
   { "numbers",              4, { {0,"1",PV1}, {0,"3",PW}, {0,"12",PV2}, {1,"5",PV1}, {1,"6",PW}, {2,"12/1",PV1}, {2,"12/a",PW}, {3,"a",PV1}, {-1,0,0} } },
   { "conspiracy",           3, { {0,"a/c",PV1}, {1,"a/12",PV1}, {1,"ab/b",PW}, {2,"a/c/d",PV1}, {2,"a/b/d",PW}, {2,"b/c/d",PV2}, {-1,0,0} } },
   { "same-names-two-hosts", 4, { {0,"a",PV1}, {1,"a",PV1}, {2,"a",PV1}, {3,"a",PW}, {3,"a/c",PV1}, {-1,0,0} } },
   { "one-rich-session",     3, { {0,"a",PV1}, {0,"b",PW}, {0,"ab",PV2}, {0,"c",PWV}, {0,"1",PV1}, {0,"12",PW}, {0,"a*",PV2}, {2,"c",PV1}, {-1,0,0} } },
   { "deep-and-wide",        4, { {0,"a/a/a",PV1}, {0,"a/b",PW}, {0,"b/a/a",PV2}, {1,"ab/1/a",PV1}, {1,"ab/12",PW}, {2,"1/a",PV1}, {2,"1/b/c",PW}, {2,"3",PV2}, {3,"c",PV1}, {3,"c/c/c",PWV}, {-1,0,0} } },
};
enum { NFOREST = sizeof(kForest) / sizeof(kForest[0]) };

// ------------------------------------------------------------------------------------------------ reference forest + reference matcher
static std::vector<std::string> SplitPath(const std::string & p)   // "a/b" or "/a/b" -> [a,b]; empty clauses are kept
{
   std::vector<std::string> v; size_t pos = (!p.empty() && p[0] == '/') ? 1 : 0;
   while (pos <= p.size()) { size_t e = p.find('/', pos); if (e == std::string::npos) e = p.size(); v.push_back(p.substr(pos, e - pos)); pos = e + 1; }
   return v;
}
static std::string JoinPath(const std::vector<std::string> & v, size_t from = 0) { std::string o; for (size_t i = from; i < v.size(); i++) { if (i > from) o += "/"; o += v[i]; } return o; }

struct RNode { int owner; std::vector<std::string> segs; int pay; std::string full; };   // owner -1: host node
static std::vector<RNode> g_ref[NFOREST];
static void BuildRefForests()
{
   for (int f = 0; f < (int)NFOREST; f++) {
      std::map<std::string, RNode> m;
      for (int r = 0; r < kForest[f].nSess; r++) {
         RNode h; h.owner = -1; h.pay = PE; h.segs.push_back(kHost[r]); h.full = "/" + JoinPath(h.segs); m[h.full] = h;
         RNode s; s.owner = r; s.pay = PE; s.segs.push_back(kHost[r]); s.segs.push_back(l1::U32(IdOf(r))); s.full = "/" + JoinPath(s.segs); m[s.full] = s;
      }
      for (const NodeDef * d = kForest[f].nodes; d->role >= 0; d++) {
         std::vector<std::string> c = SplitPath(d->path);
         RNode n; n.owner = d->role; n.segs.push_back(kHost[d->role]); n.segs.push_back(l1::U32(IdOf(d->role)));
         for (size_t i = 0; i < c.size(); i++) {
            n.segs.push_back(c[i]); n.full = "/" + JoinPath(n.segs);
            if (i + 1 == c.size()) { n.pay = d->pay; m[n.full] = n; } else if (!m.count(n.full)) { n.pay = PE; m[n.full] = n; }   // SETDATA a/b creates a missing "a" with the empty payload
         }
      }
      for (std::map<std::string, RNode>::const_iterator it = m.begin(); it != m.end(); ++it) {
         for (size_t i = 0; i < it->second.segs.size(); i++) { const std::string & s = it->second.segs[i]; if (s.empty() || (s[0] >= '0' && s[0] <= '9' && !refmatch::detail::AllDigits(s))) { fprintf(stderr, "C05: forest node name outside the reference's subject domain\n"); exit(3); } }
         g_ref[f].push_back(it->second);
      }
   }
}

struct ParsedKey { bool ok; std::string norm; std::vector<refmatch::Pattern> cl; ParsedKey() : ok(false) {} };
// global: the key as a routed Message / GETDATA / default route reads it (leading '/' = absolute, otherwise "*/*/" is prepended);
// !global: relative to a session directory, taken as it is (REMOVEDATA); keys with a leading '/' are not used there
static ParsedKey ParseKey(const std::string & key, bool global)
{
   ParsedKey p; if (key.empty()) return p;
   std::string s = key;
   if (global) { if (s[0] == '/') s = s.substr(1); else s = "*/*/" + s; } else if (s[0] == '/') return p;
   p.norm = s; p.ok = true;
   const std::vector<std::string> c = SplitPath(s);
   for (size_t i = 0; i < c.size(); i++) { if (c[i].empty()) { p.ok = false; return p; } refmatch::Pattern q = refmatch::Parse(c[i]); if (!q.inDomain) { p.ok = false; return p; } p.cl.push_back(q); }
   return p;
}
static bool KeyMatches(const ParsedKey & p, const std::vector<std::string> & segs, size_t from = 0)
{
   if (segs.size() - from != p.cl.size()) return false;
   for (size_t i = 0; i < p.cl.size(); i++) if (!refmatch::Match(p.cl[i], segs[from + i])) return false;
   return true;
}

// ------------------------------------------------------------------------------------------------ the enumerated space
enum { K_KEYS = 0, K_ROUTE = 1, K_ROUTE_REMOVED = 2, K_NONE = 3 };
static const char * kKindName[4] = { "keys", "default-route", "route-removed", "no-keys" };
struct PatSet { std::vector<std::string> keys; const char * group; };
struct CaseDef { uint32_t set; uint8_t forest, kind, fmode, self; };
static std::vector<PatSet> g_sets;
static std::vector<CaseDef> g_routing, g_trav;
static std::map<std::string, uint64_t> g_groupCount;

static uint32_t AddSet(const std::vector<std::string> & keys, const char * group) { PatSet p; p.keys = keys; p.group = group; g_sets.push_back(p); g_groupCount[group]++; return (uint32_t)g_sets.size() - 1; }
static uint32_t AddSet1(const std::string & k, const char * group) { return AddSet(std::vector<std::string>(1, k), group); }
static void AllSeqs(const char * const * alpha, int n, int len, const std::string & prefix, const char * group, std::vector<uint32_t> & out)
{
   std::vector<int> idx((size_t)len, 0);
   while (true) {
      std::string k = prefix; for (int i = 0; i < len; i++) { if (i) k += "/"; k += alpha[idx[(size_t)i]]; }
      out.push_back(AddSet1(k, group));
      int p = len - 1; while (p >= 0 && ++idx[(size_t)p] == n) { idx[(size_t)p] = 0; p--; }
      if (p < 0) break;
   }
}

// clause alphabet: literal, escaped literal (node "a*"), *, ?, prefix*, class, group, comma lists, negation, ranges
static const char * A16[] = { "a", "ab", "1", "a\\*", "*", "?", "a*", "[ab]", "(a|b)", "a,b", "~a", "<1-5>", "<3->", "c", "12", "b,d" };
static const char * A8[] = { "a", "*", "c", "~a", "(a|b)", "b,d", "?", "<1-5>" };   // subset of A16
static const char * kAbsPrefix[] = { "/*/*/", "/hA/*/", "/*/<2-3>/", "/h?/~1/", "/hB/4/", "/(hA|hB)/1,3/" };
// the subset whose ordered pairs are enumerated: mixed depths, literal-only levels next to wildcard levels (fast-path decision), same-depth pairs (conspiracy guard)
static const char * kPair40[] = {
   "a", "b", "ab", "*", "a*", "~a", "a,b", "(a|b)", "<1-5>", "a\\*", "?", "[ab]", "12", "1",
   "a/c", "a/12", "ab/~a", "*/c", "a/*", "a*/c", "(a|b)/c", "a,ab/c", "~a/*", "12/<1-5>", "a/b", "ab/b", "*/*",
   "a/c/d", "*/*/d", "a/*/d", "b/c/*", "a/b,c/d", "*/*/*",
   "/hA/*/a", "/*/<2-3>/*", "/hB/*/a/c", "/*/1/a*", "/h?/~1/a/*", "/*/*/1", "/hA/2/ab/12" };
static const char * kPairMore[] = {   // thorough: added to the 40
   "c", "<3->", "b,d", "a,1", "ab,12", "~b", "~ab", "a?", "*b", "[a-c]", "(a|ab|1)", "3",
   "a/a", "b/a", "c/c", "1/a", "1/b", "ab/1", "ab/12", "*/a", "*/b", "~a/~a", "a,b/a,b", "a,b/c", "?/?", "a/~c", "(a|b)/(a|c)", "a*/*", "<1-5>/*", "1/*", "12/a", "12/1",
   "a/a/a", "b/a/a", "*/a/a", "a,b/a/a", "c/c/c", "ab/1/a", "ab/<1-5>/a", "1/b/c", "*/b/*", "~a/*/*", "a/c,b/d", "?/c/d",
   "/hB/*/*", "/*/4/c", "/hA/1/a/a/a", "/hB/<3-4>/1/*", "/*/*/a/c", "/~hA/*/a" };
static const char * kTriple12[] = { "a", "*", "~a", "a/c", "a/12", "ab/~a", "*/c", "a/*", "a/c/d", "*/*/d", "/hA/*/a", "/*/<2-3>/*" };
// patterns that select session directories / host nodes (absolute, 1 or 2 clauses), alone and paired with patterns below the directory
static const char * kSessNode[] = { "/*/*", "/hA/*", "/*/<2-3>", "/hA/1", "/h?/?", "/*", "/hA" };
static const char * kSessPartner[] = { "a", "*", "a/c", "~a", "*/*", "/hB/*/a" };
// outside the compared domain: executed for crash-freedom only
static const char * kOutOfDomain[] = { "a//b", "a/", "/", "//", "/a//", "`a.*", "\\a", "a/(b", "a/[", "<x>", "~", "a/~", "*/", "/*/*/" };

static void BuildSpace(bool thorough)
{
   std::vector<uint32_t> singles, multis, routeSets, removedSets;
   // singles, implicit prefix
   AllSeqs(A16, 16, 1, "", "single:implicit-prefix", singles);
   AllSeqs(A16, 16, 2, "", "single:implicit-prefix", singles);
   if (thorough) AllSeqs(A16, 16, 3, "", "single:implicit-prefix", singles); else AllSeqs(A8, 8, 3, "", "single:implicit-prefix", singles);
   // singles, absolute
   const int nPrefix = thorough ? 6 : 4;
   for (int p = 0; p < nPrefix; p++) {
      AllSeqs(A16, 16, 1, kAbsPrefix[p], "single:absolute", singles);
      AllSeqs(A16, 16, 2, kAbsPrefix[p], "single:absolute", singles);
      if (thorough) AllSeqs(A8, 8, 3, kAbsPrefix[p], "single:absolute", singles);
   }
   for (size_t i = 0; i < sizeof(kSessNode) / sizeof(kSessNode[0]); i++) singles.push_back(AddSet1(kSessNode[i], "single:session-or-host-node"));
   for (size_t i = 0; i < sizeof(kOutOfDomain) / sizeof(kOutOfDomain[0]); i++) singles.push_back(AddSet1(kOutOfDomain[i], "single:out-of-domain"));
   // ordered pairs
   std::vector<std::string> ps; for (size_t i = 0; i < sizeof(kPair40) / sizeof(kPair40[0]); i++) ps.push_back(kPair40[i]);
   if (thorough) for (size_t i = 0; i < sizeof(kPairMore) / sizeof(kPairMore[0]); i++) ps.push_back(kPairMore[i]);
   for (size_t i = 0; i < ps.size(); i++) for (size_t j = 0; j < ps.size(); j++) if (i != j) { std::vector<std::string> k; k.push_back(ps[i]); k.push_back(ps[j]); multis.push_back(AddSet(k, "pair")); }
   for (size_t i = 0; i < sizeof(kSessNode) / sizeof(kSessNode[0]); i++) for (size_t j = 0; j < sizeof(kSessPartner) / sizeof(kSessPartner[0]); j++) for (int o = 0; o < 2; o++) {
      std::vector<std::string> k; k.push_back(o ? kSessPartner[j] : kSessNode[i]); k.push_back(o ? kSessNode[i] : kSessPartner[j]); multis.push_back(AddSet(k, "pair:session-or-host-node+other"));
   }
   { static const char * bad[][3] = { { "a[", "a", NULL }, { "a", "a/(b", "b" }, { "[oops", "/*/*/a", NULL }, { "a/[", "b", NULL }, { "b", "a[", NULL } };   // a malformed key before / between / after well-formed ones
     for (size_t i = 0; i < sizeof(bad) / sizeof(bad[0]); i++) { std::vector<std::string> k; for (int j = 0; j < 3 && bad[i][j]; j++) k.push_back(bad[i][j]); multis.push_back(AddSet(k, "multi:malformed+well-formed")); } }
   { std::vector<std::string> k; k.push_back("a"); k.push_back("a//b"); multis.push_back(AddSet(k, "pair:out-of-domain")); k[0] = ""; k[1] = "a"; multis.push_back(AddSet(k, "pair:out-of-domain")); }
   // ordered triples
   const size_t nT = thorough ? 12 : 6;
   for (size_t a = 0; a < nT; a++) for (size_t b = 0; b < nT; b++) for (size_t c = 0; c < nT; c++) if (a != b && a != c && b != c) {
      std::vector<std::string> k; k.push_back(kTriple12[a]); k.push_back(kTriple12[b]); k.push_back(kTriple12[c]); multis.push_back(AddSet(k, "triple"));
   }
   // default routes: the 40 + the session-node patterns alone, ordered pairs of the 12
   for (size_t i = 0; i < sizeof(kPair40) / sizeof(kPair40[0]); i++) routeSets.push_back(AddSet1(kPair40[i], "route:single"));
   for (size_t i = 0; i < sizeof(kSessNode) / sizeof(kSessNode[0]); i++) routeSets.push_back(AddSet1(kSessNode[i], "route:single"));
   for (size_t a = 0; a < 12; a++) for (size_t b = 0; b < 12; b++) if (a != b) { std::vector<std::string> k; k.push_back(kTriple12[a]); k.push_back(kTriple12[b]); routeSets.push_back(AddSet(k, "route:pair")); }
   { const char * r4[] = { "a", "/hA/*", "a/c", "*/*/d" }; for (int i = 0; i < 4; i++) removedSets.push_back(AddSet1(r4[i], "route:set-then-removed")); }
   const uint32_t emptySet = AddSet(std::vector<std::string>(), "no-keys");

   for (int f = 0; f < (int)NFOREST; f++) {
      CaseDef c; c.forest = (uint8_t)f;
      for (int pass = 0; pass < 2; pass++) {
         const std::vector<uint32_t> & v = pass ? multis : singles;
         for (size_t i = 0; i < v.size(); i++) {
            c.set = v[i]; c.kind = K_KEYS;
            const int nf = (g_sets[v[i]].keys.size() > 1) ? NFMODE_MULTI : NFMODE_SINGLE;
            for (int fm = 0; fm < nf; fm++) { c.fmode = (uint8_t)fm; c.self = 0; g_trav.push_back(c); for (int s = 0; s < 2; s++) { c.self = (uint8_t)s; g_routing.push_back(c); } }
         }
      }
      for (size_t i = 0; i < routeSets.size(); i++) {
         c.set = routeSets[i]; c.kind = K_ROUTE;
         const int nf = (g_sets[routeSets[i]].keys.size() > 1) ? NFMODE_MULTI : NFMODE_SINGLE;
         for (int fm = 0; fm < nf; fm++) for (int s = 0; s < 2; s++) { c.fmode = (uint8_t)fm; c.self = (uint8_t)s; g_routing.push_back(c); }
      }
      for (size_t i = 0; i < removedSets.size(); i++) for (int fm = 0; fm < 2; fm++) for (int s = 0; s < 2; s++) { c.set = removedSets[i]; c.kind = K_ROUTE_REMOVED; c.fmode = (uint8_t)fm; c.self = (uint8_t)s; g_routing.push_back(c); }
      for (int s = 0; s < 2; s++) { c.set = emptySet; c.kind = K_NONE; c.fmode = 0; c.self = (uint8_t)s; g_routing.push_back(c); }
   }
}

static std::string CaseJson(const CaseDef & c)
{
   const PatSet & ps = g_sets[c.set];
   return verif::Fmt("{\"_\": 0, \"forest\": %d, \"forest_name\": ", (int)c.forest) + verif::JStr(kForest[c.forest].name) + ", \"mode\": " + verif::JStr(kKindName[c.kind]) + ", \"keys\": " + verif::JStrArray(ps.keys)
        + verif::Fmt(", \"filter_mode\": %d, \"filters\": ", (int)c.fmode) + verif::JStr(FilterModeText(c.fmode)) + verif::Fmt(", \"reflect_to_self\": %d, \"group\": ", (int)c.self) + verif::JStr(ps.group) + "}";
}
static std::string RoutingDesc(size_t i) { return CaseJson(g_routing[i]); }
static std::string TravDesc(size_t i) { return CaseJson(g_trav[i]); }

struct Counters { volatile uint64_t routed, pairChecks, copies, routingCompared, routingUncompared, traversals, visits, nodeTests, travCompared, travUncompared; };
static Counters * g_cnt = NULL;
#define ADD(field, n) __sync_fetch_and_add(&g_cnt->field, (uint64_t)(n))

// ------------------------------------------------------------------------------------------------ the real world
class TravSession : public l1::Session
{
public:
   explicit TravSession(const std::string & host) : l1::Session(host) {}
   DECLARE_MUSCLE_TRAVERSAL_CALLBACK(TravSession, RecordCallback);
   // what a StorageReflectSession subclass does to act on "all nodes matching these keys" (cf. DoGetData / DoRemoveData)
   uint32_t Traverse(NodePathMatcher & m, const muscle::Message & keysMsg, const char * prependIfNoLeadingSlash, muscle::DataNode & root, bool useFilters, std::vector<std::string> & visited)
   {
      (void) m.PutPathsFromMessage(PR_NAME_KEYS, PR_NAME_FILTERS, keysMsg, prependIfNoLeadingSlash);
      return m.DoTraversal((PathMatchCallback)RecordCallbackFunc, this, root, useFilters, &visited);
   }
};
int TravSession::RecordCallback(muscle::DataNode & node, void * userData)
{
   muscle::String np; (void) node.GetNodePath(np);
   static_cast<std::vector<std::string> *>(userData)->push_back(np());
   return (int)node.GetDepth();   // "to allow the traversal to continue normally, return node.GetDepth()"
}
static l1::Session * MakeTravSession(int, const std::string & host) { return new TravSession(host); }

static void AddKeysAndFilters(const MessageRef & m, const std::vector<std::string> & keys, int fmode)
{
   for (size_t j = 0; j < keys.size(); j++) (void) m()->AddString(PR_NAME_KEYS, keys[j].c_str());
   if (fmode != 0) for (size_t j = 0; j < keys.size(); j++) { MessageRef f = MakeFilter(FilterKindForKey(fmode, j)); (void) m()->AddMessage(PR_NAME_FILTERS, f() ? f : l1::NewMsg(0)); }
}

// "" when the server's tree (in-process walk, host and session nodes included) equals the reference forest
static std::string TreeDiff(const l1::L1World & w, int f)
{
   static std::string payBytes[NPAY]; if (payBytes[0].empty()) for (int i = 0; i < NPAY; i++) payBytes[i] = l1::Flat(MakePayload(i));
   const std::map<std::string, std::string> walk = w.WalkTree(1);
   std::string diff;
   for (size_t i = 0; i < g_ref[f].size(); i++) { std::map<std::string, std::string>::const_iterator it = walk.find(g_ref[f][i].full); if (it == walk.end()) diff += " missing " + g_ref[f][i].full; else if (it->second != payBytes[g_ref[f][i].pay]) diff += " wrong payload at " + g_ref[f][i].full; }
   if (walk.size() != g_ref[f].size()) diff += " (server has " + l1::U32((uint32_t)walk.size()) + " nodes, reference " + l1::U32((uint32_t)g_ref[f].size()) + ")";
   return diff.empty() ? diff : "forest on the server differs from the reference forest:" + diff;
}
// attaches the sessions and builds the forest; "" or an error text
static std::string BuildWorld(l1::L1World & w, int f)
{
   const ForestDef & F = kForest[f];
   for (int r = 0; r < F.nSess; r++) if (!w.Attach(r, kHost[r], IdOf(r))) return "attach failed";
   for (const NodeDef * d = F.nodes; d->role >= 0; d++) w.Inject(d->role, l1::SetData(d->path, MakePayload(d->pay)));
   { const std::string diff = TreeDiff(w, f); if (!diff.empty()) return diff; }
   for (int r = 0; r < F.nSess; r++) if (w.Pending(r)) return std::string("client ") + kRoleCh[r] + " was sent " + l1::MsgText(w.Drain(r)[0]) + " while the forest was built (nobody is subscribed)";
   return "";
}

static std::string KeysText(const PatSet & ps, int fmode)
{
   std::string o = "[";
   for (size_t j = 0; j < ps.keys.size(); j++) { if (j) o += ", "; o += l1::Quote(ps.keys[j]); if (fmode) o += std::string(" {") + kFkName[FilterKindForKey(fmode, j)] + "}"; }
   return o + "]";
}
static std::string ForestText(int f)
{
   std::string o;
   for (size_t i = 0; i < g_ref[f].size(); i++) if (g_ref[f][i].segs.size() >= 3) o += " " + g_ref[f][i].full + "=" + kPayName[g_ref[f][i].pay];
   return o;
}

// domain of the comparison + parsed keys
struct Judge {
   bool inDomain; std::string why; std::vector<ParsedKey> pk; std::vector<int> fk; bool allSameDepth;
   Judge(const PatSet & ps, int fmode, bool global) : inDomain(true), allSameDepth(true)
   {
      for (size_t j = 0; j < ps.keys.size(); j++) { pk.push_back(ParseKey(ps.keys[j], global)); fk.push_back(FilterKindForKey(fmode, j)); if (!pk.back().ok) { inDomain = false; why = "key " + l1::Quote(ps.keys[j]) + " is outside the documented pattern syntax"; } }
      if (inDomain) for (size_t i = 0; i < pk.size(); i++) for (size_t j = i + 1; j < pk.size(); j++) {
         if (pk[i].norm == pk[j].norm && fk[i] != fk[j]) { inDomain = false; why = "two keys denote the same path with different filters"; }
         if (pk[i].cl.size() != pk[j].cl.size()) allSameDepth = false;
      }
   }
   bool Accepts(const RNode & n, size_t from = 0, bool useFilters = true) const
   {
      for (size_t j = 0; j < pk.size(); j++) if (KeyMatches(pk[j], n.segs, from) && (!useFilters || RefFilterAccepts(fk[j], n.pay))) return true;
      return false;
   }
};

// ------------------------------------------------------------------------------------------------ part 1: routing
enum { RUN_LEN = 3, ROUTED_WHAT = 5000 };
static void RunRouting(const CaseDef & cd, mutx::Case & c)
{
   const PatSet & ps = g_sets[cd.set]; const int f = cd.forest; const int n = kForest[f].nSess;
   const std::string ctx = std::string("forest '") + kForest[f].name + "' [" + ForestText(f) + " ], mode " + kKindName[cd.kind] + ", keys " + KeysText(ps, cd.fmode) + ", reflect-to-self " + (cd.self ? "on" : "off") + ": ";
   l1::L1World w;
   { const std::string e = BuildWorld(w, f); if (!e.empty()) { c.Fail("harness:forest-build", ctx + e); return; } }
   if (cd.self) for (int r = 0; r < n; r++) { MessageRef m = l1::SetParameters(); l1::AddFlagParam(m, PR_NAME_REFLECT_TO_SELF); w.Inject(r, m); }
   if (cd.kind == K_ROUTE || cd.kind == K_ROUTE_REMOVED) for (int r = 0; r < n; r++) { MessageRef m = l1::SetParameters(); AddKeysAndFilters(m, ps.keys, cd.fmode); w.Inject(r, m); }
   if (cd.kind == K_ROUTE_REMOVED) for (int r = 0; r < n; r++) w.Inject(r, l1::RemoveParameters(l1::Keys(PR_NAME_KEYS, PR_NAME_FILTERS)));
   for (int r = 0; r < n; r++) if (w.Pending(r)) { c.Fail("routing:unexpected-message:after-setparameters", ctx + "client " + kRoleCh[r] + " was sent " + l1::MsgText(w.Drain(r)[0]) + " in reply to SETPARAMETERS without subscriptions"); return; }

   // every session sends its run, interleaved
   for (int k = 0; k < RUN_LEN; k++) for (int s = 0; s < n; s++) {
      MessageRef m = l1::NewMsg(ROUTED_WHAT + (uint32_t)k);
      if (cd.kind == K_KEYS) AddKeysAndFilters(m, ps.keys, cd.fmode);
      (void) m()->AddInt32("from", s); (void) m()->AddInt32("seq", k);
      if (k == 1) (void) m()->AddString(PR_NAME_SESSION, l1::U32(IdOf((s + 1) % n)).c_str());   // forged: another connected session
      if (k == 2) (void) m()->AddString(PR_NAME_SESSION, "999");                                // forged: nobody
      w.Inject(s, m); ADD(routed, 1);
   }

   // what arrived: got[s][r] = seq numbers of the copies r received from s, in arrival order
   std::vector<int> got[NROLE][NROLE]; std::string idErr, idKey;
   for (int r = 0; r < n; r++) {
      std::vector<MessageRef> q = w.Drain(r);
      for (size_t i = 0; i < q.size(); i++) {
         const muscle::Message & m = *q[i]();
         int32_t s = -1, k = -1;
         if (m.what < ROUTED_WHAT || m.what >= ROUTED_WHAT + RUN_LEN || m.FindInt32("from", s).IsError() || m.FindInt32("seq", k).IsError() || s < 0 || s >= n || k != (int32_t)(m.what - ROUTED_WHAT)) {
            c.Fail("routing:unexpected-message:" + l1::WhatText(m.what), ctx + "client " + kRoleCh[r] + " was sent something that is not one of the routed Messages: " + l1::MsgText(q[i])); return;
         }
         got[s][r].push_back(k); ADD(copies, 1);
         const muscle::String * sid = NULL; uint32_t type = 0, count = 0;
         const bool has = m.GetInfo(PR_NAME_SESSION, &type, &count).IsOK();
         if (has && idErr.empty()) {
            if (type != B_STRING_TYPE || count != 1 || m.FindString(PR_NAME_SESSION, &sid).IsError() || l1::U32(IdOf(s)) != (*sid)()) {
               idKey = (k == 0) ? "routing:sender-identity:field-added-with-wrong-value" : "routing:sender-identity:forged-field-not-corrected";
               idErr = std::string("copy of Message seq ") + l1::U32((uint32_t)k) + " from " + kRoleCh[s] + " (session id " + l1::U32(IdOf(s)) + ") delivered to " + kRoleCh[r] + " carries " + l1::MsgText(q[i]);
            }
         } else if (!has && k != 0 && idErr.empty()) { idKey = "routing:sender-identity:field-dropped"; idErr = std::string("copy of Message seq ") + l1::U32((uint32_t)k) + " from " + kRoleCh[s] + " delivered to " + kRoleCh[r] + " lost the PR_NAME_SESSION field the sender supplied: " + l1::MsgText(q[i]); }
      }
   }
   if (!TreeDiff(w, f).empty()) { c.Fail("routing:tree-changed-by-routed-message", ctx + "after the routed Messages the " + TreeDiff(w, f)); return; }
   std::string matrix;
   for (int s = 0; s < n; s++) for (int r = 0; r < n; r++) if (!got[s][r].empty()) { matrix += std::string(1, kRoleCh[s]) + ">" + kRoleCh[r] + ":"; for (size_t i = 0; i < got[s][r].size(); i++) matrix += (char)('0' + got[s][r][i]); matrix += " "; }
   c.Outcome(matrix);
   if (!idErr.empty()) { c.Fail(idKey, ctx + idErr); return; }

   // the reference's verdict
   const bool byKeys = (cd.kind == K_KEYS || cd.kind == K_ROUTE);
   const Judge J(ps, cd.fmode, true);
   if (byKeys && !J.inDomain) {
      ADD(routingUncompared, 1);
      // One-sided comparison: whatever a key outside the documented syntax means (it may be unparsable and select nothing), the OTHER keys of the same
      // Message keep their meaning -- a session that owns a node matched by one of the well-formed keys must be handed every Message (at least once).
      if (cd.fmode == 0) {
         bool lb[NROLE]; std::string lbText[NROLE]; for (int r = 0; r < n; r++) lb[r] = false;
         for (size_t i = 0; i < g_ref[f].size(); i++) { const RNode & nd = g_ref[f][i]; if (nd.owner < 0) continue; for (size_t j = 0; j < J.pk.size(); j++) if (J.pk[j].ok && KeyMatches(J.pk[j], nd.segs, 0)) { lb[nd.owner] = true; lbText[nd.owner] += " " + nd.full; break; } }
         for (int s = 0; s < n; s++) for (int r = 0; r < n; r++) if ((r != s || cd.self) && lb[r]) {
            int cnt[RUN_LEN] = { 0, 0, 0 }; for (size_t i = 0; i < got[s][r].size(); i++) cnt[got[s][r][i]]++;
            if (!(cnt[0] && cnt[1] && cnt[2])) { c.Fail("routing:missing-delivery:well-formed-key-next-to-a-malformed-key", ctx + std::string("sender ") + kRoleCh[s] + " -> receiver " + kRoleCh[r] + verif::Fmt(": received %d/%d/%d copies of seq 0/1/2 although the receiver owns", cnt[0], cnt[1], cnt[2]) + lbText[r] + ", matched by a well-formed key of the same Message (" + J.why + "); all deliveries: " + matrix); return; }
         }
      }
      return;
   }
   ADD(routingCompared, 1);
   bool owns[NROLE], sessNode[NROLE]; int nMatch[NROLE]; std::set<std::string> tops[NROLE]; std::string matchText[NROLE];
   for (int r = 0; r < n; r++) { owns[r] = !byKeys; sessNode[r] = false; nMatch[r] = 0; }
   if (byKeys) for (size_t i = 0; i < g_ref[f].size(); i++) {
      const RNode & nd = g_ref[f][i]; if (nd.owner < 0 || !J.Accepts(nd)) continue;
      owns[nd.owner] = true; matchText[nd.owner] += " " + nd.full;
      if (nd.segs.size() == 2) sessNode[nd.owner] = true; else { tops[nd.owner].insert(nd.segs[2]); nMatch[nd.owner]++; }
   }
   const std::vector<int> full = { 0, 1, 2 };
   // F10 first: a default route that the server never registered (the session's parameter set lacks PR_NAME_KEYS; private member read for classification only)
   if (cd.kind == K_ROUTE) {
      bool deviates = false, registered = true;
      for (int s = 0; s < n; s++) { if (!w.S(s)->_parameters.HasName(PR_NAME_KEYS, B_STRING_TYPE)) registered = false; for (int r = 0; r < n; r++) if (got[s][r] != (((r != s || cd.self) && owns[r]) ? full : std::vector<int>())) deviates = true; }
      if (deviates && !registered) { c.Fail("routing:default-route-not-applied", ctx + "every session sent SETPARAMETERS with these keys as its PR_NAME_KEYS parameter, but the server did not keep the parameter and the unaddressed Messages were not routed by it (broadcast = every other session once): " + matrix); return; }
   }
   for (int s = 0; s < n; s++) for (int r = 0; r < n; r++) {
      ADD(pairChecks, 1);
      const bool exp = (r != s || cd.self) && owns[r];
      const std::vector<int> & g = got[s][r];
      if (g == (exp ? full : std::vector<int>())) continue;
      const std::string who = std::string("sender ") + kRoleCh[s] + " -> receiver " + kRoleCh[r] + (r == s ? " (itself)" : "") + ": ";
      std::string gt = "["; for (size_t i = 0; i < g.size(); i++) gt += (i ? "," : "") + l1::U32((uint32_t)g[i]); gt += "]";
      const std::string tail = "; nodes of the receiver accepted by the reference:" + (matchText[r].empty() ? std::string(" none") : matchText[r]) + "; all deliveries: " + matrix;
      const std::string multi = (ps.keys.size() > 1) ? "multi-pattern" : "single-pattern";
      if (!exp) {
         std::string key;
         if (r == s && !cd.self && owns[r]) key = "routing:delivered-to-sender-without-reflect-to-self";
         else if (byKeys && ps.keys.size() > 1 && J.allSameDepth) key = "routing:conspiracy:same-depth-patterns";
         else key = std::string("routing:delivered-to-non-matching-session:") + (byKeys ? multi : "broadcast");
         c.Fail(key, ctx + who + "expected no copy, received seq " + gt + tail); return;
      }
      int cnt[RUN_LEN] = { 0, 0, 0 }; bool ordered = true; for (size_t i = 0; i < g.size(); i++) { cnt[g[i]]++; if (i && g[i] < g[i - 1]) ordered = false; }
      const bool allThere = cnt[0] && cnt[1] && cnt[2];
      if (allThere && g.size() > RUN_LEN) {
         std::string key = "routing:duplicate-delivery:";
         if (sessNode[r] && tops[r].size() >= 1) key += "session-node-and-subtree"; else if (tops[r].size() >= 2) key += "multiple-matching-subtrees";
         else if (byKeys && ps.keys.size() > 1 && J.allSameDepth) key = "routing:conspiracy:same-depth-patterns";   // the extra copies come through a node that no key matches
         else if (nMatch[r] >= 2) key += "multiple-matching-nodes-in-one-subtree";   // a node and one of its descendants
         else key += "other";
         c.Fail(key, ctx + who + verif::Fmt("expected each Message exactly once, received %d/%d/%d copies of seq 0/1/2 (order %s)", cnt[0], cnt[1], cnt[2], gt.c_str()) + tail); return;
      }
      if (allThere && !ordered) { c.Fail("routing:fifo-order-violated", ctx + who + "expected seq [0,1,2], received " + gt + tail); return; }
      c.Fail("routing:missing-delivery:" + (byKeys ? multi + (cd.fmode ? ":filtered" : ":unfiltered") : std::string("broadcast")), ctx + who + "expected seq [0,1,2], received " + gt + tail); return;
   }
}
static void RoutingCase(size_t i, mutx::Case & c) { RunRouting(g_routing[i], c); }

// ------------------------------------------------------------------------------------------------ part 2: traversal
static void CollectNodes(muscle::DataNode & n, std::vector<muscle::DataNode *> & out) { for (muscle::DataNodeRefIterator it = n.GetChildIterator(); it.HasData(); it++) { out.push_back(it.GetValue()()); CollectNodes(*it.GetValue()(), out); } }
static std::string SetText(const std::set<std::string> & s) { std::string o = "{"; for (std::set<std::string>::const_iterator it = s.begin(); it != s.end(); ++it) o += (it == s.begin() ? "" : " ") + *it; return o + "}"; }
static std::string FirstOnlyIn(const std::set<std::string> & a, const std::set<std::string> & b) { for (std::set<std::string>::const_iterator it = a.begin(); it != a.end(); ++it) if (!b.count(*it)) return *it; return ""; }

// one traversal + the three-way comparison.  rootRole < 0: global root; else that session's directory.  Returns false after c.Fail.
static bool OneTraversal(l1::L1World & w, const CaseDef & cd, int rootRole, bool useFilters, const std::string & ctx, mutx::Case & c, std::string & outcome, std::set<std::string> * visitedOut = NULL)
{
   const PatSet & ps = g_sets[cd.set]; const int f = cd.forest;
   TravSession * t = static_cast<TravSession *>(w.S(rootRole < 0 ? 0 : rootRole));
   muscle::DataNode & root = (rootRole < 0) ? t->GetGlobalRoot() : *t->_sessionDir();
   const std::string rootPath = (rootRole < 0) ? std::string("") : w.Root(rootRole);
   const std::string mode = (rootRole < 0) ? std::string("from the global root (implicit */* prefix)") : "from session directory " + rootPath + " (relative keys)";
   MessageRef km = l1::NewMsg(0); AddKeysAndFilters(km, ps.keys, cd.fmode);
   muscle::StorageReflectSession::NodePathMatcher m; std::vector<std::string> visited;
   const uint32_t count = t->Traverse(m, *km(), rootRole < 0 ? "*/*" : NULL, root, useFilters, visited);
   ADD(traversals, 1); ADD(visits, visited.size());
   std::set<std::string> V(visited.begin(), visited.end()), M, R;
   if (visitedOut) *visitedOut = V;
   outcome += (rootRole < 0 ? std::string("G") : std::string(1, kRoleCh[rootRole])) + (useFilters ? "f" : "n") + SetText(V);
   const std::string what = ctx + mode + (useFilters ? "" : ", filters ignored (useFilters=false)") + ": ";
   if (count != visited.size()) { c.Fail("traversal:visit-count-differs-from-callbacks", what + verif::Fmt("DoTraversal returned %u but the callback ran %u times", (unsigned)count, (unsigned)visited.size())); return false; }
   if (V.size() != visited.size()) { std::string dup; std::set<std::string> seen; for (size_t i = 0; i < visited.size(); i++) if (!seen.insert(visited[i]).second) { dup = visited[i]; break; } c.Fail("traversal:node-visited-twice", what + "the callback ran twice on " + dup + "; visited in order: " + verif::JStrArray(visited)); return false; }
   // M: the same matcher's MatchesPath on every node below the root
   std::vector<muscle::DataNode *> all; CollectNodes(root, all);
   for (size_t i = 0; i < all.size(); i++) {
      muscle::String np; (void) all[i]->GetNodePath(np); const std::string full = np();
      const std::string subject = (rootRole < 0) ? full : full.substr(rootPath.size() + 1);
      ADD(nodeTests, 1);
      if (m.MatchesPath(subject.c_str(), useFilters ? all[i]->GetData()() : NULL, useFilters ? all[i] : NULL)) M.insert(full);
   }
   if (V != M) {
      const std::string extra = FirstOnlyIn(V, M), miss = FirstOnlyIn(M, V);
      const Judge J(ps, cd.fmode, rootRole < 0);
      std::string key = !extra.empty() ? std::string("traversal:visits-unmatched-node") + ((ps.keys.size() > 1 && J.inDomain && J.allSameDepth) ? ":same-depth-patterns" : (ps.keys.size() > 1 ? ":multi-pattern" : ":single-pattern")) : std::string("traversal:misses-matched-node") + (ps.keys.size() > 1 ? ":multi-pattern" : ":single-pattern");
      c.Fail(key, what + "traversal visited " + SetText(V) + " but testing every node's path with MatchesPath gives " + SetText(M) + (extra.empty() ? "; not visited: " + miss : "; visited although no pattern matches it: " + extra)); return false;
   }
   // R: the reference
   const Judge J(ps, cd.fmode, rootRole < 0);
   if (!J.inDomain) { ADD(travUncompared, 1); return true; }
   ADD(travCompared, 1);
   for (size_t i = 0; i < g_ref[f].size(); i++) {
      const RNode & nd = g_ref[f][i];
      if (rootRole >= 0 && (nd.owner != rootRole || nd.segs.size() < 3)) continue;
      if (J.Accepts(nd, rootRole < 0 ? 0 : 2, useFilters)) R.insert(nd.full);
   }
   if (M != R) {
      const std::string extra = FirstOnlyIn(M, R), miss = FirstOnlyIn(R, M);
      c.Fail(std::string("matcher:MatchesPath-") + (!extra.empty() ? "accepts-unmatched-path" : "rejects-matched-path"), what + "MatchesPath accepts " + SetText(M) + " but the reference matcher (clause-wise refmatch" + (useFilters ? " + filter on the payload" : "") + ") accepts " + SetText(R) + "; first difference: " + (extra.empty() ? miss : extra)); return false;
   }
   return true;
}

static void RunTraversal(const CaseDef & cd, mutx::Case & c)
{
   const PatSet & ps = g_sets[cd.set]; const int f = cd.forest; const int n = kForest[f].nSess;
   const std::string ctx = std::string("forest '") + kForest[f].name + "' [" + ForestText(f) + " ], keys " + KeysText(ps, cd.fmode) + ", ";
   l1::L1World w; w.makeSession = MakeTravSession;
   { const std::string e = BuildWorld(w, f); if (!e.empty()) { c.Fail("harness:forest-build", ctx + e); return; } }
   std::string outcome; std::set<std::string> vGlobal, vRel0;
   bool ok = OneTraversal(w, cd, -1, true, ctx, c, outcome, &vGlobal);
   if (ok && cd.fmode != 0) ok = OneTraversal(w, cd, -1, false, ctx, c, outcome);
   bool anyAbsolute = false; for (size_t j = 0; j < ps.keys.size(); j++) if (!ps.keys[j].empty() && ps.keys[j][0] == '/') anyAbsolute = true;
   if (ok && !anyAbsolute) for (int r = 0; r < n && ok; r++) ok = OneTraversal(w, cd, r, true, ctx, c, outcome, r == 0 ? &vRel0 : NULL);
   // single key: the subclass-facing FindMatchingNodes must return the same nodes (absolute key: global; otherwise relative to the caller's directory, no prefix)
   if (ok && ps.keys.size() == 1 && !ps.keys[0].empty()) {
      TravSession * t = static_cast<TravSession *>(w.S(0));
      muscle::ConstQueryFilterRef fr; const int fk = FilterKindForKey(cd.fmode, 0);
      if (fk != FK_NONE) { MessageRef a = MakeFilter(fk); fr = muscle::GetGlobalQueryFilterFactory()()->CreateQueryFilter(*a()); if (fr() == NULL) { c.Fail("harness:filter-not-created", ctx + "factory returned no filter"); return; } }
      muscle::Queue<muscle::DataNodeRef> res; const muscle::status_t st = t->FindMatchingNodes(ps.keys[0].c_str(), fr, res, MUSCLE_NO_LIMIT);
      std::set<std::string> Fset; for (uint32_t i = 0; i < res.GetNumItems(); i++) { muscle::String np; (void) res[i]()->GetNodePath(np); Fset.insert(np()); }
      ADD(traversals, 1);
      const std::set<std::string> & want = anyAbsolute ? vGlobal : vRel0;
      const Judge J1(ps, cd.fmode, anyAbsolute);
      if (J1.inDomain && (st.IsError() || Fset.size() != res.GetNumItems() || Fset != want)) { c.Fail("traversal:FindMatchingNodes-differs-from-DoTraversal", ctx + "FindMatchingNodes(" + l1::Quote(ps.keys[0]) + ") called by session A returned " + SetText(Fset) + verif::Fmt(" (%u items, status %s)", (unsigned)res.GetNumItems(), st()) + ", the recorded traversal visited " + SetText(want)); return; }
   }
   c.Outcome(outcome);
}
static void TravCase(size_t i, mutx::Case & c) { RunTraversal(g_trav[i], c); }

// ------------------------------------------------------------------------------------------------ main
static bool CaseFromReplay(const verif::ReplayDoc & d, CaseDef & c)
{
   c.forest = (uint8_t)d.Int("forest", 0); c.fmode = (uint8_t)d.Int("filter_mode", 0); c.self = (uint8_t)d.Int("reflect_to_self", 0);
   if (c.forest >= NFOREST || c.fmode >= NFMODE_MULTI) return false;
   const std::string mode = d.Str("mode"); int k = -1; for (int i = 0; i < 4; i++) if (mode == kKindName[i]) k = i; if (k < 0) return false; c.kind = (uint8_t)k;
   std::map<std::string, std::vector<std::string> >::const_iterator it = d.strs.find("keys"); if (it == d.strs.end()) return false;
   c.set = AddSet(it->second, "replay");
   return true;
}
static double ChildCpuS() { struct rusage ru; getrusage(RUSAGE_CHILDREN, &ru); return (double)ru.ru_utime.tv_sec + 1e-6 * (double)ru.ru_utime.tv_usec + (double)ru.ru_stime.tv_sec + 1e-6 * (double)ru.ru_stime.tv_usec; }
static std::string GroupCounts() { std::string o = "{"; for (std::map<std::string, uint64_t>::const_iterator it = g_groupCount.begin(); it != g_groupCount.end(); ++it) o += (it == g_groupCount.begin() ? "" : ", ") + verif::JStr(it->first) + verif::Fmt(": %llu", (unsigned long long)it->second); return o + "}"; }

int main(int argc, char ** argv)
{
   // every case builds and tears down a whole server: allocation-bound; a small ASan quarantine keeps the working set warm (see C04)
   if (getenv("VERIF_C05_CHILD") == NULL) {
      const char * old = getenv("ASAN_OPTIONS");
      std::string ao = std::string(old ? old : "") + (old && old[0] ? ":" : "") + "quarantine_size_mb=4";
      setenv("ASAN_OPTIONS", ao.c_str(), 1); setenv("VERIF_C05_CHILD", "1", 1);
      char self[4096]; const ssize_t n = readlink("/proc/self/exe", self, sizeof(self) - 1);
      if (n > 0) { self[n] = 0; execv(self, argv); }
   }
   verif::Args args; args.Parse(argc, argv);
   verif::Result res; res.harness = "C05_routing";
   g_cnt = (Counters *)mmap(NULL, sizeof(Counters), PROT_READ | PROT_WRITE, MAP_SHARED | MAP_ANONYMOUS, -1, 0); memset((void *)g_cnt, 0, sizeof(Counters));
   BuildRefForests();
   l1::EnsureSetup();

   if (!args.replay.empty()) {
      verif::ReplayDoc d; if (!d.Load(args.replay)) { fprintf(stderr, "cannot read %s\n", args.replay.c_str()); return 3; }
      CaseDef cd; if (!CaseFromReplay(d, cd)) { fprintf(stderr, "%s: not a C05 replay file\n", args.replay.c_str()); return 3; }
      const std::string part = d.Str("part");
      mutx::Runner R(args, res, part); R.SetCpuLimit(30);
      if (part == "routing") { g_routing.push_back(cd); return R.ReplayIndex(g_routing.size() - 1, RoutingCase, RoutingDesc); }
      if (part == "traversal") { g_trav.push_back(cd); return R.ReplayIndex(g_trav.size() - 1, TravCase, TravDesc); }
      fprintf(stderr, "unknown part %s\n", part.c_str()); return 3;
   }

   BuildSpace(args.Thorough());
   const double T = args.deadline * 0.9;
   const std::string sets = verif::Fmt("pattern sets: every single key of 1..2 clauses over the 16-clause alphabet {a ab 1 a\\* * ? a* [ab] (a|b) a,b ~a <1-5> <3-> c 12 b,d} and of 3 clauses over %s, with the implicit */* prefix, and behind each of %d absolute host/session prefixes {/*/*/ /hA/*/ /*/<2-3>/ /h?/~1/%s} (1..2 clauses%s); 7 keys selecting session directories / host nodes; "
                                       "every ORDERED pair from a %d-key subset of mixed depth (1-3 clauses, absolute and implicit; literal-only next to wildcard levels; same-depth pairs), session-directory keys paired with 6 others in both orders; every ordered triple from a %d-key subset; %d malformed keys (a//b, a/, /, backtick regex, ...) executed but not compared",
                                       args.Thorough() ? "the same 16" : "the 8-clause subset {a * c ~a (a|b) b,d ? <1-5>}", args.Thorough() ? 6 : 4, args.Thorough() ? " /hB/4/ /(hA|hB)/1,3/" : "", args.Thorough() ? ", 3 clauses over the 8-clause subset" : "",
                                       (int)(sizeof(kPair40) / sizeof(kPair40[0]) + (args.Thorough() ? sizeof(kPairMore) / sizeof(kPairMore[0]) : 0)), args.Thorough() ? 12 : 6, (int)(sizeof(kOutOfDomain) / sizeof(kOutOfDomain[0])));
   const std::string forests = "8 fixed forests (2-4 sessions: A,B on host hA, C,D on host hB; sessions without nodes included; nodes a b ab c 1 3 5 6 12 a* [literal star] at 1-3 levels, e.g. a/c, a/12, ab/b, a/c/d, ab/1/a; payloads {what 0} {what 42} {v=1} {v=2} {what 42,v=1}; implicit intermediate nodes) built by SETDATA on a fresh real ReflectServer per case";

   if (args.WantPart("routing")) {
      const double cpu0 = ChildCpuS();
      mutx::Runner R(args, res, "routing"); R.SetCpuLimit(30); R.SetDeadline(args.t0 + T * 0.62);
      verif::Part & p = R.Run(g_routing.size(), RoutingCase, RoutingDesc);
      p.rule = "one case per (forest, pattern set, filter mode, reflect-to-self off/on, addressing mode); " + forests + "; " + sets + "; filter modes: no PR_NAME_FILTERS | what==42 on every key | v==1 on every key | (>=2 keys) what==42 on key 0 only | (>=2 keys) v==1 on all keys but key 0 (filters test the NODE payload); "
               "addressing: keys in the Message | the same sets as default route (47 single keys + 132 ordered pairs; parameter PR_NAME_KEYS/PR_NAME_FILTERS, Message without keys) | default route set then removed | no keys and no route (broadcast); "
               "in every case EVERY session sends 3 Messages interleaved round-robin (seq 1 and 2 with a forged PR_NAME_SESSION), all queues are drained; oracle per ordered (sender, receiver): copies == [0,1,2] in order iff (receiver != sender or reflect-to-self) and the receiver owns >=1 node (session directory included) whose full path matches >=1 key clause-wise (refmatch, same clause count) and whose payload passes that key's filter, else none; PR_NAME_SESSION of each copy names the true sender; a case is distinct by its tuple, an outcome by the delivery matrix";
      p.states = g_cnt->routingCompared; p.transitions = g_cnt->routed; p.evaluations = g_cnt->pairChecks; p.bound_completed = p.exhaustive ? 3 : -1;
      p.extra["routed_messages_injected"] = verif::Fmt("%llu", (unsigned long long)g_cnt->routed);
      p.extra["copies_delivered"] = verif::Fmt("%llu", (unsigned long long)g_cnt->copies);
      p.extra["sender_receiver_pairs_checked"] = verif::Fmt("%llu", (unsigned long long)g_cnt->pairChecks);
      p.extra["cases_compared_with_reference"] = verif::Fmt("%llu", (unsigned long long)g_cnt->routingCompared);
      p.extra["cases_out_of_domain_executed_only"] = verif::Fmt("%llu", (unsigned long long)g_cnt->routingUncompared);
      p.extra["pattern_sets_by_group"] = GroupCounts();
      p.extra["cpu_s"] = verif::Fmt("%.1f", ChildCpuS() - cpu0);
      fprintf(stderr, "C05 routing: cases=%llu routed=%llu copies=%llu pairs=%llu outcomes=%llu exhaustive=%d wall=%.1fs cpu=%.1fs\n", (unsigned long long)g_routing.size(), (unsigned long long)g_cnt->routed, (unsigned long long)g_cnt->copies, (unsigned long long)g_cnt->pairChecks, (unsigned long long)p.distinct_outcomes, (int)p.exhaustive, p.wall_s, ChildCpuS() - cpu0);
   }
   if (args.WantPart("traversal")) {
      const double cpu0 = ChildCpuS();
      mutx::Runner R(args, res, "traversal"); R.SetCpuLimit(30); R.SetDeadline(args.t0 + T);
      verif::Part & p = R.Run(g_trav.size(), TravCase, TravDesc);
      p.rule = "one case per (forest, pattern set, filter mode); " + forests + "; " + sets + "; filter modes as in part routing; per case a Session subclass runs NodePathMatcher::PutPathsFromMessage + DoTraversal with a recording callback (returns node.GetDepth()) "
               "from the global root with the implicit */* prefix (filters used; for filter modes > 0 also useFilters=false) and, when no key is absolute, from every session's directory with relative keys; single keys also through FindMatchingNodes; "
               "per traversal: visited set (no node twice, count == return value) == {nodes below the root whose path passes the same matcher's MatchesPath(path, payload, node)} == {nodes accepted by the clause-wise reference matcher + reference filter}; a case is distinct by its tuple, an outcome by the visited sets";
      p.states = g_cnt->travCompared; p.transitions = g_cnt->traversals; p.evaluations = g_cnt->nodeTests; p.bound_completed = p.exhaustive ? 3 : -1;
      p.extra["traversals_run"] = verif::Fmt("%llu", (unsigned long long)g_cnt->traversals);
      p.extra["nodes_visited"] = verif::Fmt("%llu", (unsigned long long)g_cnt->visits);
      p.extra["node_paths_tested_with_MatchesPath_and_reference"] = verif::Fmt("%llu", (unsigned long long)g_cnt->nodeTests);
      p.extra["traversals_compared_with_reference"] = verif::Fmt("%llu", (unsigned long long)g_cnt->travCompared);
      p.extra["traversals_out_of_domain_two_way_only"] = verif::Fmt("%llu", (unsigned long long)g_cnt->travUncompared);
      p.extra["cpu_s"] = verif::Fmt("%.1f", ChildCpuS() - cpu0);
      fprintf(stderr, "C05 traversal: cases=%llu traversals=%llu nodeTests=%llu outcomes=%llu exhaustive=%d wall=%.1fs cpu=%.1fs\n", (unsigned long long)g_trav.size(), (unsigned long long)g_cnt->traversals, (unsigned long long)g_cnt->nodeTests, (unsigned long long)p.distinct_outcomes, (int)p.exhaustive, p.wall_s, ChildCpuS() - cpu0);
   }
   res.observations.push_back("a routed Message that carries no PR_NAME_SESSION field is delivered without one (the server corrects the field only when the sender supplied it)");
   res.observations.push_back("host nodes (/hA) belong to no session: a key that matches only host nodes delivers to nobody; a session's own directory /host/id counts as a node it owns (keys like /*/3 address a session)");
   res.observations.push_back("filters given in PR_NAME_FILTERS are evaluated on the payload of the matched NODE, not on the routed Message");
   res.observations.push_back("outside the compared domain (executed only): empty keys / empty clauses (a//b, a/, /), malformed clauses, backtick-regex clauses, two spellings of one path with different filters in one Message, reliance on filter bleed-down (fewer filter archives than keys)");
   return res.Write(args);
}
