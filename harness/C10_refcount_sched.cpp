// C10 (concurrent part) -- Reference-counted and pooled objects are released exactly once, never early.
// SCHEDX: 2-4 real threads copy / reset / swap / privatise references to shared objects (heap-allocated and from tiny ObjectPools whose
// slabs are created, recycled and deleted during the run) under the controlled scheduler; the atomic operations on the objects'
// reference counts and the pool mutex are the scheduling points; every interleaving with <= bound preemptions is executed.
// VBUILD: libs=schedx
#include "engines/schedx/schedx.h"
#include "util/RefCount.h"
#include "util/ObjectPool.h"
#include "system/SetupSystem.h"

using namespace muscle;

// ---------------------------------------------------------------- instrumented payload
enum { M_FRESH = 0x0F5E5, M_INUSE = 0x1A11E, M_DEAD = 0xDEAD };
struct Ledger {   // per-execution bookkeeping (harness state; under the scheduler all accesses are serialised)
   int destroyedInUse;      // destructor ran on an object that was marked in-use (heap objects: that is the release)
   int recycles;            // pool recycles (assignment of the default object onto an in-use object)
   int earlyRelease;        // a release happened while the shadow count said a reference still exists
   int doubleRelease;       // release of an object that was not in use
   int shadow[4];           // shadow reference counts per logical object (see Body comments): shadow <= real at all times
   int released[4];         // how many times logical object k was released
   int armed;               // set once the harness objects exist (slab construction also assigns default objects)
   Ledger() { memset(this, 0, sizeof(*this)); }
};
static Ledger * g_ledger = NULL;

class Obj : public RefCountable {
public:
   Obj() : payload(0), magic(M_FRESH), logical(-1) {}
   Obj(const Obj & rhs) : RefCountable(rhs), payload(rhs.payload), magic(M_FRESH), logical(-1) {}
   ~Obj() { if (magic == M_INUSE) Released("destructor"); magic = M_DEAD; }
   Obj & operator=(const Obj & rhs)
   {
      // ObjectPool::ReleaseObject recycles with "*obj = GetDefaultObject()": an assignment FROM a fresh object ONTO an in-use one
      if (rhs.magic == M_FRESH && rhs.logical < 0 && magic == M_INUSE) { Released("recycle"); magic = M_FRESH; payload = 0; logical = -1; }
      else if (rhs.magic == M_FRESH && rhs.logical < 0 && magic == M_FRESH && logical < 0 && payload == 0 && g_ledger && g_ledger->armed) g_ledger->doubleRelease++;   // the pool recycles an object that is not in use (second release of the same object)
      else { payload = rhs.payload; }   // ordinary copy of content (used by Ref::Clone for pooled objects); identity fields stay
      return *this;
   }
   void Released(const char *)
   {
      Ledger * L = g_ledger; if (!L) return;
      if (logical >= 0 && logical < 4) { L->released[logical]++; if (L->released[logical] > 1) L->doubleRelease++; if (L->shadow[logical] > 0) L->earlyRelease++; }
   }
   bool Alive(int expectLogical) const { return magic == M_INUSE && logical == expectLogical; }
   int payload; int magic; int logical;
};
DECLARE_REFTYPES(Obj);

struct Config { std::string variant; bool pooled; };
static std::string ConfigToString(const Config & c) { return "variant=" + c.variant + (c.pooled ? ";pooled=1" : ";pooled=0"); }
static Config ConfigFromString(const std::string & s)
{
   Config c; c.pooled = s.find("pooled=1") != std::string::npos;
   size_t v = s.find("variant="); if (v != std::string::npos) { size_t e = s.find(';', v); c.variant = s.substr(v + 8, (e == std::string::npos ? s.size() : e) - v - 8); }
   return c;
}

#ifndef C10_SLAB
# define C10_SLAB 160   // bytes: with this build's sizeof(Obj) a slab holds 2 objects (checked at start-up)
#endif
typedef ObjectPool<Obj, C10_SLAB> TinyPool;

static Obj * NewObj(TinyPool * pool, bool pooled, int logical)
{
   Obj * o = pooled ? pool->ObtainObject() : new Obj();
   if (o == NULL) { schedx::Fail("alloc", "allocation failed"); return NULL; }
   if (o->magic != M_FRESH || o->payload != 0 || o->logical != -1) schedx::Fail("not-fresh", verif::Fmt("object handed out by %s is not in the freshly constructed state (magic %x payload %d logical %d)", pooled ? "the pool" : "new", o->magic, o->payload, o->logical));
   o->magic = M_INUSE; o->logical = logical; o->payload = 100 + logical;
   schedx::WatchAtomic(&o->_refCount._count);   // this object's reference count operations are scheduling points
   return o;
}

// shadow-count discipline: ++ AFTER an operation that adds a reference, -- BEFORE an operation that drops one  =>  shadow <= real always,
// so a release while shadow > 0 means the object went away although some thread still holds a reference.
#define ADDED(k)    do { if (sched) g_ledger->shadow[k]++; } while (0)
#define DROPPING(k) do { if (sched) g_ledger->shadow[k]--; } while (0)
#define CHECK_ALIVE(ref, k, where) do { if (sched && (ref)() && !(ref)()->Alive(k)) schedx::Fail("use-after-release", verif::Fmt("%s: a thread still holds a reference to object %d but the object has been released (magic %x)", where, k, (ref)()->magic)); } while (0)

static void Body(const Config & cfg)
{
   const bool sched = schedx::UnderScheduler();
   Ledger ledger; ledger.armed = 1; g_ledger = &ledger;
   TinyPool * pool = new TinyPool(2);   // max 2 cached objects => slabs are deleted while the run is still going
   const std::string & v = cfg.variant;
   int expectReleases[4] = {0, 0, 0, 0};
   if (v == "h1") {
      // object X, four references handed out BEFORE the threads start; every thread copies its source ref, drops the source, drops the copy
      Obj * x = NewObj(pool, cfg.pooled, 0); if (!x) return;
      ObjRef * src = new ObjRef[4]; for (int i = 0; i < 4; i++) { src[i] = ObjRef(x); ADDED(0); }
      expectReleases[0] = 1;
      std::vector<int> t;
      for (int i = 1; i < 4; i++) { ObjRef * s = &src[i]; t.push_back(schedx::Spawn([s, sched]() { ObjRef c = *s; ADDED(0); CHECK_ALIVE(c, 0, "after copy"); DROPPING(0); s->Reset(); CHECK_ALIVE(c, 0, "after dropping the source"); DROPPING(0); c.Reset(); })); }
      DROPPING(0); src[0].Reset();
      for (size_t i = 0; i < t.size(); i++) schedx::Join(t[i]);
      delete[] src;
   } else if (v == "h2") {
      // two threads obtain+release twice each while a third drains the pool: slab creation / recycling / deletion under contention
      struct Held { std::set<const void *> set; } * held = new Held();
      TinyPool * p = pool; const bool pooled = true; (void) pooled;
      std::vector<int> t;
      for (int i = 0; i < 2; i++) t.push_back(schedx::Spawn([p, held, i, sched]() {
         for (int round = 0; round < 2; round++) {
            const int k = i * 2 + round; Obj * o = NewObj(p, true, k); if (!o) return;
            if (sched) { if (!held->set.insert(o).second) schedx::Fail("handed-out-twice", "the pool handed out an object that another owner still holds"); }
            ObjRef r(o); ADDED(k); CHECK_ALIVE(r, k, "while held");
            if (sched) held->set.erase(o);
            DROPPING(k); r.Reset();
         } }));
      t.push_back(schedx::Spawn([p]() { uint32 n = 0; p->Drain(&n); p->Drain(&n); }));
      for (int k = 0; k < 4; k++) expectReleases[k] = 1;
      for (size_t i = 0; i < t.size(); i++) schedx::Join(t[i]);
      delete held;
   } else if (v == "h3") {
      // thread A swaps / assigns between two local refs pointing at two shared objects while thread B drops its refs to both
      Obj * x = NewObj(pool, cfg.pooled, 0); Obj * y = NewObj(pool, cfg.pooled, 1); if (!x || !y) return;
      ObjRef * a = new ObjRef[2]; ObjRef * b = new ObjRef[2];
      a[0] = ObjRef(x); ADDED(0); a[1] = ObjRef(y); ADDED(1); b[0] = ObjRef(x); ADDED(0); b[1] = ObjRef(y); ADDED(1);
      expectReleases[0] = expectReleases[1] = 1;
      int ta = schedx::Spawn([a, sched]() {
         a[0].SwapContents(a[1]);                       // a0->y a1->x (no count change)
         CHECK_ALIVE(a[0], 1, "after swap"); CHECK_ALIVE(a[1], 0, "after swap");
         DROPPING(1); a[0] = a[1]; ADDED(0);            // a0 drops y, takes another ref to x
         CHECK_ALIVE(a[0], 0, "after assign"); CHECK_ALIVE(a[1], 0, "after assign");
         ObjRef & self = a[1]; a[1] = self;             // self-assignment must not touch the count
         CHECK_ALIVE(a[1], 0, "after self-assign");
         DROPPING(0); a[0].Reset(); DROPPING(0); a[1].Reset(); });
      int tb = schedx::Spawn([b, sched]() { CHECK_ALIVE(b[0], 0, "B before drop"); DROPPING(0); b[0].Reset(); CHECK_ALIVE(b[1], 1, "B before drop"); DROPPING(1); b[1].Reset(); });
      schedx::Join(ta); schedx::Join(tb);
      delete[] a; delete[] b;
   } else if (v == "h4") {
      // A privatises (EnsureRefIsPrivate = clone unless provably sole owner) and then writes; B holds another reference and must never see A's write
      Obj * x = NewObj(pool, cfg.pooled, 0); if (!x) return;
      ObjRef * a = new ObjRef(x); ADDED(0); ConstObjRef * b = new ConstObjRef(x); ADDED(0);
      expectReleases[0] = 1;
      int * sawWrite = new int(0);
      int ta = schedx::Spawn([a, sched]() {
         status_t r = a->EnsureRefIsPrivate();   // either keeps X (sole owner) or switches to a private clone (then X loses a reference)
         if (r.IsError()) { schedx::Fail("clone-failed", "EnsureRefIsPrivate failed"); return; }
         if ((*a)()) (*a)()->payload = 777;       // write through the now-private reference
         a->Reset(); });
      int tb = schedx::Spawn([b, sawWrite, sched]() {
         ObjRef nc = CastAwayConstFromRef(*b); ADDED(0);   // a second counting reference through the const-cast helper
         if ((*b)() && (*b)()->payload == 777) *sawWrite = 1;
         schedx::Yield("B-holding");
         if ((*b)() && (*b)()->payload == 777) *sawWrite = 1;
         CHECK_ALIVE(nc, 0, "B via cast-away-const ref");
         DROPPING(0); nc.Reset(); DROPPING(0); b->Reset(); });
      schedx::Join(ta); schedx::Join(tb);
      if (*sawWrite) schedx::Fail("shared-write-visible", "a thread holding its own reference observed a write made through another reference after EnsureRefIsPrivate()");
      // A's reference to X ended either inside EnsureRefIsPrivate (clone path) or at its Reset (sole-owner path): the shadow for it is dropped here
      if (sched) g_ledger->shadow[0]--;
      delete a; delete b; delete sawWrite;
      // the clone (if any) was never given a logical id: it is not tracked
   } else schedx::Fail("harness", "unknown variant " + v);

   // ---- end-of-execution oracle
   if (sched) {
      for (int k = 0; k < 4; k++) if (ledger.released[k] != expectReleases[k]) schedx::Fail(ledger.released[k] < expectReleases[k] ? "never-released" : "released-twice", verif::Fmt("object %d was released %d time(s), expected %d", k, ledger.released[k], expectReleases[k]));
      if (ledger.earlyRelease && v != "h4") schedx::Fail("early-release", "an object was destroyed/recycled while a thread still held a counted reference to it");
      if (ledger.doubleRelease) schedx::Fail("released-twice", "an object was destroyed/recycled twice");
   }
   pool->PerformSanityCheck();   // MCRASHes (=> CRASH outcome) on corrupted slab metadata
   { uint32 n = 0; pool->Drain(&n); }
   if (sched && (pool->_curPoolSize != 0 || pool->_firstSlab != NULL)) schedx::Fail("pool-accounting", verif::Fmt("after every object was released and the pool drained: _curPoolSize=%u firstSlab=%p", pool->_curPoolSize, (void *)pool->_firstSlab));
   if (sched) schedx::Observe(verif::Fmt("rel=%d%d%d%d", ledger.released[0], ledger.released[1], ledger.released[2], ledger.released[3]));
   delete pool; g_ledger = NULL;
}

static schedx::BodyFactory Factory() { return [](const std::string & cs) { Config c = ConfigFromString(cs); return std::function<void()>([c]() { Body(c); }); }; }

int main(int argc, char ** argv)
{
   verif::Args args; args.Parse(argc, argv);
   verif::Result res; res.harness = "C10_refcount_sched";
   CompleteSetupSystem css;
   if (TinyPool::NUM_OBJECTS_PER_SLAB != 2) { fprintf(stderr, "C10: slab holds %d objects, expected 2 (adjust C10_SLAB; sizeof(Obj)=%u)\n", (int)TinyPool::NUM_OBJECTS_PER_SLAB, (unsigned)sizeof(Obj)); res.infra_errors.push_back(verif::Fmt("TinyPool slab holds %d objects, expected 2", (int)TinyPool::NUM_OBJECTS_PER_SLAB)); return res.Write(args); }
   schedx::Options opt; opt.bound = args.Thorough() ? 4 : 3;
   if (args.kv.count("bound")) opt.bound = atoi(args.kv["bound"].c_str());
   if (!args.replay.empty()) {
      verif::ReplayDoc d; if (!d.Load(args.replay)) { fprintf(stderr, "cannot read %s\n", args.replay.c_str()); return 3; }
      Config cfg = ConfigFromString(d.Str("config")); if (d.s.count("bound")) opt.bound = (int)d.Int("bound");
      schedx::Outcome o = schedx::RunOne([cfg]() { Body(cfg); }, schedx::ChoicesFromString(d.Str("choices")), opt);
      printf("replay config=%s choices=%s\nresult: %s %s %s\nobservation: %s\n", d.Str("config").c_str(), d.Str("choices").c_str(), o.status.c_str(), o.key.c_str(), o.msg.c_str(), o.observation.c_str());
      return o.status == "OK" ? 0 : 1;
   }
   std::vector<std::string> cfgs;
   if (args.kv.count("config")) cfgs.push_back(args.kv["config"]);
   else {
      const char * vs[] = {"h1", "h3", "h4"};
      for (int pooled = 0; pooled <= 1; pooled++) for (size_t i = 0; i < 3; i++) { Config c; c.variant = vs[i]; c.pooled = pooled != 0; cfgs.push_back(ConfigToString(c)); }
      Config c; c.variant = "h2"; c.pooled = true; cfgs.push_back(ConfigToString(c));
   }
   if (args.kv.count("freerun")) { schedx::FreeRunPart("tsan-free-run", Factory(), cfgs, atoi(args.kv["freerun"].c_str()), args, res); return res.Write(args); }
   const double deadline = args.t0 + args.deadline * 0.92;
   schedx::StartPool(Factory(), opt, args.workers);
   verif::Part total; total.name = verif::Fmt("refcount-bound%d", opt.bound); unsigned long execs = 0; bool capped = false;
   for (size_t i = 0; i < cfgs.size(); i++) {
      if (verif::NowS() > deadline) { capped = true; break; }
      schedx::Explore("refcount", cfgs[i], opt, args, res, deadline);
      verif::Part p = res.parts.back(); res.parts.pop_back();
      total.states += p.states; total.transitions += p.transitions; total.evaluations += p.evaluations; total.distinct_outcomes += p.distinct_outcomes; execs += p.transitions; if (!p.exhaustive) { capped = true; total.cap = p.cap + " in " + cfgs[i]; }
      if (total.samples.size() < 3 && !p.samples.empty()) total.samples.push_back(p.samples[(size_t)args.seed % p.samples.size()]);
      total.extra[cfgs[i]] = verif::Fmt("{\"executions\": %llu, \"distinct_outcomes\": %llu, \"by_cost\": %s, \"max_points\": %s}", (unsigned long long)p.transitions, (unsigned long long)p.distinct_outcomes, p.extra["executions_by_cost"].c_str(), p.extra["max_points_in_one_execution"].c_str());
   }
   schedx::StopPool();
   total.exhaustive = !capped; total.bound_completed = capped ? -1 : opt.bound; if (capped && total.cap.empty()) total.cap = "deadline";
   total.rule = verif::Fmt("every interleaving with <=%d preemptions of %u harnesses: h1 = one object with 4 references, 3 threads + main each copy/drop (heap and pooled); h2 = 2 threads obtain+release twice from a 2-objects-per-slab pool (max size 2) while a third drains it; h3 = swap/assign/self-assign between two refs to two shared objects against a thread dropping its refs; h4 = EnsureRefIsPrivate()+write against a holder using CastAwayConstFromRef; scheduling points = every atomic operation on the harness objects' reference counts + the pool mutex; distinct = distinct (status, release log)", opt.bound, (unsigned)cfgs.size());
   res.parts.push_back(total);
   fprintf(stderr, "C10 sched: configs=%u executions=%lu capped=%d violations=%u wall=%.1fs\n", (unsigned)cfgs.size(), execs, (int)capped, (unsigned)res.violations.size(), verif::NowS() - args.t0);
   return res.Write(args);
}
