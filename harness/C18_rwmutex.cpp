// C18 -- The reader/writer mutex excludes correctly and never strands a compliant thread.
// SCHEDX: 2..4 real threads run short scripts over one real muscle::ReaderWriterMutex under the controlled scheduler;
// every interleaving with <= bound preemptions/timeouts is executed; a monitor checks exclusion, balance, failure
// legitimacy, writer preference and the end state; deadlock (= lost wake-up / stranded thread) is detected by the scheduler.
// VBUILD: libs=schedx
#include "engines/schedx/schedx.h"
#include "system/ReaderWriterMutex.h"
#include "system/SetupSystem.h"

using namespace muscle;

// script letters: r/w blocking read/write acquire, R/W try, t/T finite-deadline, '.' release the latest successful acquisition
static const char * kScripts[] = {"r.", "w.", "R.", "W.", "t.", "T.", "rw..", "rr..", "wr..", "ww..", "rT..", "r.w.", "ri.", "wi.", "wrv.", "rwv.", "rW..", "tw..", "rt.."};
static const int kNumBase = 16;   // the first 12 form the "full script space" of DESIGN 3 C18; the rest are extras used by named configurations

struct Config { bool preferWriters; std::vector<std::string> scripts; };
static std::string ConfigToString(const Config & c) { std::string s = c.preferWriters ? "pw=1" : "pw=0"; for (size_t i = 0; i < c.scripts.size(); i++) s += (i ? "|" : ";") + c.scripts[i]; return s; }
static Config ConfigFromString(const std::string & s)
{
   Config c; c.preferWriters = s.find("pw=1") != std::string::npos; size_t p = s.find(';'); std::string rest = (p == std::string::npos) ? "" : s.substr(p + 1);
   size_t i = 0; while (i <= rest.size()) { size_t e = rest.find('|', i); if (e == std::string::npos) e = rest.size(); if (e > i) c.scripts.push_back(rest.substr(i, e - i)); i = e + 1; }
   return c;
}

// ---------------------------------------------------------------- the monitor (harness state; safe because the scheduler serialises)
struct Monitor {
   int nthreads; int rd[8], wr[8]; bool inUpgrade[8]; bool inCall[8]; unsigned long activity;
   Monitor() : nthreads(0), activity(0) { memset(rd, 0, sizeof(rd)); memset(wr, 0, sizeof(wr)); memset(inUpgrade, 0, sizeof(inUpgrade)); memset(inCall, 0, sizeof(inCall)); }
   bool Holds(int t) const { return !inUpgrade[t] && (rd[t] > 0 || wr[t] > 0); }
   bool HoldsW(int t) const { return !inUpgrade[t] && wr[t] > 0; }
   bool OthersQuiet(int me) const { for (int t = 0; t < nthreads; t++) if (t != me && (rd[t] > 0 || wr[t] > 0 || inCall[t])) return false; return true; }
   // exclusion invariant, evaluated whenever some thread's holdings grow
   void CheckExclusion(int me, const char * when)
   {
      for (int t = 0; t < nthreads; t++) if (t != me) {
         if (HoldsW(me) && Holds(t)) schedx::Fail("exclusion", verif::Fmt("thread %d holds the lock for WRITING while thread %d holds it (%d read, %d write) [%s]", me, t, rd[t], wr[t], when));
         if (Holds(me) && HoldsW(t)) schedx::Fail("exclusion", verif::Fmt("thread %d holds the lock while thread %d holds it for WRITING [%s]", me, t, when));
      }
   }
};

static void ThreadBody(const ReaderWriterMutex * m, Monitor * sharedMon, int me, const std::string & script, muscle_thread_id * ids, bool preferWriters)
{
   // Under the scheduler all threads share one monitor (accesses are serialised).  In a free run (TSan pass) the harness must not add
   // races or happens-before edges of its own: each thread then uses a private monitor and never reads the mutex's private tables.
   const bool sched = schedx::UnderScheduler();
   Monitor privateMon; privateMon.nthreads = sharedMon->nthreads; Monitor * mon = sched ? sharedMon : &privateMon;
   if (sched) ids[me] = muscle_thread_id::GetCurrentThreadID();
   std::vector<char> held;   // stack of successful acquisitions ('r' or 'w')
   std::string log;
   for (size_t pc = 0; pc < script.size(); pc++) {
      const char c = script[pc];
      if (c == 'x') continue;   // trailing marker: surplus-release check after the script (below)
      if (c == 'i') { schedx::Idle("long-critical-section"); continue; }   // stay inside the critical section until every other thread is blocked or done (free of preemption cost)
      if (c == '.' || c == 'v' || c == 'u') {
         // '.' releases the latest successful acquisition; 'v' / 'u' release one WRITE / one READ lock whatever the order (a downgrade: "wrv." keeps reading)
         if (held.empty()) continue;   // the acquisition this release pairs with failed (try/timed): nothing to release
         char k;
         if (c == '.') { k = held.back(); held.pop_back(); }
         else { const char want = (c == 'v') ? 'w' : 'r'; int at = -1; for (int h = (int)held.size() - 1; h >= 0; h--) if (held[(size_t)h] == want) { at = h; break; } if (at < 0) continue; k = want; held.erase(held.begin() + at); }
         mon->activity++; mon->inCall[me] = true;   // while the release call runs the thread is still registered inside the mutex
         if (k == 'r') { mon->rd[me]--; status_t r = m->UnlockReadOnly(); if (r.IsError()) schedx::Fail("release-failed", verif::Fmt("thread %d: UnlockReadOnly of a held read lock failed (%s)", me, r())); }
         else          { mon->wr[me]--; status_t r = m->UnlockReadWrite(); if (r.IsError()) schedx::Fail("release-failed", verif::Fmt("thread %d: UnlockReadWrite of a held write lock failed (%s)", me, r())); }
         mon->inCall[me] = false; mon->activity++;
         log += '.';
         continue;
      }
      const bool isWrite = (c == 'w' || c == 'W' || c == 'T');
      const int kind = (c == 'R' || c == 'W') ? 1 : (c == 't' || c == 'T') ? 2 : 0;
      const bool upgrade = isWrite && mon->wr[me] == 0 && mon->rd[me] > 0;
      const bool heldNothing = mon->wr[me] == 0 && mon->rd[me] == 0;
      // writer-preference oracle: writers already queued when a thread holding nothing asks for read access
      std::vector<muscle_thread_id> queuedWriters;
      if (sched && !isWrite && heldNothing && preferWriters) for (ConstHashtableIterator<muscle_thread_id, ReaderWriterMutex::ThreadState> it(m->_waitingWriterThreads, HTIT_FLAG_NOREGISTER); it.HasData(); it++) queuedWriters.push_back(it.GetKey());
      const bool quietAtStart = mon->OthersQuiet(me); const unsigned long act0 = mon->activity; const unsigned to0 = schedx::TimeoutsFired();
      mon->inCall[me] = true; mon->activity++;
      if (upgrade) mon->inUpgrade[me] = true;   // documented: the upgrade temporarily releases this thread's read locks
      schedx::SetCallKind((kind == 2 && upgrade) ? 3 : (kind == 1 && upgrade) ? 4 : kind);
      const uint64 deadline = (kind == 0) ? MUSCLE_TIME_NEVER : (kind == 1) ? 0 : (uint64)schedx::FarFuture();
      status_t r = isWrite ? m->LockReadWrite(deadline) : m->LockReadOnly(deadline);
      schedx::SetCallKind(0);
      mon->inCall[me] = false; mon->inUpgrade[me] = false;
      const bool othersIdleThroughout = quietAtStart && (mon->activity == act0 + 1) && mon->OthersQuiet(me);
      mon->activity++;
      if (r.IsOK()) {
         if (isWrite) mon->wr[me]++; else mon->rd[me]++;
         held.push_back(isWrite ? 'w' : 'r');
         mon->CheckExclusion(me, "after acquire");
         if (!queuedWriters.empty()) for (size_t q = 0; q < queuedWriters.size(); q++) if (m->_waitingWriterThreads.ContainsKey(queuedWriters[q]))
            schedx::Fail("writer-overtaken", verif::Fmt("thread %d asked for read access after a writer was already queued and acquired while that writer is still waiting (writer preference is on)", me));
         log += c;
         schedx::Yield("in-critical-section");   // let every other thread try to get in while we hold the lock
         mon->CheckExclusion(me, "inside critical section");
      } else {
         log += '!';
         if (kind == 0) schedx::Fail("untimed-acquire-failed", verif::Fmt("thread %d: blocking %s returned %s", me, isWrite ? "LockReadWrite" : "LockReadOnly", r()));
         else if (r != B_TIMED_OUT) schedx::Fail("bad-error-code", verif::Fmt("thread %d: try/timed acquire failed with %s instead of B_TIMED_OUT", me, r()));
         else {
            if (sched && kind == 2 && schedx::TimeoutsFired() == to0 && othersIdleThroughout) schedx::Fail("spurious-timeout", verif::Fmt("thread %d: timed acquire returned B_TIMED_OUT although no timeout fired and no other thread held, wanted or touched the lock during the call", me));
            if (sched && kind == 1 && othersIdleThroughout) schedx::Fail("spurious-try-failure", verif::Fmt("thread %d: try-acquire failed although no other thread held, wanted or touched the lock during the call", me));
         }
         if (upgrade) mon->CheckExclusion(me, "after failed upgrade (read locks restored)");
      }
   }
   // each release undoes exactly one acquire: nothing may be left, and a surplus release must fail
   if (!held.empty()) schedx::Fail("harness", "script not well nested");
   if (script.size() && script[script.size() - 1] == 'x') {
   mon->activity++; mon->inCall[me] = true;
   status_t s1 = m->UnlockReadOnly(); if (s1.IsOK()) schedx::Fail("surplus-release-succeeded", verif::Fmt("thread %d: UnlockReadOnly succeeded although the thread holds no read lock", me));
   status_t s2 = m->UnlockReadWrite(); if (s2.IsOK()) schedx::Fail("surplus-release-succeeded", verif::Fmt("thread %d: UnlockReadWrite succeeded although the thread holds no write lock", me));
   mon->inCall[me] = false; mon->activity++;
   }
   schedx::Observe(verif::Fmt("T%d:", me) + log);
}

static void Body(const Config & cfg)
{
   ReaderWriterMutex * m = new ReaderWriterMutex("verif", cfg.preferWriters);
   Monitor * mon = new Monitor(); mon->nthreads = (int)cfg.scripts.size();
   muscle_thread_id * ids = new muscle_thread_id[8];
   std::vector<int> tids;
   for (size_t i = 0; i < cfg.scripts.size(); i++) { const int me = (int)i; const std::string sc = cfg.scripts[i]; const bool pw = cfg.preferWriters; tids.push_back(schedx::Spawn([m, mon, me, sc, ids, pw]() { ThreadBody(m, mon, me, sc, ids, pw); })); }
   for (size_t i = 0; i < tids.size(); i++) schedx::Join(tids[i]);
   if (schedx::UnderScheduler()) if (m->_executingThreads.HasItems() || m->_waitingReaderThreads.HasItems() || m->_waitingWriterThreads.HasItems() || m->_totalReadWriteRecurseCount != 0)
      schedx::Fail("residual-state", verif::Fmt("after every thread released everything: executing=%u waitingReaders=%u waitingWriters=%u totalRW=%u", m->_executingThreads.GetNumItems(), m->_waitingReaderThreads.GetNumItems(), m->_waitingWriterThreads.GetNumItems(), m->_totalReadWriteRecurseCount));
   delete m; delete mon; delete[] ids;
}

static bool IsUpgradeScript(const std::string & s) { return s == "rw.." || s == "rT.." || s == "rW.." || s == "rwv."; }
static bool IsWriterScript(const std::string & s) { return s.find_first_of("wWT") != std::string::npos; }
// mode 0: every multiset of n scripts; mode 1: only multisets that contain an upgrade script together with a competing writer in another thread
static void AddMultisets(std::vector<Config> & out, int n, int mode)
{
   for (int pw = 1; pw >= 0; pw--)
      for (int a = 0; a < kNumBase; a++) for (int b = a; b < kNumBase; b++) for (int c = b; c < kNumBase; c++) {
         if (n == 2 && c != b) continue;
         Config cfg; cfg.preferWriters = pw != 0; cfg.scripts.push_back(kScripts[a]); cfg.scripts.push_back(kScripts[b]); if (n == 3) cfg.scripts.push_back(kScripts[c]);
         if (mode == 1) {
            // an upgrade script + a competing writer in another thread + a third script from a small set of plain/idle holders
            bool ok = false;
            for (size_t i = 0; i < cfg.scripts.size(); i++) if (IsUpgradeScript(cfg.scripts[i])) for (size_t j = 0; j < cfg.scripts.size(); j++) if (j != i && IsWriterScript(cfg.scripts[j]))
               for (size_t k = 0; k < cfg.scripts.size(); k++) if (k != i && k != j) { const std::string & t = cfg.scripts[k]; if (t == "r." || t == "w." || t == "wi." || t == "ri." || t == "T.") ok = true; }
            if (!ok) continue;
         }
         out.push_back(cfg);
      }
}

int main(int argc, char ** argv)
{
   verif::Args args; args.Parse(argc, argv);
   verif::Result res; res.harness = "C18_rwmutex";
   CompleteSetupSystem css;
   schedx::Options opt; opt.bound = 2;
   if (args.kv.count("bound")) opt.bound = atoi(args.kv["bound"].c_str());

   if (!args.replay.empty()) {
      verif::ReplayDoc d; if (!d.Load(args.replay)) { fprintf(stderr, "cannot read %s\n", args.replay.c_str()); return 3; }
      Config cfg = ConfigFromString(d.Str("config"));
      schedx::Outcome o = schedx::RunOne([cfg]() { Body(cfg); }, schedx::ChoicesFromString(d.Str("choices")), opt);
      printf("replay config=%s choices=%s\nresult: %s %s %s\nobservation: %s\n", d.Str("config").c_str(), d.Str("choices").c_str(), o.status.c_str(), o.key.c_str(), o.msg.c_str(), o.observation.c_str());
      return o.status == "OK" ? 0 : 1;
   }
   if (args.kv.count("freerun")) {   // TSan pass: same bodies, real concurrency, no scheduler
      int iters = atoi(args.kv["freerun"].c_str()); std::vector<Config> cfgs; AddMultisets(cfgs, 3, 1); std::vector<std::string> cs;
      for (size_t i = 0; i < cfgs.size(); i += (args.Thorough() ? 1 : 5)) cs.push_back(ConfigToString(cfgs[i]));
      schedx::FreeRunPart("tsan-free-run", [](const std::string & c) { Config cf = ConfigFromString(c); return std::function<void()>([cf]() { Body(cf); }); }, cs, iters, args, res);
      return res.Write(args);
   }

   std::vector<Config> cfgs; size_t numNamed = 0;
   if (args.kv.count("config")) cfgs.push_back(ConfigFromString(args.kv["config"]));
   else {
      // named configurations first (simplest first), then the script space
      const char * named[] = {"pw=1;r.|w.", "pw=0;r.|w.", "pw=1;rw..|r.|w.", "pw=0;rw..|r.|w.", "pw=1;rW..|r.|w.", "pw=1;rT..|r.|w.", "pw=1;w.|T.|r.", "pw=1;w.|T.|w.", "pw=0;w.|T.|r.", "pw=1;wi.|T.|w.", "pw=1;wi.|T.|r.", "pw=0;wi.|T.|w.", "pw=1;wi.|t.|w.", "pw=1;ri.|T.|w.", "pw=1;ri.|T.|T.", "pw=1;wi.|rT..|r.", "pw=1;wi.|w.|r.|r.", "pw=0;wi.|r.|w.|r.", "pw=1;ri.|rw..|w.", "pw=1;wrv.|w.|r.", "pw=1;rwv.|w.|r.", "pw=0;wrv.|w.|r.", "pw=1;wriv.|w.|r.", "pw=1;wrv.|T.|t.", "pw=1;rw..|rw..", "pw=1;rw..|rw..|r.", "pw=1;r.|r.|w.|w.", "pw=1;r.x|w.x", "pw=0;rw..x|w.x", "pw=1;rr..|ww..|t.", "pw=0;rT..|rT..|w."};
      for (size_t i = 0; i < sizeof(named) / sizeof(named[0]); i++) cfgs.push_back(ConfigFromString(named[i]));
      numNamed = cfgs.size();
      AddMultisets(cfgs, 2, 0);   // every pair of scripts
      if (args.Thorough()) AddMultisets(cfgs, 3, 0); else AddMultisets(cfgs, 3, 1);
   }
   const double deadline = args.t0 + args.deadline * 0.92;
   schedx::StartPool([](const std::string & cs) { Config c = ConfigFromString(cs); return std::function<void()>([c]() { Body(c); }); }, opt, args.workers);
   // thorough tier: everything at bound 2, then the configurations with an upgrade or a deadline call again at bound 3 while time remains
   unsigned long execs = 0; size_t done = 0; bool capped = false;
   std::vector<verif::Part> parts; std::set<std::string> seenCfg;
   for (int pass = 0; pass < (args.Thorough() ? 2 : 1); pass++) {
      schedx::Options o2 = opt; if (pass == 1) o2.bound = opt.bound + 1;
      for (size_t i = 0; i < cfgs.size(); i++) {
         const Config cfg = cfgs[i]; const std::string cs = ConfigToString(cfg) + verif::Fmt(";bound=%d", o2.bound);
         // second pass (bound+1): the named configurations (first numNamed entries) and every PAIR of scripts -- sized to complete inside the thorough deadline
         if (pass == 1 && !(i < numNamed || cfg.scripts.size() == 2)) continue;
         if (!seenCfg.insert(cs).second) continue;
         if (verif::NowS() > deadline) { capped = true; break; }
         schedx::Explore("rw", ConfigToString(cfg), o2, args, res, deadline);
         verif::Part & p = res.parts.back(); execs += p.transitions; done++; if (!p.exhaustive) capped = true;
         parts.push_back(p); res.parts.pop_back();
      }
   }
   schedx::StopPool();
   // fold the per-configuration parts into one Part per bound
   std::map<int, verif::Part> byBound;
   for (size_t i = 0; i < parts.size(); i++) {
      int b = atoi(parts[i].extra["preemption_bound"].c_str()); verif::Part & a = byBound[b];
      a.states += parts[i].states; a.transitions += parts[i].transitions; a.evaluations += parts[i].evaluations; a.distinct_outcomes += parts[i].distinct_outcomes; a.wall_s += parts[i].wall_s;
      if (!parts[i].exhaustive) { a.exhaustive = false; a.cap = parts[i].cap; }
      if (a.samples.size() < 3 && !parts[i].samples.empty()) a.samples.push_back(parts[i].samples[(size_t)args.seed % parts[i].samples.size()]);
      a.extra["configurations"] = verif::Fmt("%d", atoi(a.extra["configurations"].c_str()) + 1);
      a.extra["scheduling_points_total"] = verif::Fmt("%lu", strtoul(a.extra["scheduling_points_total"].c_str(), NULL, 10) + strtoul(parts[i].extra["scheduling_points_total"].c_str(), NULL, 10));
   }
   for (std::map<int, verif::Part>::iterator it = byBound.begin(); it != byBound.end(); ++it) {
      verif::Part & a = it->second; a.name = verif::Fmt("rwmutex-bound%d", it->first); a.bound_completed = a.exhaustive ? it->first : -1;
      if (capped && it->first == byBound.rbegin()->first) { a.exhaustive = false; if (a.cap.empty()) a.cap = "deadline: not every configuration was explored at this bound"; }
      a.rule = verif::Fmt("every interleaving with <=%d preemptions/fired timeouts (iterative context bounding over hooked Mutex/WaitCondition points + one yield inside each critical section) of %s thread-script configurations over one real ReaderWriterMutex (scripts from {r. w. R. W. t. T. rw.. rr.. wr.. ww.. rT.. r.w. ri. wi. wrv. rwv.} = blocking/try/timed acquisitions, recursion, upgrade, i = holder stays in its critical section until all others are blocked, v = release the write lock first while keeping a read lock (downgrade); both writer-preference settings); one execution = one forked process; distinct = distinct (status, per-thread result log)", it->first, a.extra["configurations"].c_str());
      res.parts.push_back(a);
   }
   fprintf(stderr, "C18: configs=%u executions=%lu capped=%d violations=%u wall=%.1fs\n", (unsigned)done, execs, (int)capped, (unsigned)res.violations.size(), verif::NowS() - args.t0);
   return res.Write(args);
}
