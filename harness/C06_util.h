// C06 helpers shared by the three parts of harness/C06_isolation.cpp (included from that one TU only, after reflector_l1.h).
//   * StripSubscriber       removes one session id from every per-node subscriber table "s={..}" of an l1 dump text
//   * FirstDiff             first differing line of two dump texts (for violation messages)
//   * IsUnder / ScrubGen    path helpers; ScrubGen replaces generated ordered-child names (I<digits>, finding F15) by "I#"
//   * InboxText             canonical text of what one client was sent, with everything attributable to one session (notices
//                           about nodes under its root, Messages it routed) removed
//   * Mirror / CanonMirror  client-side mirror of PR_RESULT_DATAITEMS (removals first, then sets), rank-canonicalised
#ifndef VERIF_C06_UTIL_H
#define VERIF_C06_UTIL_H

#include "harness/reflector_l1.h"

namespace c06 {

using l1::MessageRef;

static inline bool IsUnder(const std::string & path, const std::string & root) { return path == root || (path.size() > root.size() && path.compare(0, root.size(), root) == 0 && path[root.size()] == '/'); }

// " s={1:1,3:2}" -> the entry of session `id` removed.  The subscriber table is the LAST " s={" of a tree line (payload text precedes it,
// only the quoted index names follow it).  Session lines and matcher lines do not contain " s={".
static inline std::string StripSubscriber(const std::string & dump, uint32_t id)
{
   std::string out; out.reserve(dump.size());
   const std::string idText = l1::U32(id) + ":";
   size_t pos = 0;
   while (pos < dump.size()) {
      size_t e = dump.find('\n', pos); if (e == std::string::npos) e = dump.size();
      std::string line = dump.substr(pos, e - pos);
      if (line.size() > 2 && line[0] == ' ' && line[1] == '\'') {
         size_t s = line.rfind(" s={");
         if (s != std::string::npos) {
            size_t b = s + 4, c = line.find('}', b);
            if (c != std::string::npos) {
               std::string body = line.substr(b, c - b), nb; size_t p = 0;
               while (p <= body.size() && !body.empty()) {
                  size_t q = body.find(',', p); if (q == std::string::npos) q = body.size();
                  std::string ent = body.substr(p, q - p);
                  if (ent.compare(0, idText.size(), idText) != 0) nb += (nb.empty() ? "" : ",") + ent;
                  p = q + 1;
               }
               line = line.substr(0, b) + nb + line.substr(c);
            }
         }
      }
      out += line; if (e < dump.size()) out += '\n';
      pos = e + 1;
   }
   return out;
}

// removes the tree line of one node (" '<path>' d=...") from a dump text
static inline std::string DropNodeLine(const std::string & dump, const std::string & path)
{
   const std::string head = " " + l1::Quote(path) + " d=";
   std::string out; size_t pos = 0;
   while (pos < dump.size()) {
      size_t e = dump.find('\n', pos); if (e == std::string::npos) e = dump.size();
      if (dump.compare(pos, head.size(), head) != 0) { out.append(dump, pos, e - pos); if (e < dump.size()) out += '\n'; }
      pos = e + 1;
   }
   return out;
}

static inline std::string FirstDiff(const std::string & a, const std::string & b)
{
   size_t pa = 0, pb = 0; int line = 1;
   while (pa < a.size() || pb < b.size()) {
      size_t ea = a.find('\n', pa); if (ea == std::string::npos) ea = a.size();
      size_t eb = b.find('\n', pb); if (eb == std::string::npos) eb = b.size();
      std::string la = pa < a.size() ? a.substr(pa, ea - pa) : std::string("<end>"), lb = pb < b.size() ? b.substr(pb, eb - pb) : std::string("<end>");
      if (la != lb) return "line " + l1::U32((uint32_t)line) + ": [" + la + "] vs [" + lb + "]";
      pa = ea + 1; pb = eb + 1; line++;
   }
   return "(no difference)";
}

// replaces every token I<digits> that starts after one of / ' " : , [ and ends before one of / ' " : , ] = space or the end by I#   (generated names, F15)
static inline std::string ScrubGen(const std::string & s)
{
   std::string o; o.reserve(s.size());
   for (size_t i = 0; i < s.size(); i++) {
      if (s[i] == 'I' && i + 1 < s.size() && isdigit((unsigned char)s[i + 1]) && (i == 0 || strchr("/'\":,[", s[i - 1]))) {
         size_t j = i + 1; while (j < s.size() && isdigit((unsigned char)s[j])) j++;
         if (j == s.size() || strchr("/'\":,]= ", s[j])) { o += "I#"; i = j - 1; continue; }
      }
      o += s[i];
   }
   return o;
}

static inline bool InResultRange(uint32_t what) { return what >= (uint32_t)muscle::BEGIN_PR_RESULTS && what <= (uint32_t)muscle::END_PR_RESULTS; }
static inline bool InCommandRange(uint32_t what) { return what >= (uint32_t)muscle::BEGIN_PR_COMMANDS && what <= (uint32_t)muscle::END_PR_COMMANDS; }

// first string value of PR_NAME_SESSION, or "" when there is no such string field
static inline std::string SessionField(const MessageRef & m) { const muscle::String * s = NULL; return (m() && m()->FindString(PR_NAME_SESSION, &s).IsOK() && s) ? std::string((*s)()) : std::string(); }

// Canonical text of a client's inbox with everything attributable to session (xRoot, xId) removed:
//   PR_RESULT_DATAITEMS / PR_RESULT_INDEXUPDATED entries about nodes under xRoot; other Messages whose PR_NAME_SESSION names xId.
// A Message that becomes empty disappears.  Message boundaries are kept ("|").  Generated names are scrubbed.
// xRoot empty => nothing is removed.
static inline std::string InboxText(const std::vector<MessageRef> & msgs, const std::string & xRoot, const std::string & xId)
{
   std::string out;
   for (size_t i = 0; i < msgs.size(); i++) {
      std::string t; l1::DataItems d; std::vector<l1::IndexOp> io;
      if (l1::ParseDataItems(msgs[i], d)) {
         for (size_t k = 0; k < d.removed.size(); k++) if (xRoot.empty() || !IsUnder(d.removed[k], xRoot)) t += " R " + d.removed[k];
         for (size_t k = 0; k < d.sets.size(); k++) if (xRoot.empty() || !IsUnder(d.sets[k].first, xRoot)) t += " S " + d.sets[k].first + "=" + l1::MsgText(d.sets[k].second);
      } else if (l1::ParseIndexUpdated(msgs[i], io)) {
         for (size_t k = 0; k < io.size(); k++) if (xRoot.empty() || !IsUnder(io[k].nodePath, xRoot)) t += " X " + io[k].nodePath + " " + std::string(1, io[k].op) + l1::U32(io[k].index) + ":" + io[k].key;
      } else {
         if (!xId.empty() && SessionField(msgs[i]) == xId) continue;
         t = " M " + l1::MsgText(msgs[i]);
      }
      if (!t.empty()) out += ScrubGen(t) + " |";
   }
   return out;
}

typedef std::map<std::string, std::string> Mirror;   // full node path -> flattened payload

static inline void ApplyToMirror(Mirror & m, const std::vector<MessageRef> & msgs) { for (size_t i = 0; i < msgs.size(); i++) (void) l1::ApplyDataItems(m, msgs[i]); }

// Mirror as text, entries under xRoot left out, generated names renamed by rank among the mirrored generated siblings of one parent
// (names are handed out in increasing order per parent, so equal sibling sets give equal ranks whatever the raw numbers are).
static inline std::string CanonMirror(const Mirror & m, const std::string & xRoot)
{
   std::map<std::string, std::vector<std::string> > gen;   // parent path -> generated child names present (any depth below)
   for (Mirror::const_iterator it = m.begin(); it != m.end(); ++it) {
      if (!xRoot.empty() && IsUnder(it->first, xRoot)) continue;
      size_t pos = 1;
      while (pos < it->first.size()) {
         size_t e = it->first.find('/', pos); if (e == std::string::npos) e = it->first.size();
         const std::string clause = it->first.substr(pos, e - pos);
         if (l1::IsGeneratedName(clause.c_str())) { std::vector<std::string> & v = gen[it->first.substr(0, pos - 1)]; if (std::find(v.begin(), v.end(), clause) == v.end()) v.push_back(clause); }
         pos = e + 1;
      }
   }
   std::map<std::string, std::map<std::string, std::string> > rank;
   for (std::map<std::string, std::vector<std::string> >::iterator it = gen.begin(); it != gen.end(); ++it) rank[it->first] = l1::RankGeneratedNames(it->second);
   std::vector<std::string> lines;
   for (Mirror::const_iterator it = m.begin(); it != m.end(); ++it) {
      if (!xRoot.empty() && IsUnder(it->first, xRoot)) continue;
      std::string canon; size_t pos = 1;
      while (pos < it->first.size()) {
         size_t e = it->first.find('/', pos); if (e == std::string::npos) e = it->first.size();
         std::string clause = it->first.substr(pos, e - pos);
         if (l1::IsGeneratedName(clause.c_str())) { std::map<std::string, std::string> & r = rank[it->first.substr(0, pos - 1)]; if (r.count(clause)) clause = r[clause]; }
         canon += "/" + clause; pos = e + 1;
      }
      lines.push_back(canon + "=" + l1::Hex(it->second.data(), it->second.size()));
   }
   std::sort(lines.begin(), lines.end());
   std::string o; for (size_t i = 0; i < lines.size(); i++) o += lines[i] + "\n";
   return o;
}

static inline bool MirrorMentions(const Mirror & m, const std::string & root) { for (Mirror::const_iterator it = m.begin(); it != m.end(); ++it) if (IsUnder(it->first, root)) return true; return false; }

// does any node of the tree carry a subscriber entry of session `id`?  returns the first such path, "" when none
static inline std::string FindSubscriberMark(const muscle::DataNode & n, uint32_t id)
{
   if (n.GetSubscribers().ContainsKey(id)) return std::string(n.GetNodePath()());
   for (muscle::DataNodeRefIterator it = n.GetChildIterator(); it.HasData(); it++) { std::string r = FindSubscriberMark(*it.GetValue()(), id); if (!r.empty()) return r; }
   return "";
}
static inline uint32_t CountNodes(const muscle::DataNode & n) { uint32_t c = 1; for (muscle::DataNodeRefIterator it = n.GetChildIterator(); it.HasData(); it++) c += CountNodes(*it.GetValue()()); return c; }

}  // namespace c06

#endif
