// C09 model: oracle evaluated after every operation, canonical form.  (Inside class HtModel.)

   static std::string ShowList(const RList & l)
   {
      std::string s = "["; const size_t n = l.size();
      for (size_t i = 0; i < n; i++) { if (n > 24 && i == 8) { s += verif::Fmt("...(%u entries)...,", (unsigned)n); i = n - 8; } s += verif::Fmt("k%d:%d,", l[i].k, l[i].v); }
      return s + "]";
   }
   static void ReadImpl(const TableT & x, RList & out, bool backwards)
   {
      out.clear();
      for (CIterT it(x, (uint32)(HTIT_FLAG_NOREGISTER | (backwards ? HTIT_FLAG_BACKWARDS : 0))); it.HasData(); it++) { KV e = {it.GetKey().id, it.GetValue()}; out.push_back(e); if (out.size() > 200000) break; }
   }
   static std::string ShowIter(const RefIter & r) { if (!r.live) return "-"; return verif::Fmt("%s owner=%d saved=%d cursor=k%d", r.back ? "bwd" : "fwd", r.owner, (int)r.saved, r.cursor); }
   std::string Dump(const World & w) const
   {
      RList a, b; ReadImpl(*w.t, a, false); ReadImpl(*w.u, b, false);
      return "; impl t=" + ShowList(a) + " u=" + ShowList(b) + " | reference t=" + ShowList(w.m[T]) + " u=" + ShowList(w.m[U]) + " | ref iterators A{" + ShowIter(w.ri[0]) + "} B{" + ShowIter(w.ri[1]) + "}";
   }
   static bool SameList(const RList & a, const RList & b) { if (a.size() != b.size()) return false; for (size_t i = 0; i < a.size(); i++) if (a[i].k != b[i].k || a[i].v != b[i].v) return false; return true; }
   static bool SameSet(const RList & a, const RList & b) { if (a.size() != b.size()) return false; for (size_t i = 0; i < a.size(); i++) { const int j = RFind(b, a[i].k); if (j < 0 || b[j].v != a[i].v) return false; } return true; }
   static bool IsSubseqKeys(const RList & a, const RList & b, bool withValues) { size_t j = 0; for (size_t i = 0; i < a.size(); i++) { while (j < b.size() && b[j].k != a[i].k) j++; if (j >= b.size()) return false; if (withValues && b[j].v != a[i].v) return false; j++; } return true; }

#define CFAIL(k, text) do { msg = std::string(tab ? "u: " : "t: ") + (text); key = (k); return false; } while (0)
   // content, every query and the internal bookkeeping of one table against its reference list
   bool CheckTable(World & w, int tab, bool full, std::string & msg, std::string & key) const
   {
      const TableT & x = w.Tab(tab); RList & m = w.m[tab];
      {  // forward iteration (registered read-only iterator), compared on the fly
         size_t i = 0; bool same = true;
         for (CIterT it(x); it.HasData(); it++, i++) { if (i >= m.size() || it.GetKey().id != m[i].k || it.GetValue() != m[i].v) { same = false; break; } }
         if (same && i != m.size()) same = false;
         if (!same) {
            bool adopted = false;
            if (KIND == 2) { RList f; ReadImpl(x, f, false); if (SameSet(f, m)) { bool sorted = true; for (size_t q = 1; q < f.size(); q++) if (f[q].v < f[q - 1].v) sorted = false; if (sorted) { m = f; adopted = true; } } }  // order among equal values is not specified: adopt
            if (!adopted) CFAIL("content", "forward iteration differs from the reference map");
         }
      }
      const size_t n = m.size();
      {  // backward iteration (unregistered iterator)
         size_t i = 0;
         for (CIterT it(x, (uint32)(HTIT_FLAG_NOREGISTER | HTIT_FLAG_BACKWARDS)); it.HasData(); it++, i++) { if (i >= n || it.GetKey().id != m[n - 1 - i].k || it.GetValue() != m[n - 1 - i].v) CFAIL("content-backward", "backward iteration is not the reverse of the forward iteration"); }
         if (i != n) CFAIL("content-backward", "backward iteration has a different length");
      }
      if (KIND != 0) for (size_t i = 1; i < n; i++) if (Less(m[i], m[i - 1])) CFAIL("sorted", "auto-sorting table is not in sorted order");
      if (x.GetNumItems() != n || x.IsEmpty() != (n == 0) || x.HasItems() != (n > 0) || x.GetLastValidIndex() != (int32)n - 1) CFAIL("query:GetNumItems", "GetNumItems/IsEmpty/HasItems/GetLastValidIndex wrong");
      if (x.GetNumAllocatedItemSlots() < n) CFAIL("query:GetNumAllocatedItemSlots", "fewer slots than items");
      // first / last
      if (n) {
         if (!x.GetFirstKey() || x.GetFirstKey()->id != m[0].k || !x.GetLastKey() || x.GetLastKey()->id != m[n - 1].k) CFAIL("query:GetFirstKey", "GetFirstKey/GetLastKey wrong");
         if (!x.GetFirstValue() || *x.GetFirstValue() != m[0].v || !x.GetLastValue() || *x.GetLastValue() != m[n - 1].v) CFAIL("query:GetFirstValue", "GetFirstValue/GetLastValue wrong");
         if (!x.IsKeyLocatedInThisContainer(*x.GetFirstKey()) || !x.IsValueLocatedInThisContainer(*x.GetLastValue())) CFAIL("query:IsKeyLocatedInThisContainer", "own key/value reported as not located in the container");
      } else {
         if (x.GetFirstKey() || x.GetLastKey() || x.GetFirstValue() || x.GetLastValue()) CFAIL("query:GetFirstKey", "GetFirst/Last non-NULL on an empty table");
         if (x.GetFirstKeyWithDefault().id != -1 || x.GetLastKeyWithDefault().id != -1 || x.GetFirstValueWithDefault() != 0 || x.GetLastValueWithDefault() != 0) CFAIL("query:GetFirstKeyWithDefault", "default expected on an empty table");
      }
      if (!full) return true;
      // per-key lookups: the special keys, two never-present keys, the default key, and (bigger tables) a sample of the other entries
      {
         int pk[32], pj[32]; size_t np = 0;  // key id, index in the reference list (-1 = absent)
         static const int sp[9] = {0, 1, 2, 3, 4, 5, 6, 9, -1};
         for (int i = 0; i < 9; i++) { pk[np] = sp[i]; pj[np] = RFind(m, sp[i]); np++; }
         if (n > 16) {
            const size_t stride = n / 5 + 1; for (size_t i = 3; i < n && np < 32; i += stride) { pk[np] = m[i].k; pj[np] = (int)i; np++; }
            const size_t st2 = (n > 1000) ? 7 : 1;  // every entry must be reachable through its bucket
            for (size_t i = 0; i < n; i += st2) { const HKey k(m[i].k); const int * p = x.Get(k); if (!p || *p != m[i].v) CFAIL("query:Get", verif::Fmt("Get(k%d) wrong (entry %u of %u)", m[i].k, (unsigned)i, (unsigned)n)); }
         }
         for (size_t pi = 0; pi < np; pi++) {
            const int kid = pk[pi]; const int j = pj[pi]; const HKey k(kid); const bool has = j >= 0;
            if (x.ContainsKey(k) != has) CFAIL("query:ContainsKey", verif::Fmt("ContainsKey(k%d) wrong", kid));
            const int * p = x.Get(k); if ((p != NULL) != has || (has && *p != m[j].v)) CFAIL("query:Get", verif::Fmt("Get(k%d) wrong", kid));
            int rv = -5; status_t r = x.GetValue(k, rv); if (r.IsOK() != has || (has && rv != m[j].v) || (!has && (rv != -5 || r != B_DATA_NOT_FOUND))) CFAIL("query:GetValue", verif::Fmt("GetValue(k%d,ret) wrong", kid));
            if (x.GetWithDefault(k) != (has ? m[j].v : 0) || x[k] != (has ? m[j].v : 0) || x.GetWithDefault(k, 77) != (has ? m[j].v : 77)) CFAIL("query:GetWithDefault", verif::Fmt("GetWithDefault(k%d) wrong", kid));
            if (x.IndexOfKey(k) != (int32)j) CFAIL("query:IndexOfKey", verif::Fmt("IndexOfKey(k%d) returned %d expected %d", kid, x.IndexOfKey(k), j));
            const HKey * hk = x.GetKey(k); if ((hk != NULL) != has || (has && hk->id != kid)) CFAIL("query:GetKey", verif::Fmt("GetKey(k%d) wrong", kid));
            const HKey * kb = x.GetKeyBefore(k); const HKey * ka = x.GetKeyAfter(k);
            const int eb = (has && j > 0) ? m[j - 1].k : -1, ea = (has && j + 1 < (int)n) ? m[j + 1].k : -1;
            if ((kb ? kb->id : -1) != eb || (ka ? ka->id : -1) != ea) CFAIL("query:GetKeyBefore", verif::Fmt("GetKeyBefore/After(k%d) wrong", kid));
         }
      }
      // positional access
      {
         size_t idxs[10]; size_t ni = 0;
         if (n <= 16) ni = 0; else { idxs[ni++] = 0; idxs[ni++] = 1; idxs[ni++] = n - 2; idxs[ni++] = n - 1; idxs[ni++] = n; idxs[ni++] = n / 2 - 1; idxs[ni++] = n / 2; }
         const size_t cnt = (n <= 16) ? n + 2 : ni;
         for (size_t q = 0; q < cnt; q++) {
            const size_t i = (n <= 16) ? q : idxs[q]; const bool ok = i < n;
            const HKey * pk = x.GetKeyAt((uint32)i); const int * pv = x.GetValueAt((uint32)i);
            if ((pk != NULL) != ok || (pv != NULL) != ok || (ok && (pk->id != m[i].k || *pv != m[i].v))) CFAIL("query:GetKeyAt", verif::Fmt("GetKeyAt/GetValueAt(%u) wrong", (unsigned)i));
            if (n > 16 && q >= 5) continue;   // big tables: the O(n) middle positions get the pointer forms only
            HKey rk(-7); int rv = -5; status_t r1 = x.GetKeyAt((uint32)i, rk), r2 = x.GetValueAt((uint32)i, rv);
            if (r1.IsOK() != ok || r2.IsOK() != ok || (ok && (rk.id != m[i].k || rv != m[i].v)) || (!ok && (r1 != B_BAD_ARGUMENT || r2 != B_BAD_ARGUMENT || rk.id != -7 || rv != -5))) CFAIL("query:GetKeyAt", verif::Fmt("GetKeyAt/GetValueAt(%u,ret) wrong", (unsigned)i));
            if (x.GetKeyAtWithDefault((uint32)i).id != (ok ? m[i].k : -1) || x.GetValueAtWithDefault((uint32)i) != (ok ? m[i].v : 0) || x.GetValueAtWithDefault((uint32)i, 77) != (ok ? m[i].v : 77)) CFAIL("query:GetKeyAtWithDefault", verif::Fmt("Get*AtWithDefault(%u) wrong", (unsigned)i));
            if (x.IsIndexValid((uint32)i) != ok) CFAIL("query:IsIndexValid", "IsIndexValid wrong");
         }
      }
      // value searches
      {
         const int vals[3] = {2, 77, 5};
         for (int vi = 0; vi < (n > 1000 ? 1 : n > 16 ? 2 : 3); vi++) {
            const int v = vals[vi]; int first = -1, last = -1; for (size_t i = 0; i < n; i++) if (m[i].v == v) { if (first < 0) first = (int)i; last = (int)i; }
            if (x.ContainsValue(v) != (first >= 0) || x.IndexOfValue(v) != first || x.IndexOfValue(v, true) != last) CFAIL("query:IndexOfValue", verif::Fmt("ContainsValue/IndexOfValue(%d) wrong", v));
            const HKey * fk = x.GetFirstKeyWithValue(v); const HKey * lk = x.GetLastKeyWithValue(v);
            if ((fk ? fk->id : -1) != (first >= 0 ? m[first].k : -1) || (lk ? lk->id : -1) != (last >= 0 ? m[last].k : -1)) CFAIL("query:GetFirstKeyWithValue", verif::Fmt("GetFirst/LastKeyWithValue(%d) wrong", v));
         }
      }
      // bookkeeping (private state, read only): free list length, registered-iterator list
      {
         if (x._numItems > x._tableSize) CFAIL("invariant:numItems", "numItems > tableSize");
         if (x.GetTableIndexType() != (uint32)((x._tableSize >= 255) + (x._tableSize >= 65535))) CFAIL("invariant:indexType", "slot index width does not match the table size");
         if (x._table) {
            uint32 fl = 0; uint32 idx = x._freeHeadIdx;
            while (idx != MUSCLE_HASHTABLE_INVALID_SLOT_INDEX && fl <= x._tableSize) { if (idx >= x._tableSize) CFAIL("invariant:freelist", "free list index out of range"); const typename TableT::HashtableEntryBaseType * e = x.IndexToEntryUnchecked(idx); if (e->_hash != MUSCLE_HASHTABLE_INVALID_HASH_CODE) CFAIL("invariant:freelist", "in-use entry on the free list"); fl++; idx = x.GetEntryBucketNext(e); }
            if (fl != x._tableSize - x._numItems) CFAIL("invariant:freelist", verif::Fmt("free list holds %u slots, expected %u", fl, x._tableSize - x._numItems));
         } else if (n) CFAIL("invariant:table", "items without a table");
         uint32 len = 0;
         for (const typename TableT::IteratorImpType * p = x._iterList; p && len < 10; p = p->_nextIter, len++) {
            int slot = -1; for (int s = 0; s < 2; s++) if (w.it[s] && p == &w.it[s]->_imp) slot = s;
            if (slot < 0) CFAIL("invariant:iterlist", "registered-iterator list holds an iterator that no longer exists");
            if (p->_owner != &x) CFAIL("invariant:iterlist", "registered iterator's owner is another table");
         }
         if (x._owningThreadIteratorCount != len || (uint32)x._iteratorCount.GetCount() != len) CFAIL("invariant:itercount", verif::Fmt("iterator counters (%u,%d) differ from the registered-iterator list length %u", x._owningThreadIteratorCount, (int)x._iteratorCount.GetCount(), len));
      }
      return true;
   }
#undef CFAIL

   // every live iterator: HasData, current item, and the complete remaining traversal (taken on a copy of the iterator) against the reference prediction
   bool CheckIters(World & w, std::string & msg, std::string & key) const
   {
      volatile int sink = 0;
      for (int s = 0; s < 2; s++) {
         const RefIter & r = w.ri[s]; const char * nm = s ? "iterator B: " : "iterator A: ";
#define IFAIL(k, text) do { msg = std::string(nm) + (text); key = (k); return false; } while (0)
         if (!r.live) { if (w.it[s]) IFAIL("harness", "slot bookkeeping"); continue; }
         IterT & it = *w.it[s];
         const bool expData = r.saved || r.cursor != -1;
         if (it.HasData() != expData) IFAIL("iterator:HasData", verif::Fmt("HasData() is %d, reference predicts %d", (int)it.HasData(), (int)expData));
         if (it.IsBackwards() != r.back) IFAIL("iterator:IsBackwards", "direction flag wrong");
         const RList * l = (r.cursor != -1 && r.owner >= 0) ? &w.m[r.owner] : NULL;
         int idx = l ? RFind(*l, r.cursor) : -1;
         if (r.cursor != -1 && idx < 0) IFAIL("harness", "reference cursor names a key that is not in its table");
         if (r.saved) { sink += it.GetKey().id; sink += it.GetValue(); }   // content of the saved copy is not specified; reading it must be safe
         else if (idx >= 0) {
            if (it.GetKey().id != (*l)[idx].k || it.GetValue() != (*l)[idx].v) IFAIL("iterator:current", verif::Fmt("stands on k%d:%d, reference predicts k%d:%d", it.GetKey().id, it.GetValue(), (*l)[idx].k, (*l)[idx].v));
            const int n = (int)l->size(); const bool first = r.back ? (idx == n - 1) : (idx == 0), last = r.back ? (idx == 0) : (idx == n - 1);
            if (it.IsAtStart() != first || it.IsAtEnd() != last) IFAIL("iterator:IsAtStart", "IsAtStart/IsAtEnd wrong");
         }
         if (idx >= 0) {  // an iterator that stands on an entry must be registered with the table that holds the entry
            if ((it._imp._flags & HTIT_FLAG_NOREGISTER) || it._imp._owner != &w.Tab(r.owner)) IFAIL("iterator:owner", "iterator is not registered with the table that holds its entry");
         }
         {
            IterT c(it);
            if (r.saved) { if (!c.HasData()) IFAIL("iterator:copy", "copy of an iterator with a saved item has no data"); sink += c.GetKey().id; sink += c.GetValue(); c++; }
            int j = idx; const int n = l ? (int)l->size() : 0; int steps = 0;
            while (j >= 0) {
               if (!c.HasData()) IFAIL("iterator:remaining", verif::Fmt("traversal ends after %d entries, reference predicts k%d next (an entry that is present would be skipped)", steps, (*l)[j].k));
               if (c.GetKey().id != (*l)[j].k || c.GetValue() != (*l)[j].v) IFAIL("iterator:remaining", verif::Fmt("traversal yields k%d:%d after %d entries, reference predicts k%d:%d", c.GetKey().id, c.GetValue(), steps, (*l)[j].k, (*l)[j].v));
               c++; steps++; j = r.back ? j - 1 : (j + 1 < n ? j + 1 : -1);
            }
            if (c.HasData()) IFAIL("iterator:remaining", verif::Fmt("traversal continues with k%d after the %d predicted entries", c.GetKey().id, steps));
            c++; if (c.HasData()) IFAIL("iterator:remaining", "finished iterator has data again after ++");
         }
#undef IFAIL
      }
      (void) sink;
      return true;
   }

   bool CheckAll(World & w, bool touchesU, std::string & msg, std::string & key) const
   {
      if (!CheckTable(w, T, true, msg, key)) return false;
      if (!CheckTable(w, U, touchesU, msg, key)) return false;   // content, order and first/last of u always; every query only after operations that involve u
      return CheckIters(w, msg, key);
   }

   // ------------------------------------------------------------ canonical form
   // Futures depend on: ordered content; table size, index width, array allocated or not; which slot holds which entry and how buckets/free list are
   // chained (layout >= 1: slot of every entry + head of the free list; layout 2, small tables: every index field of every slot); for each iterator
   // its direction, saved-copy flag, cursor entry, registration (which table's list, and the order of that list).  The CONTENT of a saved copy is excluded
   // (it is only ever read, never compared).
   void CanonTable(const World & w, const TableT & x, std::string & out) const
   {
      out += "|s"; AppendInt(out, x._tableSize); out += x._table ? 'a' : 'n'; out += 'n'; AppendInt(out, x._numItems);
      out += AutoSortOf<TableT, KIND>::Get(x);
      if (layout >= 1 && x._table) {
         out += 'f'; uint32 idx = x._freeHeadIdx; for (int q = 0; q < 2 && idx != MUSCLE_HASHTABLE_INVALID_SLOT_INDEX; q++) { AppendInt(out, idx); out += '.'; idx = x.GetEntryBucketNext(x.IndexToEntryUnchecked(idx)); }
      }
      out += ':';
      if (x._numItems <= 40) {
         for (const typename TableT::HashtableEntryBaseType * e = x.IndexToEntryChecked(x._iterHeadIdx); e; e = x.GetEntryIterNextChecked(e)) {
            AppendInt(out, e->_key.id); out += '.'; AppendInt(out, e->_value);
            if (layout >= 1) { out += '@'; AppendInt(out, x.EntryToIndexUnchecked(e)); }
            out += ',';
         }
      } else {  // big tables: a 128-bit digest of the same (key, value, slot) sequence instead of its text
         uint64_t h1 = 0xcbf29ce484222325ULL, h2 = 0x9e3779b97f4a7c15ULL;
         for (const typename TableT::HashtableEntryBaseType * e = x.IndexToEntryChecked(x._iterHeadIdx); e; e = x.GetEntryIterNextChecked(e)) {
            const uint64_t a = ((uint64_t)(uint32_t)e->_key.id << 32) | (uint32_t)e->_value, b = (layout >= 1) ? x.EntryToIndexUnchecked(e) : 0;
            h1 = (h1 ^ a) * 0x100000001b3ULL; h1 = (h1 ^ b) * 0x100000001b3ULL; h2 = verif::Mix64(h2 + a * 0x632be59bd9b4e019ULL + b);
         }
         out += 'D'; out.append((const char *)&h1, 8); out.append((const char *)&h2, 8);
      }
      if (layout >= 2 && x._table && x._tableSize <= 64) {
         out += '#';
         for (uint32 i = 0; i < x._tableSize; i++) { const typename TableT::HashtableEntryBaseType * e = x.IndexToEntryUnchecked(i); for (uint32 f = 0; f < 6; f++) { const uint32 v = x.GetEntryIndexValue(e, f); AppendInt(out, v == MUSCLE_HASHTABLE_INVALID_SLOT_INDEX ? -1 : (long)v); out += (f == 5) ? ';' : '.'; } }
      }
      out += "L";
      for (const typename TableT::IteratorImpType * p = x._iterList; p; p = p->_nextIter) out += (w.it[0] && p == &w.it[0]->_imp) ? 'A' : (w.it[1] && p == &w.it[1]->_imp) ? 'B' : '?';
   }
   void Canon(const World & w, std::string & out) const
   {
      CanonTable(w, *w.t, out); CanonTable(w, *w.u, out);
      for (int s = 0; s < 2; s++) {
         out += s ? "|B" : "|A";
         if (!w.it[s]) { out += '-'; continue; }
         const typename TableT::IteratorImpType & p = w.it[s]->_imp;
         out += (p._flags & HTIT_FLAG_BACKWARDS) ? 'b' : 'f';
         out += p._scratchKeyAndValue.IsObjectConstructed() ? 'S' : 's';
         const bool reg = !(p._flags & HTIT_FLAG_NOREGISTER) && p._owner != NULL;
         out += !reg ? 'x' : (p._owner == w.t) ? 't' : (p._owner == w.u) ? 'u' : '?';
         if (p._iterCookie && reg) AppendInt(out, static_cast<const typename TableT::HashtableEntryBaseType *>(p._iterCookie)->_key.id); else out += '_';
      }
   }
   void Outcome(const World & w, std::string & out) const
   {
      out = w.lastResult; out += '/'; AppendInt(out, (long)w.m[T].size()); out += '/'; AppendInt(out, (long)w.m[U].size());
      const size_t n = w.m[T].size(); for (size_t i = 0; i < n && i < 12; i++) { out += '.'; AppendInt(out, w.m[T][i].k); }
      for (int s = 0; s < 2; s++) { const RefIter & r = w.ri[s]; out += r.live ? (r.saved ? 'S' : 's') : '-'; AppendInt(out, r.cursor); }
   }
