// C03 helper: the gateway kinds under test (factories, outgoing sequences, canonical private state), Message shapes,
// boring reference codecs for the text / raw / SLIP wire formats, and the receiving collector.
#ifndef VERIF_C03_KINDS_H
#define VERIF_C03_KINDS_H

#include "engines/common/verif.h"
#include "harness/C03_pipe.h"
#include "harness/C03_cgw.h"
#include "iogateway/MessageIOGateway.h"
#include "iogateway/TemplatingMessageIOGateway.h"
#include "iogateway/PlainTextMessageIOGateway.h"
#include "iogateway/RawDataMessageIOGateway.h"
#include "iogateway/SLIPFramedDataMessageIOGateway.h"
#include "iogateway/WebSocketMessageIOGateway.h"
#include "zlib/ZLibCodec.h"
#include "syslog/SysLog.h"
#include <math.h>

extern "C" uint64_t verif_rand_counter;   // engines/common/pin.cpp: the pinned replacement of muscle's only unseedable PRNG

namespace c03 {

using namespace muscle;

// ---------------------------------------------------------------- Message shapes
enum Shape { M_EMPTY, M_INT, M_STRA, M_STRB, M_NESTED, M_RAW, M_NAN, T_3INT, T_BYPASS, T_STR, T_SUB, T_ARR };
struct MsgSpec { int shape; uint32 what; int p; };
static inline MsgSpec MS(int shape, uint32 what, int p = 0) { MsgSpec m; m.shape = shape; m.what = what; m.p = p; return m; }

static inline MessageRef BuildMsg(const MsgSpec & s)
{
   MessageRef r = GetMessageFromPool(s.what); Message * m = r(); if (!m) return r;
   switch (s.shape) {
   case M_EMPTY: break;
   case M_INT: (void) m->AddInt32("i", s.p); break;
   case M_STRA: (void) m->AddString("name", "hello hello hel"); (void) m->AddInt32("n", s.p); break;
   case M_STRB: (void) m->AddString("other", "different 0123456789"); (void) m->AddFloat("f", 1.5f + (float)s.p); break;
   case M_NESTED: {
      MessageRef sub = GetMessageFromPool(77); (void) sub()->AddString("name", "hello hello hel"); (void) sub()->AddInt8("b", (int8)s.p);
      (void) m->AddMessage("sub", sub); (void) m->AddString("arr", "one"); (void) m->AddString("arr", ""); (void) m->AddPoint("pt", Point(1.0f, -2.0f)); (void) m->AddInt64("big", ((int64)s.p) << 33); break; }
   case M_RAW: { std::string b((size_t)s.p, '\0'); for (int i = 0; i < s.p; i++) b[i] = (char)(i * 7 + (i >> 8) + (int)s.what); (void) m->AddData("d", B_RAW_TYPE, b.data(), (uint32)b.size()); break; }
   case M_NAN: (void) m->AddFloat("f", (float)NAN); (void) m->AddDouble("d", -0.0); (void) m->AddInt16("h", (int16)s.p); break;
   // shapes for the templating gateway: payload sizes around its 32-byte compression threshold (header 8 + id 8 + what 4 + payload)
   case T_3INT: (void) m->AddInt32("a", s.p); (void) m->AddInt32("b", s.p + 1); (void) m->AddInt32("c", -s.p); break;           // 12 payload bytes: 32 in total => compressed
   case T_BYPASS: (void) m->AddInt64("x", s.p); (void) m->AddInt16("y", (int16)s.p); (void) m->AddInt8("z", (int8)s.p); break;    // 11 payload bytes: 31 in total => not compressed
   case T_STR: (void) m->AddString("s", s.p ? "a somewhat longer string value, a somewhat longer string value" : "short"); (void) m->AddInt32("q", s.p); break;
   case T_SUB: { MessageRef sub = GetMessageFromPool(5); (void) sub()->AddInt32("k", s.p); (void) m->AddMessage("m", sub); (void) m->AddFloat("f", 0.25f * (float)s.p); break; }
   case T_ARR: (void) m->AddInt32("v", s.p); (void) m->AddInt32("v", s.p * 2); (void) m->AddString("t", "x"); (void) m->AddString("t", s.p ? "yy" : ""); break;
   }
   return r;
}
static inline std::string FlatOf(const Message & m) { std::string s(m.FlattenedSize(), '\0'); if (!s.empty()) m.FlattenToBytes((uint8 *)&s[0], (uint32)s.size()); return s; }

// ---------------------------------------------------------------- reference codecs (written from the header comments, not from the code)
// Text: CR, LF and CRLF each end one line; what follows the last terminator is the (undelivered) partial line.
struct TextSplit { std::vector<std::string> lines; std::string tail; bool prevCR; };
static inline TextSplit RefTextSplit(const std::string & s)
{
   TextSplit t; t.prevCR = false; std::string cur;
   for (size_t i = 0; i < s.size(); i++) {
      const char c = s[i];
      if (c == '\r') { t.lines.push_back(cur); cur.clear(); t.prevCR = true; }
      else if (c == '\n') { if (!t.prevCR) { t.lines.push_back(cur); cur.clear(); } t.prevCR = false; }
      else { cur += c; t.prevCR = false; }
   }
   t.tail = cur; return t;
}
// SLIP (RFC 1055): END ends a frame (also right after ESC); ESC ESC_END => END, ESC ESC_ESC => ESC, ESC + any other byte passes that byte
// through; empty frames are not delivered.
static const unsigned char S_END = 0xC0, S_ESC = 0xDB, S_ESC_END = 0xDC, S_ESC_ESC = 0xDD;
struct SlipDecode { std::vector<std::string> frames; std::string pending; bool esc; };
static inline SlipDecode RefSlipDecode(const std::string & s)
{
   SlipDecode d; d.esc = false;
   for (size_t i = 0; i < s.size(); i++) {
      const unsigned char b = (unsigned char)s[i];
      if (d.esc) { if (b == S_END) { if (!d.pending.empty()) d.frames.push_back(d.pending); d.pending.clear(); } else if (b == S_ESC_END) d.pending += (char)S_END; else if (b == S_ESC_ESC) d.pending += (char)S_ESC; else d.pending += (char)b; d.esc = false; }
      else if (b == S_END) { if (!d.pending.empty()) d.frames.push_back(d.pending); d.pending.clear(); }
      else if (b == S_ESC) d.esc = true;
      else d.pending += (char)b;
   }
   return d;
}
static inline std::string RefSlipEncode(const std::string & chunk)
{
   std::string o; o += (char)S_END;
   for (size_t i = 0; i < chunk.size(); i++) { const unsigned char b = (unsigned char)chunk[i]; if (b == S_END) { o += (char)S_ESC; o += (char)S_ESC_END; } else if (b == S_ESC) { o += (char)S_ESC; o += (char)S_ESC_ESC; } else o += (char)b; }
   o += (char)S_END; return o;
}
// RFC 6455 frame as a conforming client/server sends it (FIN set, one frame per payload, mask applied with the key octets AS TRANSMITTED)
static inline std::string RefWsFrame(unsigned opcode, const std::string & payload, bool masked, const unsigned char key[4])
{
   std::string f; f += (char)(0x80 | opcode); const size_t n = payload.size(); const unsigned char mb = masked ? 0x80 : 0;
   if (n > 65535) { f += (char)(mb | 127); for (int i = 7; i >= 0; i--) f += (char)(((uint64_t)n >> (8 * i)) & 0xFF); }
   else if (n > 125) { f += (char)(mb | 126); f += (char)((n >> 8) & 0xFF); f += (char)(n & 0xFF); }
   else f += (char)(mb | n);
   if (masked) { f.append((const char *)key, 4); for (size_t i = 0; i < n; i++) f += (char)(((unsigned char)payload[i]) ^ key[i & 3]); }
   else f += payload;
   return f;
}

// ---------------------------------------------------------------- collector
class Collector : public AbstractGatewayMessageReceiver {
public:
   std::vector<std::string> flats, lines, chunks; std::vector<uint32> whats;
   virtual void MessageReceivedFromGateway(const MessageRef & msg, void *)
   {
      if (msg() == NULL) { flats.push_back("<null>"); return; }
      const Message & m = *msg();
      flats.push_back(FlatOf(m)); whats.push_back(m.what);
      const String * s; for (uint32 i = 0; m.FindString(PR_NAME_TEXT_LINE, i, &s).IsOK(); i++) lines.push_back(std::string(s->Cstr(), s->Length()));
      // (Message::FindData does not find zero-length raw items, so the chunks are fetched as ByteBuffer references)
      ConstByteBufferRef bb; for (uint32 i = 0; m.FindFlat(PR_NAME_DATA_CHUNKS, i, bb).IsOK(); i++) chunks.push_back(bb() ? std::string((const char *)bb()->GetBuffer(), bb()->GetNumBytes()) : std::string());
   }
};
static inline std::string JoinLen(const std::vector<std::string> & v, size_t from = 0, size_t to = (size_t)-1)
{
   std::string o; if (to > v.size()) to = v.size();
   for (size_t i = from; i < to; i++) { uint32_t n = (uint32_t)v[i].size(); o.append((const char *)&n, 4); o += v[i]; }
   return o;
}
static inline std::string Concat(const std::vector<std::string> & v) { std::string o; for (size_t i = 0; i < v.size(); i++) o += v[i]; return o; }

// ---------------------------------------------------------------- binary gateway with a per-Message encoding table
// (SetOutgoingEncoding takes effect "starting with the next Message that is actually sent": the table makes the switch point a function
//  of the Message index, so that the emitted stream is a function of the queued sequence only)
class TableEncodingGateway : public MessageIOGateway {
public:
   std::vector<int32> table; uint32 popped;
   TableEncodingGateway(const std::vector<int32> & t) : MessageIOGateway(t.empty() ? MUSCLE_MESSAGE_ENCODING_DEFAULT : t[0]), table(t), popped(0) {}
protected:
   virtual status_t PopNextOutgoingMessage(MessageRef & m)
   {
      MRETURN_ON_ERROR(MessageIOGateway::PopNextOutgoingMessage(m));
      if (!table.empty()) SetOutgoingEncoding(table[std::min((size_t)popped, table.size() - 1)]);
      popped++; return B_NO_ERROR;
   }
};

// ---------------------------------------------------------------- canonical private state (read through -fno-access-control)
static inline void CanonBase(const AbstractMessageIOGateway & g, std::string & o) { o += verif::Fmt("|q=%u err=%d", g.GetOutgoingMessageQueue().GetNumItems(), g.GetUnrecoverableErrorStatus().IsError() ? 1 : 0); }
static inline int CodecLevel(const ZLibCodec * c) { return c ? c->GetCompressionLevel() : 0; }
static inline void CanonMessageIO(const MessageIOGateway & g, std::string & o)
{
   CanonBase(g, o);
   const ByteBuffer * sb = g._sendBuffer._buffer(); const ByteBuffer * rb = g._recvBuffer._buffer();
   o += verif::Fmt("|send off=%u size=%d enc=%d codec=%d:", g._sendBuffer._offset, sb ? (int)sb->GetNumBytes() : -1, g._outgoingEncoding, CodecLevel(g._sendCodec));
   if (sb) { verif::Hash128 h = verif::HashBytes(sb->GetBuffer(), sb->GetNumBytes()); o += verif::Hex(&h, sizeof(h)); }
   o += verif::Fmt("|recv off=%u size=%d scratch=%d isScratch=%d codec=%d:", g._recvBuffer._offset, rb ? (int)rb->GetNumBytes() : -1, g._scratchRecvBuffer() ? 1 : 0, (rb && rb == g._scratchRecvBuffer()) ? 1 : 0, CodecLevel(g._recvCodec));
   if (rb) { verif::Hash128 h = verif::HashBytes(rb->GetBuffer(), std::min(g._recvBuffer._offset, rb->GetNumBytes())); o += verif::Hex(&h, sizeof(h)); }
}
static inline void CanonTemplating(const TemplatingMessageIOGateway & g, std::string & o)
{
   CanonMessageIO(g, o);
   o += verif::Fmt("|tin=%u:", g._incomingTemplatesTotalSizeBytes); for (HashtableIterator<uint64, MessageRef> it(g._incomingTemplates); it.HasData(); it++) o += verif::Fmt("%llx,", (unsigned long long)it.GetKey());
   o += verif::Fmt("|tout=%u:", g._outgoingTemplatesTotalSizeBytes); for (HashtableIterator<uint64, MessageRef> it(g._outgoingTemplates); it.HasData(); it++) o += verif::Fmt("%llx,", (unsigned long long)it.GetKey());
   o += verif::Fmt("|cnt=%u", g._outgoingByteCount);
}
static inline void CanonText(const PlainTextMessageIOGateway & g, std::string & o)
{
   CanonBase(g, o);
   o += verif::Fmt("|send msg=%d line=%d off=%d text=", g._currentSendingMessage() ? 1 : 0, g._currentSendLineIndex, g._currentSendOffset) + verif::Hex(std::string(g._currentSendText.Cstr(), g._currentSendText.Length()));
   o += verif::Fmt("|recv cr=%d text=", g._prevCharWasCarriageReturn ? 1 : 0) + verif::Hex(std::string(g._incomingText.Cstr(), g._incomingText.Length()));
}
static inline void CanonRaw(const RawDataMessageIOGateway & g, std::string & o)
{
   CanonBase(g, o);
   o += verif::Fmt("|send msg=%d", g._sendMsgRef() ? 1 : 0); if (g._sendMsgRef()) o += verif::Fmt(" len=%d idx=%d off=%d", g._sendBufLength, g._sendBufIndex, g._sendBufByteOffset);
   o += verif::Fmt("|recv msg=%d scratch=%u", g._recvMsgRef() ? 1 : 0, g._recvScratchSpace ? g._recvScratchSpaceSize : 0);
   if (g._recvMsgRef()) { o += verif::Fmt(" len=%d off=%d:", g._recvBufLength, g._recvBufByteOffset); o += verif::Hex(g._recvBuf, (size_t)std::max(0, std::min(g._recvBufByteOffset, g._recvBufLength))); }
}
static inline void CanonSlip(const SLIPFramedDataMessageIOGateway & g, std::string & o)
{
   CanonRaw(g, o);
   o += verif::Fmt("|slip esc=%d pendmsg=%d pend=", g._lastReceivedCharWasEscape ? 1 : 0, g._pendingMessage() ? 1 : 0);
   if (g._pendingBuffer()) o += verif::Fmt("%u:", g._pendingBuffer()->GetNumBytes()) + verif::Hex(g._pendingBuffer()->GetBuffer(), g._pendingBuffer()->GetNumBytes()); else o += "none";
}
static inline void CanonWebSocket(const WebSocketMessageIOGateway & g, std::string & o)
{
   CanonBase(g, o);
   o += verif::Fmt("|ws hs=%u httpW=%u/%u", g._handshakeState, g._numHTTPBytesWritten, g._httpTextToWrite.Length());
   { verif::Hash128 h = verif::HashBytes(g._httpTextToWrite.Cstr(), g._httpTextToWrite.Length()); o += verif::Hex(&h, 8); }
   o += "|httpR=" + verif::Hex(std::string(g._receivedHTTPText.Cstr(), g._receivedHTTPText.Length()));
   o += verif::Fmt("|hdr %u/%u:", g._headerBytesReceived, g._headerSize) + verif::Hex(g._headerBytes, std::min((uint32)14, g._headerBytesReceived));
   o += verif::Fmt("|pay %d read=%u fbm=%u op=%u closed=%d rmsg=%d:", g._payload() ? (int)g._payload()->GetNumBytes() : -1, g._payloadBytesRead, g._firstByteToMask, g._opCode, g._inputClosed ? 1 : 0, g._receivedMsg() ? 1 : 0);
   if (g._payload()) { verif::Hash128 h = verif::HashBytes(g._payload()->GetBuffer(), std::min(g._payloadBytesRead, g._payload()->GetNumBytes())); o += verif::Hex(&h, sizeof(h)); if (g._headerBytesReceived == g._headerSize) o += "m" + verif::Hex(g._mask, 4); }
   o += verif::Fmt("|out %u/%u:", g._outputBytesWritten, g._outputBuf.GetNumBytes()); { verif::Hash128 h = verif::HashBytes(g._outputBuf.GetBuffer(), g._outputBuf.GetNumBytes()); o += verif::Hex(&h, sizeof(h)); }
   const MessageIOGateway * sl = dynamic_cast<const MessageIOGateway *>(g._slaveGateway());
   if (sl) { o += "|slave"; CanonMessageIO(*sl, o); }
}

// ---------------------------------------------------------------- gateway kinds
enum KindId { K_BIN, K_TPL, K_TXT, K_RAW, K_SLIP, K_WS_CLIENT, K_WS_SERVER, K_MINI_C, K_MICRO_C };
static const uint32 MAX_INCOMING = 1024 * 1024;
enum Granularity { G_MESSAGES, G_LINES, G_BYTES, G_FRAMES };

struct Kind {
   KindId id; std::string name;
   std::vector<int32> encTable;        // K_BIN: encoding per popped Message (last entry repeats); K_TPL / WS slave: [0] = encoding
   uint32 lruBytes;                    // K_TPL
   std::string eol;                    // K_TXT: outgoing end-of-line string
   uint32 minChunk, maxChunk;          // K_RAW
   bool wsSlave;                       // K_WS_*: MessageIOGateway slave (else the built-in raw/text framing)
   Kind() : id(K_BIN), lruBytes(0), eol("\r\n"), minChunk(0), maxChunk(MUSCLE_NO_LIMIT), wsSlave(true) {}

   Granularity Gran() const { return (id == K_TXT) ? G_LINES : (id == K_RAW) ? G_BYTES : (id == K_SLIP) ? G_FRAMES : ((id == K_WS_CLIENT || id == K_WS_SERVER) && !wsSlave) ? G_FRAMES : G_MESSAGES; }
   bool IsWs() const { return id == K_WS_CLIENT || id == K_WS_SERVER; }

   AbstractMessageIOGatewayRef Make() const
   {
      switch (id) {
      // (receivers get the documented incoming-size limit, so that a gateway that has lost its place in the stream reports an error instead of allocating gigabytes)
      case K_BIN: { TableEncodingGateway * g = new TableEncodingGateway(encTable); g->SetMaxIncomingMessageSize(MAX_INCOMING); return AbstractMessageIOGatewayRef(g); }
      case K_TPL: { TemplatingMessageIOGateway * g = new TemplatingMessageIOGateway(lruBytes, encTable.empty() ? MUSCLE_MESSAGE_ENCODING_DEFAULT : encTable[0]); g->SetMaxIncomingMessageSize(MAX_INCOMING); return AbstractMessageIOGatewayRef(g); }
      case K_TXT: { PlainTextMessageIOGateway * g = new PlainTextMessageIOGateway; g->SetOutgoingEndOfLineString(eol.c_str()); return AbstractMessageIOGatewayRef(g); }
      case K_RAW: return AbstractMessageIOGatewayRef(new RawDataMessageIOGateway(minChunk, maxChunk));
      case K_SLIP: return AbstractMessageIOGatewayRef(new SLIPFramedDataMessageIOGateway);
      case K_MINI_C: return AbstractMessageIOGatewayRef(new MiniCGateway);
      case K_MICRO_C: return AbstractMessageIOGatewayRef(new MicroCGateway);
      case K_WS_CLIENT: case K_WS_SERVER: {
         WebSocketMessageIOGateway * g = (id == K_WS_CLIENT) ? new WebSocketMessageIOGateway("/verif", "localhost", "", "") : new WebSocketMessageIOGateway();
         if (wsSlave) { MessageIOGateway * sl = new MessageIOGateway(encTable.empty() ? MUSCLE_MESSAGE_ENCODING_DEFAULT : encTable[0]); sl->SetMaxIncomingMessageSize(MAX_INCOMING); g->SetSlaveGateway(AbstractMessageIOGatewayRef(sl)); }
         return AbstractMessageIOGatewayRef(g); }
      }
      return AbstractMessageIOGatewayRef();
   }
   void Canon(const AbstractMessageIOGateway & g, std::string & o) const
   {
      switch (id) {
      case K_BIN: { const TableEncodingGateway & t = static_cast<const TableEncodingGateway &>(g); CanonMessageIO(t, o); o += verif::Fmt("|pop=%u", t.popped); break; }
      case K_TPL: CanonTemplating(static_cast<const TemplatingMessageIOGateway &>(g), o); break;
      case K_TXT: CanonText(static_cast<const PlainTextMessageIOGateway &>(g), o); break;
      case K_RAW: CanonRaw(static_cast<const RawDataMessageIOGateway &>(g), o); break;
      case K_SLIP: CanonSlip(static_cast<const SLIPFramedDataMessageIOGateway &>(g), o); break;
      case K_WS_CLIENT: case K_WS_SERVER: CanonWebSocket(static_cast<const WebSocketMessageIOGateway &>(g), o); break;
      case K_MINI_C: CanonMiniC(static_cast<const MiniCGateway &>(g), o); break;
      case K_MICRO_C: CanonMicroC(static_cast<const MicroCGateway &>(g), o); break;
      }
   }
   // an error state of the gateway or its slave (after which it stops moving data)
   std::string ErrorOf(const AbstractMessageIOGateway & g) const
   {
      if (g.GetUnrecoverableErrorStatus().IsError()) return std::string("gateway error status [") + g.GetUnrecoverableErrorStatus()() + "]";
      if (IsWs()) { const WebSocketMessageIOGateway & w = static_cast<const WebSocketMessageIOGateway &>(g); if (w._slaveGateway() && w._slaveGateway()->GetUnrecoverableErrorStatus().IsError()) return std::string("slave gateway error status [") + w._slaveGateway()->GetUnrecoverableErrorStatus()() + "]"; }
      return "";
   }
};

// ---------------------------------------------------------------- what an endpoint sends: Messages (binary kinds) / lines / chunks per Message
struct Outgoing {
   std::vector<MsgSpec> msgs;                          // G_MESSAGES
   std::vector<std::vector<std::string> > items;       // G_LINES / G_BYTES / G_FRAMES: one inner vector per queued Message (its lines or chunks)
   bool Empty() const { return msgs.empty() && items.empty(); }
};
static inline void QueueAll(const Kind & k, const Outgoing & og, AbstractMessageIOGateway & g, std::vector<std::string> * sentFlats = NULL)
{
   if (k.Gran() == G_MESSAGES) { for (size_t i = 0; i < og.msgs.size(); i++) { MessageRef m = BuildMsg(og.msgs[i]); if (sentFlats) sentFlats->push_back(FlatOf(*m())); (void) g.AddOutgoingMessage(m); } }
   else for (size_t i = 0; i < og.items.size(); i++) {
      const bool text = (k.id == K_TXT);
      MessageRef m = GetMessageFromPool(text ? PR_COMMAND_TEXT_STRINGS : PR_COMMAND_RAW_DATA);
      for (size_t j = 0; j < og.items[i].size(); j++) {
         const std::string & s = og.items[i][j];
         if (text) (void) m()->AddString(PR_NAME_TEXT_LINE, String(s.data(), (uint32)s.size()));
         else { ByteBufferRef b = GetByteBufferFromPool((uint32)s.size(), (const uint8 *)s.data()); (void) m()->AddFlat(PR_NAME_DATA_CHUNKS, b); }   // (AddData refuses zero-length items)
      }
      (void) g.AddOutgoingMessage(m);
   }
}
// the wire stream a conforming sender of the simple kinds must produce (reference encoder); "" for kinds without one
static inline bool RefEncode(const Kind & k, const Outgoing & og, std::string & out)
{
   out.clear();
   if (k.id == K_TXT) { for (size_t i = 0; i < og.items.size(); i++) for (size_t j = 0; j < og.items[i].size(); j++) out += og.items[i][j] + k.eol; return true; }
   if (k.id == K_RAW) { for (size_t i = 0; i < og.items.size(); i++) for (size_t j = 0; j < og.items[i].size(); j++) out += og.items[i][j]; return true; }
   if (k.id == K_SLIP) { for (size_t i = 0; i < og.items.size(); i++) for (size_t j = 0; j < og.items[i].size(); j++) out += RefSlipEncode(og.items[i][j]); return true; }
   return false;
}

}  // namespace c03

#endif
