// C01 -- Message serialisation round-trips exactly and its advertised size is exact.
// SEQX exploration of public-API edit histories on real muscle::Message objects, an abstract Message (ref/refcodec.h) kept in
// lock-step, and on EVERY reached state: exact size into a fenced buffer, byte identity with the independent reference codec,
// parse, byte-identical re-serialisation, deep content comparison through the public read API, checksum, equality.
// Three factored families (parts): single-field (every field kind), multi-field (order / moves between two Messages), nesting.
#include "engines/seqx/seqx.h"
#include "harness/C01_msgutil.h"
#include "util/Hashtable.h"

using namespace muscle;
using namespace msgutil;
namespace rc = refcodec;

// ---------------------------------------------------------------- canonical form pieces read from the implementation (layout state)
// per field: '0' empty, '1' inline, '2' array; recursing into the sub-Messages of Message fields (the codec chosen depends on it)
static void StateString(const Message & m, std::string & out, int depth = 0)
{
   out += "(";
   if (depth < 16) for (ConstHashtableIterator<String, muscle_private::MessageField> it(m._entries, HTIT_FLAG_NOREGISTER); it.HasData(); it++) {
      const muscle_private::MessageField & mf = it.GetValue();
      out += (char)('0' + (int)mf._state);
      if (mf.TypeCode() == B_MESSAGE_TYPE) for (uint32 i = 0; i < mf.GetNumItems(); i++) { const Message * s = dynamic_cast<const Message *>(mf.GetItemAtAsRefCountableRef(i)()); if (s) StateString(*s, out, depth + 1); else out += "N"; }
   }
   out += ")";
}

// ---------------------------------------------------------------- serialisation into a guard-fenced buffer; returns the bytes actually written
static const size_t FENCE = 64;
struct Fenced {
   std::vector<uint8> buf; size_t room;
   Fenced(size_t n, uint8 fill) : buf(n + 2 * FENCE + 64, fill), room(n + 64) {}
   uint8 * Body() { return &buf[FENCE]; }
   bool FenceIntact(uint8 fill, size_t written) const
   {
      for (size_t i = 0; i < FENCE; i++) if (buf[i] != fill) return false;
      for (size_t i = FENCE + written; i < buf.size(); i++) if (buf[i] != fill) return false;
      return true;
   }
};

struct Oracle {
   bool thorough;
   explicit Oracle(bool t) : thorough(t) {}

#define OFAIL(k, text) do { key = (k); msg = (text); return false; } while (0)

   // flatten through an unlimited flattener into a fenced buffer: measures what is really written, independent of the advertised size
   bool MeasuredFlatten(const Message & m, std::string & bytes, std::string & msg, std::string & key) const
   {
      const uint32 adv = m.FlattenedSize();
      std::string got[2];
      for (int pass = 0; pass < 2; pass++) {
         const uint8 fill = pass ? 0x5A : 0xA5;
         Fenced fb(adv, fill);
         uint32 written;
         { DataFlattener flat(fb.Body(), MUSCLE_NO_LIMIT); m.Flatten(flat); written = flat.GetNumBytesWritten(); }
         if (written != adv) OFAIL("size", verif::Fmt("FlattenedSize() advertised %u bytes but Flatten() wrote %u", adv, written));
         if (!fb.FenceIntact(fill, written)) OFAIL("fence", "Flatten() wrote outside [start, start+FlattenedSize())");
         got[pass].assign((const char *)fb.Body(), written);
      }
      if (got[0] != got[1]) OFAIL("unwritten", "Flatten() left bytes of its output unwritten (result depends on the buffer's previous content)");
      // the library's own complete-write assertion as a second witness (aborts the process on under/over-write)
      { std::vector<uint8> b(adv ? adv : 1); m.FlattenToBytes(&b[0], adv); if (adv && memcmp(&b[0], got[0].data(), adv) != 0) OFAIL("unstable", "two Flatten() calls on the same Message gave different bytes"); }
      bytes = got[0];
      return true;
   }

   // the whole C01 oracle for one real Message against the abstract Message that the history should have produced
   bool Check(const Message & m, const rc::AbsMsg & model, std::string & msg, std::string & key) const
   {
      std::string err;
      // (0) lock-step: the implementation holds what the reference holds (all fields, including pointer/tag ones)
      rc::AbsMsg cur; if (!Extract(m, cur, err)) OFAIL("content", "reading the Message through the public API failed: " + err);
      if (!rc::Equal(cur, model)) OFAIL("content", "Message content differs from the reference: impl " + rc::Dump(cur) + " reference " + rc::Dump(model));
      const rc::AbsMsg flatModel = rc::FlattenablePart(model);
      // (1) advertised size == bytes written, fence intact
      std::string bytes; if (!MeasuredFlatten(m, bytes, msg, key)) return false;
      // (2) documented layout, byte for byte
      const std::string expect = rc::Encode(model);
      if (bytes != expect) OFAIL("layout", "Flatten() bytes differ from the documented layout: impl " + verif::Hex(bytes) + " reference " + verif::Hex(expect));
      { rc::AbsMsg back; std::string e2; if (!rc::Decode(bytes, back, &e2) || !rc::Equal(back, flatModel)) OFAIL("harness:refcodec", "reference decoder disagrees with reference encoder: " + e2); }
      if (!Message::BytesMightContainFlattenedMessage((const uint8 *)bytes.data(), (uint32)bytes.size())) OFAIL("might-contain", "BytesMightContainFlattenedMessage() rejects the bytes Flatten() produced");
      // (3) parse: into a fresh Message and into a dirty one (previous contents must be erased)
      Message p;
      if (p.UnflattenFromBytes((const uint8 *)bytes.data(), (uint32)bytes.size()).IsError()) OFAIL("parse", "Unflatten() rejects the bytes Flatten() produced: " + verif::Hex(bytes));
      {
         Message d(0x64697274); (void) d.AddString("junk", "x"); if (model.fields.size()) (void) d.AddRect(String(model.fields[0].name.c_str()), Rect(1, 2, 3, 4));
         if (d.UnflattenFromBytes((const uint8 *)bytes.data(), (uint32)bytes.size()).IsError()) OFAIL("parse-dirty", "Unflatten() into a non-empty Message fails");
         rc::AbsMsg dd; if (!Extract(d, dd, err) || !rc::Equal(dd, flatModel)) OFAIL("parse-dirty", "Unflatten() into a non-empty Message did not replace its contents: " + rc::Dump(dd));
      }
      // (4) the parsed Message has the same content: names, order, type codes, counts, bit patterns, at every level
      rc::AbsMsg pc; if (!Extract(p, pc, err)) OFAIL("roundtrip-content", "reading the parsed Message failed: " + err);
      if (!rc::Equal(pc, flatModel)) OFAIL("roundtrip-content", "parsed Message differs: parsed " + rc::Dump(pc) + " expected " + rc::Dump(flatModel));
      // (5) serialising the parsed Message reproduces the bytes (and its size is exact too)
      std::string again; if (!MeasuredFlatten(p, again, msg, key)) { key = "re-" + key; return false; }
      if (again != bytes) OFAIL("reflatten", "re-serialised bytes differ: first " + verif::Hex(bytes) + " second " + verif::Hex(again));
      // (6) checksum unchanged by the trip
      if (p.CalculateChecksum() != m.CalculateChecksum()) OFAIL("checksum", verif::Fmt("CalculateChecksum() changed by the trip: %u -> %u", m.CalculateChecksum(), p.CalculateChecksum()));
      // (7) equality unchanged by the trip: the parsed Message relates to the original exactly as an independently built Message
      //     with the same serialisable content does (muscle's == is IEEE on floats, so the reference point is a twin, not "true")
      Message twin; if (BuildInto(flatModel, twin).IsError()) OFAIL("harness:twin", "could not build the twin Message");
      const bool a = (twin == m), b = (p == m), c = (m == twin), d = (m == p);
      if (a != b || c != d) OFAIL("equality", verif::Fmt("equality changed by the trip: (twin==m)=%d (parsed==m)=%d (m==twin)=%d (m==parsed)=%d", a, b, c, d));
      const bool plain = !rc::HasNaN(model) && !rc::HasType(model, rc::T_POINTER) && !rc::HasType(model, rc::T_TAG);
      if (plain && !(b && d)) OFAIL("equality", "a NaN-free, fully serialisable Message is not == its parsed copy");
      if (plain && (p != m)) OFAIL("equality", "operator!= inconsistent with operator==");
      if ((p == twin) != (twin == p)) OFAIL("equality", "== not symmetric between parsed Message and twin");
      // (8) thorough: template round trip
      if (thorough) return CheckTemplated(m, flatModel, msg, key);
      return true;
   }

   bool CheckTemplated(const Message & m, const rc::AbsMsg & flatModel, std::string & msg, std::string & key) const
   {
      MessageRef tmpl = m.CreateMessageTemplate();
      if (tmpl() == NULL) OFAIL("template", "CreateMessageTemplate() failed");
      const uint32 adv = m.TemplatedFlattenedSize(*tmpl());
      Fenced fb(adv, 0xA5); uint32 written;
      { DataFlattener flat(fb.Body(), MUSCLE_NO_LIMIT); m.TemplatedFlatten(*tmpl(), flat); written = flat.GetNumBytesWritten(); }
      if (written != adv) OFAIL("templated-size", verif::Fmt("TemplatedFlattenedSize() advertised %u bytes but TemplatedFlatten() wrote %u", adv, written));
      if (!fb.FenceIntact(0xA5, written)) OFAIL("templated-fence", "TemplatedFlatten() wrote outside its advertised range");
      const std::string tb((const char *)fb.Body(), written);
      std::string texp; rc::EncodeTemplated(flatModel, texp);
      Message q; DataUnflattener un((const uint8 *)tb.data(), (uint32)tb.size());
      if (q.TemplatedUnflatten(*tmpl(), un).IsError()) OFAIL("templated-parse", "TemplatedUnflatten() rejects what TemplatedFlatten() produced: " + verif::Hex(tb));
      std::string err; rc::AbsMsg qc; if (!Extract(q, qc, err)) OFAIL("templated-content", "reading the template-parsed Message failed: " + err);
      if (!rc::Equal(qc, flatModel)) OFAIL("templated-content", "template round trip changed the Message: got " + rc::Dump(qc) + " expected " + rc::Dump(flatModel));
      if (tb != texp) OFAIL("templated-layout", "TemplatedFlatten() bytes differ from the reference payload encoding: impl " + verif::Hex(tb) + " reference " + verif::Hex(texp));
      return true;
   }
#undef OFAIL
};

// ---------------------------------------------------------------- field kinds and their nasty values
struct Kind { std::string name; uint32 type; std::string v[3]; rc::AbsMsg mv[3]; };

static rc::AbsMsg SubEmpty() { return rc::AbsMsg(0); }
static rc::AbsMsg SubArray()
{
   rc::AbsMsg s(rc::PROTOCOL_PM00);  // what-code equal to the protocol word
   rc::AbsField a("arr", rc::T_INT32); a.items.push_back(rc::ItemI32(-1)); a.items.push_back(rc::ItemI32(0x7FFFFFFF)); s.fields.push_back(a);
   rc::AbsField b("", rc::T_STRING); b.items.push_back(""); s.fields.push_back(b);   // empty field name, empty string
   return s;
}
static rc::AbsMsg SubDeep()
{
   rc::AbsMsg s(7);
   rc::AbsField f("nan", rc::T_FLOAT); f.items.push_back(rc::ItemF32Bits(0x7FA00001u)); s.fields.push_back(f);
   rc::AbsField g("sub", rc::T_MESSAGE); g.msgs.push_back(SubArray()); g.msgs.push_back(SubEmpty()); s.fields.push_back(g);
   rc::AbsField h("ptr", rc::T_POINTER); h.items.push_back(rc::LE(1, 8)); s.fields.push_back(h);  // non-flattenable field inside a sub-Message
   return s;
}

static std::vector<Kind> MakeKinds()
{
   std::vector<Kind> K;
#define KIND(nm, ty, a, b, c) do { Kind k; k.name = nm; k.type = ty; k.v[0] = a; k.v[1] = b; k.v[2] = c; K.push_back(k); } while (0)
   KIND("bool", rc::T_BOOL, rc::ItemBool(true), rc::ItemBool(false), rc::ItemBool(true));
   KIND("int8", rc::T_INT8, rc::ItemI8(-128), rc::ItemI8(127), rc::ItemI8(-1));
   KIND("int16", rc::T_INT16, rc::ItemI16(-32768), rc::ItemI16(32767), rc::ItemI16(0x0100));
   KIND("int32", rc::T_INT32, rc::ItemI32((int32_t)0x80000000u), rc::ItemI32(0x7FFFFFFF), rc::ItemI32((int32_t)rc::PROTOCOL_PM00));
   KIND("int64", rc::T_INT64, rc::ItemI64((int64_t)0x8000000000000000ULL), rc::ItemI64(0x7FFFFFFFFFFFFFFFLL), rc::ItemI64(0x0102030405060708LL));
   KIND("floatA", rc::T_FLOAT, rc::ItemF32Bits(0x80000000u) /* -0 */, rc::ItemF32Bits(0x7FA12345u) /* signalling NaN + payload */, rc::ItemF32Bits(0x7F800000u) /* +inf */);
   KIND("floatB", rc::T_FLOAT, rc::ItemF32Bits(0xFFC00001u) /* -quiet NaN + payload */, rc::ItemF32Bits(0xFF800000u) /* -inf */, rc::ItemF32Bits(0x00000001u) /* min denormal */);
   KIND("floatC", rc::T_FLOAT, rc::ItemF32Bits(0x00000000u) /* +0 */, rc::ItemF32Bits(0x7F7FFFFFu) /* FLT_MAX */, rc::ItemF32Bits(0xFF7FFFFFu) /* -FLT_MAX */);
   KIND("doubleA", rc::T_DOUBLE, rc::ItemF64Bits(0x8000000000000000ULL), rc::ItemF64Bits(0x7FF4000000ABCDEFULL) /* sNaN + payload */, rc::ItemF64Bits(0x7FF0000000000000ULL));
   KIND("doubleB", rc::T_DOUBLE, rc::ItemF64Bits(0xFFF8000000000001ULL), rc::ItemF64Bits(0xFFF0000000000000ULL), rc::ItemF64Bits(0x0000000000000001ULL));
   KIND("doubleC", rc::T_DOUBLE, rc::ItemF64Bits(0), rc::ItemF64Bits(0x7FEFFFFFFFFFFFFFULL), rc::ItemF64Bits(0xFFEFFFFFFFFFFFFFULL));
   KIND("string", rc::T_STRING, std::string(""), std::string("\xC3\xA9\xFF\x80\x01z"), std::string("PM00-a string longer than any small-string buffer, 0123456789abcdef"));
   KIND("point", rc::T_POINT, rc::ItemPointBits(0x80000000u, 0x7FA00007u), rc::ItemPointBits(0x7F800000u, 0xFF800000u), rc::ItemPointBits(0x3FC00000u, 0x7F7FFFFFu));
   KIND("rect", rc::T_RECT, rc::ItemRectBits(0x80000000u, 0, 0x7FC00000u, 0xFFA00001u), rc::ItemRectBits(0x7F800000u, 0xFF800000u, 1, 0x80000001u), rc::ItemRectBits(0x3F800000u, 0x40000000u, 0x40400000u, 0x40800000u));
   KIND("raw", rc::T_RAW, std::string(""), rc::LE(rc::PROTOCOL_PM00, 4) + rc::LE(0, 4) + rc::LE(0xFFFFFFFFu, 4), std::string("\0\xFF\x80", 3));
   KIND("rawpriv", 0x76726679u /* 'vrfy' */, std::string("\0", 1), rc::LE(rc::PROTOCOL_PM00, 4) + rc::LE(9, 4) + rc::LE(1, 4), std::string("\x80\x81\x82\x83\x84\x85\x86\x87\x88", 9));
   { Kind k; k.name = "message"; k.type = rc::T_MESSAGE; k.mv[0] = SubEmpty(); k.mv[1] = SubArray(); k.mv[2] = SubDeep(); K.push_back(k); }
   KIND("pointer", rc::T_POINTER, rc::LE(0, 8), rc::LE(1, 8), rc::LE(2, 8));
   KIND("tag", rc::T_TAG, rc::LE(0, 8), rc::LE(1, 8), rc::LE(2, 8));
#undef KIND
   return K;
}

// reference-side helpers on an abstract field
static void AbsPut(rc::AbsField & f, const Kind & k, int vi, int how, size_t idx)
{
   if (k.type == rc::T_MESSAGE) { if (how == PUT_ADD) f.msgs.push_back(k.mv[vi]); else if (how == PUT_PREPEND) f.msgs.insert(f.msgs.begin(), k.mv[vi]); else f.msgs[idx] = k.mv[vi]; }
   else { if (how == PUT_ADD) f.items.push_back(k.v[vi]); else if (how == PUT_PREPEND) f.items.insert(f.items.begin(), k.v[vi]); else f.items[idx] = k.v[vi]; }
}
static void AbsRemoveItem(rc::AbsField & f, size_t idx) { if (f.type == rc::T_MESSAGE) f.msgs.erase(f.msgs.begin() + idx); else f.items.erase(f.items.begin() + idx); }
static status_t RealPut(Message & m, const std::string & name, const Kind & k, int vi, int how, uint32 idx = 0) { return PutItem(m, String(name.c_str()), k.type, k.v[vi], (k.type == rc::T_MESSAGE) ? &k.mv[vi] : NULL, how, idx); }

// parse(flatten(m)) in place; false if the parse fails
static bool Reparse(Message & m)
{
   const uint32 n = m.FlattenedSize(); std::vector<uint8> b(n ? n : 1); m.FlattenToBytes(&b[0], n);
   return m.UnflattenFromBytes(&b[0], n).IsOK();
}

struct WorldC01 {
   Message m, o;            // o: second Message of the multi-field family
   rc::AbsMsg mm, mo;
   std::string last;
};

// ================================================================ family 1: one field, every kind
class SingleFieldModel {
public:
   enum { ADD1, ADD2, PRE1, PRE3, REM0, REMLAST, REP0, REPLAST, REMNAME, REPARSE, COPY, NOPS };
   std::vector<Kind> kinds; Oracle oracle;
   explicit SingleFieldModel(bool thorough) : kinds(MakeKinds()), oracle(thorough) {}
   typedef WorldC01 World;
   static const int STARTS_PER_KIND = 3;
   int NumStarts() const { return (int)kinds.size() * STARTS_PER_KIND; }
   int NumOps() const { return NOPS; }
   std::string OpName(int i) const { static const char * n[] = {"Add(v1)", "Add(v2)", "Prepend(v1)", "Prepend(v3)", "RemoveData(0)", "RemoveData(last)", "Replace(0,v2)", "Replace(last,v3)", "RemoveName", "Reparse", "CopyAssign"}; return n[i]; }
   // start shapes: 0 = empty Message, field "f"; 1 = one inline item, what == protocol word, EMPTY field name; 2 = three items (array), non-ASCII field name
   static std::string FieldNameOf(int shape) { return shape == 0 ? "f" : shape == 1 ? "" : "n\xC3\xA9\xFF!"; }
   std::string StartName(int s) const { static const char * sh[] = {"empty", "one-inline-item", "three-item-array"}; return kinds[s / STARTS_PER_KIND].name + ":" + sh[s % STARTS_PER_KIND]; }
   const Kind & KindOf(const World & w) const { return kinds[atoi(w.last.c_str())]; }

   void Init(World & w, int s) const
   {
      const int ki = s / STARTS_PER_KIND, shape = s % STARTS_PER_KIND; const Kind & k = kinds[ki];
      w.last = verif::Fmt("%d %d", ki, shape);
      const std::string fn = FieldNameOf(shape);
      if (shape >= 1) { w.m.what = w.mm.what = (shape == 1) ? rc::PROTOCOL_PM00 : 0xFFFFFFFFu; rc::AbsField f(fn, k.type); (void) RealPut(w.m, fn, k, 0, PUT_ADD); AbsPut(f, k, 0, PUT_ADD, 0); w.mm.fields.push_back(f); }
      if (shape == 2) { rc::AbsField & f = w.mm.fields[0]; (void) RealPut(w.m, fn, k, 1, PUT_ADD); AbsPut(f, k, 1, PUT_ADD, 0); (void) RealPut(w.m, fn, k, 2, PUT_ADD); AbsPut(f, k, 2, PUT_ADD, 0); }
   }

   int Apply(World & w, int op, std::string & msg, std::string & key) const
   {
      int ki = 0, shape = 0; sscanf(w.last.c_str(), "%d %d", &ki, &shape);
      const Kind & k = kinds[ki]; const std::string fn = FieldNameOf(shape); const String FN(fn.c_str());
      int fi = w.mm.Find(fn); const size_t n = (fi >= 0) ? w.mm.fields[fi].Count() : 0;
      status_t r; bool expectOK = true;
#define NEEDFIELD() do { if (fi < 0) { w.mm.fields.push_back(rc::AbsField(fn, k.type)); fi = (int)w.mm.fields.size() - 1; } } while (0)
      switch (op) {
      case ADD1: r = RealPut(w.m, fn, k, 0, PUT_ADD); NEEDFIELD(); AbsPut(w.mm.fields[fi], k, 0, PUT_ADD, 0); break;
      case ADD2: r = RealPut(w.m, fn, k, 1, PUT_ADD); NEEDFIELD(); AbsPut(w.mm.fields[fi], k, 1, PUT_ADD, 0); break;
      case PRE1: r = RealPut(w.m, fn, k, 0, PUT_PREPEND); NEEDFIELD(); AbsPut(w.mm.fields[fi], k, 0, PUT_PREPEND, 0); break;
      case PRE3: r = RealPut(w.m, fn, k, 2, PUT_PREPEND); NEEDFIELD(); AbsPut(w.mm.fields[fi], k, 2, PUT_PREPEND, 0); break;
      case REM0: case REMLAST: {
         const uint32 idx = (op == REM0 || n == 0) ? 0 : (uint32)(n - 1);
         r = w.m.RemoveData(FN, idx); expectOK = (n > 0);
         if (n > 0) { AbsRemoveItem(w.mm.fields[fi], idx); if (w.mm.fields[fi].Count() == 0) w.mm.fields.erase(w.mm.fields.begin() + fi); }   // "If the field entry becomes empty, the field itself is removed also"
         break; }
      case REP0: case REPLAST: {
         const uint32 idx = (op == REP0 || n == 0) ? 0 : (uint32)(n - 1); const int vi = (op == REP0) ? 1 : 2;
         r = RealPut(w.m, fn, k, vi, PUT_REPLACE, idx); expectOK = (n > 0);
         if (n > 0) AbsPut(w.mm.fields[fi], k, vi, PUT_REPLACE, idx);
         break; }
      case REMNAME: r = w.m.RemoveName(FN); expectOK = (fi >= 0); if (fi >= 0) w.mm.fields.erase(w.mm.fields.begin() + fi); break;
      case REPARSE: if (!Reparse(w.m)) { msg = "Reparse: Unflatten(Flatten(m)) failed"; key = "parse:Reparse"; return seqx::SEQX_VIOLATION; } w.mm = rc::FlattenablePart(w.mm); break;
      case COPY: { Message c(w.m); w.m = c; break; }
      }
#undef NEEDFIELD
      if (r.IsOK() != expectOK) { msg = OpName(op) + verif::Fmt(" on %s field with %u items: status %s, expected %s", k.name.c_str(), (unsigned)n, r(), expectOK ? "success" : "an error"); key = "status:" + OpName(op) + ":" + k.name; return seqx::SEQX_VIOLATION; }
      if (!oracle.Check(w.m, w.mm, msg, key)) { msg = "after " + OpName(op) + " (" + k.name + "): " + msg; key = key + ":" + k.name; return seqx::SEQX_VIOLATION; }
      return seqx::SEQX_OK;
   }
   void Canon(const World & w, std::string & out) const { out = w.last + "|" + rc::Dump(w.mm) + "|"; StateString(w.m, out); }
   void Outcome(const World & w, std::string & out) const { out = rc::HexOf(rc::Encode(w.mm)); }
};

// ================================================================ family 2: several fields, order, moves between two Messages
class MultiFieldModel {
public:
   struct Op { int kind; int a, b; std::string name; };   // kind: 0 Add(name a, kind b) 1 RemoveName 2 Rename(a->b) 3 Move m->o 4 Move o->m 5 Copy m->o 6 Copy o->m 7 Swap 8 Clear 9 Reparse
   std::vector<Kind> kinds; std::vector<Op> ops; Oracle oracle; std::vector<std::string> names;
   explicit MultiFieldModel(bool thorough) : oracle(thorough)
   {
      std::vector<Kind> all = MakeKinds(); const char * want[] = {"int32", "string", "message", "pointer"};
      for (int i = 0; i < 4; i++) for (size_t j = 0; j < all.size(); j++) if (all[j].name == want[i]) kinds.push_back(all[j]);
      names.push_back("a"); names.push_back("bb"); names.push_back("");   // incl. the empty field name
      for (int n = 0; n < 3; n++) for (int k = 0; k < 4; k++) A(0, n, k, "Add(" + Q(n) + "," + kinds[k].name + ")");
      for (int n = 0; n < 3; n++) A(1, n, 0, "RemoveName(" + Q(n) + ")");
      for (int a = 0; a < 3; a++) for (int b = 0; b < 3; b++) if (a != b) A(2, a, b, "Rename(" + Q(a) + "->" + Q(b) + ")");
      for (int n = 0; n < 3; n++) A(3, n, 0, "MoveName(" + Q(n) + ",m->o)");
      for (int n = 0; n < 3; n++) A(4, n, 0, "MoveName(" + Q(n) + ",o->m)");
      for (int n = 0; n < 3; n++) A(5, n, 0, "CopyName(" + Q(n) + ",m->o)");
      for (int n = 0; n < 3; n++) A(6, n, 0, "CopyName(" + Q(n) + ",o->m)");
      for (int n = 0; n < 3; n++) A(7, n, 0, "SwapName(" + Q(n) + ")");
      A(8, 0, 0, "Clear(m)"); A(9, 0, 0, "Reparse(m)");
   }
   std::string Q(int n) const { return "'" + names[n] + "'"; }
   void A(int kind, int a, int b, const std::string & nm) { Op o; o.kind = kind; o.a = a; o.b = b; o.name = nm; ops.push_back(o); }
   typedef WorldC01 World;
   int NumStarts() const { return 2; }
   int NumOps() const { return (int)ops.size(); }
   std::string OpName(int i) const { return ops[i].name; }
   std::string StartName(int s) const { return s == 0 ? "both empty" : "m={a:int32 x2, bb:pointer} o={a:string, '':message}"; }
   void Init(World & w, int s) const
   {
      w.m.what = w.mm.what = 1; w.o.what = w.mo.what = 2;
      if (s == 1) {
         rc::AbsMsg a(1); rc::AbsField f("a", rc::T_INT32); f.items.push_back(kinds[0].v[0]); f.items.push_back(kinds[0].v[1]); a.fields.push_back(f);
         rc::AbsField g("bb", rc::T_POINTER); g.items.push_back(kinds[3].v[0]); a.fields.push_back(g);
         rc::AbsMsg b(2); rc::AbsField h("a", rc::T_STRING); h.items.push_back(kinds[1].v[1]); b.fields.push_back(h);
         rc::AbsField i("", rc::T_MESSAGE); i.msgs.push_back(kinds[2].mv[1]); b.fields.push_back(i);
         (void) BuildInto(a, w.m); (void) BuildInto(b, w.o); w.mm = a; w.mo = b;
      }
   }
   // reference: put field f under `name` into msg (replacing a same-named field in place, else appending)
   static void AbsPutField(rc::AbsMsg & msg, const std::string & name, rc::AbsField f) { f.name = name; int i = msg.Find(name); if (i >= 0) msg.fields[i] = f; else msg.fields.push_back(f); }
   static void AbsErase(rc::AbsMsg & msg, const std::string & name) { int i = msg.Find(name); if (i >= 0) msg.fields.erase(msg.fields.begin() + i); }

   // The Message API documents WHICH fields exist after Rename/MoveName/CopyName/SwapName, not WHERE in the iteration order a
   // replaced or newly arrived field sits.  So the reference predicts the set and the content, keeps the relative order of the
   // fields it did not touch, and adopts the position of the touched ones from the field-name iterator (public API); that the
   // wire order and the parsed order equal this iteration order is then checked by the oracle.
   static bool AdoptOrder(const Message & real, rc::AbsMsg & model, const std::vector<std::string> & touched, std::string & why)
   {
      std::vector<std::string> order; for (MessageFieldNameIterator it = real.GetFieldNameIterator(); it.HasData(); it++) order.push_back(std::string(it.GetFieldName()(), it.GetFieldName().Length()));
      if (order.size() != model.fields.size()) { why = verif::Fmt("field count %u, reference %u", (unsigned)order.size(), (unsigned)model.fields.size()); return false; }
      std::vector<std::string> before, after;
      for (size_t i = 0; i < model.fields.size(); i++) if (std::find(touched.begin(), touched.end(), model.fields[i].name) == touched.end()) before.push_back(model.fields[i].name);
      for (size_t i = 0; i < order.size(); i++) if (std::find(touched.begin(), touched.end(), order[i]) == touched.end()) after.push_back(order[i]);
      if (before != after) { why = "relative order of untouched fields changed"; return false; }
      rc::AbsMsg re(model.what);
      for (size_t i = 0; i < order.size(); i++) { int j = model.Find(order[i]); if (j < 0) { why = "unexpected field '" + order[i] + "'"; return false; } re.fields.push_back(model.fields[j]); }
      model = re; return true;
   }

   int Apply(World & w, int opi, std::string & msg, std::string & key) const
   {
      const Op & o = ops[opi]; const std::string na = names[o.a]; const String NA(na.c_str());
      status_t r; bool expectOK = true; std::vector<std::string> touched; bool adopt = false;
      switch (o.kind) {
      case 0: {
         const Kind & k = kinds[o.b]; int fi = w.mm.Find(na);
         const int vi = (fi >= 0) ? (int)(w.mm.fields[fi].Count() % 3) : 0;
         r = RealPut(w.m, na, k, vi, PUT_ADD);
         if (fi >= 0 && w.mm.fields[fi].type != k.type) { expectOK = false; if (r.IsOK() || !(r == B_TYPE_MISMATCH)) { msg = o.name + ": adding to a field of another type returned " + std::string(r()) + ", documented B_TYPE_MISMATCH"; key = "status:Add(type-conflict)"; return seqx::SEQX_VIOLATION; } }
         else { if (fi < 0) { w.mm.fields.push_back(rc::AbsField(na, k.type)); fi = (int)w.mm.fields.size() - 1; } AbsPut(w.mm.fields[fi], k, vi, PUT_ADD, 0); }
         break; }
      case 1: r = w.m.RemoveName(NA); expectOK = (w.mm.Find(na) >= 0); AbsErase(w.mm, na); break;
      case 2: {
         const std::string nb = names[o.b]; int fi = w.mm.Find(na);
         r = w.m.Rename(NA, String(nb.c_str())); expectOK = (fi >= 0);
         if (fi >= 0) { rc::AbsField f = w.mm.fields[fi]; AbsErase(w.mm, na); AbsPutField(w.mm, nb, f); touched.push_back(nb); adopt = true; }
         break; }
      case 3: case 4: case 5: case 6: {
         const bool fromM = (o.kind == 3 || o.kind == 5), move = (o.kind <= 4);
         Message & src = fromM ? w.m : w.o; Message & dst = fromM ? w.o : w.m; rc::AbsMsg & asrc = fromM ? w.mm : w.mo; rc::AbsMsg & adst = fromM ? w.mo : w.mm;
         int fi = asrc.Find(na); expectOK = (fi >= 0);
         r = move ? src.MoveName(NA, dst) : src.CopyName(NA, dst);
         if (fi >= 0) { rc::AbsField f = asrc.fields[fi]; AbsPutField(adst, na, f); if (move) AbsErase(asrc, na); touched.push_back(na); adopt = true; }
         break; }
      case 7: {
         int fm = w.mm.Find(na), fo = w.mo.Find(na); expectOK = (fm >= 0 || fo >= 0);
         r = w.m.SwapName(NA, w.o);
         if (fm >= 0 && fo >= 0) std::swap(w.mm.fields[fm], w.mo.fields[fo]);
         else if (fm >= 0) { w.mo.fields.push_back(w.mm.fields[fm]); AbsErase(w.mm, na); }
         else if (fo >= 0) { w.mm.fields.push_back(w.mo.fields[fo]); AbsErase(w.mo, na); }
         touched.push_back(na); adopt = expectOK;
         break; }
      case 8: w.m.Clear(); w.mm.fields.clear(); break;
      case 9: if (!Reparse(w.m)) { msg = "Reparse failed"; key = "parse:Reparse"; return seqx::SEQX_VIOLATION; } w.mm = rc::FlattenablePart(w.mm); break;
      }
      if (r.IsOK() != expectOK) { msg = o.name + ": status " + std::string(r()) + ", expected " + (expectOK ? "success" : "an error"); key = "status:" + Generic(o); return seqx::SEQX_VIOLATION; }
      if (adopt) {
         std::string why;
         if (!AdoptOrder(w.m, w.mm, touched, why)) { msg = o.name + ": fields of m after the operation: " + why; key = "fieldset:" + Generic(o); return seqx::SEQX_VIOLATION; }
         if (!AdoptOrder(w.o, w.mo, touched, why)) { msg = o.name + ": fields of o after the operation: " + why; key = "fieldset:" + Generic(o); return seqx::SEQX_VIOLATION; }
      }
      if (!oracle.Check(w.m, w.mm, msg, key)) { msg = "m after " + o.name + ": " + msg; key = key + ":" + Generic(o); return seqx::SEQX_VIOLATION; }
      if (!oracle.Check(w.o, w.mo, msg, key)) { msg = "o after " + o.name + ": " + msg; key = key + ":other:" + Generic(o); return seqx::SEQX_VIOLATION; }
      return seqx::SEQX_OK;
   }
   static std::string Generic(const Op & o) { static const char * g[] = {"Add", "RemoveName", "Rename", "MoveName", "MoveName", "CopyName", "CopyName", "SwapName", "Clear", "Reparse"}; return g[o.kind]; }
   void Canon(const World & w, std::string & out) const { out = rc::Dump(w.mm) + "|"; StateString(w.m, out); out += "|" + rc::Dump(w.mo) + "|"; StateString(w.o, out); }
   void Outcome(const World & w, std::string & out) const { out = rc::HexOf(rc::Encode(w.mm)) + "/" + rc::HexOf(rc::Encode(w.mo)); }
};

// ================================================================ family 3: nesting
// Sub-Messages are drawn from representatives of family 1's state classes: for each of a few kinds, the field in each of its
// representations (one inline item; two-item array; array holding ONE item; parsed-from-bytes array).  The top Message gets
// 1..3 of them per level and is wrapped into parents up to nesting depth 3.
class NestingModel {
public:
   struct Rep { std::string name; int kind; int shape; };   // shape: 0 inline, 1 array(2), 2 array-of-1, 3 reparsed array(2), 4 empty Message
   std::vector<Kind> kinds; std::vector<Rep> reps; Oracle oracle; int maxNest;
   enum { OP_REMLAST = 0, OP_WRAP1, OP_WRAP2, OP_REPARSE, OP_FIRSTREP };
   explicit NestingModel(bool thorough) : oracle(thorough), maxNest(3)
   {
      std::vector<Kind> all = MakeKinds(); const char * want[] = {"int32", "string", "message", "raw", "floatA", "pointer", "bool"};
      for (int i = 0; i < 7; i++) for (size_t j = 0; j < all.size(); j++) if (all[j].name == want[i]) kinds.push_back(all[j]);
      Rep e = {"empty", 0, 4}; reps.push_back(e);
      static const char * sn[] = {"inline", "array2", "array-of-1", "parsed-array2"};
      for (size_t k = 0; k < kinds.size(); k++) for (int s = 0; s < 4; s++) { Rep r; r.name = kinds[k].name + ":" + sn[s]; r.kind = (int)k; r.shape = s; reps.push_back(r); }
   }
   typedef WorldC01 World;
   int NumStarts() const { return 1; }
   int NumOps() const { return OP_FIRSTREP + (int)reps.size(); }
   std::string OpName(int i) const { static const char * n[] = {"RemoveData(s,last)", "WrapInParent(1 item)", "WrapInParent(2 items)", "Reparse"}; return (i < OP_FIRSTREP) ? n[i] : "AddMessage(s," + reps[i - OP_FIRSTREP].name + ")"; }
   std::string StartName(int) const { return "empty"; }
   void Init(World & w, int) const { w.m.what = w.mm.what = 0x6E657374; }

   // builds representative r as a real Message in the wanted representation + its abstract content
   bool MakeRep(const Rep & r, MessageRef & out, rc::AbsMsg & a) const
   {
      out = GetMessageFromPool((uint32)(100 + r.shape)); a = rc::AbsMsg(100 + r.shape); if (out() == NULL) return false;
      if (r.shape == 4) return true;
      const Kind & k = kinds[r.kind]; rc::AbsField f("v", k.type); Message & m = *out();
      if (RealPut(m, "v", k, 1, PUT_ADD).IsError()) return false; AbsPut(f, k, 1, PUT_ADD, 0);
      if (r.shape >= 1) { if (RealPut(m, "v", k, 2, PUT_ADD).IsError()) return false; AbsPut(f, k, 2, PUT_ADD, 0); }
      if (r.shape == 2) { if (m.RemoveData("v", 0).IsError()) return false; AbsRemoveItem(f, 0); }
      a.fields.push_back(f);
      if (r.shape == 3) { if (!Reparse(m)) return false; a = rc::FlattenablePart(a); }
      return true;
   }

   int Apply(World & w, int op, std::string & msg, std::string & key) const
   {
      int fi = w.mm.Find("s"); const size_t n = (fi >= 0) ? w.mm.fields[fi].msgs.size() : 0;
      if (op >= OP_FIRSTREP) {
         if (n >= 3) return seqx::SEQX_DISABLED;
         const Rep & r = reps[op - OP_FIRSTREP]; MessageRef sub; rc::AbsMsg a;
         if (!MakeRep(r, sub, a)) { msg = "could not build representative " + r.name; key = "harness:rep"; return seqx::SEQX_VIOLATION; }
         if (w.m.AddMessage("s", sub).IsError()) { msg = "AddMessage failed"; key = "status:AddMessage"; return seqx::SEQX_VIOLATION; }
         if (fi < 0) { w.mm.fields.push_back(rc::AbsField("s", rc::T_MESSAGE)); fi = (int)w.mm.fields.size() - 1; }
         w.mm.fields[fi].msgs.push_back(a);
      } else switch (op) {
      case OP_REMLAST:
         if (n == 0) return seqx::SEQX_DISABLED;
         if (w.m.RemoveData("s", (uint32)n - 1).IsError()) { msg = "RemoveData failed"; key = "status:RemoveData"; return seqx::SEQX_VIOLATION; }
         w.mm.fields[fi].msgs.pop_back(); if (w.mm.fields[fi].msgs.empty()) w.mm.fields.erase(w.mm.fields.begin() + fi);
         break;
      case OP_WRAP1: case OP_WRAP2: {
         if (rc::Depth(w.mm) >= maxNest || w.mm.fields.empty()) return seqx::SEQX_DISABLED;
         // the current Message becomes the item(s) of field "s" of a new parent (2 items: the Message itself and a copy of it)
         MessageRef inner = GetMessageFromPool(w.m); Message parent(0x70617265); rc::AbsMsg ap(0x70617265); rc::AbsField f("s", rc::T_MESSAGE);
         if (inner() == NULL || parent.AddMessage("s", inner).IsError()) { msg = "wrap failed"; key = "status:AddMessage"; return seqx::SEQX_VIOLATION; }
         f.msgs.push_back(w.mm);
         if (op == OP_WRAP2) { if (parent.AddMessage("s", w.m).IsError()) { msg = "wrap failed"; key = "status:AddMessage"; return seqx::SEQX_VIOLATION; } f.msgs.push_back(w.mm); }
         ap.fields.push_back(f); w.m = parent; w.mm = ap;
         break; }
      case OP_REPARSE: if (w.mm.fields.empty()) return seqx::SEQX_DISABLED; if (!Reparse(w.m)) { msg = "Reparse failed"; key = "parse:Reparse"; return seqx::SEQX_VIOLATION; } w.mm = rc::FlattenablePart(w.mm); break;
      }
      if (!oracle.Check(w.m, w.mm, msg, key)) { msg = "after " + OpName(op) + ": " + msg; key = key + ":nested"; return seqx::SEQX_VIOLATION; }
      return seqx::SEQX_OK;
   }
   void Canon(const World & w, std::string & out) const { out = rc::Dump(w.mm) + "|"; StateString(w.m, out); }
   void Outcome(const World & w, std::string & out) const { out = rc::HexOf(rc::Encode(w.mm)); }
};

// ---------------------------------------------------------------- self-check of the reference codec against the documented example (iogateway/MessageIOGateway.h, bottom)
static bool RefcodecSelfCheck(std::string & why)
{
   if (!HostIsLittleEndian()) { why = "host is not little-endian: the value helpers of this harness assume it"; return false; }
   rc::AbsMsg m(2);
   { rc::AbsField f("!SnKy", rc::T_STRING); f.items.push_back("/*/*/beshare"); m.fields.push_back(f); }
   { rc::AbsField f("session", rc::T_STRING); f.items.push_back("123"); m.fields.push_back(f); }
   { rc::AbsField f("text", rc::T_STRING); f.items.push_back("Hi!"); m.fields.push_back(f); }
   std::string b; std::vector<rc::Word> words; rc::Encode(m, b, &words);
   // NB the annotated dump at the end of MessageIOGateway.h shows 88 bytes: it omits, per field, the payload-length word of the layout comment in
   // Message::Flatten and the item-count word of the "Format:" comment of the variable-size field; with them the body is 88 + 3*8 = 112 bytes.
   if (b.size() != 112) { why = verif::Fmt("documented example encodes to %u bytes, expected 112", (unsigned)b.size()); return false; }
   static const unsigned char head[] = {'0', '0', 'M', 'P', 2, 0, 0, 0, 3, 0, 0, 0, 6, 0, 0, 0, '!', 'S', 'n', 'K', 'y', 0, 'R', 'T', 'S', 'C'};
   if (memcmp(b.data(), head, sizeof(head)) != 0) { why = "documented example: header bytes differ"; return false; }
   if (rc::Frame(88) != std::string("\x58\0\0\0" "0cnE", 8)) { why = "frame header differs from the documented example"; return false; }
   for (size_t i = 0; i < words.size(); i++) if (rc::UnLE(b.substr(words[i].offset, 4)) != words[i].value) { why = "recorded word offsets do not point at the recorded values"; return false; }
   rc::AbsMsg back; std::string e; if (!rc::Decode(b, back, &e) || !rc::Equal(back, m)) { why = "decode(encode(x)) != x: " + e; return false; }
   return true;
}

template <class M> static int RunPart(M & model, const char * partName, int depth, double deadlineAbs, verif::Args & args, verif::Result & res, const std::string & rule)
{
   seqx::Explorer<M> ex(model, args, res, partName);
   ex.SetDeadline(deadlineAbs);
   seqx::Stats S = ex.Run(depth);
   res.parts.back().rule = rule;
   fprintf(stderr, "C01 %s: states=%llu transitions=%llu depth=%d exhaustive=%d outcomes=%llu violations=%llu wall=%.1fs\n", partName, (unsigned long long)S.states, (unsigned long long)S.transitions, S.depthCompleted, (int)S.exhaustive, (unsigned long long)S.distinctOutcomes, (unsigned long long)S.violations, res.parts.back().wall_s);
   return 0;
}

int main(int argc, char ** argv)
{
   verif::Args args; args.Parse(argc, argv);
   verif::Result res; res.harness = "C01_message";
   const bool T = args.Thorough();
   { std::string why; if (!RefcodecSelfCheck(why)) { res.infra_errors.push_back("refcodec self-check: " + why); return res.Write(args); } }
   SingleFieldModel f1(T); MultiFieldModel f2(T); NestingModel f3(T);
   if (!args.replay.empty()) {
      verif::ReplayDoc d; if (!d.Load(args.replay)) { fprintf(stderr, "cannot read %s\n", args.replay.c_str()); return 3; }
      const std::string part = d.Str("part");
      // a replay always runs the complete oracle (incl. the template round trip of the thorough tier)
      SingleFieldModel r1(true); MultiFieldModel r2(true); NestingModel r3(true);
      if (part == "single-field") { seqx::Explorer<SingleFieldModel> ex(r1, args, res, "single-field"); return ex.ReplayFile(d); }
      if (part == "multi-field") { seqx::Explorer<MultiFieldModel> ex(r2, args, res, "multi-field"); return ex.ReplayFile(d); }
      if (part == "nesting") { seqx::Explorer<NestingModel> ex(r3, args, res, "nesting"); return ex.ReplayFile(d); }
      fprintf(stderr, "unknown part '%s'\n", part.c_str()); return 3;
   }
   int d1 = T ? 6 : 5, d2 = T ? 5 : 4, d3 = T ? 4 : 3;
   if (args.kv.count("depth1")) d1 = atoi(args.kv["depth1"].c_str());
   if (args.kv.count("depth2")) d2 = atoi(args.kv["depth2"].c_str());
   if (args.kv.count("depth3")) d3 = atoi(args.kv["depth3"].c_str());
   const double budget = args.deadline * 0.9;
   const std::string oracleText = std::string(" Oracle on every reached state: content read back through the public Find*/GetInfo/iterator API equals the reference; FlattenedSize() == bytes written by Flatten() into a fenced buffer through an unlimited flattener (fence intact, no byte left unwritten, the library's own complete-write assertion as second witness); bytes identical to ref/refcodec.h's independent encoding of the reference; Unflatten() into a fresh and into a dirty Message succeeds and yields the reference's serialisable part (names, order, type codes, counts, bit patterns, recursively); re-serialisation byte-identical; CalculateChecksum() equal; (parsed==m) has the truth value of (independently built twin==m), both directions") + (T ? "; template round trip (CreateMessageTemplate/TemplatedFlattenedSize/TemplatedFlatten/TemplatedUnflatten) size-exact, content-preserving and byte-identical to the reference payload encoding." : ".");
   if (args.WantPart("single-field"))
      RunPart(f1, "single-field", d1, args.t0 + budget * 0.45, args, res, verif::Fmt("every sequence of <=%d operations from {Add v1, Add v2, Prepend v1, Prepend v3, RemoveData 0, RemoveData last, Replace(0,v2), Replace(last,v3), RemoveName, Reparse (m := Unflatten(Flatten(m))), CopyAssign} on ONE field of a real Message, for each of %d field kinds (bool, int8/16/32/64, 3 float and 3 double value sets covering +-0, signalling/quiet NaN with payload, +-inf, denormal, +-max; string incl. empty / bytes >=0x80 / longer than the small-string buffer; point; rect; B_RAW_TYPE incl. the empty buffer and a buffer holding the protocol magic; raw with a private type code; nested Message (empty / with array + empty-named field / with a NaN, sub-sub-Messages and a pointer field); pointer; tag) from 3 start shapes each (empty Message; one inline item with what=='PM00' and an EMPTY field name; three-item array with a non-ASCII field name); states distinct on (kind, start shape, abstract content, inline/array/empty state of every field at every nesting level, read with -fno-access-control).", d1, (int)f1.kinds.size()) + oracleText);
   if (args.WantPart("multi-field"))
      RunPart(f2, "multi-field", d2, args.t0 + budget * 0.75, args, res, verif::Fmt("every sequence of <=%d operations from a %d-operation alphabet on two real Messages m and o: Add(name, kind) for 3 names ('a','bb','' = empty name) x 4 kinds {int32, string, Message, pointer} (type conflicts must give B_TYPE_MISMATCH and change nothing), RemoveName, Rename(x->y) for all ordered name pairs, MoveName and CopyName in both directions, SwapName, Clear, Reparse; from 2 start states; both Messages are checked after every operation; the reference predicts field set and contents, the position of a renamed/moved/copied/swapped field (undocumented) is adopted from the field-name iterator while untouched fields must keep their relative order; states distinct on (abstract content and per-field inline/array state of both Messages).", d2, f2.NumOps()) + oracleText);
   if (args.WantPart("nesting"))
      RunPart(f3, "nesting", d3, args.t0 + budget, args, res, verif::Fmt("every sequence of <=%d operations from: AddMessage(s, R) for %d representative sub-Messages R (empty; and for kinds int32, string, Message, raw, float-with-NaN, pointer, bool the field in each representation class of the single-field family: inline item, two-item array, array holding one item, array parsed from bytes), RemoveData(s,last), WrapInParent with 1 or 2 items (the current Message becomes the item(s) of a new parent's Message field), Reparse; at most 3 items per level and nesting depth <=%d; states distinct on (abstract content, per-field inline/array state at every level).", d3, (int)f3.reps.size(), f3.maxNest) + oracleText);
   res.observations.push_back("Message::operator= / copy constructor clone an ARRAY-state Message field shallowly (the copy's sub-Message items are the same objects as the original's), so (copy(m)==m) is true even when a sub-Message carries a NaN while (parsed==m) is false; the equality clause is therefore checked against an independently built twin instead of a copy.");
   return res.Write(args);
}
