// C19 -- A thread pool handles each client's Messages once, in order, one at a time.
// SCHEDX: a real muscle::ThreadPool with 1 or 2 pool threads, 1-3 clients, two submitter threads, client unregistration and pool
// shutdown, under the controlled scheduler; every interleaving with <= bound preemptions is executed.
// VBUILD: libs=schedx
#include "engines/schedx/schedx.h"
#include "system/ThreadPool.h"
#include "system/SetupSystem.h"
#include "message/Message.h"

using namespace muscle;

struct Config { int threads; std::string variant; };
static std::string ConfigToString(const Config & c) { return verif::Fmt("threads=%d;variant=%s", c.threads, c.variant.c_str()); }
static Config ConfigFromString(const std::string & s)
{
   Config c; c.threads = 1; size_t t = s.find("threads="); if (t != std::string::npos) c.threads = atoi(s.c_str() + t + 8);
   size_t v = s.find("variant="); if (v != std::string::npos) { size_t e = s.find(';', v); c.variant = s.substr(v + 8, (e == std::string::npos ? s.size() : e) - v - 8); }
   return c;
}

// Per-client log: written only from inside the client's handler (the property says handlers of one client never overlap, so in a
// free run ThreadSanitizer flags a violation of that clause as a data race on this log), read by the main thread after unregister/shutdown.
struct Client : public IThreadPoolClient {
   Client(ThreadPool * p, int id) : IThreadPoolClient(p), cid(id), inHandler(0), overlap(false) {}
   int cid; std::vector<int> handled; std::vector<const void *> byThread; int inHandler; bool overlap;
   virtual void MessageReceivedFromThreadPool(const MessageRef & msg, uint32)
   {
      if (inHandler) overlap = true;
      inHandler = 1;
      handled.push_back(msg() ? (int)msg()->what : -1); byThread.push_back((const void *)Thread::GetCurrentThread());
      schedx::Yield("in-handler");    // let every other thread run while this client is being handled
      if (inHandler != 1) overlap = true;
      inHandler = 0;
   }
};

static std::string Seq(const std::vector<int> & v) { std::string s; for (size_t i = 0; i < v.size(); i++) s += verif::Fmt("%s%d", i ? "," : "", v[i]); return s; }

static void CheckClient(const char * when, const Client & c, const std::vector<std::vector<int> > & senders, bool all)
{
   if (c.overlap) schedx::Fail("overlap", verif::Fmt("%s: two pool threads were inside client %d's handler at the same time", when, c.cid));
   std::vector<int> sent; for (size_t s = 0; s < senders.size(); s++) sent.insert(sent.end(), senders[s].begin(), senders[s].end());
   std::vector<int> h = c.handled, ss = sent; std::sort(h.begin(), h.end()); std::sort(ss.begin(), ss.end());
   for (size_t i = 1; i < h.size(); i++) if (h[i] == h[i - 1]) { schedx::Fail("handled-twice", verif::Fmt("%s: client %d was handed Message %d twice: {%s}", when, c.cid, h[i], Seq(c.handled).c_str())); return; }
   for (size_t i = 0; i < h.size(); i++) if (!std::binary_search(ss.begin(), ss.end(), h[i])) { schedx::Fail("handled-unsent", verif::Fmt("%s: client %d was handed Message %d which was not submitted to it", when, c.cid, h[i])); return; }
   if (all && h != ss) { schedx::Fail("not-all-handled", verif::Fmt("%s: client %d: submitted {%s}, handled {%s}", when, c.cid, Seq(sent).c_str(), Seq(c.handled).c_str())); return; }
   // submission order of each sender is preserved (and with a shutdown in between, what was handled is a prefix of each sender's sequence relative to later ones)
   for (size_t s = 0; s < senders.size(); s++) {
      int last = -1;
      for (size_t k = 0; k < senders[s].size(); k++) { int pos = -1; for (size_t i = 0; i < c.handled.size(); i++) if (c.handled[i] == senders[s][k]) pos = (int)i;
         if (pos >= 0) { if (pos < last) { schedx::Fail("order", verif::Fmt("%s: client %d: sender order {%s} not preserved in {%s}", when, c.cid, Seq(senders[s]).c_str(), Seq(c.handled).c_str())); return; } last = pos; }
         else if (!all) { for (size_t k2 = k + 1; k2 < senders[s].size(); k2++) for (size_t i = 0; i < c.handled.size(); i++) if (c.handled[i] == senders[s][k2]) { schedx::Fail("gap", verif::Fmt("%s: client %d: Message %d was skipped but the later Message %d of the same sender was handled", when, c.cid, senders[s][k], senders[s][k2])); return; } }
      }
   }
}

static void Body(const Config & cfg)
{
   ThreadPool * pool = new ThreadPool((uint32)cfg.threads);
   const std::string & v = cfg.variant;
   if (v == "basic" || v == "shutdown") {
      Client * c1 = new Client(pool, 1); Client * c2 = new Client(pool, 2);
      std::vector<std::vector<int> > s1(2), s2(1);
      s1[0].push_back(1); s1[0].push_back(2); s1[1].push_back(3); s2[0].push_back(1);
      int sub = schedx::Spawn([c1]() { (void) c1->SendMessageToThreadPool(MessageRef(new Message(3))); });
      bool ok = c1->SendMessageToThreadPool(MessageRef(new Message(1))).IsOK();
      ok = c2->SendMessageToThreadPool(MessageRef(new Message(1))).IsOK() && ok;
      ok = c1->SendMessageToThreadPool(MessageRef(new Message(2))).IsOK() && ok;
      if (!ok) schedx::Fail("submit-failed", "SendMessageToThreadPool failed for a registered client");
      schedx::Join(sub);
      if (v == "basic") {
         c1->SetThreadPool(NULL);   // unregister: must return only after everything submitted to client 1 has been handled
         CheckClient("after unregistering client 1", *c1, s1, true);
         c2->SetThreadPool(NULL);
         CheckClient("after unregistering client 2", *c2, s2, true);
         delete pool; pool = NULL;   // Shutdown: joins the pool threads (a hang is a scheduler-detected deadlock)
      } else {
         delete pool; pool = NULL;   // shutdown while handlers may be running and Messages pending: each handled at most once, never after this returns
         const size_t n1 = c1->handled.size(), n2 = c2->handled.size();
         CheckClient("after pool shutdown", *c1, s1, false); CheckClient("after pool shutdown", *c2, s2, false);
         schedx::Yield("after-shutdown");
         if (c1->handled.size() != n1 || c2->handled.size() != n2) schedx::Fail("handled-after-shutdown", "a handler ran after ThreadPool shutdown returned");
      }
      std::set<const void *> th; for (size_t i = 0; i < c1->byThread.size(); i++) th.insert(c1->byThread[i]); for (size_t i = 0; i < c2->byThread.size(); i++) th.insert(c2->byThread[i]);
      if ((int)th.size() > cfg.threads) schedx::Fail("too-many-threads", verif::Fmt("%u distinct pool threads ran handlers, limit is %d", (unsigned)th.size(), cfg.threads));
      schedx::Observe("c1=" + Seq(c1->handled) + " c2=" + Seq(c2->handled) + verif::Fmt(" poolthreads=%u", (unsigned)th.size()));
      delete c1; delete c2;
   } else if (v == "threeclients") {
      Client * c[3]; std::vector<std::vector<int> > s[3];
      for (int i = 0; i < 3; i++) { c[i] = new Client(pool, i + 1); s[i].resize(1); }
      for (int round = 1; round <= 2; round++) for (int i = 0; i < 3; i++) { if (round == 2 && i == 2) continue; s[i][0].push_back(round); if (c[i]->SendMessageToThreadPool(MessageRef(new Message((uint32)round))).IsError()) schedx::Fail("submit-failed", "SendMessageToThreadPool failed"); }
      for (int i = 2; i >= 0; i--) { c[i]->SetThreadPool(NULL); CheckClient("after unregister", *c[i], s[i], true); }
      delete pool; pool = NULL;
      std::set<const void *> th; std::string o; for (int i = 0; i < 3; i++) { for (size_t k = 0; k < c[i]->byThread.size(); k++) th.insert(c[i]->byThread[k]); o += verif::Fmt("c%d=", i + 1) + Seq(c[i]->handled) + " "; }
      if ((int)th.size() > cfg.threads) schedx::Fail("too-many-threads", verif::Fmt("%u distinct pool threads ran handlers, limit is %d", (unsigned)th.size(), cfg.threads));
      schedx::Observe(o);
      for (int i = 0; i < 3; i++) delete c[i];
   } else if (v == "unregshutdown") {
      // one thread unregisters a client whose handler is (possibly) still running while another thread shuts the pool down:
      // whenever the unregister call returns, no handler of that client may still be running (the caller may delete the client next)
      Client * c1 = new Client(pool, 1); std::vector<std::vector<int> > s1(1);
      for (int i = 1; i <= 2; i++) { s1[0].push_back(i); if (c1->SendMessageToThreadPool(MessageRef(new Message((uint32)i))).IsError()) schedx::Fail("submit-failed", "SendMessageToThreadPool failed"); }
      int * activeAtReturn = new int(0);
      int u = schedx::Spawn([c1, activeAtReturn]() { c1->SetThreadPool(NULL); if (c1->inHandler) *activeAtReturn = 1; });
      (void) pool->Shutdown();
      schedx::Join(u);
      if (*activeAtReturn) schedx::Fail("unregister-returned-while-handling", "SetThreadPool(NULL) returned while a pool thread was still inside that client's handler (pool shutdown in progress on another thread)");
      delete pool; pool = NULL;
      CheckClient("after unregister racing with shutdown", *c1, s1, false);
      schedx::Observe("c1=" + Seq(c1->handled));
      if (c1->_threadPool != NULL) c1->SetThreadPool(NULL);
      delete c1; delete activeAtReturn;
   } else if (v == "resubmit") {
      // one client: submit while it is (possibly) being handled => the deferred -> pending promotion path
      Client * c1 = new Client(pool, 1); std::vector<std::vector<int> > s1(1);
      for (int i = 1; i <= 3; i++) { s1[0].push_back(i); if (c1->SendMessageToThreadPool(MessageRef(new Message((uint32)i))).IsError()) schedx::Fail("submit-failed", "SendMessageToThreadPool failed"); }
      c1->SetThreadPool(NULL); CheckClient("after unregister", *c1, s1, true);
      c1->SetThreadPool(pool);   // re-register and go again
      s1[0].push_back(4); if (c1->SendMessageToThreadPool(MessageRef(new Message(4))).IsError()) schedx::Fail("submit-failed", "SendMessageToThreadPool failed after re-registering");
      c1->SetThreadPool(NULL); CheckClient("after second unregister", *c1, s1, true);
      delete pool; pool = NULL;
      schedx::Observe("c1=" + Seq(c1->handled));
      delete c1;
   } else schedx::Fail("harness", "unknown variant " + v);
   if (pool) delete pool;
}

static schedx::BodyFactory Factory() { return [](const std::string & cs) { Config c = ConfigFromString(cs); return std::function<void()>([c]() { Body(c); }); }; }

int main(int argc, char ** argv)
{
   verif::Args args; args.Parse(argc, argv);
   verif::Result res; res.harness = "C19_threadpool";
   CompleteSetupSystem css;
   schedx::Options opt; opt.bound = 2;
   opt.yieldOnUnlock = true;   // a lock release is a visible operation (see C11)
   if (args.kv.count("bound")) opt.bound = atoi(args.kv["bound"].c_str());
   if (!args.replay.empty()) {
      verif::ReplayDoc d; if (!d.Load(args.replay)) { fprintf(stderr, "cannot read %s\n", args.replay.c_str()); return 3; }
      Config cfg = ConfigFromString(d.Str("config")); if (d.s.count("bound")) opt.bound = (int)d.Int("bound");
      schedx::Outcome o = schedx::RunOne([cfg]() { Body(cfg); }, schedx::ChoicesFromString(d.Str("choices")), opt);
      printf("replay config=%s choices=%s\nresult: %s %s %s\nobservation: %s\n", d.Str("config").c_str(), d.Str("choices").c_str(), o.status.c_str(), o.key.c_str(), o.msg.c_str(), o.observation.c_str());
      return o.status == "OK" ? 0 : 1;
   }
   // (configuration, bound) pairs, cheapest first
   std::vector<std::pair<std::string, int> > jobs;
   if (args.kv.count("config")) jobs.push_back(std::make_pair(args.kv["config"], opt.bound));
   else {
      const char * variants[] = {"resubmit", "basic", "shutdown", "threeclients", "unregshutdown"};
      for (int t = 1; t <= 2; t++) for (size_t v = 0; v < 5; v++) { Config c; c.threads = t; c.variant = variants[v]; jobs.push_back(std::make_pair(ConfigToString(c), (t == 1) ? 3 : 2)); }
   }
   // thorough tier = the quick tier's jobs (run to completion first) + the same configurations with one more preemption, cheapest first, each with a fair
   // share of the remaining time (one expensive configuration must not keep the others from running at all)
   std::vector<std::pair<std::string, int> > deeper;
   if (args.Thorough() && !args.kv.count("config")) {
      const char * order1[] = {"resubmit", "threeclients", "unregshutdown", "basic", "shutdown"};
      for (size_t v = 0; v < 5; v++) { Config c; c.threads = 1; c.variant = order1[v]; deeper.push_back(std::make_pair(ConfigToString(c), 4)); }
      const char * order2[] = {"resubmit", "unregshutdown", "threeclients", "shutdown", "basic"};
      for (size_t v = 0; v < 5; v++) { Config c; c.threads = 2; c.variant = order2[v]; deeper.push_back(std::make_pair(ConfigToString(c), 3)); }
   }
   if (args.kv.count("freerun")) {
      std::vector<std::string> cs; std::set<std::string> seen; for (size_t i = 0; i < jobs.size(); i++) if (jobs[i].first.find("unregshutdown") == std::string::npos && seen.insert(jobs[i].first).second) cs.push_back(jobs[i].first);   // (unregshutdown only under the scheduler: Shutdown() clears IThreadPoolClient::_threadPool under the pool lock while SetThreadPool() reads it unlocked)
      schedx::FreeRunPart("tsan-free-run", Factory(), cs, atoi(args.kv["freerun"].c_str()), args, res);
      return res.Write(args);
   }
   const double deadline = args.t0 + args.deadline * 0.92;
   schedx::StartPool(Factory(), opt, args.workers);
   unsigned long execs = 0;
   const std::string ruleText = "every interleaving within the stated preemption bound (per configuration, see extra) of {1,2 pool threads} x {one client re-submitting and re-registering; two clients with two submitter threads then unregister; the same followed by pool shutdown with work in flight; three clients; one thread unregistering a client while another shuts the pool down} on a real muscle::ThreadPool under a scheduler owning every pool-lock, wait-condition, thread spawn/exit/join and internal-thread wake-up point; one schedule = one execution of the real code";
   for (int pass = 0; pass < 2; pass++) {
      const std::vector<std::pair<std::string, int> > & J = pass ? deeper : jobs; if (J.empty()) continue;
      verif::Part total; total.name = pass ? "threadpool-one-more-preemption" : "threadpool"; bool capped = false; int maxBoundDone = 0;
      for (size_t i = 0; i < J.size(); i++) {
         const double nowT = verif::NowS();
         if (nowT > deadline) { capped = true; if (total.cap.empty()) total.cap = "deadline before " + J[i].first; break; }
         const double jobDeadline = pass ? std::min(deadline, nowT + std::max(60.0, (deadline - nowT) / (double)(J.size() - i))) : deadline;
         schedx::Options o2 = opt; o2.bound = J[i].second;
         schedx::Explore("threadpool", J[i].first, o2, args, res, jobDeadline);
         verif::Part p = res.parts.back(); res.parts.pop_back();
         total.states += p.states; total.transitions += p.transitions; total.evaluations += p.evaluations; total.distinct_outcomes += p.distinct_outcomes; execs += p.transitions; if (!p.exhaustive) { capped = true; total.cap += (total.cap.empty() ? "" : "; ") + p.cap + " in " + J[i].first; }
         if (total.samples.size() < 3 && !p.samples.empty()) total.samples.push_back(p.samples[(size_t)args.seed % p.samples.size()]);
         total.extra[J[i].first + verif::Fmt(";bound=%d", J[i].second)] = verif::Fmt("{\"executions\": %llu, \"distinct_outcomes\": %llu, \"by_cost\": %s, \"max_points\": %s, \"exhaustive\": %s}", (unsigned long long)p.transitions, (unsigned long long)p.distinct_outcomes, p.extra["executions_by_cost"].c_str(), p.extra["max_points_in_one_execution"].c_str(), p.exhaustive ? "true" : "false");
         if (p.exhaustive && J[i].second > maxBoundDone) maxBoundDone = J[i].second;
      }
      total.exhaustive = !capped; total.bound_completed = capped ? -1 : maxBoundDone; if (capped && total.cap.empty()) total.cap = "deadline";
      total.rule = ruleText + (pass ? "; this part: the configurations of part 'threadpool' with ONE MORE preemption (1 pool thread: <=4, 2 pool threads: <=3), cheapest first, each with a fair share of the remaining time; a configuration cut by its share is listed in cap and marked exhaustive:false in extra" : "; this part: 1 pool thread <=3 preemptions, 2 pool threads <=2 (the quick tier's space, always run to completion first)");
      res.parts.push_back(total);
   }
   schedx::StopPool();
   fprintf(stderr, "C19: jobs=%u+%u executions=%lu violations=%u wall=%.1fs\n", (unsigned)jobs.size(), (unsigned)deeper.size(), execs, (unsigned)res.violations.size(), verif::NowS() - args.t0);
   return res.Write(args);
}
