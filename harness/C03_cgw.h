// C03 helper: the C gateways (lang/c/minimessage MMessageGateway, lang/c/micromessage UMessageGateway) wrapped as AbstractMessageIOGateway
// objects, so that the same scripted transport, explorations and oracles drive them and they can be paired with the C++ MessageIOGateway.
// The adapters only translate calling conventions: bytes are moved by the C gateways' own MGDoOutput/MGDoInput/UGDoOutput/UGDoInput through
// send/receive callbacks that call the scripted DataIO; Messages cross the language border in flattened form (the common wire format).
#ifndef VERIF_C03_CGW_H
#define VERIF_C03_CGW_H

#include "iogateway/AbstractMessageIOGateway.h"
#include "lang/c/minimessage/MiniMessageGateway.h"
#include "lang/c/micromessage/MicroMessageGateway.h"

// layout copy of the private struct in MiniMessageGateway.c (read only, for the canonical form)
struct _MMessageGateway {
   MByteBuffer * _curInput; MByteBuffer * _curOutput; MByteBuffer * _outputTail;
   uint32 _curInputPos; uint32 _maxInputPos; uint32 _curOutputPos;
};

namespace c03 {

using namespace muscle;

static inline int32 CgwSend(const uint8 * buf, uint32 n, void * arg) { DataIO * io = static_cast<DataIO *>(arg); if (io == NULL) return -1; const io_status_t r = io->Write(buf, n); return r.IsError() ? -1 : r.GetByteCount(); }
static inline int32 CgwRecv(uint8 * buf, uint32 n, void * arg) { DataIO * io = static_cast<DataIO *>(arg); if (io == NULL) return -1; const io_status_t r = io->Read(buf, n); return r.IsError() ? -1 : r.GetByteCount(); }

class MiniCGateway : public AbstractMessageIOGateway {
public:
   MMessageGateway * _gw;
   MiniCGateway() : _gw(MGAllocMessageGateway()) {}
   virtual ~MiniCGateway() { MGFreeMessageGateway(_gw); }
   virtual status_t AddOutgoingMessage(const MessageRef & m)
   {
      if (m() == NULL) return B_BAD_ARGUMENT;
      const uint32 fs = m()->FlattenedSize(); ByteBuffer b(fs); m()->FlattenToBytes(b.GetBuffer(), fs);
      MMessage * mm = MMAllocMessage(0); if (mm == NULL) return B_OUT_OF_MEMORY;
      status_t ret = (MMUnflattenMessage(mm, b.GetBuffer(), fs) == CB_NO_ERROR && MGAddOutgoingMessage(_gw, mm) == CB_NO_ERROR) ? B_NO_ERROR : B_BAD_DATA;
      MMFreeMessage(mm); return ret;
   }
   virtual bool HasBytesToOutput() const { return MGHasBytesToOutput(_gw) != 0; }
protected:
   virtual io_status_t DoOutputImplementation(uint32 maxBytes)
   {
      const int32 r = MGDoOutput(_gw, maxBytes, CgwSend, GetDataIO()());
      if (r < 0) { SetUnrecoverableErrorStatus(B_IO_ERROR); return io_status_t(B_IO_ERROR); }
      return io_status_t(r);
   }
   virtual io_status_t DoInputImplementation(AbstractGatewayMessageReceiver & receiver, uint32 maxBytes)
   {
      int32 total = 0;
      while ((uint32)total < maxBytes) {   // MGDoInput returns after every complete MMessage; a C caller loops like this
         MMessage * mm = NULL;
         const int32 r = MGDoInput(_gw, maxBytes - (uint32)total, CgwRecv, GetDataIO()(), &mm);
         if (r < 0) { SetUnrecoverableErrorStatus(B_BAD_DATA); return (total > 0) ? io_status_t(total) : io_status_t(B_BAD_DATA); }
         total += r;
         if (mm == NULL) break;
         const uint32 fs = MMGetFlattenedSize(mm); ByteBuffer b(fs); MMFlattenMessage(mm, b.GetBuffer()); MMFreeMessage(mm);
         MessageRef out = GetMessageFromPool();
         if (out() == NULL || out()->UnflattenFromBytes(b.GetBuffer(), fs).IsError()) { SetUnrecoverableErrorStatus(B_BAD_DATA); break; }
         CallMessageReceivedFromGateway(receiver, out);
      }
      return io_status_t(total);
   }
};

class MicroCGateway : public AbstractMessageIOGateway {
public:
   enum { BUF = 8192 };
   UMessageGateway _gw; uint8 * _in; uint8 * _out;
   explicit MicroCGateway(uint32 outBufSize = BUF) : _in(new uint8[BUF]), _out(new uint8[outBufSize]) { memset(_in, 0, BUF); memset(_out, 0, outBufSize); UGGatewayInitialize(&_gw, _in, BUF, _out, outBufSize); }   // (a small output buffer makes the buffer-compaction path of UGGetOutgoingMessage reachable)
   virtual ~MicroCGateway() { delete [] _in; delete [] _out; }
   // builds the UMessage in place in the gateway's output buffer through the public UM API, field by field
   virtual status_t AddOutgoingMessage(const MessageRef & m)
   {
      if (m() == NULL) return B_BAD_ARGUMENT;
      UMessage um = UGGetOutgoingMessage(&_gw, m()->what);
      if (!UMIsMessageValid(&um)) return B_RESOURCE_LIMIT;
      c_status_t ok = CB_NO_ERROR;
      for (MessageFieldNameIterator it = m()->GetFieldNameIterator(); it.HasData() && ok == CB_NO_ERROR; it++) {
         const String & fn = it.GetFieldName(); uint32 tc = 0, n = 0; if (m()->GetInfo(fn, &tc, &n).IsError()) { ok = CB_ERROR; break; }
         const void * d = NULL; uint32 nb = 0;
         switch (tc) {
         case B_INT8_TYPE: { std::vector<int8> v(n); for (uint32 i = 0; i < n; i++) (void) m()->FindInt8(fn, i, v[i]); ok = UMAddInt8s(&um, fn(), &v[0], n); break; }
         case B_INT16_TYPE: { std::vector<int16> v(n); for (uint32 i = 0; i < n; i++) (void) m()->FindInt16(fn, i, v[i]); ok = UMAddInt16s(&um, fn(), &v[0], n); break; }
         case B_INT32_TYPE: { std::vector<int32> v(n); for (uint32 i = 0; i < n; i++) (void) m()->FindInt32(fn, i, v[i]); ok = UMAddInt32s(&um, fn(), &v[0], n); break; }
         case B_INT64_TYPE: { std::vector<int64> v(n); for (uint32 i = 0; i < n; i++) (void) m()->FindInt64(fn, i, v[i]); ok = UMAddInt64s(&um, fn(), &v[0], n); break; }
         case B_FLOAT_TYPE: { std::vector<float> v(n); for (uint32 i = 0; i < n; i++) (void) m()->FindFloat(fn, i, v[i]); ok = UMAddFloats(&um, fn(), &v[0], n); break; }
         case B_DOUBLE_TYPE: { std::vector<double> v(n); for (uint32 i = 0; i < n; i++) (void) m()->FindDouble(fn, i, v[i]); ok = UMAddDoubles(&um, fn(), &v[0], n); break; }
         case B_STRING_TYPE: { std::vector<const char *> v(n); for (uint32 i = 0; i < n; i++) { const String * s = NULL; (void) m()->FindString(fn, i, &s); v[i] = s ? s->Cstr() : ""; } ok = UMAddStrings(&um, fn(), &v[0], n); break; }
         case B_RAW_TYPE: if (n == 1 && m()->FindData(fn, B_RAW_TYPE, &d, &nb).IsOK()) ok = UMAddData(&um, fn(), B_RAW_TYPE, d, nb); else ok = CB_ERROR; break;
         default: ok = CB_ERROR; break;
         }
      }
      if (ok != CB_NO_ERROR) { UGOutgoingMessageCancelled(&_gw, &um); return B_UNIMPLEMENTED; }
      UGOutgoingMessagePrepared(&_gw, &um);
      return B_NO_ERROR;
   }
   virtual bool HasBytesToOutput() const { return UGHasBytesToOutput(&_gw) != 0; }
protected:
   virtual io_status_t DoOutputImplementation(uint32 maxBytes)
   {
      const int32 r = UGDoOutput(&_gw, maxBytes, CgwSend, GetDataIO()());
      if (r < 0) { SetUnrecoverableErrorStatus(B_IO_ERROR); return io_status_t(B_IO_ERROR); }
      return io_status_t(r);
   }
   virtual io_status_t DoInputImplementation(AbstractGatewayMessageReceiver & receiver, uint32 maxBytes)
   {
      int32 total = 0;
      while ((uint32)total < maxBytes) {
         UMessage um; const int32 r = UGDoInput(&_gw, maxBytes - (uint32)total, CgwRecv, GetDataIO()(), &um);
         if (r < 0) { SetUnrecoverableErrorStatus(B_BAD_DATA); return (total > 0) ? io_status_t(total) : io_status_t(B_BAD_DATA); }
         total += r;
         if (!UMIsMessageValid(&um)) break;
         MessageRef out = GetMessageFromPool();
         if (out() == NULL || out()->UnflattenFromBytes(UMGetFlattenedBuffer(&um), UMGetFlattenedSize(&um)).IsError()) { SetUnrecoverableErrorStatus(B_BAD_DATA); break; }
         CallMessageReceivedFromGateway(receiver, out);
      }
      return io_status_t(total);
   }
};

static inline void CanonMiniC(const MiniCGateway & g, std::string & o)
{
   const MMessageGateway * w = g._gw;
   o += verif::Fmt("|err=%d|in pos=%u max=%u cap=%u:", g.GetUnrecoverableErrorStatus().IsError() ? 1 : 0, w->_curInputPos, w->_maxInputPos, w->_curInput ? w->_curInput->numBytes : 0);
   if (w->_curInput) { const verif::Hash128 h = verif::HashBytes(&w->_curInput->bytes, std::min(w->_curInputPos, w->_curInput->numBytes)); o += verif::Hex(&h, sizeof(h)); }
   uint32 nb = 0; for (const MByteBuffer * b = w->_curOutput; b; ) { nb++; MByteBuffer * nx; memcpy(&nx, &b->bytes, sizeof(nx)); b = nx; }
   o += verif::Fmt("|out bufs=%u pos=%u first=%u", nb, w->_curOutputPos, w->_curOutput ? w->_curOutput->numBytes : 0);
}
static inline void CanonMicroC(const MicroCGateway & g, std::string & o)
{
   const UMessageGateway & w = g._gw;
   o += verif::Fmt("|err=%d|in valid=%u want=%u:", g.GetUnrecoverableErrorStatus().IsError() ? 1 : 0, w._numValidInputBytes, w._numInputBytesToRead);
   { const verif::Hash128 h = verif::HashBytes(w._inputBuffer, std::min(w._numValidInputBytes, w._inputBufferSize)); o += verif::Hex(&h, sizeof(h)); }
   o += verif::Fmt("|out first=%u valid=%u prep=%d", (unsigned)(w._firstValidOutputByte - w._outputBuffer), w._numValidOutputBytes, w._preparingOutgoingMessage ? 1 : 0);
}

}  // namespace c03

#endif
